(* C08, "new definitions get fresh, non-colliding names": _make_instance_unique picks, before it renames
   the copy, the first counter value k >= the module counter for which no definition of the library carries
   the name <old>_sdn_unique_<k> nor (without case) the identifier <old identifier>_sdn_unique_<k>
   (Xform.fresh_ctr; Proofs/UniqFresh.v: the search never runs out). Hence: the definition added by a
   completed round is named <old>_sdn_unique_<k> (when the cell has a name; its identifier, when it has
   one, gets the same suffix - also when the cell has no name), that name differs from the name of every
   definition of the library; the naming test of add_definition (NamespaceManager.add) never refuses the
   copy - in any round of any run, completed or not; the exact name and identifier tables of the
   libraries are preserved; a completed uniquify never leaves two definitions with one name in a library. *)
From Coq Require Import List Arith Bool Lia.
From RecordUpdate Require Import RecordSet.
From SV Require Import Base.Base IR.State IR.NS IR.Ops Xform.Clone Xform.Strs Xform.Xform Proofs.AssocX Proofs.Frame Proofs.Inv1a Proofs.Inv2a
  Proofs.InvP Proofs.InvW Proofs.Fresh Proofs.Refused Proofs.RefusedFull Proofs.NsSlot Proofs.NsInv Proofs.CloneInv Proofs.RefK Proofs.CloneRef
  Proofs.CloneT Proofs.CloneNs Proofs.FieldT Proofs.CloneFaith Proofs.CloneFull Proofs.CloneNetInv Proofs.CloneDefStruct Proofs.CloneData
  Proofs.XHistory Proofs.UniqFull Proofs.UniqElab Proofs.UniqFresh.
Import ListNotations RecordSetNotations.

(* ---- Definition.clone never touches the library/definition relation ---- *)
Definition rdsame (s s' : state) : Prop := kids s' RDefs = kids s RDefs /\ par s' RDefs = par s RDefs.
Lemma rd_refl s : rdsame s s. Proof. split; reflexivity. Qed.
Lemma rd_trans a b c : rdsame a b -> rdsame b c -> rdsame a c.
Proof. intros [A1 A2] [B1 B2]. split; congruence. Qed.
Lemma rd_bind (r : R) f s : rdsame s (fst r) -> (forall s1, rdsame s1 (fst (f s1))) -> rdsame s (fst (r >>= f)).
Proof. destruct r as [s1 [x|]]; cbn; intros H1 H2; [exact H1|]. eapply rd_trans; [exact H1|apply H2]. Qed.
Lemma rd_fold_idsR f l : (forall s x, rdsame s (fst (f s x))) -> forall s, rdsame s (fst (fold_idsR f l s)).
Proof. intro H. induction l as [|x l IH]; intro s; cbn; [apply rd_refl|]. apply rd_bind; [apply H|apply IH]. Qed.
Lemma rd_fold_ids f l : (forall s x, rdsame s (f s x)) -> forall s, rdsame s (fold_ids f l s).
Proof. intro H. induction l as [|x l IH]; intro s; cbn; [apply rd_refl|]. eapply rd_trans; [apply H|apply IH]. Qed.
Lemma rd_kp s s' : kpsame s s' -> rdsame s s'.
Proof. intros [A [B _]]. split; [rewrite A|rewrite B]; reflexivity. Qed.
Lemma rd_clone_alloc s k s1 x : clone_alloc s k = (s1, x) -> rdsame s s1.
Proof. intro E. destruct (clone_alloc_kp s k s1 x E) as [_ [_ [A B]]]. split; [rewrite A|rewrite B]; reflexivity. Qed.

Definition RDf (f : SM -> id -> SM * id) : Prop := forall s m x s' m' x', f (s, m) x = ((s', m'), x') -> rdsame s s'.
Lemma rd_clone_each f : RDf f -> forall l s m s' m' l', clone_each f l (s, m) = ((s', m'), l') -> rdsame s s'.
Proof.
  intro Hf. induction l as [|x l IH]; intros s m s' m' l' E; cbn [clone_each] in E.
  - injection E as <- <- <-. apply rd_refl.
  - destruct (f (s, m) x) as [[s1 m1] x'] eqn:E1. destruct (clone_each f l (s1, m1)) as [[s2 m2] l2] eqn:E2.
    injection E as <- <- <-. eapply rd_trans; [apply (Hf _ _ _ _ _ _ E1)|apply (IH _ _ _ _ _ E2)].
Qed.
Lemma rd_pin_clone1 : RDf pin_clone1.
Proof.
  intros s m i s' m' i' E. unfold pin_clone1 in E. destruct (clone_alloc s KPin) as [s1 x] eqn:Ea.
  injection E as <- <- <-. eapply rd_trans; [apply (rd_clone_alloc _ _ _ _ Ea)|split; reflexivity].
Qed.
Lemma rd_wire_clone1 : RDf wire_clone1.
Proof.
  intros s m i s' m' i' E. unfold wire_clone1 in E. destruct (clone_alloc s KWire) as [s1 x] eqn:Ea.
  injection E as <- <- <-. eapply rd_trans; [apply (rd_clone_alloc _ _ _ _ Ea)|split; reflexivity].
Qed.
Lemma rd_inst_clone1 : RDf inst_clone1.
Proof.
  intros s m i s' m' i' E. unfold inst_clone1 in E. destruct (clone_alloc s KInstance) as [s1 x] eqn:Ea.
  injection E as <- <- <-. eapply rd_trans; [apply (rd_clone_alloc _ _ _ _ Ea)|split; reflexivity].
Qed.
Lemma rd_port_clone1 : RDf port_clone1.
Proof.
  intros s m p s' m' p' E. unfold port_clone1 in E. destruct (clone_alloc s KPort) as [s1 x] eqn:Ea.
  match type of E with context [clone_each pin_clone1 ?l ?sm] => destruct (clone_each pin_clone1 l sm) as [[s2 m2] pins'] eqn:E2 end.
  injection E as <- <- <-. eapply rd_trans; [apply (rd_clone_alloc _ _ _ _ Ea)|].
  eapply rd_trans; [apply (rd_clone_each pin_clone1 rd_pin_clone1 _ _ _ _ _ _ E2)|].
  eapply rd_trans; [|split; reflexivity]. eapply rd_trans; [|apply rd_fold_ids; intros s0 i; split; reflexivity]. split; reflexivity.
Qed.
Lemma rd_cable_clone1 : RDf cable_clone1.
Proof.
  intros s m p s' m' p' E. unfold cable_clone1 in E. destruct (clone_alloc s KCable) as [s1 x] eqn:Ea.
  match type of E with context [clone_each wire_clone1 ?l ?sm] => destruct (clone_each wire_clone1 l sm) as [[s2 m2] ws'] eqn:E2 end.
  injection E as <- <- <-. eapply rd_trans; [apply (rd_clone_alloc _ _ _ _ Ea)|].
  eapply rd_trans; [apply (rd_clone_each wire_clone1 rd_wire_clone1 _ _ _ _ _ _ E2)|].
  eapply rd_trans; [|split; reflexivity]. eapply rd_trans; [|apply rd_fold_ids; intros s0 i; split; reflexivity]. split; reflexivity.
Qed.

Lemma rd_def_clone1 s m d s' m' d' e : def_clone1 (s, m) d = ((s', m', d'), e) -> rdsame s s'.
Proof.
  intro E. unfold def_clone1 in E. destruct (clone_alloc s KDefinition) as [s1 a] eqn:Ea.
  match type of E with context [clone_each port_clone1 ?l ?sm] => destruct (clone_each port_clone1 l sm) as [[s2 m2] ports'] eqn:E2 end.
  match type of E with context [clone_each cable_clone1 ?l ?sm] => destruct (clone_each cable_clone1 l sm) as [[s3 m3] cables'] eqn:E3 end.
  match type of E with context [clone_each inst_clone1 ?l ?sm] => destruct (clone_each inst_clone1 l sm) as [[s4 m4] children'] eqn:E4 end.
  apply (rd_clone_each port_clone1 rd_port_clone1) in E2. apply (rd_clone_each cable_clone1 rd_cable_clone1) in E3.
  apply (rd_clone_each inst_clone1 rd_inst_clone1) in E4.
  injection E as <- _ _ _.
  eapply rd_trans; [apply (rd_clone_alloc _ _ _ _ Ea)|]. eapply rd_trans; [apply (rd_trans _ (copy_data s1 d a)); [split; reflexivity|exact E2]|].
  eapply rd_trans; [exact E3|]. eapply rd_trans; [exact E4|].
  eapply rd_trans; [|apply rd_bind; [apply rd_fold_idsR; intros s6 p'; eapply rd_trans; [|apply rd_kp, kpsame_port_rr]; split; reflexivity|]].
  - split; reflexivity.
  - intro s6. apply rd_bind; [apply rd_fold_idsR; intros s7 c'; eapply rd_trans; [|apply rd_kp, kpsame_cable_rr]; split; reflexivity|].
    intro s7. apply rd_fold_idsR. intros s8 x'. eapply rd_trans; [|apply rd_kp, kpsame_inst_rr_def]. split; reflexivity.
Qed.

Lemma rd_clone_definition s d : rdsame s (fst (fst (clone_definition s d))).
Proof.
  unfold clone_definition. destruct (def_clone1 (s, []) d) as [[[s1 m1] d'] e] eqn:E.
  pose proof (rd_def_clone1 _ _ _ _ _ _ _ E) as H. destruct e as [e|]; cbn [fst raise]; [exact H|].
  eapply rd_trans; [exact H|]. apply rd_bind; [apply rd_fold_idsR; intros; apply rd_kp, kpsame_register_child|].
  intro s2. eapply rd_trans; [|apply rd_kp, kpsame_reapply]. split; reflexivity.
Qed.

(* ---- ... nor the namespace tables of the objects that existed before ---- *)
Lemma reapply_tab_other s c y : ~ In y (subtree s c) -> nstab (fst (reapply s c)) y = nstab s y.
Proof.
  intro Hy. unfold reapply. destruct (sassoc str_NS (data s c)) as [v|]; [|reflexivity].
  destruct (dict_del_ns_facts s c) as [K Ht]. pose proof (Ht y Hy) as H1.
  destruct (dict_del s c str_NS) as [s1 [e|]]; cbn [bindR fst] in *; [exact H1|].
  destruct (dict_set_ns_facts s1 c v) as [_ Ht2]. rewrite Ht2; [exact H1|].
  rewrite (subtree_ext s s1 c (ks_kids _ _ K) (ks_kind _ _ K)). exact Hy.
Qed.

Theorem clone_definition_old_nstab s0 d :
  UF s0 -> d < next s0 -> kind_of s0 d = Some KDefinition -> snd (fst (clone_definition s0 d)) = None ->
  forall y, y < next s0 -> nstab (fst (fst (clone_definition s0 d))) y = nstab s0 y.
Proof.
  intros U0 Hd Hkd Hc. pose proof (clone_definition_struct_m s0 d U0 Hd Hkd Hc) as S.
  pose proof U0 as [I0 [T0 [F0 [FT0 K0]]]]. pose proof (above_of_fresh s0 F0) as Ab.
  revert S Hc. unfold clone_definition, clone_memo.
  destruct (def_clone1 (s0, []) d) as [[[G M] d'] [ex|]] eqn:E; cbn [fst snd]; [intros _ H; discriminate|].
  pose proof (def_clone1_tab s0 [] d G M d' None Ab E) as HG.
  destruct (fold_idsR register_child (kids G RChildren d') G) as [s2 [e|]] eqn:Ef; cbn [bindR fst snd]; [intros _ H; discriminate|].
  pose proof (td_fold_idsR register_child (kids G RChildren d') td_register_child G) as [Rt _]. rewrite Ef in Rt. cbn [fst] in Rt.
  pose proof (kpsame_fold_idsR register_child (kids G RChildren d') kpsame_register_child G) as [Rk _]. rewrite Ef in Rk. cbn [fst] in Rk.
  pose proof (kind_fold_register (kids G RChildren d') G) as Rkd. rewrite Ef in Rkd. cbn [fst] in Rkd.
  set (sB := set_drefs s2 d' []).
  pose proof (se_reapply sB d') as Hse. set (sF := fst (reapply sB d')) in *.
  intros S Hc y Hy.
  assert (Hkd' : kind_of sB d' = Some KDefinition).
  { rewrite <- (se_kind _ _ Hse). destruct (ds_rng _ _ _ _ _ S d d' (ds_root _ _ _ _ _ S)) as [_ [_ H]]. rewrite H. exact Hkd. }
  assert (Hnot : ~ In y (subtree sB d')).
  { unfold subtree. rewrite Hkd'. unfold def_subtree. rewrite <- !(se_kids _ _ Hse).
    assert (Hnew : forall b, (exists a, img M a b) -> b <> y).
    { intros b [a Hab] ->. destruct (ds_rng _ _ _ _ _ S a y Hab) as [_ [H _]]. lia. }
    intros [<-|Hin]; [apply (Hnew d'); [exists d; apply (ds_root _ _ _ _ _ S)|reflexivity]|].
    apply in_app_or in Hin as [Hin|Hin]; [|apply in_app_or in Hin as [Hin|Hin]].
    - destruct (Forall2_in_r _ _ _ y (ds_ports _ _ _ _ _ S) Hin) as [a [_ Ha]]. apply (Hnew y); [exists a; exact Ha|reflexivity].
    - destruct (Forall2_in_r _ _ _ y (ds_cables _ _ _ _ _ S) Hin) as [a [_ Ha]]. apply (Hnew y); [exists a; exact Ha|reflexivity].
    - destruct (Forall2_in_r _ _ _ y (ds_children _ _ _ _ _ S) Hin) as [a [_ Ha]]. apply (Hnew y); [exists a; exact Ha|reflexivity]. }
  unfold sF. rewrite (reapply_tab_other sB d' y Hnot). change (nstab sB y) with (nstab s2 y). rewrite Rt. apply HG. lia.
Qed.

(* ---- the invariants of the walk: the name and identifier tables of the libraries are exact; libraries are old ---- *)
Definition LT (n0 : id) (s : state) : Prop :=
  forall l t, l < n0 -> nstab s l = Some t ->
    SlotOK (ns_names t KDefinition) (fun c => In c (kids s RDefs l)) (name_key s) /\
    (ns_pol t = PolEdif -> SlotOK (ns_idents t KDefinition) (fun c => In c (kids s RDefs l)) (ident_key s)).
Definition PL (n0 : id) (s : state) : Prop := forall y l, par s RDefs y = Some l -> l < n0.

Lemma lt_of_nsinv n0 s : NsInv s -> LT n0 s.
Proof.
  intros H l t _ Hl. split; [apply (tk_names _ _ _ _ (H l t Hl) RDefs eq_refl)|].
  intro Hp. apply (tk_idents _ _ _ _ (H l t Hl) Hp RDefs eq_refl).
Qed.

Definition keys_same (s s' : state) (c : id) : Prop := name_key s' c = name_key s c /\ ident_key s' c = ident_key s c.
Lemma keys_same_data s s' c : data s' c = data s c -> keys_same s s' c.
Proof. intro H. unfold keys_same, name_key, ident_key, get_str. rewrite H. split; reflexivity. Qed.

Lemma lt_ext n0 s s' : LT n0 s -> (forall l, l < n0 -> nstab s' l = nstab s l) -> (forall l, l < n0 -> kids s' RDefs l = kids s RDefs l) ->
  (forall l c, l < n0 -> In c (kids s RDefs l) -> keys_same s s' c) -> LT n0 s'.
Proof.
  intros H Ht Hk Hn l t Hl Hlt. rewrite (Ht l Hl) in Hlt. destruct (H l t Hl Hlt) as [A B]. split.
  - apply (slot_ext _ _ _ _ _ A); [intro c; rewrite (Hk l Hl); tauto|intros c Hc; apply (Hn l c Hl Hc)].
  - intro Hp. apply (slot_ext _ _ _ _ _ (B Hp)); [intro c; rewrite (Hk l Hl); tauto|intros c Hc; apply (Hn l c Hl Hc)].
Qed.

(* distinct names within a library that has a table *)
Lemma lt_unique n0 s l t c1 c2 v : LT n0 s -> l < n0 -> nstab s l = Some t ->
  In c1 (kids s RDefs l) -> In c2 (kids s RDefs l) -> get_str s c1 str_NAME = Some v -> get_str s c2 str_NAME = Some v -> c1 = c2.
Proof.
  intros H Hl Ht H1 H2 E1 E2. pose proof (proj1 (H l t Hl Ht)) as S.
  assert (A : sassoc v (ns_names t KDefinition) = Some c1) by (apply S; split; assumption).
  assert (B : sassoc v (ns_names t KDefinition) = Some c2) by (apply S; split; assumption). congruence.
Qed.

(* ... and, under the EDIF policy, identifiers that differ beyond case *)
Lemma lt_unique_ident n0 s l t c1 c2 v1 v2 : LT n0 s -> l < n0 -> nstab s l = Some t -> ns_pol t = PolEdif ->
  In c1 (kids s RDefs l) -> In c2 (kids s RDefs l) ->
  get_str s c1 str_IDENT = Some v1 -> get_str s c2 str_IDENT = Some v2 -> lower v1 = lower v2 -> c1 = c2.
Proof.
  intros H Hl Ht Hp H1 H2 E1 E2 E. pose proof (proj2 (H l t Hl Ht) Hp) as S.
  assert (A : sassoc (lower v1) (ns_idents t KDefinition) = Some c1) by (apply S; split; [assumption|unfold ident_key; rewrite E1; reflexivity]).
  assert (B : sassoc (lower v1) (ns_idents t KDefinition) = Some c2) by (apply S; split; [assumption|unfold ident_key; rewrite E2, E; reflexivity]).
  congruence.
Qed.

(* ---- a name assigned to a parentless element ---- *)
Lemma dict_set_orphan s e k v s' : is_name_key k = true -> ns_parent s e = None -> dict_set s e k v = (s', None) ->
  s' = data_write (emit s (EDictSet e k v)) e k v.
Proof.
  intros Hk Hp. unfold dict_set, ns_dictionary_set.
  assert (Hns : str_eqb k str_NS = false) by (destruct (is_name_key_cases k Hk) as [->| ->]; reflexivity).
  rewrite Hns, Hk, Hp. destruct v as [name| | |]; try (cbn; discriminate).
  destruct (negb _); [cbn; discriminate|]. cbn [bindR ret]. intro H. injection H as <-. reflexivity.
Qed.

(* ---- NamespaceManager.add for a definition entering a library ---- *)
(* the test of NamespaceManager.add: "Adding this element would result in a naming conflict" *)
Definition ns_add_conflict (s : state) (parent child : id) (ck : kind) : bool :=
  match nstab s parent with
  | Some t =>
      (match get_str s child str_IDENT with Some v => negb (ns_no_conflict t ck child str_IDENT v) | None => false end) ||
      (match get_str s child str_NAME with Some v => negb (ns_no_conflict t ck child str_NAME v) | None => false end)
  | None => false
  end.

Lemma ns_add_refused s parent child ck : ns_add_conflict s parent child ck = true -> ns_add s parent child ck = raise s XValue.
Proof. unfold ns_add, ns_add_conflict. intros ->. reflexivity. Qed.

(* it is the only naming test of add_definition: a definition without a library offered to a library is
   refused for its name or identifier exactly when ns_add_conflict says so *)
Lemma op_add_refused_by_name s lib c pos :
  kind_of s lib = Some KLibrary -> kind_of s c = Some KDefinition -> par s RDefs c = None ->
  ns_add_conflict s lib c KDefinition = true -> op_add s RDefs lib c pos = (s, Some XValue).
Proof.
  intros Hl Hc Hp Hx. unfold op_add, guard, is_kind, add_guard1. rewrite Hl, Hc, Hp. cbn [rel_parent rel_child kind_eqb andb ns_rel].
  rewrite (ns_add_refused s lib c KDefinition Hx). reflexivity.
Qed.

Definition add_tab_spec (s : state) (lib c : id) (s1 : state) : Prop :=
  match nstab s lib with
  | Some t => exists t', nstab s1 lib = Some t' /\ ns_pol t' = ns_pol t /\
      match name_key s c with
      | Some v => tab_conflict (ns_names t KDefinition) v c = false /\
                  ns_names t' KDefinition = tab_replace (ns_names t KDefinition) (Some v) v c
      | None => ns_names t' KDefinition = ns_names t KDefinition
      end /\
      (ns_pol t = PolEdif ->
       match get_str s c str_IDENT with
       | Some v => tab_conflict (ns_idents t KDefinition) (lower v) c = false /\
                   ns_idents t' KDefinition = tab_replace (ns_idents t KDefinition) (Some (lower v)) (lower v) c
       | None => ns_idents t' KDefinition = ns_idents t KDefinition
       end)
  | None => nstab s1 lib = None
  end.

Lemma ns_add_def_spec s lib c s1 :
  ~ In lib (subtree s c) -> ns_add s lib c KDefinition = (s1, None) ->
  ksame s s1 /\ (forall l, l <> lib -> ~ In l (subtree s c) -> nstab s1 l = nstab s l) /\ add_tab_spec s lib c s1.
Proof.
  intros Hlib. unfold add_tab_spec, ns_add. set (idv := get_str s c str_IDENT). set (nmv := get_str s c str_NAME).
  destruct (match nstab s lib with Some t => _ | None => false end) eqn:Hconf; [cbn; discriminate|].
  set (mid := match sassoc str_NS (data s lib) with
              | Some pv => if match sassoc str_NS (data s c) with Some cv => val_eqb cv pv | None => false end then ret s else dict_set s c str_NS pv
              | None => if has_key s c str_NS then dict_del s c str_NS else ret s end).
  assert (Hmid : ksame s (fst mid) /\ (forall l, ~ In l (subtree s c) -> nstab (fst mid) l = nstab s l)).
  { unfold mid. destruct (sassoc str_NS (data s lib)) as [pv|].
    - destruct (match sassoc str_NS (data s c) with Some cv => val_eqb cv pv | None => false end);
        [split; [apply ksame_refl|reflexivity]|apply dict_set_ns_facts].
    - destruct (has_key s c str_NS); [apply dict_del_ns_facts|split; [apply ksame_refl|reflexivity]]. }
  destruct mid as [sm [x|]]; cbn [bindR fst snd] in *; [discriminate|].
  destruct Hmid as [K Ht]. rewrite (Ht lib Hlib).
  destruct (nstab s lib) as [t|] eqn:Htl; unfold ret.
  - match goal with |- (set_nstab sm lib (Some ?t2), None) = _ -> _ => set (T2 := t2) end.
    intro H; injection H as <-.
    split; [constructor; try apply K|]. split.
    + intros l Hl Hn. change (nstab (set_nstab sm lib (Some T2)) l) with (upd (nstab sm) lib (Some T2) l).
      rewrite upd_other by exact Hl. apply Ht. exact Hn.
    + exists T2. split; [change (nstab (set_nstab sm lib (Some T2)) lib) with (upd (nstab sm) lib (Some T2) lib); apply upd_same|].
      apply orb_false_iff in Hconf as [Hci Hcn].
      assert (Hidn : forall t1, ns_idents (match nmv with Some v0 => ns_update t1 KDefinition c str_NAME (Some v0) v0 | None => t1 end) = ns_idents t1)
        by (intro t1; destruct nmv; [apply ns_update_idents_name|reflexivity]).
      split; [unfold T2; destruct nmv, idv; rewrite ?ns_update_pol; reflexivity|]. split.
      * unfold name_key. fold nmv. unfold T2. destruct nmv as [v|].
        -- split.
           ++ apply negb_false_iff in Hcn. unfold ns_no_conflict in Hcn. rewrite str_eqb_refl in Hcn. apply negb_true_iff in Hcn. exact Hcn.
           ++ rewrite ns_update_names_name, kind_eqb_refl. destruct idv; [rewrite ns_update_names_ident|]; reflexivity.
        -- destruct idv; [rewrite ns_update_names_ident|]; reflexivity.
      * intro Hp. unfold T2. rewrite Hidn. destruct idv as [v|]; [|reflexivity]. split.
        -- apply negb_false_iff in Hci. unfold ns_no_conflict in Hci. rewrite ident_ne_name, Hp, str_eqb_refl in Hci.
           apply negb_true_iff in Hci. exact Hci.
        -- rewrite ns_update_idents_ident, Hp, kind_eqb_refl. reflexivity.
  - intro H; injection H as <-.
    split; [exact K|]. split; [intros l _ Hn; apply Ht; exact Hn|]. rewrite (Ht lib Hlib). exact Htl.
Qed.

Lemma add_def_spec s lib c pos s' :
  InvT s -> op_add s RDefs lib c pos = (s', None) ->
  kind_of s lib = Some KLibrary /\ kind_of s c = Some KDefinition /\ par s RDefs c = None /\
  kids s' RDefs lib = py_insert pos c (kids s RDefs lib) /\ (forall l, l <> lib -> kids s' RDefs l = kids s RDefs l) /\
  par s' RDefs c = Some lib /\ (forall y, y <> c -> par s' RDefs y = par s RDefs y) /\
  (forall y, keys_same s s' y) /\
  (forall l, l <> lib -> ~ In l (subtree s c) -> nstab s' l = nstab s l) /\ add_tab_spec s lib c s'.
Proof.
  intros HT. unfold op_add, guard.
  destruct (is_kind s lib (rel_parent RDefs) && is_kind s c (rel_child RDefs)) eqn:Hk; [|discriminate].
  apply andb_true_iff in Hk as [Hk1 Hk2]. apply is_kind_kind in Hk1, Hk2. cbn in Hk1, Hk2.
  destruct (add_guard1 s RDefs lib c); [|discriminate].
  destruct (par s RDefs c) eqn:Hp; [discriminate|]. cbn [ns_rel].
  assert (Hlib : ~ In lib (subtree s c)) by (apply (parent_not_in_subtree s RDefs lib c HT eq_refl Hk1 Hk2)).
  pose proof (ns_add_def_spec s lib c) as HA. change (rel_child RDefs) with KDefinition.
  destruct (ns_add s lib c KDefinition) as [s1 [e|]]; cbn [bindR]; [discriminate|].
  destruct (HA s1 Hlib eq_refl) as [K [Ht Hl]]. clear HA.
  cbn [ret add_post]. intro H. injection H as <-.
  split; [exact Hk1|]. split; [exact Hk2|]. split; [reflexivity|].
  split; [cbn; rewrite upd_same, (ks_kids _ _ K); reflexivity|].
  split; [intros l Hne; cbn; rewrite upd_other by exact Hne; rewrite (ks_kids _ _ K); reflexivity|].
  split; [cbn; rewrite upd_same; reflexivity|].
  split; [intros y Hne; cbn; rewrite upd_other by exact Hne; rewrite (ks_par _ _ K); reflexivity|].
  split; [intro y; split; [apply (ks_name _ _ K)|apply (ks_ident _ _ K)]|]. split; [exact Ht|exact Hl].
Qed.

(* ---- the renaming block of _make_instance_unique (Xform.rename_block) ---- *)
(* _make_instance_unique is: clone, the renaming block, add_definition, the reference change *)
Lemma make_instance_unique_unfold x inst :
  make_instance_unique x inst =
  match iref (st x) inst with
  | None => (x, Some XAttr)
  | Some d =>
      match par (st x) RDefs d with
      | None => (x, Some XAttr)
      | Some lib =>
          let '(r, d') := clone_definition (st x) d in
          liftR x r (fun x1 =>
            match rename_block x1 lib d d' with
            | (x5, Some e) => (x5, Some e)
            | (x5, None) =>
                liftR x5 (op_add (st x5) RDefs lib d' (Some (S (index_of d (kids (st x) RDefs lib))))) (fun x6 =>
                liftR x6 (op_set_reference (st x6) inst (Some d')) (fun x7 => (x7, None)))
            end)
      end
  end.
Proof. reflexivity. Qed.

(* the assignment of the identifier, on a definition that is in no library *)
Lemma set_ident_spec x3 d' sfx x5 : ns_parent (st x3) d' = None ->
  match get_str (st x3) d' str_IDENT with
  | Some idv => liftR x3 (dict_set (st x3) d' str_IDENT (VStr (idv ++ sfx))) (fun x4 => (x4, None))
  | None => (x3, None)
  end = (x5, None) ->
  struct_eq (st x3) (st x5) /\ nstab (st x5) = nstab (st x3) /\ (forall y, y <> d' -> data (st x5) y = data (st x3) y) /\
  get_str (st x5) d' str_NAME = get_str (st x3) d' str_NAME /\ uniq_ctr x5 = uniq_ctr x3 /\
  get_str (st x5) d' str_IDENT = option_map (fun i => i ++ sfx) (get_str (st x3) d' str_IDENT).
Proof.
  intros Hp. destruct (get_str (st x3) d' str_IDENT) as [idv|] eqn:E3.
  2:{ intro H. injection H as <-. split; [apply struct_eq_refl|]. split; [reflexivity|]. split; [reflexivity|].
      split; [reflexivity|]. split; [reflexivity|]. rewrite E3. reflexivity. }
  unfold liftR. destruct (dict_set (st x3) d' str_IDENT (VStr (idv ++ sfx))) as [s3 [e|]] eqn:E2; [discriminate|].
  apply (dict_set_orphan (st x3) d' str_IDENT _ s3 eq_refl Hp) in E2.
  intro H. injection H as <-. cbn [st uniq_ctr].
  split; [subst s3; eapply struct_eq_trans; [apply se_emit|apply se_data_write]|].
  split; [subst s3; reflexivity|].
  split; [intros y Hy; subst s3; cbn -[str_IDENT]; apply upd_other; exact Hy|].
  split; [subst s3; rewrite get_str_write, name_ne_ident, andb_false_r; reflexivity|]. split; [reflexivity|].
  subst s3. rewrite get_str_write, Nat.eqb_refl, str_eqb_refl. reflexivity.
Qed.

Lemma rename_block_spec x1 lib d d' x5 : ns_parent (st x1) d' = None -> rename_block x1 lib d d' = (x5, None) ->
  struct_eq (st x1) (st x5) /\ nstab (st x5) = nstab (st x1) /\ (forall y, y <> d' -> data (st x5) y = data (st x1) y) /\
  if is_some (get_str (st x1) d str_NAME) || is_some (get_str (st x1) d str_IDENT) then exists k,
      fresh_ctr (fresh_fuel (kids (st x1) RDefs lib)) (st x1) (kids (st x1) RDefs lib)
                (get_str (st x1) d str_NAME) (get_str (st x1) d str_IDENT) (uniq_ctr x1) = Some k /\
      get_str (st x5) d' str_NAME = match get_str (st x1) d str_NAME with
                                    | Some nm => Some (nm ++ str_uniq ++ dec k)
                                    | None => get_str (st x1) d' str_NAME
                                    end /\
      uniq_ctr x5 = S k /\
      get_str (st x5) d' str_IDENT = option_map (fun i => i ++ str_uniq ++ dec k) (get_str (st x1) d' str_IDENT)
  else st x5 = st x1 /\ uniq_ctr x5 = uniq_ctr x1.
Proof.
  intros Hp. unfold rename_block. cbv zeta.
  destruct (is_some (get_str (st x1) d str_NAME) || is_some (get_str (st x1) d str_IDENT)).
  2:{ intro H. injection H as <-. split; [apply struct_eq_refl|]. split; [reflexivity|]. split; [reflexivity|split; reflexivity]. }
  destruct (fresh_ctr _ _ _ _ _ _) as [k|] eqn:Ef; [|discriminate].
  destruct (get_str (st x1) d str_NAME) as [nm|].
  2:{ intro H. destruct (set_ident_spec (mkX (st x1) (S k) (flat_ctr x1)) d' (str_uniq ++ dec k) x5 Hp H) as [A [B [C [D [E G]]]]].
      cbn [st uniq_ctr] in *. split; [exact A|]. split; [exact B|]. split; [exact C|].
      exists k. split; [reflexivity|]. split; [exact D|]. split; [exact E|exact G]. }
  cbn [st]. unfold liftR at 1.
  destruct (dict_set (st x1) d' str_NAME (VStr (nm ++ str_uniq ++ dec k))) as [s2 [e|]] eqn:E1; [discriminate|].
  apply (dict_set_orphan (st x1) d' str_NAME _ s2 eq_refl Hp) in E1. cbn [st uniq_ctr flat_ctr].
  assert (H2 : struct_eq (st x1) s2) by (subst s2; eapply struct_eq_trans; [apply se_emit|apply se_data_write]).
  assert (N2 : nstab s2 = nstab (st x1)) by (subst s2; reflexivity).
  assert (D2 : forall y, y <> d' -> data s2 y = data (st x1) y) by (intros y Hy; subst s2; cbn; apply upd_other; exact Hy).
  assert (G2 : get_str s2 d' str_NAME = Some (nm ++ str_uniq ++ dec k)).
  { subst s2. rewrite get_str_write, Nat.eqb_refl, str_eqb_refl. reflexivity. }
  assert (G3 : get_str s2 d' str_IDENT = get_str (st x1) d' str_IDENT).
  { subst s2. rewrite get_str_write, ident_ne_name, andb_false_r. reflexivity. }
  assert (Hp2 : ns_parent s2 d' = None) by (unfold ns_parent in *; rewrite (se_kind _ _ H2), (se_par _ _ H2); exact Hp).
  intro H. destruct (set_ident_spec (mkX s2 (S k) (flat_ctr x1)) d' (str_uniq ++ dec k) x5 Hp2 H) as [A [B [C [D [E G]]]]].
  cbn [st uniq_ctr] in *.
  split; [eapply struct_eq_trans; [exact H2|exact A]|]. split; [rewrite B; exact N2|].
  split; [intros y Hy; rewrite (C y Hy); apply D2; exact Hy|].
  exists k. split; [reflexivity|]. split; [rewrite D; exact G2|]. split; [exact E|]. rewrite G, G3. reflexivity.
Qed.

(* ---- one round ---- *)
Section RoundN.
  Variables (n0 : id) (x : xstate) (inst d : id).
  Let s := st x.
  Hypotheses (U : UF s) (Ei : iref s inst = Some d) (Hinst : inst < next s)
             (Hn0 : n0 <= next s) (HLT : LT n0 s) (HPL : PL n0 s).

  (* the state in which add_definition is called: the copy next s has been made and renamed *)
  Record AtAdd (lib : id) (x5 : xstate) : Prop := mkAtAdd {
    aa_lt : LT n0 (st x5); aa_pl : PL n0 (st x5); aa_t : InvT (st x5);
    aa_kids : kids (st x5) RDefs = kids s RDefs;
    aa_keys : forall y, y < next s -> get_str (st x5) y str_NAME = get_str s y str_NAME /\ get_str (st x5) y str_IDENT = get_str s y str_IDENT;
    aa_tab : forall y, y < next s -> nstab (st x5) y = nstab s y;
    aa_sub : forall l, l < next s -> ~ In l (subtree (st x5) (next s));
    aa_new : if is_some (get_str s d str_NAME) || is_some (get_str s d str_IDENT) then
               exists k, uniq_ctr x <= k /\ uniq_ctr x5 = S k /\
                 get_str (st x5) (next s) str_NAME = option_map (fun nm => nm ++ str_uniq ++ dec k) (get_str s d str_NAME) /\
                 get_str (st x5) (next s) str_IDENT = option_map (fun i => i ++ str_uniq ++ dec k) (get_str s d str_IDENT) /\
                 (forall nm c, get_str s d str_NAME = Some nm -> In c (kids s RDefs lib) ->
                    get_str s c str_NAME <> Some (nm ++ str_uniq ++ dec k)) /\
                 (forall i c w, get_str s d str_IDENT = Some i -> In c (kids s RDefs lib) -> get_str s c str_IDENT = Some w ->
                    lower w <> lower (i ++ str_uniq ++ dec k)) /\
                 (forall j, uniq_ctr x <= j -> j < k ->
                    suffix_taken s (kids s RDefs lib) (get_str s d str_NAME) (get_str s d str_IDENT) (str_uniq ++ dec j) = true)
             else get_str (st x5) (next s) str_NAME = None /\ get_str (st x5) (next s) str_IDENT = None /\ uniq_ctr x5 = uniq_ctr x
  }.

  Lemma round_at_add lib x5 :
    par s RDefs d = Some lib -> snd (fst (clone_definition s d)) = None ->
    rename_block (mkX (fst (fst (clone_definition s d))) (uniq_ctr x) (flat_ctr x)) lib d (next s) = (x5, None) ->
    AtAdd lib x5.
  Proof.
    intros Ep Hc Hnb. pose proof U as [I [T [F [FT0 K]]]]. pose proof (inv_a _ I) as I1.
    pose proof (ref_lt _ _ _ K F Ei) as Hd.
    assert (Hkd : kind_of s d = Some KDefinition).
    { apply (i1_kids _ I1) in Ep. apply (T RDefs lib d Ep). }
    pose proof (clone_definition_old_attrs s d U Hd Hkd Hc) as OA1.
    pose proof (clone_definition_old_nstab s d U Hd Hkd Hc) as ON1.
    pose proof (clone_definition_struct_m s d U Hd Hkd Hc) as S.
    pose proof (clone_definition_data s d U Hd Hkd Hc) as DT.
    pose proof (rd_clone_definition s d) as [RK RP].
    assert (U1 : UF (fst (fst (clone_definition s d)))).
    { apply uf_clone_definition; [exact U|unfold is_kind; rewrite Hkd; reflexivity|exact Hc]. }
    pose proof (clone_definition_id s d) as Hid.
    revert Hnb. destruct (clone_definition s d) as [[s1 e1] dd]. cbn [fst snd] in *. subst e1 dd. intro Hnb.
    set (d' := next s) in *. set (x1 := mkX s1 (uniq_ctr x) (flat_ctr x)) in Hnb.
    destruct U1 as [I1' [T1 [F1 [FT1 K1]]]]. pose proof (inv_a _ I1') as I11.
    assert (Hkd1 : kind_of s1 d' = Some KDefinition).
    { destruct (ds_rng _ _ _ _ _ S d d' (ds_root _ _ _ _ _ S)) as [_ [_ H]]. rewrite H. exact Hkd. }
    assert (Hpar1 : ns_parent s1 d' = None) by (unfold ns_parent; rewrite Hkd1; apply (ds_detached _ _ _ _ _ S)).
    assert (Hold : forall l c, In c (kids s RDefs l) -> c < next s) by (intros l c Hcin; apply (kids_lt s RDefs l c F I1 Hcin)).
    assert (GS1 : forall y k0, y < next s -> get_str s1 y k0 = get_str s y k0).
    { intros y k0 Hy. unfold get_str. rewrite (attrs_data _ _ _ (OA1 y Hy)). reflexivity. }
    assert (KS1 : forall y, y < next s -> keys_same s s1 y).
    { intros y Hy. apply keys_same_data. apply (attrs_data _ _ _ (OA1 y Hy)). }
    assert (L1 : LT n0 s1).
    { apply (lt_ext n0 s s1 HLT).
      - intros l Hl. apply ON1. lia.
      - intros l _. rewrite RK. reflexivity.
      - intros l c _ Hcin. apply KS1. apply (Hold l c Hcin). }
    assert (P1 : PL n0 s1) by (intros y l Hy; rewrite RP in Hy; apply (HPL y l Hy)).
    assert (Hnd1 : forall l, ~ In d' (kids s1 RDefs l)).
    { intros l Hin. rewrite RK in Hin. pose proof (Hold l d' Hin). unfold d' in *. lia. }
    destruct (rename_block_spec x1 lib d d' x5 Hpar1 Hnb) as [SE5 [N5 [D5 HN5]]]. unfold x1 in SE5, N5, D5, HN5. cbn [st uniq_ctr] in SE5, N5, D5, HN5.
    rewrite (GS1 d str_NAME Hd), (GS1 d str_IDENT Hd), RK in HN5.
    assert (Hname1 : forall k0, k0 <> str_NS -> get_str s1 d' k0 = get_str s d k0).
    { intros k0 Hk0. apply (clone_get_str_same s d s1 _ DT d d' KDefinition (ds_root _ _ _ _ _ S) Hkd eq_refl). exact Hk0. }
    assert (KS5 : forall y, y <> d' -> keys_same s1 (st x5) y) by (intros y Hy; apply keys_same_data, D5; exact Hy).
    constructor; try change (next s) with d'.
    - apply (lt_ext n0 s1 (st x5) L1).
      + intros l _. rewrite N5. reflexivity.
      + intros l _. rewrite (se_kids _ _ SE5). reflexivity.
      + intros l c _ Hcin. apply KS5. intros ->. apply (Hnd1 l Hcin).
    - intros y l Hy. rewrite (se_par _ _ SE5) in Hy. apply (P1 y l Hy).
    - apply (tstep_invt _ _ (tstep_struct _ _ SE5) T1).
    - rewrite (se_kids _ _ SE5). exact RK.
    - intros y Hy. unfold get_str. rewrite (D5 y ltac:(unfold d'; lia)). split; [apply (GS1 y str_NAME Hy)|apply (GS1 y str_IDENT Hy)].
    - intros y Hy. rewrite N5. apply ON1. exact Hy.
    - intros l Hl. unfold subtree. rewrite (se_kind _ _ SE5), Hkd1. unfold def_subtree. rewrite !(se_kids _ _ SE5).
      assert (Hnew : forall b, (exists a, img (clone_memo s d) a b) -> b <> l).
      { intros b [a Hab] ->. destruct (ds_rng _ _ _ _ _ S a l Hab) as [_ [H _]]. lia. }
      intros [<-|Hin]; [unfold d' in Hl; lia|].
      apply in_app_or in Hin as [Hin|Hin]; [|apply in_app_or in Hin as [Hin|Hin]].
      + destruct (Forall2_in_r _ _ _ l (ds_ports _ _ _ _ _ S) Hin) as [a [_ Ha]]. apply (Hnew l); [exists a; exact Ha|reflexivity].
      + destruct (Forall2_in_r _ _ _ l (ds_cables _ _ _ _ _ S) Hin) as [a [_ Ha]]. apply (Hnew l); [exists a; exact Ha|reflexivity].
      + destruct (Forall2_in_r _ _ _ l (ds_children _ _ _ _ _ S) Hin) as [a [_ Ha]]. apply (Hnew l); [exists a; exact Ha|reflexivity].
    - destruct (is_some (get_str s d str_NAME) || is_some (get_str s d str_IDENT)) eqn:Ekeys.
      + destruct HN5 as [k [Ef [G5 [C5 G6]]]].
        rewrite (fresh_ctr_ext s s1 (kids s RDefs lib) (get_str s d str_NAME) (get_str s d str_IDENT)) in Ef.
        2:{ intros c Hcin. pose proof (Hold lib c Hcin) as Hcl. split; apply GS1; exact Hcl. }
        destruct (fresh_ctr_fresh _ _ _ _ _ _ _ Ef) as [A [B [C D]]].
        exists k. split; [exact A|]. split; [exact C5|].
        split; [rewrite G5; destruct (get_str s d str_NAME) as [nm|] eqn:Enm; [reflexivity|rewrite (Hname1 str_NAME ltac:(discriminate)); exact Enm]|].
        split; [rewrite G6, (Hname1 str_IDENT ltac:(discriminate)); reflexivity|].
        split; [intros nm c Hnm; apply (B nm c Hnm)|]. split; [intros i c w Hi; apply (C i c w Hi)|exact D].
      + destruct HN5 as [G5 C5]. rewrite G5. apply orb_false_iff in Ekeys as [Ek1 Ek2].
        split; [rewrite (Hname1 str_NAME ltac:(discriminate)); destruct (get_str s d str_NAME); [discriminate|reflexivity]|].
        split; [rewrite (Hname1 str_IDENT ltac:(discriminate)); destruct (get_str s d str_IDENT); [discriminate|reflexivity]|exact C5].
  Qed.

  (* add_definition never refuses the copy for its name or its identifier: whatever the library holds,
     in whatever process the netlist was built, the test of NamespaceManager.add passes - for a cell with
     a name, with an EDIF identifier, with both (the copy carries the fresh ones) or with neither (the
     copy carries neither, so there is nothing to test). *)
  Theorem round_add_check lib x5 :
    par s RDefs d = Some lib -> snd (fst (clone_definition s d)) = None ->
    rename_block (mkX (fst (fst (clone_definition s d))) (uniq_ctr x) (flat_ctr x)) lib d (next s) = (x5, None) ->
    ns_add_conflict (st x5) lib (next s) KDefinition = false.
  Proof.
    intros Ep Hc Hnb. destruct (round_at_add lib x5 Ep Hc Hnb) as [L5 _ _ K5 G5 _ _ HN].
    pose proof U as [I [T [F [FT0 K]]]]. pose proof (inv_a _ I) as I1.
    assert (Hold : forall c, In c (kids s RDefs lib) -> c < next s) by (intros c Hcin; apply (kids_lt s RDefs lib c F I1 Hcin)).
    assert (Hliblt : lib < n0) by (apply (HPL d lib Ep)).
    unfold ns_add_conflict. destruct (nstab (st x5) lib) as [t|] eqn:Et; [|reflexivity].
    destruct (L5 lib t Hliblt Et) as [Sn Si]. rewrite K5 in Sn, Si.
    destruct (is_some (get_str s d str_NAME) || is_some (get_str s d str_IDENT)).
    2:{ destruct HN as [Gn [Gi _]]. rewrite Gn, Gi. reflexivity. }
    destruct HN as [k [_ [_ [Gn [Gi [Fn [Fi _]]]]]]].
    rewrite Gn, Gi. apply orb_false_iff. split.
    - destruct (get_str s d str_IDENT) as [i|]; cbn [option_map]; [|reflexivity].
      apply negb_false_iff. unfold ns_no_conflict. rewrite ident_ne_name. destruct (ns_pol t) eqn:Hp; [reflexivity|].
      rewrite str_eqb_refl. apply negb_true_iff. unfold tab_conflict.
      destruct (sassoc (lower (i ++ str_uniq ++ dec k)) (ns_idents t KDefinition)) as [c|] eqn:Ex; [|reflexivity]. exfalso.
      apply (Si eq_refl) in Ex as [Hin Hk]. unfold ident_key in Hk. rewrite (proj2 (G5 c (Hold c Hin))) in Hk.
      destruct (get_str s c str_IDENT) as [w|] eqn:Ew; [|discriminate]. cbn [option_map] in Hk. injection Hk as Hk.
      apply (Fi i c w eq_refl Hin Ew Hk).
    - destruct (get_str s d str_NAME) as [nm|]; cbn [option_map]; [|reflexivity].
      apply negb_false_iff. unfold ns_no_conflict. rewrite str_eqb_refl. apply negb_true_iff. unfold tab_conflict.
      destruct (sassoc (nm ++ str_uniq ++ dec k) (ns_names t KDefinition)) as [c|] eqn:Ex; [|reflexivity]. exfalso.
      apply Sn in Ex as [Hin Hk]. unfold name_key in Hk. rewrite (proj1 (G5 c (Hold c Hin))) in Hk. apply (Fn nm c eq_refl Hin Hk).
  Qed.
End RoundN.

(* ---- one completed round ---- *)
Section RoundC.
  Variables (n0 : id) (x : xstate) (inst d : id).
  Let s := st x.
  Hypotheses (U : UF s) (Ei : iref s inst = Some d) (Hinst : inst < next s)
             (Hn0 : n0 <= next s) (HLT : LT n0 s) (HPL : PL n0 s).

  Theorem round_names x' : make_instance_unique x inst = (x', None) ->
    LT n0 (st x') /\ PL n0 (st x') /\
    exists lib, par s RDefs d = Some lib /\ par (st x') RDefs (next s) = Some lib /\
      (forall c, In c (kids (st x') RDefs lib) <-> c = next s \/ In c (kids s RDefs lib)) /\
      (forall l, l <> lib -> kids (st x') RDefs l = kids s RDefs l) /\
      (forall l c, In c (kids s RDefs l) -> get_str (st x') c str_NAME = get_str s c str_NAME /\ ident_key (st x') c = ident_key s c) /\
      if is_some (get_str s d str_NAME) || is_some (get_str s d str_IDENT) then
        exists k, uniq_ctr x <= k /\ uniq_ctr x' = S k /\
                   get_str (st x') (next s) str_NAME = option_map (fun nm => nm ++ str_uniq ++ dec k) (get_str s d str_NAME) /\
                   ident_key (st x') (next s) = option_map (fun i => lower (i ++ str_uniq ++ dec k)) (get_str s d str_IDENT) /\
                   (forall nm c, get_str s d str_NAME = Some nm -> In c (kids s RDefs lib) ->
                      get_str s c str_NAME <> Some (nm ++ str_uniq ++ dec k)) /\
                   (forall i c w, get_str s d str_IDENT = Some i -> In c (kids s RDefs lib) -> get_str s c str_IDENT = Some w ->
                      lower w <> lower (i ++ str_uniq ++ dec k)) /\
                   (forall j, uniq_ctr x <= j -> j < k ->
                      suffix_taken s (kids s RDefs lib) (get_str s d str_NAME) (get_str s d str_IDENT) (str_uniq ++ dec j) = true)
      else get_str (st x') (next s) str_NAME = None /\ ident_key (st x') (next s) = None /\ uniq_ctr x' = uniq_ctr x.
  Proof.
    intro E. pose proof U as [I [T [F [FT0 K]]]]. pose proof (inv_a _ I) as I1.
    rewrite make_instance_unique_unfold in E. fold s in E. rewrite Ei in E.
    destruct (par s RDefs d) as [lib|] eqn:Ep; [|discriminate].
    assert (Hc : snd (fst (clone_definition s d)) = None).
    { revert E. destruct (clone_definition s d) as [[s1 [ex|]] dd]; cbn [liftR fst snd]; [discriminate|reflexivity]. }
    pose proof (fun x5 => round_at_add n0 x inst d U Ei Hinst Hn0 HLT HPL lib x5 Ep Hc) as RA. fold s in RA.
    pose proof (clone_definition_id s d) as Hid.
    revert E RA. destruct (clone_definition s d) as [[s1 e1] dd]. cbn [fst snd] in *. subst e1 dd. cbn [liftR]. intros E RA.
    set (d' := next s) in *.
    destruct (rename_block (mkX s1 (uniq_ctr x) (flat_ctr x)) lib d d') as [x5 [e|]] eqn:Hnb; [discriminate|].
    destruct (RA x5 eq_refl) as [L5 P5 T5 K5 G5 N5 Hsub5 HN5]. clear RA. fold s in K5, G5, N5, Hsub5, HN5. fold d' in Hsub5, HN5.
    assert (Hold : forall l c, In c (kids s RDefs l) -> c < next s) by (intros l c Hcin; apply (kids_lt s RDefs l c F I1 Hcin)).
    assert (Hnin5 : ~ In d' (kids (st x5) RDefs lib)).
    { rewrite K5. intro Hin. pose proof (Hold lib d' Hin). unfold d' in *. lia. }
    assert (KS5 : forall y, y < next s -> keys_same s (st x5) y).
    { intros y Hy. destruct (G5 y Hy) as [A B]. split; [exact A|unfold ident_key; rewrite B; reflexivity]. }
    (* add_definition *)
    set (pos := Some (Datatypes.S (index_of d (kids s RDefs lib)))) in E.
    pose proof (add_def_spec (st x5) lib d' pos) as AD.
    destruct (op_add (st x5) RDefs lib d' pos) as [s3 [e|]]; cbn [liftR fst] in *; [discriminate|].
    destruct (AD s3 T5 eq_refl) as [Hklib [_ [_ [AK [AKo [AP [APo [AN [AT AL]]]]]]]]]. clear AD.
    cbn [st] in E.
    pose proof (q3_op_set_reference s3 inst (@Some id d')) as Q4.
    pose proof (fw_op_set_reference_but_iref s3 inst (@Some id d')) as FW. cbn zeta in FW.
    change (@Some nat d') with (@Some id d') in *.
    destruct (op_set_reference s3 inst (@Some id d')) as [s4 [e|]]; cbn [liftR fst snd] in *; [discriminate|].
    injection E as <-. cbn [st uniq_ctr]. destruct Q4 as [Q4k Q4d Q4t]. destruct FW as [_ [FWp _]].
    assert (Hliblt : lib < n0) by (apply (HPL d lib Ep)).
    assert (Hlibold : lib < next s) by lia.
    (* the library tables after the addition *)
    assert (L3 : LT n0 s3).
    { intros l t' Hl Ht'. destruct (Nat.eq_dec l lib) as [->|Hne].
      - unfold add_tab_spec in AL. destruct (nstab (st x5) lib) as [t|] eqn:Et; [|rewrite AL in Ht'; discriminate].
        destruct AL as [t2 [Et2 [Hpol [Hnm Hidn]]]]. rewrite Et2 in Ht'. injection Ht' as <-.
        destruct (L5 lib t Hliblt Et) as [S5n S5i].
        assert (Hmem : forall c, In c (kids s3 RDefs lib) <-> In c (kids (st x5) RDefs lib) \/ c = d').
        { intro c. rewrite AK, py_insert_In. tauto. }
        split.
        + destruct (name_key (st x5) d') as [v|] eqn:Ev.
          * destruct Hnm as [Hcf Hnames]. rewrite Hnames.
            pose proof (tab_conflict_free _ _ _ d' v S5n Hnin5 Hcf) as Hfree.
            apply (slot_ext _ _ _ _ _ (slot_insert _ _ _ d' v S5n Hnin5 Ev Hfree)); [exact Hmem|intros c _; apply (proj1 (AN c))].
          * rewrite Hnm. apply (slot_ext _ _ _ _ _ (slot_insert_keyless _ _ _ d' S5n Ev)); [exact Hmem|intros c _; apply (proj1 (AN c))].
        + intro Hp2. rewrite Hpol in Hp2. specialize (S5i Hp2). specialize (Hidn Hp2).
          destruct (get_str (st x5) d' str_IDENT) as [v|] eqn:Ev.
          * destruct Hidn as [Hcf Hids]. rewrite Hids.
            assert (Ek : ident_key (st x5) d' = Some (lower v)) by (unfold ident_key; rewrite Ev; reflexivity).
            pose proof (tab_conflict_free _ _ _ d' (lower v) S5i Hnin5 Hcf) as Hfree.
            apply (slot_ext _ _ _ _ _ (slot_insert _ _ _ d' (lower v) S5i Hnin5 Ek Hfree)); [exact Hmem|intros c _; apply (proj2 (AN c))].
          * rewrite Hidn. assert (Ek : ident_key (st x5) d' = None) by (unfold ident_key; rewrite Ev; reflexivity).
            apply (slot_ext _ _ _ _ _ (slot_insert_keyless _ _ _ d' S5i Ek)); [exact Hmem|intros c _; apply (proj2 (AN c))].
      - rewrite (AT l Hne (Hsub5 l ltac:(lia))) in Ht'. destruct (L5 l t' Hl Ht') as [S5n S5i]. split.
        + apply (slot_ext _ _ _ _ _ S5n); [intro c; rewrite (AKo l Hne); tauto|intros c _; apply (proj1 (AN c))].
        + intro Hp2. apply (slot_ext _ _ _ _ _ (S5i Hp2)); [intro c; rewrite (AKo l Hne); tauto|intros c _; apply (proj2 (AN c))]. }
    assert (P3 : PL n0 s3).
    { intros y l Hy. destruct (Nat.eq_dec y d') as [->|Hne]; [rewrite AP in Hy; injection Hy as <-; exact Hliblt|].
      rewrite (APo y Hne) in Hy. apply (P5 y l Hy). }
    assert (KS4 : forall y, keys_same s3 s4 y) by (intro y; apply keys_same_data; rewrite Q4d; reflexivity).
    split; [apply (lt_ext n0 s3 s4 L3); [intros l _; rewrite Q4t; reflexivity|intros l _; rewrite Q4k; reflexivity|intros l c _ _; apply KS4]|].
    split; [intros y l Hy; rewrite FWp in Hy; apply (P3 y l Hy)|].
    exists lib. split; [reflexivity|]. split; [rewrite FWp; exact AP|].
    split; [intro c; rewrite Q4k, AK, py_insert_In, K5; tauto|].
    split; [intros l Hne; rewrite Q4k, (AKo l Hne), K5; reflexivity|].
    assert (KSall : forall y, name_key s4 y = name_key (st x5) y /\ ident_key s4 y = ident_key (st x5) y).
    { intro y. destruct (KS4 y) as [A B]. destruct (AN y) as [C D]. split; congruence. }
    split.
    { intros l c Hcin. pose proof (Hold l c Hcin) as Hcl. destruct (KSall c) as [A B]. destruct (KS5 c Hcl) as [C D].
      split; [change (name_key s4 c = name_key s c)|]; congruence. }
    destruct (KSall d') as [Hname4 Hident4]. unfold name_key in Hname4. rewrite Hname4, Hident4.
    destruct (is_some (get_str s d str_NAME) || is_some (get_str s d str_IDENT)).
    - destruct HN5 as [k [A [C5 [G5n [G5i [Fn [Fi Fm]]]]]]]. exists k. split; [exact A|]. split; [exact C5|]. split; [exact G5n|].
      split; [unfold ident_key; rewrite G5i; destruct (get_str s d str_IDENT); reflexivity|]. split; [exact Fn|split; [exact Fi|exact Fm]].
    - destruct HN5 as [A [B C]]. split; [exact A|]. split; [unfold ident_key; rewrite B; reflexivity|exact C].
  Qed.
End RoundC.

(* ---- the whole walk ---- *)
Definition UName (lo hi : nat) (v : str) : Prop := exists nm k, v = nm ++ str_uniq ++ dec k /\ lo <= k /\ k < hi.

(* the definitions with identifiers from b on carry names made by the walk *)
Definition AddedOK (b lo hi : nat) (s : state) : Prop :=
  forall l c v, In c (kids s RDefs l) -> b <= c -> get_str s c str_NAME = Some v -> UName lo hi v.

Lemma loop_names n0 b lo : forall fuel x Q x',
  UF (st x) -> n0 <= next (st x) -> LT n0 (st x) -> PL n0 (st x) -> b <= next (st x) -> lo <= uniq_ctr x -> AddedOK b lo (uniq_ctr x) (st x) ->
  (forall i, In i Q -> i < next (st x)) -> uniq_loop fuel x Q = (x', None) ->
  LT n0 (st x') /\ PL n0 (st x') /\ uniq_ctr x <= uniq_ctr x' /\ AddedOK b lo (uniq_ctr x') (st x').
Proof.
  induction fuel as [|fu IH]; intros x Q x' U Hn HL HP Hb Hlo HA HQ E; destruct Q as [|j rest]; cbn [uniq_loop] in E; try discriminate.
  - injection E as <-. split; [exact HL|split; [exact HP|split; [apply Nat.le_refl|exact HA]]].
  - injection E as <-. split; [exact HL|split; [exact HP|split; [apply Nat.le_refl|exact HA]]].
  - destruct (inst_unique (st x) j) as [u|] eqn:Hu; [|discriminate].
    pose proof U as [I [T [F [FT0 K]]]]. pose proof (inv_a _ I) as I1.
    pose proof (HQ j (or_introl eq_refl)) as Hj.
    destruct u.
    + destruct (iref (st x) j) as [d|] eqn:Hr; [|discriminate].
      apply (IH x (rest ++ kids (st x) RChildren d) x' U Hn HL HP Hb Hlo HA); [|exact E].
      intros i Hi. apply in_app_or in Hi as [Hi|Hi]; [apply HQ; right; exact Hi|apply (kids_lt _ _ _ _ F I1 Hi)].
    + destruct (iref (st x) j) as [d|] eqn:Hr.
      2:{ unfold make_instance_unique in E. rewrite Hr in E. discriminate. }
      pose proof (round_spec (st x) j d x eq_refl U Hr Hj) as HR.
      pose proof (round_names n0 x j d U Hr Hj Hn HL HP) as HN.
      destruct (make_instance_unique x j) as [x1 [e|]] eqn:Em; [discriminate|].
      assert (Q1 : QB (st x) j d (st x1)) by (apply HR; reflexivity).
      destruct (HN x1 eq_refl) as [L1 [P1 [lib [Ep [_ [Hmem [Hoth [Hnames Hnew]]]]]]]].
      pose proof (qb_uf _ _ _ _ Q1) as U1. pose proof (qb_next _ _ _ _ Q1) as Hn1.
      destruct (iref (st x1) j) as [d1|] eqn:Hr1; [|discriminate].
      pose proof U1 as [I' [T' [F' [FT' K']]]]. pose proof (inv_a _ I') as I1'.
      assert (Hctr : uniq_ctr x <= uniq_ctr x1).
      { destruct (is_some _ || is_some _); [destruct Hnew as [k [A [-> _]]]; lia|destruct Hnew as [_ [_ ->]]; lia]. }
      assert (HA1 : AddedOK b lo (uniq_ctr x1) (st x1)).
      { intros l c v Hcin Hbc Hv.
        assert (Hcase : In c (kids (st x) RDefs l) \/ (l = lib /\ c = next (st x))).
        { destruct (Nat.eq_dec l lib) as [->|Hne]; [apply Hmem in Hcin as [->|H]; [right; split; reflexivity|left; exact H]|].
          rewrite (Hoth l Hne) in Hcin. left. exact Hcin. }
        destruct Hcase as [Hold|[-> ->]].
        - rewrite (proj1 (Hnames l c Hold)) in Hv. destruct (HA l c v Hold Hbc Hv) as [nm [k [-> [A B]]]]. exists nm, k. split; [reflexivity|lia].
        - destruct (is_some _ || is_some _); [|destruct Hnew as [Hnone _]; rewrite Hnone in Hv; discriminate].
          destruct Hnew as [k [A [Hc1 [Hsome _]]]]. rewrite Hsome in Hv.
          destruct (get_str (st x) d str_NAME) as [nm|]; [|discriminate]. cbn [option_map] in Hv.
          injection Hv as <-. exists nm, k. split; [reflexivity|lia]. }
      destruct (IH x1 (rest ++ kids (st x1) RChildren d1) x') as [L2 [P2 [C2 A2]]]; try assumption; try lia.
      * intros i Hi. apply in_app_or in Hi as [Hi|Hi]; [pose proof (HQ i (or_intror Hi)); lia|apply (kids_lt _ _ _ _ F' I1' Hi)].
      * split; [exact L2|split; [exact P2|split; [lia|exact A2]]].
Qed.

(* a completed uniquify: the name tables of the libraries stay exact - so no library with a name table
   holds two definitions with one name - and the definitions it added are named <old>_sdn_unique_<k>
   with k between the value of the module counter before and after the run *)
Theorem uniquify_names fuel x n x' :
  UF (st x) -> LT (next (st x)) (st x) -> uniquify fuel x n = (x', None) ->
  LT (next (st x)) (st x') /\ uniq_ctr x <= uniq_ctr x' /\ AddedOK (next (st x)) (uniq_ctr x) (uniq_ctr x') (st x').
Proof.
  intros U HL E. unfold uniquify in E. destruct (top (st x) n) as [t|]; [|discriminate].
  destruct (iref (st x) t) as [dtop|] eqn:Hr; [|discriminate].
  pose proof U as [I [T [F [FT0 K]]]]. pose proof (inv_a _ I) as I1.
  assert (HP : PL (next (st x)) (st x)).
  { intros y l Hy. destruct (Nat.lt_ge_cases l (next (st x))) as [H|H]; [exact H|].
    apply (i1_kids _ I1) in Hy. rewrite (f_kids _ F RDefs l H) in Hy. destruct Hy. }
  assert (HA : AddedOK (next (st x)) (uniq_ctr x) (uniq_ctr x) (st x)).
  { intros l c v Hc Hb _. pose proof (kids_lt _ _ _ _ F I1 Hc). lia. }
  destruct (loop_names (next (st x)) (next (st x)) (uniq_ctr x) fuel x (kids (st x) RChildren dtop) x' U (Nat.le_refl _) HL HP (Nat.le_refl _) (Nat.le_refl _) HA) as [L [_ [C A]]]; [|exact E|].
  - intros i Hi. apply (kids_lt _ _ _ _ F I1 Hi).
  - split; [exact L|]. split; [exact C|exact A].
Qed.

Theorem uniquify_no_duplicate_names fuel x n x' l t c1 c2 v :
  UF (st x) -> LT (next (st x)) (st x) -> uniquify fuel x n = (x', None) ->
  l < next (st x) -> nstab (st x') l = Some t ->
  In c1 (kids (st x') RDefs l) -> In c2 (kids (st x') RDefs l) ->
  get_str (st x') c1 str_NAME = Some v -> get_str (st x') c2 str_NAME = Some v -> c1 = c2.
Proof.
  intros U HL E Hl Ht H1 H2 E1 E2. destruct (uniquify_names fuel x n x' U HL E) as [L _].
  apply (lt_unique _ _ l t c1 c2 v L Hl Ht H1 H2 E1 E2).
Qed.

(* ---- every round of a run, completed or not ---- *)
(* the states in which the walk enters _make_instance_unique, with the instance it is called on *)
Fixpoint uniq_rounds (fuel : nat) (x : xstate) (queue : list id) : list (xstate * id) :=
  match queue with
  | [] => []
  | inst :: rest =>
      match fuel with
      | O => []
      | S f =>
          match inst_unique (st x) inst with
          | None => []
          | Some u =>
              (if u then [] else [(x, inst)]) ++
              match (if u then (x, None) else make_instance_unique x inst) with
              | (x1, Some e) => []
              | (x1, None) =>
                  match iref (st x1) inst with
                  | Some d => uniq_rounds f x1 (rest ++ kids (st x1) RChildren d)
                  | None => []
                  end
              end
          end
      end
  end.

Lemma rounds_inv n0 : forall fuel x Q,
  UF (st x) -> n0 <= next (st x) -> LT n0 (st x) -> PL n0 (st x) -> (forall i, In i Q -> i < next (st x)) ->
  forall xr i, In (xr, i) (uniq_rounds fuel x Q) ->
  UF (st xr) /\ n0 <= next (st xr) /\ LT n0 (st xr) /\ PL n0 (st xr) /\ i < next (st xr).
Proof.
  induction fuel as [|fu IH]; intros x Q U Hn HL HP HQ xr i Hin; destruct Q as [|j rest]; cbn [uniq_rounds] in Hin; try contradiction.
  destruct (inst_unique (st x) j) as [u|] eqn:Hu; [|contradiction].
  pose proof U as [I [T [F [FT0 K]]]]. pose proof (inv_a _ I) as I1.
  pose proof (HQ j (or_introl eq_refl)) as Hj.
  destruct u.
  - cbn [app] in Hin. destruct (iref (st x) j) as [d|] eqn:Hr; [|contradiction].
    apply (IH x (rest ++ kids (st x) RChildren d) U Hn HL HP); [|exact Hin].
    intros i0 Hi. apply in_app_or in Hi as [Hi|Hi]; [apply HQ; right; exact Hi|apply (kids_lt _ _ _ _ F I1 Hi)].
  - cbn [app] in Hin. destruct Hin as [Heq|Hin].
    { injection Heq as <- <-. split; [exact U|split; [exact Hn|split; [exact HL|split; [exact HP|exact Hj]]]]. }
    destruct (iref (st x) j) as [d|] eqn:Hr.
    2:{ unfold make_instance_unique in Hin. rewrite Hr in Hin. contradiction. }
    pose proof (round_spec (st x) j d x eq_refl U Hr Hj) as HR.
    pose proof (round_names n0 x j d U Hr Hj Hn HL HP) as HN.
    destruct (make_instance_unique x j) as [x1 [e|]] eqn:Em; [contradiction|].
    assert (Q1 : QB (st x) j d (st x1)) by (apply HR; reflexivity).
    destruct (HN x1 eq_refl) as [L1 [P1 _]].
    pose proof (qb_uf _ _ _ _ Q1) as U1. pose proof (qb_next _ _ _ _ Q1) as Hn1.
    destruct (iref (st x1) j) as [d1|] eqn:Hr1; [|contradiction].
    pose proof U1 as [I' [T' [F' [FT' K']]]]. pose proof (inv_a _ I') as I1'.
    apply (IH x1 (rest ++ kids (st x1) RChildren d1) U1 ltac:(lia) L1 P1); [|exact Hin].
    intros i0 Hi. apply in_app_or in Hi as [Hi|Hi]; [pose proof (HQ i0 (or_intror Hi)); lia|apply (kids_lt _ _ _ _ F' I1' Hi)].
Qed.

(* in every round of a run of uniquify that starts in a state with the invariants - whether or not the
   run completes - the copy of the cell (named, carrying an identifier, both or neither) passes the
   naming test of add_definition *)
Theorem uniquify_add_never_refused_by_name fuel x n t dtop xr i d lib x5 :
  UF (st x) -> LT (next (st x)) (st x) -> top (st x) n = Some t -> iref (st x) t = Some dtop ->
  In (xr, i) (uniq_rounds fuel x (kids (st x) RChildren dtop)) ->
  iref (st xr) i = Some d -> par (st xr) RDefs d = Some lib ->
  snd (fst (clone_definition (st xr) d)) = None ->
  rename_block (mkX (fst (fst (clone_definition (st xr) d))) (uniq_ctr xr) (flat_ctr xr)) lib d (next (st xr)) = (x5, None) ->
  ns_add_conflict (st x5) lib (next (st xr)) KDefinition = false.
Proof.
  intros U HL Ht Hr Hin Hri Hp Hc Hnb.
  pose proof U as [I [T [F [FT0 K]]]]. pose proof (inv_a _ I) as I1.
  assert (HP : PL (next (st x)) (st x)).
  { intros y l Hy. destruct (Nat.lt_ge_cases l (next (st x))) as [H|H]; [exact H|].
    apply (i1_kids _ I1) in Hy. rewrite (f_kids _ F RDefs l H) in Hy. destruct Hy. }
  destruct (rounds_inv (next (st x)) fuel x (kids (st x) RChildren dtop) U (Nat.le_refl _) HL HP) with (xr := xr) (i := i)
    as [Ur [Hnr [Lr [Pr Hir]]]]; [intros i0 Hi; apply (kids_lt _ _ _ _ F I1 Hi)|exact Hin|].
  apply (round_add_check (next (st x)) xr i d Ur Hri Hir Hnr Lr Pr lib x5 Hp Hc Hnb).
Qed.

(* the out-of-fuel outcome of the search is not an outcome of the round *)
Theorem round_never_out_of_fuel x inst : snd (make_instance_unique x inst) <> Some XOutOfFuel.
Proof.
  rewrite make_instance_unique_unfold. destruct (iref (st x) inst) as [d|]; [|cbn [snd]; intro H; discriminate H].
  destruct (par (st x) RDefs d) as [lib|]; [|cbn [snd]; intro H; discriminate H].
  destruct (clone_definition (st x) d) as [[s1 [e|]] d']; cbn [liftR]; [cbn [snd]; intro H; discriminate H|].
  pose proof (rename_block_fuel (mkX s1 (uniq_ctr x) (flat_ctr x)) lib d d') as HF.
  destruct (rename_block (mkX s1 (uniq_ctr x) (flat_ctr x)) lib d d') as [x5 [e|]]; [exact HF|].
  unfold liftR at 1. destruct (op_add _ _ _ _ _) as [s3 [e|]]; [cbn [snd]; intro H; discriminate H|].
  unfold liftR. destruct (op_set_reference _ _ _) as [s4 [e|]]; cbn [snd]; intro H; discriminate H.
Qed.

(* the walk enters _make_instance_unique on the first instance of the queue when it is not unique *)
Lemma uniq_rounds_head fuel x inst rest :
  inst_unique (st x) inst = Some false -> In (x, inst) (uniq_rounds (S fuel) x (inst :: rest)).
Proof. intro H. cbn [uniq_rounds]. rewrite H. left. reflexivity. Qed.
