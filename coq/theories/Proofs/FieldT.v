(* Fields are typed: in every state reachable by editing calls only inner pins carry a wire pointer,
   only wires list pins, only instances carry an outer-pin table or a reference. With freshness this
   also says that identifiers at or above the allocation counter carry none of these. Needed to
   show that a clone is faithful: a pin found on a wire of the source is a pin the copy covers. *)
From Coq Require Import List Arith Bool Lia.
From RecordUpdate Require Import RecordSet.
From SV Require Import Base.Base IR.State IR.NS IR.Ops Proofs.AssocX Proofs.Frame Proofs.Inv1a Proofs.Inv2a
  Proofs.InvP Proofs.InvW Proofs.Fresh Proofs.NsInv.
Import ListNotations RecordSetNotations.

Record FT (s : state) : Prop := mkFT {
  ft_w : forall y, ipwire s y <> None -> kind_of s y = Some KPin;
  ft_p : forall y, wpins s y <> [] -> kind_of s y = Some KWire;
  ft_i : forall y, ipins s y <> [] -> kind_of s y = Some KInstance;
  ft_r : forall y, iref s y <> None -> kind_of s y = Some KInstance
}.

Record fq (s s' : state) : Prop := mkFq {
  fq_kind : forall x k, kind_of s x = Some k -> kind_of s' x = Some k;
  fq_w : forall y, ipwire s' y <> None -> ipwire s y <> None \/ kind_of s' y = Some KPin;
  fq_p : forall y, wpins s' y <> [] -> wpins s y <> [] \/ kind_of s' y = Some KWire;
  fq_i : forall y, ipins s' y <> [] -> ipins s y <> [] \/ kind_of s' y = Some KInstance;
  fq_r : forall y, iref s' y <> None -> iref s y <> None \/ kind_of s' y = Some KInstance
}.

Lemma fq_refl s : fq s s. Proof. constructor; auto. Qed.
Lemma fq_trans a b c : fq a b -> fq b c -> fq a c.
Proof.
  intros [A0 A1 A2 A3 A4] [B0 B1 B2 B3 B4]. constructor; [auto| | | |]; intros y H.
  - destruct (B1 y H) as [H1|H1]; [|right; exact H1]. destruct (A1 y H1) as [H2|H2]; [left; exact H2|right; apply B0; exact H2].
  - destruct (B2 y H) as [H1|H1]; [|right; exact H1]. destruct (A2 y H1) as [H2|H2]; [left; exact H2|right; apply B0; exact H2].
  - destruct (B3 y H) as [H1|H1]; [|right; exact H1]. destruct (A3 y H1) as [H2|H2]; [left; exact H2|right; apply B0; exact H2].
  - destruct (B4 y H) as [H1|H1]; [|right; exact H1]. destruct (A4 y H1) as [H2|H2]; [left; exact H2|right; apply B0; exact H2].
Qed.
Lemma fq_same s s' : kind_of s' = kind_of s -> ipwire s' = ipwire s -> wpins s' = wpins s -> ipins s' = ipins s -> iref s' = iref s -> fq s s'.
Proof. intros A B C D E. constructor; rewrite ?A, ?B, ?C, ?D, ?E; auto. Qed.
Lemma fq_mono s s' : kind_of s' = kind_of s -> ipwire s' = ipwire s -> iref s' = iref s ->
  (forall y, wpins s' y <> [] -> wpins s y <> []) -> (forall y, ipins s' y <> [] -> ipins s y <> []) -> fq s s'.
Proof. intros A B E C D. constructor; rewrite ?A, ?B, ?E; auto. Qed.
Lemma fq_bind r f s : fq s (fst r) -> (forall s1, fq s1 (fst (f s1))) -> fq s (fst (r >>= f)).
Proof. destruct r as [s1 [x|]]; cbn; intros H1 H2; [exact H1|]. eapply fq_trans; [exact H1|apply H2]. Qed.
Lemma fq_guard b x s k : (forall s1, fq s1 (fst (k s1))) -> fq s (fst (guard b x s k)).
Proof. intro H. unfold guard. destruct b; [apply H|apply fq_refl]. Qed.
Lemma fq_fold_idsR f l : (forall s x, fq s (fst (f s x))) -> forall s, fq s (fst (fold_idsR f l s)).
Proof. intro H. induction l as [|x l IH]; intro s; cbn; [apply fq_refl|]. apply fq_bind; [apply H|apply IH]. Qed.
Lemma fq_fold_pairsR f l : (forall s x, fq s (fst (f s x))) -> forall s, fq s (fst (fold_pairsR f l s)).
Proof. intro H. induction l as [|x l IH]; intro s; cbn; [apply fq_refl|]. apply fq_bind; [apply H|apply IH]. Qed.
Lemma fq_struct s s' : struct_eq s s' -> fq s s'.
Proof. intro H. apply fq_same; [apply (se_kind _ _ H)|apply (se_ipwire _ _ H)|apply (se_wpins _ _ H)|apply (se_ipins _ _ H)|apply (se_iref _ _ H)]. Qed.
Ltac fq_triv := apply fq_same; reflexivity.

Lemma ft_fq s s' : fq s s' -> FT s -> FT s'.
Proof.
  intros [A0 A1 A2 A3 A4] [B1 B2 B3 B4]. constructor; intros y H.
  - destruct (A1 y H) as [H1|H1]; [apply A0, B1, H1|exact H1].
  - destruct (A2 y H) as [H1|H1]; [apply A0, B2, H1|exact H1].
  - destruct (A3 y H) as [H1|H1]; [apply A0, B3, H1|exact H1].
  - destruct (A4 y H) as [H1|H1]; [apply A0, B4, H1|exact H1].
Qed.

(* ---- small list facts ---- *)
Lemma prf_nonnil p l : pin_remove_first p l <> [] -> l <> [].
Proof. destruct l; [intro H; exact H|discriminate]. Qed.
Lemma assoc_del_nonnil {B} k (l : list (id * B)) : assoc_del k l <> [] -> l <> [].
Proof. destruct l; [intro H; exact H|discriminate]. Qed.
Lemma assoc_some_nonnil {B} k (l : list (id * B)) v : assoc k l = Some v -> l <> [].
Proof. destruct l; [discriminate|discriminate]. Qed.
Lemma upd_nonnil {B} (f : id -> list B) k (v : list B) y :
  (v <> [] -> f k <> []) -> upd f k v y <> [] -> f y <> [].
Proof. intros H. unfold upd. destruct (Nat.eqb y k) eqn:E; [apply Nat.eqb_eq in E; subst y; exact H|auto]. Qed.

(* ---- primitives on outer pins ---- *)
Lemma fq_drop_outer s n i : fq s (fst (drop_outer s n i)).
Proof.
  unfold drop_outer. destruct (assoc i (ipins s n)) as [[w|]|] eqn:E; cbn [fst ret raise]; [| |apply fq_refl].
  - apply fq_mono; try reflexivity; cbn; intro y.
    + apply upd_nonnil. apply prf_nonnil.
    + apply upd_nonnil. apply assoc_del_nonnil.
  - apply fq_mono; try reflexivity; cbn; intro y; [auto|]. apply upd_nonnil. apply assoc_del_nonnil.
Qed.

Lemma fq_rekey s n cn : fq s (fst (rekey s n cn)).
Proof.
  unfold rekey. destruct cn as [cur new]. destruct (assoc cur (ipins s n)) as [ow|] eqn:E; [|apply fq_refl].
  pose proof (assoc_some_nonnil _ _ _ E) as Hne. destruct ow as [w|]; cbn [fst ret].
  - apply fq_mono; try reflexivity; cbn; intro y.
    + apply upd_nonnil. intro H. destruct (wpins s w); [exfalso; apply H; reflexivity|discriminate].
    + apply upd_nonnil. intros _. exact Hne.
  - apply fq_mono; try reflexivity; cbn; intro y; [auto|]. apply upd_nonnil. intros _. exact Hne.
Qed.

Lemma fq_new_outer s n i : kind_of s n = Some KInstance -> fq s (new_outer s n i).
Proof.
  intro Hk. unfold new_outer. constructor; cbn; auto. intros y H. unfold upd in H.
  destruct (Nat.eqb y n) eqn:E; [apply Nat.eqb_eq in E; subst y; right; exact Hk|left; exact H].
Qed.

(* the members of a reference set are instances *)
Definition DK (s : state) : Prop := forall d n, In n (drefs s d) -> kind_of s n = Some KInstance.
Lemma dk_of s : Inv2a s -> FT s -> DK s.
Proof. intros I2 T d n Hn. apply (ft_r _ T). apply (i2_ref _ I2) in Hn. rewrite Hn. discriminate. Qed.

Lemma fq_fold_new_outer (g : state -> id -> state) (L : list id) :
  (forall s n, kind_of s n = Some KInstance -> fq s (g s n) /\ kind_of (g s n) = kind_of s) ->
  forall s, (forall n, In n L -> kind_of s n = Some KInstance) -> fq s (fold_ids g L s) /\ kind_of (fold_ids g L s) = kind_of s.
Proof.
  intro Hg. induction L as [|n L IH]; intros s HL; cbn [fold_ids]; [split; [apply fq_refl|reflexivity]|].
  destruct (Hg s n (HL n (or_introl eq_refl))) as [Q K].
  destruct (IH (g s n)) as [Q2 K2]; [intros n0 H0; rewrite K; apply HL; right; exact H0|].
  split; [eapply fq_trans; eassumption|congruence].
Qed.

Lemma fq_add_post s r p c : DK s -> fq s (add_post s r p c).
Proof.
  intro D. unfold add_post. destruct r; try apply fq_refl.
  - apply (fq_fold_new_outer (fun s n => fold_ids (fun s i => new_outer s n i) (kids s RPins c) s)); [|intros n Hn; apply (D p n Hn)].
    intros s0 n Hk. generalize (kids s0 RPins c) as L. intro L. revert s0 Hk.
    induction L as [|i L IH]; intros s0 Hk; cbn [fold_ids]; [split; [apply fq_refl|reflexivity]|].
    destruct (IH (new_outer s0 n i) Hk) as [Q K]. split; [eapply fq_trans; [apply fq_new_outer; exact Hk|exact Q]|exact K].
  - destruct (par s RPorts p) as [d|]; [|apply fq_refl].
    apply (fq_fold_new_outer (fun s n => new_outer s n c)); [|intros n Hn; apply (D d n Hn)].
    intros s0 n Hk. split; [apply fq_new_outer; exact Hk|reflexivity].
Qed.

Lemma dk_same s s' : drefs s' = drefs s -> kind_of s' = kind_of s -> DK s -> DK s'.
Proof. intros A B D d n Hn. rewrite A in Hn. rewrite B. apply (D d n Hn). Qed.

Lemma fq_guard_same b x s k : fq s (fst (k s)) -> fq s (fst (guard b x s k)).
Proof. intro H. unfold guard. destruct b; [exact H|apply fq_refl]. Qed.

Lemma fq_op_add s r p c pos : DK s -> fq s (fst (op_add s r p c pos)).
Proof.
  intro D. unfold op_add. repeat apply fq_guard_same.
  pose proof (se_ns_add s p c (rel_child r)) as Hse.
  set (res := if ns_rel r then ns_add s p c (rel_child r) else ret s).
  assert (Hs : struct_eq s (fst res)) by (unfold res; destruct (ns_rel r); [exact Hse|apply struct_eq_refl]).
  destruct res as [sx [e|]]; cbn [bindR fst ret] in *; [apply fq_struct; exact Hs|].
  eapply fq_trans; [apply fq_struct; exact Hs|]. eapply fq_trans; [|apply fq_add_post].
  - fq_triv.
  - apply (dk_same s); [apply (se_drefs _ _ Hs)|apply (se_kind _ _ Hs)|exact D].
Qed.

Lemma fq_remove_core s r p c : fq s (fst (remove_core s r p c)).
Proof.
  unfold remove_core. apply fq_bind; [|intro; fq_triv].
  eapply fq_trans with (b := emit (if ns_rel r then ns_remove_child s p c (rel_child r) else s) (ERemove r p c)).
  - destruct (ns_rel r); [|fq_triv]. eapply fq_trans; [apply fq_struct, se_ns_remove_child|fq_triv].
  - destruct r; try apply fq_refl.
    + apply fq_fold_idsR. intros s0 n. apply fq_fold_idsR. intros; apply fq_drop_outer.
    + destruct (par _ RPorts p); [|apply fq_refl]. apply fq_fold_idsR. intros; apply fq_drop_outer.
Qed.

(* ---- the reference setter: every typed write is at the instance itself ---- *)
Record fx (x : id) (s s' : state) : Prop := mkFx {
  fx_kind : kind_of s' = kind_of s;
  fx_w : ipwire s' = ipwire s;
  fx_p : forall y, wpins s' y <> [] -> wpins s y <> [];
  fx_i : forall y, ipins s' y <> [] -> ipins s y <> [] \/ y = x;
  fx_r : forall y, iref s' y <> None -> iref s y <> None \/ y = x
}.
Lemma fx_refl x s : fx x s s. Proof. constructor; auto. Qed.
Lemma fx_trans x a b c : fx x a b -> fx x b c -> fx x a c.
Proof.
  intros [A0 A1 A2 A3 A4] [B0 B1 B2 B3 B4]. constructor; [congruence|congruence|auto| |]; intros y H.
  - destruct (B3 y H) as [H1|H1]; [apply A3; exact H1|right; exact H1].
  - destruct (B4 y H) as [H1|H1]; [apply A4; exact H1|right; exact H1].
Qed.
Lemma fx_bind x r f s : fx x s (fst r) -> (forall s1, fx x s1 (fst (f s1))) -> fx x s (fst (r >>= f)).
Proof. destruct r as [s1 [e|]]; cbn; intros H1 H2; [exact H1|]. eapply fx_trans; [exact H1|apply H2]. Qed.
Lemma fx_fold_idsR x f l : (forall s y, fx x s (fst (f s y))) -> forall s, fx x s (fst (fold_idsR f l s)).
Proof. intro H. induction l as [|y l IH]; intro s; cbn; [apply fx_refl|]. apply fx_bind; [apply H|apply IH]. Qed.
Lemma fx_fold_pairsR x f l : (forall s y, fx x s (fst (f s y))) -> forall s, fx x s (fst (fold_pairsR f l s)).
Proof. intro H. induction l as [|y l IH]; intro s; cbn; [apply fx_refl|]. apply fx_bind; [apply H|apply IH]. Qed.
Lemma fx_fold_ids x f l : (forall s y, fx x s (f s y)) -> forall s, fx x s (fold_ids f l s).
Proof. intro H. induction l as [|y l IH]; intro s; cbn; [apply fx_refl|]. eapply fx_trans; [apply H|apply IH]. Qed.
Lemma fx_of_fq_mono x s s' : kind_of s' = kind_of s -> ipwire s' = ipwire s -> iref s' = iref s ->
  (forall y, wpins s' y <> [] -> wpins s y <> []) -> (forall y, ipins s' y <> [] -> ipins s y <> []) -> fx x s s'.
Proof. intros A B E C D. constructor; try assumption; [intros y H; left; apply D; exact H|rewrite E; intros y H; left; exact H]. Qed.
Lemma fx_same x s s' : kind_of s' = kind_of s -> ipwire s' = ipwire s -> wpins s' = wpins s -> ipins s' = ipins s -> iref s' = iref s -> fx x s s'.
Proof. intros A B C D E. constructor; rewrite ?C, ?D, ?E; auto. Qed.

Lemma fx_drop_outer x s n i : fx x s (fst (drop_outer s n i)).
Proof.
  unfold drop_outer. destruct (assoc i (ipins s n)) as [[w|]|] eqn:E; cbn [fst ret raise]; [| |apply fx_refl].
  - apply fx_of_fq_mono; try reflexivity; cbn; intro y.
    + apply upd_nonnil. apply prf_nonnil.
    + apply upd_nonnil. apply assoc_del_nonnil.
  - apply fx_of_fq_mono; try reflexivity; cbn; intro y; [auto|]. apply upd_nonnil. apply assoc_del_nonnil.
Qed.
Lemma fx_rekey x s n cn : fx x s (fst (rekey s n cn)).
Proof.
  unfold rekey. destruct cn as [cur new]. destruct (assoc cur (ipins s n)) as [ow|] eqn:E; [|apply fx_refl].
  pose proof (assoc_some_nonnil _ _ _ E) as Hne. destruct ow as [w|]; cbn [fst ret].
  - apply fx_of_fq_mono; try reflexivity; cbn; intro y.
    + apply upd_nonnil. intro H. destruct (wpins s w); [exfalso; apply H; reflexivity|discriminate].
    + apply upd_nonnil. intros _. exact Hne.
  - apply fx_of_fq_mono; try reflexivity; cbn; intro y; [auto|]. apply upd_nonnil. intros _. exact Hne.
Qed.
Lemma fx_set_ipins x s l : fx x s (set_ipins s x l).
Proof.
  constructor; cbn; auto. intros y H. unfold upd in H. destruct (Nat.eqb y x) eqn:E; [right; apply Nat.eqb_eq; exact E|left; exact H].
Qed.
Lemma fx_set_iref x s v : fx x s (set_iref s x v).
Proof.
  constructor; cbn; auto. intros y H. unfold upd in H. destruct (Nat.eqb y x) eqn:E; [right; apply Nat.eqb_eq; exact E|left; exact H].
Qed.
Lemma fx_new_outer x s i : fx x s (new_outer s x i).
Proof. unfold new_outer. apply fx_set_ipins. Qed.

Lemma fx_op_set_reference s x v : fx x s (fst (op_set_reference s x v)).
Proof.
  unfold op_set_reference, guard.
  destruct (is_kind s x KInstance && _); [|apply fx_refl].
  destruct (match v, iref s x with Some d', Some d => same_shape s d d' | _, _ => true end); [|apply fx_refl].
  destruct v as [d'|].
  - apply fx_bind; [|intro s3; eapply fx_trans; [|apply fx_set_iref]; apply fx_same; reflexivity].
    destruct (iref _ x).
    + apply fx_bind; [destruct (memb _ _); apply fx_same; reflexivity|]. intro. apply fx_fold_pairsR. intros; apply fx_rekey.
    + cbn [fst ret]. eapply fx_trans; [|apply fx_fold_ids; intros; apply fx_new_outer]. apply fx_same; reflexivity.
  - apply fx_bind; [eapply fx_trans; [|apply fx_fold_idsR; intros; apply fx_drop_outer]; apply fx_same; reflexivity|].
    intro sx. apply fx_bind.
    + eapply fx_trans; [apply (fx_set_ipins x sx [])|]. destruct (iref _ x); [destruct (memb _ _)|]; apply fx_same; reflexivity.
    + intro. apply fx_set_iref.
Qed.

Lemma fq_op_set_reference s x v : fq s (fst (op_set_reference s x v)).
Proof.
  pose proof (fx_op_set_reference s x v) as [A B C D E].
  assert (Hx : kind_of s x = Some KInstance \/ fst (op_set_reference s x v) = s).
  { unfold op_set_reference, guard. destruct (is_kind s x KInstance && _) eqn:Hk; [|right; reflexivity].
    apply andb_true_iff in Hk as [Hk _]. left. unfold is_kind in Hk. destruct (kind_of s x) as [[]|]; try discriminate; reflexivity. }
  destruct Hx as [Hx|Hx]; [|rewrite Hx; apply fq_refl].
  constructor.
  - intros y k Hy. rewrite A. exact Hy.
  - intros y H. rewrite B in H. left. exact H.
  - intros y H. left. apply C. exact H.
  - intros y H. destruct (D y H) as [H1|H1]; [left; exact H1|subst y; right; rewrite A; exact Hx].
  - intros y H. destruct (E y H) as [H1|H1]; [left; exact H1|subst y; right; rewrite A; exact Hx].
Qed.

(* ---- allocation (needs freshness: the new identifier had no kind) ---- *)
Lemma fq_alloc s k : Fresh s -> fq s (s <| next := S (next s) |> <| kind_of ::= fun f => upd f (next s) (Some k) |>).
Proof.
  intro F. constructor; cbn; auto. intros x k0 Hx. unfold upd. destruct (Nat.eqb x (next s)) eqn:E; [|exact Hx].
  apply Nat.eqb_eq in E. subst x. rewrite (f_kind s F (next s) (Nat.le_refl _)) in Hx. discriminate.
Qed.

Lemma fq_construct s k nm props : Fresh s -> fq s (fst (fst (construct s k nm props))).
Proof.
  intro F. unfold construct, alloc. cbn zeta beta iota.
  set (s0 := s <| next := S (next s) |> <| kind_of ::= fun f => upd f (next s) (Some k) |>).
  assert (T0 : fq s s0) by (apply fq_alloc; exact F).
  destruct (has_data k); cbn [fst]; [|exact T0].
  eapply fq_trans; [exact T0|]. apply fq_bind; [apply fq_struct, se_ns_create|]. intro s1.
  apply fq_bind; [destruct nm; [eapply fq_trans; [|apply fq_struct, se_dict_set]; fq_triv|fq_triv]|].
  intro s3. apply fq_struct, se_set_props.
Qed.

Lemma dk_fq_new s k : Fresh s -> DK s -> DK (s <| next := S (next s) |> <| kind_of ::= fun f => upd f (next s) (Some k) |>).
Proof.
  intros F D d n Hn. cbn in *. unfold upd. destruct (Nat.eqb n (next s)) eqn:E; [|apply (D d n Hn)].
  apply Nat.eqb_eq in E. subst n. pose proof (D d _ Hn) as H. rewrite (f_kind s F (next s) (Nat.le_refl _)) in H. discriminate.
Qed.

Lemma dk_op_add s r p c pos : DK s -> DK (fst (op_add s r p c pos)).
Proof.
  intro D. apply (dk_same s); [|  |exact D].
  - apply (re_op_add s r p c pos).
  - pose proof (tstep_op_add s r p c pos) as T. pose proof (fresh_same) as _.
    unfold op_add, guard. destruct (_ && _); [|reflexivity]. destruct (add_guard1 _ _ _ _); [|reflexivity].
    destruct (par s r c); [reflexivity|].
    pose proof (se_ns_add s p c (rel_child r)) as Hse.
    set (res := if ns_rel r then ns_add s p c (rel_child r) else ret s).
    assert (Hs : kind_of (fst res) = kind_of s) by (unfold res; destruct (ns_rel r); [apply (se_kind _ _ Hse)|reflexivity]).
    destruct res as [sx [e|]]; cbn [bindR fst ret] in *; [exact Hs|]. rewrite (fw_kind _ _ (fw_add_post _ r p c)). exact Hs.
Qed.

Lemma fq_create_items r p : forall n s, Fresh s -> DK s -> fq s (fst (create_items s r p n)).
Proof.
  induction n as [|n IH]; intros s F D; cbn [create_items]; [apply fq_refl|].
  pose proof (fresh_alloc s (rel_child r) F) as F0. pose proof (fq_alloc s (rel_child r) F) as T0.
  pose proof (dk_fq_new s (rel_child r) F D) as D0.
  unfold alloc in *. cbn [fst] in *. cbn zeta.
  eapply fq_trans; [exact T0|].
  pose proof (fresh_op_add _ r p (next s) None F0) as F1.
  pose proof (fq_op_add _ r p (next s) None D0) as T1.
  pose proof (dk_op_add _ r p (next s) None D0) as D1.
  destruct (op_add _ r p (next s) None) as [s1 [x|]]; cbn [bindR fst] in *; [exact T1|].
  eapply fq_trans; [exact T1|apply IH; assumption].
Qed.

(* ---- wires and pins ---- *)
Lemma is_kind_eq s y k : is_kind s y k = true -> kind_of s y = Some k.
Proof. unfold is_kind. destruct (kind_of s y) as [k0|]; [|discriminate]. destruct k0, k; try discriminate; reflexivity. Qed.

Ltac upd_clause :=
  let y := fresh "y" in let H := fresh "H" in let E := fresh "E" in
  intros y H; unfold upd in H; destruct (Nat.eqb y _) eqn:E;
  [apply Nat.eqb_eq in E; subst y; first [right; assumption | exfalso; apply H; reflexivity] | left; exact H].

Lemma fq_op_connect s w p pos : fq s (fst (op_connect s w p pos)).
Proof.
  unfold op_connect, guard. destruct (is_kind s w KWire && pin_ok_kind s p) eqn:G; [|apply fq_refl].
  apply andb_true_iff in G as [Gw Gp]. apply is_kind_eq in Gw.
  destruct p as [i|n i|]; cbn [fst raise]; try apply fq_refl.
  - cbn in Gp. apply is_kind_eq in Gp. destruct (ipwire s i); cbn [fst raise ret]; [apply fq_refl|].
    constructor; cbn; auto; upd_clause.
  - cbn in Gp. apply andb_true_iff in Gp as [Gn _]. apply is_kind_eq in Gn.
    destruct (assoc i (ipins s n)) as [[w0|]|]; cbn [fst raise ret]; try apply fq_refl.
    constructor; cbn; auto; upd_clause.
Qed.

Lemma filter_nonnil {A} (f : A -> bool) l : filter f l <> [] -> l <> [].
Proof. destruct l; [intro H; exact H|discriminate]. Qed.

Lemma fq_set_pin_none s p : pin_ok_kind s p = true -> fq s (set_pin_wire s p None).
Proof.
  intro G. destruct p as [i|n i|]; cbn in *; [| |apply fq_refl].
  - constructor; cbn; auto; upd_clause.
  - apply andb_true_iff in G as [Gn _]. apply is_kind_eq in Gn. constructor; cbn; auto; upd_clause.
Qed.

Lemma fq_op_disconnect s w p : fq s (fst (op_disconnect s w p)).
Proof.
  unfold op_disconnect, guard. destruct (is_kind s w KWire && pin_ok_kind s p) eqn:G; [|apply fq_refl].
  apply andb_true_iff in G as [Gw Gp]. destruct (can_disconnect s w p); [|apply fq_refl].
  destruct p as [i|n i|]; cbn [fst ret].
  - eapply fq_trans; [|apply fq_set_pin_none; exact Gp].
    apply fq_mono; try reflexivity; cbn; intro y; [|auto]. apply upd_nonnil. apply prf_nonnil.
  - eapply fq_trans; [|apply fq_set_pin_none; exact Gp].
    apply fq_mono; try reflexivity; cbn; intro y; [|auto]. apply upd_nonnil. apply prf_nonnil.
  - eapply fq_trans; [|apply fq_set_pin_none; exact Gp].
    apply fq_mono; try reflexivity; cbn; intro y; [|auto]. apply upd_nonnil. apply prf_nonnil.
Qed.

Lemma pins_dedup_incl l : forall x, In x (pins_dedup l) -> In x l.
Proof.
  induction l as [|a l IH]; intros x H; cbn in *; [exact H|].
  destruct (pin_memb a l); [right; apply IH; exact H|]. destruct H as [<-|H]; [left; reflexivity|right; apply IH; exact H].
Qed.

Lemma pin_ok_kind_of s s' p : kind_of s' = kind_of s -> pin_ok_kind s' p = pin_ok_kind s p.
Proof. intro H. destruct p; cbn; unfold is_kind; rewrite ?H; reflexivity. Qed.

Lemma fq_op_disconnect_from s w ps : fq s (fst (op_disconnect_from s w ps)).
Proof.
  unfold op_disconnect_from, guard. destruct (is_kind s w KWire && forallb (pin_ok_kind s) ps) eqn:G; [|apply fq_refl].
  apply andb_true_iff in G as [_ Gp]. rewrite forallb_forall in Gp.
  destruct (forallb (can_disconnect s w) ps); [|apply fq_refl]. cbn [fst ret].
  set (f := fun (s0 : state) (p : pin) => match p with
              | POut _ _ => set_pin_wire (emit (emit s0 (EDisconnect w p)) (EDisconnect w p)) p None
              | _ => set_pin_wire (emit s0 (EDisconnect w p)) p None end).
  assert (Hstep : forall s0 p, pin_ok_kind s0 p = true -> fq s0 (f s0 p) /\ kind_of (f s0 p) = kind_of s0).
  { intros s0 p Hp. split.
    - unfold f. destruct p as [i|n i|].
      + eapply fq_trans; [|apply fq_set_pin_none; rewrite (pin_ok_kind_of s0); [exact Hp|reflexivity]]. fq_triv.
      + eapply fq_trans; [|apply fq_set_pin_none; rewrite (pin_ok_kind_of s0); [exact Hp|reflexivity]]. fq_triv.
      + cbn. fq_triv.
    - unfold f. destruct p; reflexivity. }
  assert (Hfold : forall L s0, (forall p, In p L -> pin_ok_kind s0 p = true) -> fq s0 (fold_left f L s0)).
  { induction L as [|p L IH]; intros s0 HL; cbn [fold_left]; [apply fq_refl|].
    destruct (Hstep s0 p (HL p (or_introl eq_refl))) as [Q K].
    eapply fq_trans; [exact Q|]. apply IH. intros q Hq. rewrite (pin_ok_kind_of s0 _ q K). apply HL. right. exact Hq. }
  eapply fq_trans; [apply (Hfold (pins_dedup ps) s)|].
  - intros p Hp. apply Gp. apply pins_dedup_incl. exact Hp.
  - apply fq_mono; try reflexivity; cbn; intro y; [|auto]. apply upd_nonnil. apply filter_nonnil.
Qed.

Lemma fq_clear_old_top s n : fq s (clear_old_top s n).
Proof. unfold clear_old_top. destruct (top s n); fq_triv. Qed.

(* ---- the invariant ---- *)
Theorem step_ft s o : Fresh s -> Inv2a s -> FT s -> FT (fst (step s o)).
Proof.
  intros F I2 T. pose proof (dk_of s I2 T) as D. apply (ft_fq s); [|exact T]. destruct o; cbn [step].
  - apply fq_construct; exact F.
  - apply fq_guard_same. unfold create_and_add.
    pose proof (fq_construct s (rel_child r) nm props F) as Tc. pose proof (fresh_construct s (rel_child r) nm props F) as Fc.
    pose proof (re_construct s (rel_child r) nm props) as Rc.
    destruct (construct s (rel_child r) nm props) as [res x]. cbn [fst] in *.
    destruct res as [s1 [e|]]; cbn [bindR fst] in *; [exact Tc|].
    assert (D1 : DK s1).
    { intros d n Hn. destruct Rc as [Rd _]. rewrite Rd in Hn. apply (fq_kind _ _ Tc). apply (D d n Hn). }
    pose proof (fq_op_add s1 r p x None D1) as Ta. pose proof (fresh_op_add s1 r p x None Fc) as Fa. pose proof (dk_op_add s1 r p x None D1) as Da.
    destruct (op_add s1 r p x None) as [s2 [e|]]; cbn [bindR fst] in *; [eapply fq_trans; eassumption|].
    eapply fq_trans; [exact Tc|]. eapply fq_trans; [exact Ta|].
    destruct r; try apply fq_refl; [apply fq_create_items; assumption|apply fq_create_items; assumption|apply fq_op_set_reference].
  - apply fq_guard_same. apply fq_create_items; assumption.
  - apply fq_op_add; exact D.
  - unfold op_remove. repeat apply fq_guard_same. apply fq_bind; [apply fq_remove_core|intro; fq_triv].
  - unfold op_remove_from. repeat apply fq_guard_same. apply fq_bind; [apply fq_fold_idsR; intros; apply fq_remove_core|intro; fq_triv].
  - unfold op_reorder. repeat apply fq_guard_same. fq_triv.
  - unfold op_reorder_wire, guard. destruct (is_kind s w KWire) eqn:G; [|apply fq_refl]. apply is_kind_eq in G.
    destruct (_ && _); [|apply fq_refl]. cbn [fst ret]. constructor; cbn; auto; upd_clause.
  - apply fq_op_connect.
  - apply fq_op_disconnect.
  - apply fq_op_disconnect_from.
  - apply fq_op_set_reference.
  - unfold op_set_top. apply fq_guard_same.
    set (s1 := clear_old_top (emit s (ETop n a)) n).
    assert (T1 : fq s s1) by (eapply fq_trans; [|apply fq_clear_old_top]; fq_triv).
    assert (F1 : Fresh s1) by (apply (fresh_same s); try (unfold s1, clear_old_top; destruct (top _ n); reflexivity); exact F).
    destruct a as [x|d|].
    + eapply fq_trans; [exact T1|fq_triv].
    + pose proof (fq_construct s1 KInstance None [] F1) as Tc.
      destruct (construct s1 KInstance None []) as [res t]. cbn [fst] in Tc.
      eapply fq_trans; [exact T1|]. apply fq_bind; [exact Tc|]. intro s2.
      apply fq_bind; [apply fq_op_set_reference|]. intro s3. cbn [fst ret].
      eapply fq_trans with (b := clear_old_top (emit (s3 <| istop ::= fun f => upd f t true |>) (ETop n (TopInst t))) n); [|fq_triv].
      eapply fq_trans; [|apply fq_clear_old_top]. fq_triv.
    + eapply fq_trans; [exact T1|fq_triv].
  - apply fq_guard_same. apply fq_struct, se_op_set_name.
  - apply fq_guard_same. apply fq_struct, se_op_del_name.
  - apply fq_guard_same. apply fq_struct, se_dict_set.
  - apply fq_guard_same. apply fq_struct, se_dict_del.
  - apply fq_guard_same. apply fq_struct, se_dict_pop.
  - apply fq_guard_same. fq_triv.
  - repeat apply fq_guard_same. fq_triv.
  - apply fq_guard_same. fq_triv.
  - apply fq_guard_same. fq_triv.
  - fq_triv.
Qed.

Lemma ft_init : FT init.
Proof. constructor; intros y H; exfalso; apply H; reflexivity. Qed.

Theorem reachable_ft ops : FT (run ops init).
Proof.
  assert (G : forall ops s, Inv s -> Fresh s -> FT s -> FT (run ops s)).
  { induction ops0 as [|o ops0 IH]; intros s HI F T; cbn [run fold_left]; [exact T|].
    apply IH; [apply (step_inv s o HI)|apply step_fresh; exact F|apply step_ft; [exact F|apply (inv_r _ HI)|exact T]]. }
  apply G; [apply inv_init|apply fresh_init|apply ft_init].
Qed.

(* with freshness: nothing at or above the counter *)
Lemma ft_above s : FT s -> Fresh s -> forall y, next s <= y -> ipwire s y = None /\ wpins s y = [] /\ ipins s y = [].
Proof.
  intros T F y Hy. pose proof (f_kind _ F y Hy) as Hk.
  split; [|split].
  - destruct (ipwire s y) eqn:E; [|reflexivity]. assert (H : ipwire s y <> None) by (rewrite E; discriminate). rewrite (ft_w _ T y H) in Hk. discriminate.
  - destruct (wpins s y) eqn:E; [reflexivity|]. assert (H : wpins s y <> []) by (rewrite E; discriminate). rewrite (ft_p _ T y H) in Hk. discriminate.
  - destruct (ipins s y) eqn:E; [reflexivity|]. assert (H : ipins s y <> []) by (rewrite E; discriminate). rewrite (ft_i _ T y H) in Hk. discriminate.
Qed.
