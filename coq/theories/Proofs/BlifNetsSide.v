(* EBLIF engine, connectivity clause of C18: the side conditions [sideOK] of the run (BlifNetsRun.v)
   follow from the boolean checks of BlifSpec.supported on the section (conns_last, nodup of the
   .conn operands, conn_fresh, bb_shape) and from the header order.  Lists only. *)
From Coq Require Import List Arith NArith Bool Lia Permutation.
From SV Require Import Base.Base Fmt.Blif Fmt.BlifRead Fmt.BlifSpec
  Proofs.BlifBase Proofs.BlifNetsBase Proofs.BlifNetsRel Proofs.BlifNetsSpec Proofs.BlifNetsShape
  Proofs.BlifWF Proofs.BlifExec Proofs.BlifNetsView Proofs.BlifNetsStep Proofs.BlifNetsInst Proofs.BlifNetsConn
  Proofs.BlifNetsExec Proofs.BlifNetsRun.
Import ListNotations.

Definition ops (cs : list (netbit * netbit)) : list str := flat_map (fun xy => [fst (fst xy); fst (snd xy)]) cs.
Definition merges (cs : list (netbit * netbit)) : list str :=
  map (fun xy => merge_name (fst (fst xy)) (snd (fst xy)) (fst (snd xy)) (snd (snd xy))) cs.

Lemma touched_in c cs : In c (touched cs) -> In c (ops cs) \/ In c (merges cs).
Proof.
  unfold touched, ops, merges. induction cs as [|xy cs IH]; cbn; [tauto|].
  intros [H|[H|[H|H]]]; auto. destruct (IH H); auto.
Qed.

Definition attach_stmt (x : stmt) : Prop :=
  match x with SInputs _ | SOutputs _ | SSub _ _ _ | SNames _ | SLatch _ => True | _ => False end.
Definition quiet_stmt (x : stmt) : Prop := ~ attach_stmt x /\ forall a b, x <> SConn a b.
Definition hb_stmt (x : stmt) : Prop :=
  match x with SInputs _ | SOutputs _ | SClock _ | SBlackbox => True | _ => False end.
Definition nph (x : stmt) : nat :=
  match x with SInputs _ => 0 | SOutputs _ => 1 | SClock _ => 2 | _ => 3 end.

Record Pre (ph : nat) (st : nst) (body : list stmt) : Prop := {
  p_last : conns_last body = true;
  p_noatt : n_conns st <> [] -> Forall (fun x => ~ attach_stmt x) body;
  p_nodup : NoDup (ops (n_conns st) ++ conn_cables body);
  p_fresh : forall c, In c (conn_cables body) -> ~ In c (merges (n_conns st) ++ conn_merge_names body);
  p_bb : n_bb st = true -> Forall quiet_stmt body;
  p_shape : has_blackbox body = true -> Forall hb_stmt body;
  p_hdr : hdr_body ph body;
  p_ph : ph = 0 -> n_outn st = [] }.

Lemma hb_after_bb body : hdr_body 3 body -> Forall hb_stmt body -> Forall quiet_stmt body.
Proof.
  induction body as [|x r IH]; intros Hh Hb; [constructor|]. inversion Hb as [|? ? Hx Hr]; subst.
  destruct x; cbn in Hx, Hh; try contradiction; try (destruct Hh; lia).
  constructor; [|apply IH; assumption]. split; [intros []|]. intros a b E. discriminate.
Qed.

Lemma conn_cables_cons x body :
  conn_cables (x :: body) = (match x with SConn _ _ => cables_of_stmt x | _ => [] end) ++ conn_cables body.
Proof. reflexivity. Qed.

Lemma NoDup_drop_mid {A} (a b c : list A) : NoDup (a ++ b ++ c) -> NoDup (a ++ c).
Proof.
  intro H. apply NoDup_app_iff in H as [H1 [H2 H3]]. apply NoDup_app_iff in H2 as [H4 [H5 H6]].
  apply NoDup_app_iff. repeat split; auto. intros x Hx Hc. apply (H3 x Hx). apply in_app_iff. auto.
Qed.

Lemma has_blackbox_cons x body : has_blackbox (x :: body) = (match x with SBlackbox => true | _ => false end) || has_blackbox body.
Proof. reflexivity. Qed.

Definition vis (x : stmt) : Prop := match x with SModel _ | SEnd | SComment _ => False | _ => True end.

Lemma conns_last_tail x body : conns_last (x :: body) = true -> conns_last body = true.
Proof. destruct x; cbn; auto. intro H. apply andb_true_iff in H. tauto. Qed.

Lemma pre_step ph st x body :
  Pre ph st (x :: body) -> vis x -> cond x st /\ Pre (nph x) (step_n x st) body.
Proof.
  intros [P1 P2 P3 P4 P5 P6 P7 P8] Hv.
  assert (Hatt : attach_stmt x -> n_conns st = [] /\ n_bb st = false).
  { intro Ha. split.
    - destruct (n_conns st) eqn:E; [reflexivity|]. exfalso. assert (Hn : n_conns st <> []) by (rewrite E; discriminate).
      rewrite <- E in *. specialize (P2 Hn). inversion P2; subst. contradiction.
    - destruct (n_bb st) eqn:E; [|reflexivity]. exfalso. specialize (P5 eq_refl). inversion P5 as [|? ? [Hq _] _]; subst. contradiction. }
  assert (Htail : forall st', n_conns st' = n_conns st -> n_bb st' = n_bb st -> n_outn st' = n_outn st \/ nph x <> 0 ->
            x <> SBlackbox -> Pre (nph x) st' body).
  { intros st' E1 E2 E3 Hnb. constructor; rewrite ?E1, ?E2.
    - eapply conns_last_tail; eauto.
    - intro Hn. specialize (P2 Hn). inversion P2; assumption.
    - rewrite conn_cables_cons in P3. apply (NoDup_drop_mid _ _ _ P3).
    - intros c Hc. assert (Hc' : In c (conn_cables (x :: body))) by (rewrite conn_cables_cons; apply in_app_iff; auto).
      specialize (P4 c Hc'). intro Hin. apply P4. apply in_app_iff in Hin as [Hin|Hin]; apply in_app_iff; [auto|right].
      unfold conn_merge_names in *. cbn [flat_map]. apply in_app_iff. auto.
    - intro Hb. specialize (P5 Hb). inversion P5; assumption.
    - intro Hb. assert (Hb' : has_blackbox (x :: body) = true) by (rewrite has_blackbox_cons, Hb; apply orb_true_r).
      specialize (P6 Hb'). inversion P6; assumption.
    - destruct x; cbn in P7 |- *; try tauto; try contradiction.
    - intro E. destruct E3 as [E3|E3]; [|contradiction]. rewrite E3. destruct x; cbn in E; try discriminate.
      apply P8. cbn in P7. tauto. }
  destruct x; try contradiction.
  - (* .inputs *) destruct (Hatt I) as [C1 C2]. cbn in P7. destruct P7 as [-> P7].
    split; [cbn; auto|]. apply Htail; cbn [step_n]; rewrite ?in_toks_eq; try reflexivity; try discriminate; auto.
  - destruct (Hatt I) as [C1 C2]. split; [cbn; auto|].
    apply Htail; cbn [step_n]; rewrite ?out_toks_eq; try reflexivity; try discriminate. right. cbn. discriminate.
  - split; [exact I|]. apply Htail; try reflexivity; try discriminate. right. cbn. discriminate.
  - destruct (Hatt I) as [C1 C2]. split; [cbn; auto|]. apply Htail; try reflexivity; try discriminate. right. cbn. discriminate.
  - destruct (Hatt I) as [C1 C2]. split; [cbn; auto|]. apply Htail; try reflexivity; try discriminate. right. cbn. discriminate.
  - split; [exact I|]. apply Htail; try reflexivity; try discriminate. right. cbn. discriminate.
  - destruct (Hatt I) as [C1 C2]. split; [cbn; auto|]. apply Htail; try reflexivity; try discriminate. right. cbn. discriminate.
  - split; [exact I|]. apply Htail; try reflexivity; try discriminate. right. cbn. discriminate.
  - split; [exact I|]. apply Htail; try reflexivity; try discriminate. right. cbn. discriminate.
  - split; [exact I|]. apply Htail; try reflexivity; try discriminate. right. cbn. discriminate.
  - (* .conn *)
    assert (Cbb : n_bb st = false).
    { destruct (n_bb st) eqn:E; [|reflexivity]. exfalso. specialize (P5 eq_refl). inversion P5 as [|? ? [_ Hq] _]; subst.
      eapply Hq; reflexivity. }
    cbn [conns_last] in P1. apply andb_true_iff in P1 as [P1a P1b].
    assert (Hquiet : Forall (fun x => ~ attach_stmt x) body).
    { apply Forall_forall. intros y Hy Ha. rewrite forallb_forall in P1a. specialize (P1a y Hy). destruct y; try discriminate; contradiction. }
    rewrite conn_cables_cons in P3. cbn [cables_of_stmt] in P3.
    cbn [step_n cond nph]. destruct (nb_of a) as [[an ai]|] eqn:Ea; destruct (nb_of b) as [[bn bi]|] eqn:Eb.
    + cbn [app] in P3. split.
      * split; [exact Cbb|]. intros an' ai' bn' bi' E1 E2. inversion E1; inversion E2; subst.
        assert (Hnd2 := P3). apply NoDup_app_iff in Hnd2 as [_ [Hnd2 Hdis]]. inversion Hnd2 as [|? ? Hn1 Hn2]; subst.
        split; [intro E; subst; apply Hn1; left; reflexivity|].
        split; intro Ht; apply touched_in in Ht as [Ht|Ht].
        -- apply (Hdis _ Ht). left. reflexivity.
        -- apply (P4 an'); [rewrite conn_cables_cons; cbn [cables_of_stmt]; rewrite Ea; left; reflexivity|]. apply in_app_iff. auto.
        -- apply (Hdis _ Ht). right. left. reflexivity.
        -- apply (P4 bn'); [rewrite conn_cables_cons; cbn [cables_of_stmt]; rewrite Ea, Eb; right; left; reflexivity|]. apply in_app_iff. auto.
      * constructor; cbn [n_conns n_bb n_outn].
        -- exact P1b.
        -- intros _. exact Hquiet.
        -- unfold ops in *. rewrite flat_map_app. cbn [flat_map fst snd app]. rewrite <- app_assoc. exact P3.
        -- intros c Hc. assert (Hc' : In c (conn_cables (SConn a b :: body))) by (rewrite conn_cables_cons; apply in_app_iff; auto).
           specialize (P4 c Hc'). intro Hin. apply P4. unfold merges in *. rewrite map_app in Hin. cbn [map fst snd] in Hin.
           unfold conn_merge_names in *. cbn [flat_map]. rewrite Ea, Eb.
           apply in_app_iff in Hin as [Hin|Hin]; [apply in_app_iff in Hin as [Hin|[<-|[]]]|]; apply in_app_iff; auto.
           ++ right. left. reflexivity.
           ++ right. right. exact Hin.
        -- intro Hb. congruence.
        -- intro Hb. assert (Hb' : has_blackbox (SConn a b :: body) = true) by (rewrite has_blackbox_cons, Hb; reflexivity).
           specialize (P6 Hb'). inversion P6; assumption.
        -- cbn in P7. exact P7.
        -- discriminate.
    + split; [split; [exact Cbb|]; intros; discriminate|]. apply (Htail st); try reflexivity; try discriminate. right. cbn. discriminate.
    + split; [split; [exact Cbb|]; intros; discriminate|]. apply (Htail st); try reflexivity; try discriminate. right. cbn. discriminate.
    + split; [split; [exact Cbb|]; intros; discriminate|]. apply (Htail st); try reflexivity; try discriminate. right. cbn. discriminate.
  - (* .blackbox *)
    split; [exact I|]. cbn [step_n nph]. cbn in P7.
    assert (Hall : Forall hb_stmt (SBlackbox :: body)) by (apply P6; reflexivity). inversion Hall as [|? ? _ Hb]; subst.
    constructor; cbn [n_conns n_bb n_outn].
    + eapply conns_last_tail; eauto.
    + intro Hn. specialize (P2 Hn). inversion P2; assumption.
    + exact P3.
    + intros c Hc. exact (P4 c Hc).
    + intros _. apply hb_after_bb; assumption.
    + intros _. exact Hb.
    + exact P7.
    + discriminate.
  - split; [exact I|]. apply Htail; try reflexivity; try discriminate. right. cbn. discriminate.
Qed.

Lemma sideOK_of nm ss : forall cur st,
  NoDup (model_names ss) -> (nm = cur -> ~ In nm (model_names ss)) ->
  (nm = cur -> exists ph, Pre ph st (body_of nm cur ss)) ->
  (In nm (model_names ss) -> Pre 0 st (body_of nm cur ss) /\ n_bb st = false) ->
  sideOK nm cur ss st.
Proof.
  induction ss as [|x r IH]; intros cur st Hnd Hc Hp Hf; [exact I|]. cbn [sideOK].
  assert (Hvis : vis x -> model_names (x :: r) = model_names r /\ next_c cur x = cur /\
            step_g nm cur x st = (if str_eqb nm cur then step_n x st else st) /\
            body_of nm cur (x :: r) = (if str_eqb nm cur then [x] else []) ++ body_of nm cur r).
  { intro Hx. destruct x; try contradiction; (split; [reflexivity|]; split; [reflexivity|]; split; [reflexivity|];
      rewrite body_of_cons, (str_eqb_sym cur nm); reflexivity). }
  destruct x; try (destruct (Hvis I) as [En [Ec [Es Eb]]]; rewrite En in *; rewrite Ec, Es; rewrite Eb in Hp, Hf; clear Hvis;
    destruct (str_eqb nm cur) eqn:E;
    [apply str_eqb_spec in E; destruct (Hp E) as [ph Hpre]; cbn [app] in Hpre;
     destruct (pre_step _ _ _ _ Hpre I) as [Hcond Hpre']; split; [intros _; exact Hcond|]; split; [intros c Ex; discriminate|];
     apply IH; [exact Hnd|exact Hc|intros _; eauto|intro Hin; exfalso; exact (Hc E Hin)]
    |pose proof E as E'; apply str_eqb_false in E'; split; [intro; contradiction|]; split; [intros c Ex; discriminate|];
     apply IH; [exact Hnd|exact Hc|intro; contradiction|exact Hf]]).
  - (* comment *) split; [intros _; exact I|]. split; [intros c Ex; discriminate|]. cbn [next_c step_g]. apply IH; auto.
  - (* .model *)
    cbn [model_names next_c step_g] in *. inversion Hnd as [|? ? Hn1 Hn2]; subst.
    split; [intros _; exact I|]. split.
    + intros c Ex En. inversion Ex as [Ec']. apply Hf. left. congruence.
    + destruct (str_eqb nm nm0) eqn:E.
      * apply str_eqb_spec in E. subst nm0. destruct (Hf (or_introl eq_refl)) as [Hpre Hb]. rewrite body_of_cons in Hpre.
        apply IH; [exact Hn2|intros _; exact Hn1| |intro Hin; contradiction].
        intros _. exists 0. destruct Hpre as [P1 P2 P3 P4 P5 P6 P7 P8]. constructor; auto.
      * pose proof E as E'. apply str_eqb_false in E'. apply IH; [exact Hn2|intro E2; congruence|intro E2; congruence|].
        intro Hin. specialize (Hf (or_intror Hin)). rewrite body_of_cons in Hf. exact Hf.
  - (* .end *)
    cbn [model_names next_c step_g] in *. rewrite body_of_cons in Hp, Hf.
    split; [intros _; exact I|]. split; [intros c Ex; discriminate|].
    destruct (str_eqb nm cur) eqn:E.
    + apply IH; [exact Hnd|exact Hc| |intro Hin; apply str_eqb_spec in E; exfalso; exact (Hc E Hin)].
      intro En. destruct (Hp En) as [ph [P1 P2 P3 P4 P5 P6 P7 P8]]. exists ph. constructor; auto.
    + apply IH; auto.
Qed.

(* the start: the booleans of BlifSpec.body_ok and the header order give [Pre] *)
Lemma nodup_strs_NoDup' l : nodup_strs l = true -> NoDup l.
Proof.
  induction l as [|x l IH]; cbn; intro H; [constructor|].
  apply andb_true_iff in H as [H1 H2]. constructor; [|auto].
  intro Hin. apply negb_true_iff in H1. assert (existsb (str_eqb x) l = true); [|congruence].
  apply existsb_exists. exists x. split; [assumption|apply str_eqb_refl].
Qed.

Lemma pre_start body :
  conns_last body = true -> nodup_strs (conn_cables body) = true -> conn_fresh body = true ->
  bb_shape body = true -> hdr_body 0 body -> Pre 0 st0 body.
Proof.
  intros H1 H2 H3 H4 H5. constructor; cbn [st0 n_conns n_bb n_outn ops merges flat_map map app]; auto.
  - intro H. contradiction.
  - apply nodup_strs_NoDup'. exact H2.
  - intros c Hc Hin. unfold conn_fresh in H3. rewrite forallb_forall in H3. specialize (H3 c Hc).
    apply negb_true_iff in H3. assert (existsb (str_eqb c) (conn_merge_names body) = true); [|congruence].
    apply existsb_exists. exists c. split; [exact Hin|apply str_eqb_refl].
  - discriminate.
  - intro Hb. unfold bb_shape in H4. rewrite Hb in H4. cbn in H4. apply Forall_forall. intros x Hx.
    rewrite forallb_forall in H4. specialize (H4 x Hx). destruct x; try discriminate; exact I.
Qed.
