(* EBLIF engine, connectivity clause of C18: the side conditions [sideOK] of the run (BlifNetsRun.v)
   follow from the boolean check bb_shape of BlifSpec.supported on the section and from the header
   order.  Lists only. *)
From Coq Require Import List Arith NArith Bool Lia Permutation.
From SV Require Import Base.Base Fmt.Blif Fmt.BlifRead Fmt.BlifSpec
  Proofs.BlifBase Proofs.BlifNetsBase Proofs.BlifNetsRel Proofs.BlifNetsSpec Proofs.BlifNetsShape
  Proofs.BlifWF Proofs.BlifExec Proofs.BlifNetsView Proofs.BlifNetsStep Proofs.BlifNetsInst Proofs.BlifNetsConn
  Proofs.BlifNetsExec Proofs.BlifNetsRun.
Import ListNotations.

Definition attach_stmt (x : stmt) : Prop :=
  match x with SInputs _ | SOutputs _ | SSub _ _ _ | SNames _ | SLatch _ => True | _ => False end.
Definition quiet_stmt (x : stmt) : Prop := ~ attach_stmt x /\ forall a b, x <> SConn a b.
Definition hb_stmt (x : stmt) : Prop :=
  match x with SInputs _ | SOutputs _ | SClock _ | SBlackbox => True | _ => False end.
Definition nph (x : stmt) : nat :=
  match x with SInputs _ => 0 | SOutputs _ => 1 | SClock _ => 2 | _ => 3 end.

Record Pre (ph : nat) (st : nst) (body : list stmt) : Prop := {
  p_bb : n_bb st = true -> Forall quiet_stmt body;
  p_shape : has_blackbox body = true -> Forall hb_stmt body;
  p_hdr : hdr_body ph body;
  p_ph : ph = 0 -> n_outn st = [] }.

Lemma hb_after_bb body : hdr_body 3 body -> Forall hb_stmt body -> Forall quiet_stmt body.
Proof.
  induction body as [|x r IH]; intros Hh Hb; [constructor|]. inversion Hb as [|? ? Hx Hr]; subst.
  destruct x; cbn in Hx, Hh; try contradiction; try (destruct Hh; lia).
  constructor; [|apply IH; assumption]. split; [intros []|]. intros a b E. discriminate.
Qed.

Lemma has_blackbox_cons x body : has_blackbox (x :: body) = (match x with SBlackbox => true | _ => false end) || has_blackbox body.
Proof. reflexivity. Qed.

Definition vis (x : stmt) : Prop := match x with SModel _ | SEnd | SComment _ => False | _ => True end.

Lemma pre_step ph st x body :
  Pre ph st (x :: body) -> vis x -> cond x st /\ Pre (nph x) (step_n x st) body.
Proof.
  intros [P5 P6 P7 P8] Hv.
  assert (Hatt : (attach_stmt x \/ exists a b, x = SConn a b) -> n_bb st = false).
  { intro Ha. destruct (n_bb st) eqn:E; [|reflexivity]. exfalso. specialize (P5 eq_refl). inversion P5 as [|? ? [Hq1 Hq2] _]; subst.
    destruct Ha as [Ha|[a [b ->]]]; [contradiction|]. eapply Hq2; reflexivity. }
  assert (Htail : forall st', n_bb st' = n_bb st -> n_outn st' = n_outn st \/ nph x <> 0 ->
            x <> SBlackbox -> Pre (nph x) st' body).
  { intros st' E2 E3 Hnb. constructor; rewrite ?E2.
    - intro Hb. specialize (P5 Hb). inversion P5; assumption.
    - intro Hb. assert (Hb' : has_blackbox (x :: body) = true) by (rewrite has_blackbox_cons, Hb; apply orb_true_r).
      specialize (P6 Hb'). inversion P6; assumption.
    - destruct x; cbn in P7 |- *; try tauto; try contradiction.
    - intro E. destruct E3 as [E3|E3]; [|contradiction]. rewrite E3. destruct x; cbn in E; try discriminate.
      apply P8. cbn in P7. tauto. }
  destruct x; try contradiction.
  - (* .inputs *) pose proof (Hatt (or_introl I)) as C2. cbn in P7. destruct P7 as [-> P7].
    split; [cbn; auto|]. apply Htail; cbn [step_n]; rewrite ?in_toks_eq; try reflexivity; try discriminate; auto.
  - pose proof (Hatt (or_introl I)) as C2. split; [cbn; auto|].
    apply Htail; cbn [step_n]; rewrite ?out_toks_eq; try reflexivity; try discriminate. right. cbn. discriminate.
  - split; [exact I|]. apply Htail; try reflexivity; try discriminate. right. cbn. discriminate.
  - pose proof (Hatt (or_introl I)) as C2. split; [cbn; auto|]. apply Htail; try reflexivity; try discriminate. right. cbn. discriminate.
  - pose proof (Hatt (or_introl I)) as C2. split; [cbn; auto|]. apply Htail; try reflexivity; try discriminate. right. cbn. discriminate.
  - split; [exact I|]. apply Htail; try reflexivity; try discriminate. right. cbn. discriminate.
  - pose proof (Hatt (or_introl I)) as C2. split; [cbn; auto|]. apply Htail; try reflexivity; try discriminate. right. cbn. discriminate.
  - split; [exact I|]. apply Htail; try reflexivity; try discriminate. right. cbn. discriminate.
  - split; [exact I|]. apply Htail; try reflexivity; try discriminate. right. cbn. discriminate.
  - split; [exact I|]. apply Htail; try reflexivity; try discriminate. right. cbn. discriminate.
  - (* .conn *)
    assert (Cbb : n_bb st = false) by (apply Hatt; right; eauto).
    split; [exact Cbb|]. apply Htail; try discriminate; [|right; cbn; discriminate].
    cbn [step_n]. destruct (nb_of a), (nb_of b); reflexivity.
  - (* .blackbox *)
    split; [exact I|]. cbn [step_n nph]. cbn in P7.
    assert (Hall : Forall hb_stmt (SBlackbox :: body)) by (apply P6; reflexivity). inversion Hall as [|? ? _ Hb]; subst.
    constructor; cbn [n_conns n_bb n_outn].
    + intros _. apply hb_after_bb; assumption.
    + intros _. exact Hb.
    + exact P7.
    + discriminate.
  - split; [exact I|]. apply Htail; try reflexivity; try discriminate. right. cbn. discriminate.
Qed.

Lemma sideOK_of nm ss : forall cur st,
  NoDup (model_names ss) -> (nm = cur -> ~ In nm (model_names ss)) ->
  (nm = cur -> exists ph, Pre ph st (body_of nm cur ss)) ->
  (In nm (model_names ss) -> Pre 0 st (body_of nm cur ss) /\ n_bb st = false /\ n_att st = [] /\ n_conns st = []) ->
  sideOK nm cur ss st.
Proof.
  induction ss as [|x r IH]; intros cur st Hnd Hc Hp Hf; [exact I|]. cbn [sideOK].
  assert (Hvis : vis x -> model_names (x :: r) = model_names r /\ next_c cur x = cur /\
            step_g nm cur x st = (if str_eqb nm cur then step_n x st else st) /\
            body_of nm cur (x :: r) = (if str_eqb nm cur then [x] else []) ++ body_of nm cur r).
  { intro Hx. destruct x; try contradiction; (split; [reflexivity|]; split; [reflexivity|]; split; [reflexivity|];
      rewrite body_of_cons, (str_eqb_sym cur nm); reflexivity). }
  destruct x; try (destruct (Hvis I) as [En [Ec [Es Eb]]]; rewrite En in *; rewrite Ec, Es; rewrite Eb in Hp, Hf; clear Hvis;
    destruct (str_eqb nm cur) eqn:E;
    [apply str_eqb_spec in E; destruct (Hp E) as [ph Hpre]; cbn [app] in Hpre;
     destruct (pre_step _ _ _ _ Hpre I) as [Hcond Hpre']; split; [intros _; exact Hcond|]; split; [intros c Ex; discriminate|];
     apply IH; [exact Hnd|exact Hc|intros _; eauto|intro Hin; exfalso; exact (Hc E Hin)]
    |pose proof E as E'; apply str_eqb_false in E'; split; [intro; contradiction|]; split; [intros c Ex; discriminate|];
     apply IH; [exact Hnd|exact Hc|intro; contradiction|exact Hf]]).
  - (* comment *) split; [intros _; exact I|]. split; [intros c Ex; discriminate|]. cbn [next_c step_g]. apply IH; auto.
  - (* .model *)
    cbn [model_names next_c step_g] in *. inversion Hnd as [|? ? Hn1 Hn2]; subst.
    split; [intros _; exact I|]. split.
    + intros c Ex En. inversion Ex as [Ec']. assert (Hin : In nm (nm0 :: model_names r)) by (left; congruence). destruct (Hf Hin) as [_ A]. exact A.
    + destruct (str_eqb nm nm0) eqn:E.
      * apply str_eqb_spec in E. subst nm0. destruct (Hf (or_introl eq_refl)) as [Hpre Hb]. rewrite body_of_cons in Hpre.
        apply IH; [exact Hn2|intros _; exact Hn1| |intro Hin; contradiction].
        intros _. exists 0. destruct Hpre as [P5 P6 P7 P8]. constructor; auto.
      * pose proof E as E'. apply str_eqb_false in E'. apply IH; [exact Hn2|intro E2; congruence|intro E2; congruence|].
        intro Hin. specialize (Hf (or_intror Hin)). rewrite body_of_cons in Hf. exact Hf.
  - (* .end *)
    cbn [model_names next_c step_g] in *. rewrite body_of_cons in Hp, Hf.
    split; [intros _; exact I|]. split; [intros c Ex; discriminate|].
    destruct (str_eqb nm cur) eqn:E.
    + apply IH; [exact Hnd|exact Hc| |intro Hin; apply str_eqb_spec in E; exfalso; exact (Hc E Hin)].
      intro En. destruct (Hp En) as [ph [P5 P6 P7 P8]]. exists ph. constructor; auto.
    + apply IH; auto.
Qed.

(* the start: the boolean bb_shape of BlifSpec.body_ok and the header order give [Pre] *)
Lemma pre_start body : bb_shape body = true -> hdr_body 0 body -> Pre 0 st0 body.
Proof.
  intros H4 H5. constructor; cbn [st0 n_conns n_bb n_outn]; auto.
  - discriminate.
  - intro Hb. unfold bb_shape in H4. rewrite Hb in H4. cbn in H4. apply Forall_forall. intros x Hx.
    rewrite forallb_forall in H4. specialize (H4 x Hx). destruct x; try discriminate; exact I.
Qed.
