(* C02, last clause: re-pointing an instance to a shape-compatible definition keeps every
   connection on the corresponding pin - both as seen from the pins (pin_wire) and as seen from
   the wires (same pins, same positions, each outer pin replaced by its counterpart). *)
From Coq Require Import List Arith Bool Lia.
From RecordUpdate Require Import RecordSet.
From SV Require Import Base.Base IR.State IR.NS IR.Ops Proofs.AssocX Proofs.Frame Proofs.Inv1a Proofs.Inv2a
  Proofs.InvP Proofs.InvW.
Import ListNotations RecordSetNotations.

Definition rekey_pw_fun (x c n : id) (f : pin -> option id) : pin -> option id :=
  fun q => if pin_eqb q (POut x n) then f (POut x c) else if pin_eqb q (POut x c) then None else f q.

Fixpoint pw_after (x : id) (ps : list (id * id)) (f : pin -> option id) : pin -> option id :=
  match ps with [] => f | (c, n) :: ps' => pw_after x ps' (rekey_pw_fun x c n f) end.

Definition seq_rename (x : id) (ps : list (id * id)) (q : pin) : pin :=
  fold_left (fun q cn => rename_pin (POut x (fst cn)) (POut x (snd cn)) q) ps q.

Lemma rekey_pw s x c n : In c (keys s x) ->
  forall q, pin_wire (fst (rekey s x (c, n))) q = rekey_pw_fun x c n (pin_wire s) q.
Proof.
  intros Hc q. unfold rekey, rekey_pw_fun. apply assoc_In_fst in Hc as [ow Hc]. rewrite Hc. cbn [fst ret].
  set (l' := assoc_set n ow (assoc_del c (ipins s x))).
  assert (Hq1 : pin_wire (set_ipins s x l') q = if pin_eqb q (POut x n) then pin_wire s (POut x c)
                                          else if pin_eqb q (POut x c) then None else pin_wire s q).
  { destruct q as [j|m j|]; cbn; try reflexivity. unfold upd.
    destruct (Nat.eqb_spec m x) as [->|Hmx]; cbn; [|reflexivity].
    unfold l'. destruct (Nat.eqb_spec j n) as [->|Hjn]; [rewrite assoc_set_same, Hc; reflexivity|].
    rewrite assoc_set_other by assumption.
    destruct (Nat.eqb_spec j c) as [->|Hjc]; [rewrite assoc_del_same; reflexivity|].
    rewrite assoc_del_other by assumption. reflexivity. }
  destruct ow as [w|]; [|exact Hq1]. rewrite <- Hq1. apply pw_ext; reflexivity.
Qed.

Lemma map_rename_notin a b l : ~ In a l -> map (rename_pin a b) l = l.
Proof.
  induction l as [|q l IH]; cbn; [reflexivity|]. intro H. rewrite IH by tauto. f_equal.
  unfold rename_pin. destruct (pin_eqb q a) eqn:E; [apply pin_eqb_spec in E; subst; tauto|reflexivity].
Qed.

Lemma rekey_wpins s x c n : InvP s -> In c (keys s x) ->
  forall w0, wpins (fst (rekey s x (c, n))) w0 = map (rename_pin (POut x c) (POut x n)) (wpins s w0).
Proof.
  intros Hp Hc w0. unfold rekey. apply assoc_In_fst in Hc as [ow Hc]. rewrite Hc. cbn [fst ret].
  assert (Ha : forall w', In (POut x c) (wpins s w') <-> ow = Some w').
  { intro w'. rewrite (p_pins s Hp). cbn. rewrite Hc. reflexivity. }
  destruct ow as [w|]; cbn.
  - unfold upd. destruct (Nat.eqb_spec w0 w) as [->|Hne]; [reflexivity|].
    symmetry. apply map_rename_notin. rewrite Ha. intro H. injection H as ->. contradiction.
  - symmetry. apply map_rename_notin. rewrite Ha. discriminate.
Qed.

(* the whole loop, targets fresh *)
Lemma fold_rekey_fresh_full x : forall ps s,
  InvP s -> NoDup (keys s x) -> NoDup (map fst ps) -> NoDup (map snd ps) ->
  (forall c, In c (map fst ps) -> In c (keys s x)) ->
  (forall n, In n (map snd ps) -> ~ In n (keys s x) /\ ~ In n (map fst ps)) ->
  let s' := fst (fold_pairsR (fun s cn => rekey s x cn) ps s) in
  (forall q, pin_wire s' q = pw_after x ps (pin_wire s) q) /\
  (forall w, wpins s' w = map (seq_rename x ps) (wpins s w)).
Proof.
  induction ps as [|[c n] ps IH]; intros s Hp Hnd Hf Hs Hck Hnk; cbn [fold_pairsR].
  - cbn. split; [reflexivity|]. intro w. unfold seq_rename. cbn. symmetry. apply map_id.
  - cbn [map fst snd] in *. inversion Hf as [|? ? Hcf Hf']; subst. inversion Hs as [|? ? Hns Hs']; subst.
    destruct (Hnk n (or_introl eq_refl)) as [Hn1 Hn2].
    pose proof (rekey_pw s x c n (Hck c (or_introl eq_refl))) as Hpw.
    pose proof (rekey_wpins s x c n Hp (Hck c (or_introl eq_refl))) as Hwp.
    destruct (rekey_spec s x c n Hp Hnd (Hck c (or_introl eq_refl)) (or_intror Hn1)) as [Hr [Hp1 [Hf1 [Hw1 [Hk1 [Hnd1 Ho1]]]]]].
    destruct (rekey s x (c, n)) as [s1 [e|]]; cbn [fst snd] in *; [discriminate|]. cbn [bindR].
    assert (Hck' : forall c', In c' (map fst ps) -> In c' (keys s1 x)).
    { intros c' Hc'. apply Hk1. right. split; [apply Hck; right; exact Hc'|]. intros ->. contradiction. }
    assert (Hnk' : forall n', In n' (map snd ps) -> ~ In n' (keys s1 x) /\ ~ In n' (map fst ps)).
    { intros n' Hn'. destruct (Hnk n' (or_intror Hn')) as [A B]. split.
      - intro Hin. apply Hk1 in Hin as [->|[Hin _]]; [contradiction|contradiction].
      - intro Hin. apply B. right. exact Hin. }
    destruct (IH s1 Hp1 Hnd1 Hf' Hs' Hck' Hnk') as [I1 I2]. split.
    + intro q. rewrite I1. cbn [pw_after]. clear -Hpw. revert q.
      assert (G : forall ps f g, (forall q, f q = g q) -> forall q, pw_after x ps f q = pw_after x ps g q).
      { induction ps0 as [|[c0 n0] ps0 IHp]; intros f g H q; cbn; [apply H|].
        apply IHp. intro q0. unfold rekey_pw_fun. rewrite !H. reflexivity. }
      apply G. exact Hpw.
    + intro w. rewrite I2, Hwp, map_map. apply map_ext. intro q. reflexivity.
Qed.

(* identity pairs *)
Lemma fold_rekey_id_full x : forall l s,
  InvP s -> NoDup (keys s x) -> (forall c, In c l -> In c (keys s x)) ->
  let s' := fst (fold_pairsR (fun s cn => rekey s x cn) (map (fun i => (i, i)) l) s) in
  (forall q, pin_wire s' q = pin_wire s q) /\ (forall w, wpins s' w = wpins s w).
Proof.
  induction l as [|c l IH]; intros s Hp Hnd Hck; cbn [fold_pairsR map]; [split; reflexivity|].
  pose proof (rekey_pw s x c c (Hck c (or_introl eq_refl))) as Hpw.
  pose proof (rekey_wpins s x c c Hp (Hck c (or_introl eq_refl))) as Hwp.
  destruct (rekey_spec s x c c Hp Hnd (Hck c (or_introl eq_refl)) (or_introl eq_refl)) as [Hr [Hp1 [Hf1 [Hw1 [Hk1 [Hnd1 Ho1]]]]]].
  destruct (rekey s x (c, c)) as [s1 [e|]]; cbn [fst snd] in *; [discriminate|]. cbn [bindR].
  assert (Hsame : forall i, In i (keys s1 x) <-> In i (keys s x)).
  { intro i. rewrite Hk1. split; [intros [->|[H _]]; [apply Hck; left; reflexivity|exact H]|].
    intro H. destruct (Nat.eq_dec i c) as [->|Hne]; [left; reflexivity|right; auto]. }
  assert (Hck' : forall c', In c' l -> In c' (keys s1 x)) by (intros c' Hc'; apply Hsame, Hck; right; exact Hc').
  destruct (IH s1 Hp1 Hnd1 Hck') as [I1 I2]. split.
  - intro q. rewrite I1, Hpw. unfold rekey_pw_fun. destruct (pin_eqb q (POut x c)) eqn:E; [apply pin_eqb_spec in E; subst; reflexivity|reflexivity].
  - intro w. rewrite I2, Hwp. rewrite <- (map_id (wpins s w)) at 2. apply map_ext. intro q.
    unfold rename_pin. destruct (pin_eqb q (POut x c)) eqn:E; [apply pin_eqb_spec in E; subst; reflexivity|reflexivity].
Qed.

Lemma pw_after_untouched x : forall ps f q,
  (forall c n, In (c, n) ps -> q <> POut x n /\ q <> POut x c) -> pw_after x ps f q = f q.
Proof.
  induction ps as [|[c n] ps IH]; intros f q H; cbn [pw_after]; [reflexivity|].
  rewrite IH by (intros c0 n0 H0; apply H; right; exact H0).
  destruct (H c n (or_introl eq_refl)) as [H1 H2]. unfold rekey_pw_fun.
  destruct (pin_eqb q (POut x n)) eqn:E1; [apply pin_eqb_spec in E1; contradiction|].
  destruct (pin_eqb q (POut x c)) eqn:E2; [apply pin_eqb_spec in E2; contradiction|reflexivity].
Qed.

Lemma pw_after_target x : forall ps f c n,
  NoDup (map fst ps) -> NoDup (map snd ps) -> (forall m, In m (map snd ps) -> ~ In m (map fst ps)) ->
  In (c, n) ps -> pw_after x ps f (POut x n) = f (POut x c).
Proof.
  induction ps as [|[c0 n0] ps IH]; intros f c n Hf Hs Hd Hin; [destruct Hin|].
  cbn [map fst snd] in *. inversion Hf as [|? ? Hcf Hf']; subst. inversion Hs as [|? ? Hns Hs']; subst.
  cbn [pw_after]. destruct Hin as [E|Hin].
  - injection E as E1 E2. subst c0 n0. rewrite pw_after_untouched.
    + unfold rekey_pw_fun. rewrite pin_eqb_refl. reflexivity.
    + intros c1 n1 H1. split; intro E; injection E as E.
      * apply Hns. rewrite E. apply in_map_iff. exists (c1, n1). auto.
      * apply (Hd n (or_introl eq_refl)). right. rewrite E. apply in_map_iff. exists (c1, n1). auto.
  - rewrite (IH _ c n Hf' Hs'); [|intros m Hm Hm'; apply (Hd m (or_intror Hm)); right; exact Hm'|exact Hin].
    unfold rekey_pw_fun.
    assert (Hc_ne_n0 : c <> n0).
    { intros ->. apply (Hd n0 (or_introl eq_refl)). right. apply in_map_iff. exists (n0, n). auto. }
    assert (Hc_ne_c0 : c <> c0).
    { intros ->. apply Hcf. apply in_map_iff. exists (c0, n). auto. }
    destruct (pin_eqb (POut x c) (POut x n0)) eqn:E1; [apply pin_eqb_spec in E1; injection E1 as ->; contradiction|].
    destruct (pin_eqb (POut x c) (POut x c0)) eqn:E2; [apply pin_eqb_spec in E2; injection E2 as ->; contradiction|reflexivity].
Qed.

Lemma pw_after_foreign x ps f q : (forall i, q <> POut x i) -> pw_after x ps f q = f q.
Proof. intro H. apply pw_after_untouched. intros c n _. split; apply H. Qed.

(* the simultaneous renaming that the loop amounts to *)
Definition repoint_pin (x : id) (ps : list (id * id)) (q : pin) : pin :=
  match q with
  | POut m c => if Nat.eqb m x then match assoc c ps with Some n => POut x n | None => q end else q
  | _ => q
  end.

Lemma seq_rename_foreign x ps q : (forall c, In c (map fst ps) -> q <> POut x c) -> seq_rename x ps q = q.
Proof.
  unfold seq_rename. revert q. induction ps as [|[c n] ps IH]; intros q H; cbn; [reflexivity|].
  unfold rename_pin at 2. destruct (pin_eqb q (POut x c)) eqn:E.
  - apply pin_eqb_spec in E. exfalso. apply (H c); [left; reflexivity|exact E].
  - apply IH. intros c0 Hc0. apply H. right. exact Hc0.
Qed.

Lemma seq_rename_spec x : forall ps q,
  NoDup (map fst ps) -> (forall m, In m (map snd ps) -> ~ In m (map fst ps)) ->
  seq_rename x ps q = repoint_pin x ps q.
Proof.
  induction ps as [|[c n] ps IH]; intros q Hf Hd.
  - destruct q as [i|m i|]; cbn; try reflexivity. destruct (Nat.eqb m x); reflexivity.
  - cbn [map fst snd] in *. inversion Hf as [|? ? Hcf Hf']; subst.
    unfold seq_rename. cbn [fold_left fst snd]. fold (seq_rename x ps (rename_pin (POut x c) (POut x n) q)).
    unfold rename_pin. destruct (pin_eqb q (POut x c)) eqn:E.
    + apply pin_eqb_spec in E. subst q. cbn [repoint_pin assoc]. rewrite !Nat.eqb_refl.
      apply seq_rename_foreign. intros c0 Hc0 E. injection E as ->. apply (Hd c0 (or_introl eq_refl)). right. exact Hc0.
    + rewrite IH; [|exact Hf'|intros m Hm Hm'; apply (Hd m (or_intror Hm)); right; exact Hm'].
      destruct q as [i|m i|]; cbn [repoint_pin assoc]; try reflexivity.
      destruct (Nat.eqb_spec m x) as [->|]; [|reflexivity].
      destruct (Nat.eqb_spec i c) as [->|]; [rewrite pin_eqb_refl in E; discriminate|reflexivity].
Qed.

Lemma assoc_Some_In {B} i (l : list (id * B)) v : assoc i l = Some v -> In (i, v) l.
Proof.
  induction l as [|[k w] l IH]; cbn; [discriminate|].
  destruct (Nat.eqb_spec i k) as [->|]; [intro H; injection H as ->; left; reflexivity|intro H; right; apply IH; exact H].
Qed.

(* ---- the call ---- *)
Theorem repoint_spec s x d d' :
  Inv s -> iref s x = Some d -> same_shape s d d' = true ->
  snd (op_set_reference s x (Some d')) = None ->
  let s' := fst (op_set_reference s x (Some d')) in
  (forall c n, In (c, n) (pin_pairs s d d') -> pin_wire s' (POut x n) = pin_wire s (POut x c)) /\
  (forall q, (forall i, q <> POut x i) -> pin_wire s' q = pin_wire s q) /\
  (forall w, wpins s' w = map (repoint_pin x (pin_pairs s d d')) (wpins s w)).
Proof.
  intros [Ha Hr Hp Hk] Hrx Hshape. unfold op_set_reference, guard.
  destruct (_ && _); [|discriminate]. rewrite Hrx, Hshape.
  set (s1 := emit s (EReference x (Some d'))).
  change (iref s1 x) with (iref s x). rewrite Hrx.
  assert (Hm : memb x (drefs s1 d) = true) by (apply memb_In; apply (i2_ref s Hr); exact Hrx).
  rewrite Hm. cbn [bindR ret].
  set (s2 := set_drefs s1 d (remove_first x (drefs s1 d))).
  assert (Hp2 : InvP s2) by (apply (invp_of_fields s); [reflexivity|reflexivity|reflexivity|exact Hp]).
  assert (Hnd2 : NoDup (keys s2 x)) by apply (k_nodup s Hk).
  change (pin_pairs s2 d d') with (pin_pairs s d d').
  assert (Hout : forall s3, (forall q, pin_wire (set_iref (set_drefs s3 d' (set_add x (drefs s3 d'))) x (Some d')) q = pin_wire s3 q) /\
                            (forall w, wpins (set_iref (set_drefs s3 d' (set_add x (drefs s3 d'))) x (Some d')) w = wpins s3 w)).
  { intro s3. split; [intro q; apply pw_ext; reflexivity|reflexivity]. }
  destruct (Nat.eq_dec d d') as [<-|Hdd].
  - rewrite pin_pairs_self in *.
    destruct (fold_rekey_id_full x (port_pins s d) s2 Hp2 Hnd2) as [I1 I2].
    { intros c Hc. apply (keys_port_pins s x d c Ha Hk Hrx). exact Hc. }
    destruct (fold_pairsR _ _ s2) as [s3 [e|]]; cbn [fst snd bindR ret] in *; [discriminate|]. intros _.
    destruct (Hout s3) as [O1 O2]. split; [|split].
    + intros c n Hin. apply in_map_iff in Hin as [i [E _]]. injection E as <- <-. rewrite O1, I1. apply pw_ext; reflexivity.
    + intros q _. rewrite O1, I1. apply pw_ext; reflexivity.
    + intro w. rewrite O2, I2. change (wpins s2 w) with (wpins s w). rewrite <- (map_id (wpins s w)) at 1.
      apply map_ext. intro q. destruct q as [i|m i|]; cbn; try reflexivity.
      destruct (Nat.eqb_spec m x) as [->|]; [|reflexivity].
      destruct (assoc i (map (fun i0 => (i0, i0)) (port_pins s d))) eqn:E; [|reflexivity].
      apply assoc_Some_In in E. apply in_map_iff in E as [j [E0 _]]. injection E0 as E1 E2. subst. reflexivity.
  - destruct (pin_pairs_spec s d d' Hshape) as [Hfst Hsnd].
    assert (Hfresh : forall n, In n (port_pins s d') -> ~ In n (port_pins s d)).
    { intros n H1 H2. apply (port_pins_spec s d' n Ha) in H1 as [p [A B]].
      apply (port_pins_spec s d n Ha) in H2 as [p' [A' B']]. congruence. }
    assert (C1 : NoDup (map fst (pin_pairs s d d'))) by (rewrite Hfst; apply port_pins_nodup, Ha).
    assert (C2 : NoDup (map snd (pin_pairs s d d'))) by (rewrite Hsnd; apply port_pins_nodup, Ha).
    assert (C3 : forall c, In c (map fst (pin_pairs s d d')) -> In c (keys s2 x)).
    { intros c Hc. rewrite Hfst in Hc. apply (keys_port_pins s x d c Ha Hk Hrx). exact Hc. }
    assert (C5 : forall n, In n (map snd (pin_pairs s d d')) -> ~ In n (map fst (pin_pairs s d d'))).
    { intros n Hn. rewrite Hsnd in Hn. rewrite Hfst. apply Hfresh; exact Hn. }
    assert (C4 : forall n, In n (map snd (pin_pairs s d d')) -> ~ In n (keys s2 x) /\ ~ In n (map fst (pin_pairs s d d'))).
    { intros n Hn. split; [|apply C5; exact Hn]. rewrite Hsnd in Hn.
      intro H. apply (keys_port_pins s x d n Ha Hk Hrx) in H. apply (Hfresh n Hn H). }
    destruct (fold_rekey_fresh_full x (pin_pairs s d d') s2 Hp2 Hnd2 C1 C2 C3 C4) as [I1 I2].
    destruct (fold_rekey_fresh x (pin_pairs s d d') s2 Hp2 Hnd2 C1 C2 C3 C4) as [Hs _].
    destruct (fold_pairsR _ _ s2) as [s3 [e|]]; cbn [fst snd bindR ret] in *; [discriminate|]. intros _.
    destruct (Hout s3) as [O1 O2]. split; [|split].
    + intros c n Hin. rewrite O1, I1, (pw_after_target x _ _ c n C1 C2 C5 Hin). apply pw_ext; reflexivity.
    + intros q Hq. rewrite O1, I1, pw_after_foreign by exact Hq. apply pw_ext; reflexivity.
    + intro w. rewrite O2, I2. change (wpins s2 w) with (wpins s w). apply map_ext. intro q.
      apply seq_rename_spec; assumption.
Qed.
