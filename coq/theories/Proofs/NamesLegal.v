(* C17 (engine names), (b) positive part: when no truncation can occur - the name plus the longest
   suffix the scope can force stays below 256 characters - the identifier is legal.
   D bounds the number of digits of the counters the loop can reach: 2 * siblings + 2 < 10^D. *)
From Coq Require Import List Arith NArith Bool Lia.
From SV Require Import Base.Base IR.State IR.NS Proofs.Ident Names.Edifify
  Proofs.NamesDec Proofs.NamesSuffix Proofs.NamesFuel Proofs.NamesChars.
Import ListNotations.

Definition headok (s : str) : Prop :=
  match s with c :: _ => is_alpha c = true \/ c = 38%N | [] => False end.

Lemma length_fix_short s : length s < 256 -> length_fix s = s.
Proof.
  intro H. unfold length_fix, length_good, name_length_target.
  apply Nat.ltb_lt in H. rewrite H. reflexivity.
Qed.

Lemma characters_fix_short x c :
  characters_fix x = Some c -> length x < 255 -> headok c /\ length c <= length x + 1.
Proof.
  unfold characters_fix, characters_good. destruct x as [|a x]; [discriminate|]. intros H Hl.
  destruct (is_alpha a && forallb is_idchar (a :: x)) eqn:E.
  - inversion H; subst. rewrite length_fix_short by lia. apply andb_true_iff in E as [E _].
    split; [left; exact E|lia].
  - pose proof (map_length sanitize_c x) as Hm.
    destruct (is_alpha a) eqn:Ea; injection H as <-.
    + rewrite length_fix_short by (cbn [map length] in *; lia).
      cbn [map length] in *. rewrite (sanitize_alpha _ Ea). split; [left; exact Ea|lia].
    + rewrite length_fix_short by (cbn [map length] in *; lia).
      split; [right; reflexivity|]. cbn [map length] in *. lia.
Qed.

Lemma headok_lower s : headok s -> headok (lower s).
Proof.
  destruct s as [|c t]; [intros []|]. cbn. intros [H|H]; [left; apply lower_c_alpha; exact H|right; subst; reflexivity].
Qed.

Lemma lower_firstn k s : lower (firstn k s) = firstn k (lower s).
Proof. unfold lower. symmetry. apply firstn_map. Qed.

Lemma sfx_length n : length (sfx n) = 6 + length (dec n).
Proof. unfold sfx. rewrite !app_length. cbn. lia. Qed.

(* the loop without truncation: the prefix stays, only the counter moves *)
Lemma loop_short i objs k : forall fuel b n r,
  lower b = b -> length b + 6 + S k <= 255 ->
  (n + N.of_nat fuel < 10 ^ N.of_nat (S k))%N ->
  conflicts_fix fuel i (b ++ sfx n) objs = Ok r ->
  exists n', r = b ++ sfx n' /\ (n' < 10 ^ N.of_nat (S k))%N.
Proof.
  induction fuel as [|f IH]; intros b n r Hb Hl Hn H; [discriminate|].
  cbn [conflicts_fix] in H. rewrite lower_app, lower_sfx, Hb in H.
  destruct (conflicts_good i (b ++ sfx n) objs).
  - inversion H; subst. exists n. split; [reflexivity|lia].
  - assert (Hnext : length_fix (bump (b ++ sfx n)) = b ++ sfx (n + 1)).
    { destruct (bump_form (b ++ sfx n)) as [[Hs _]|(m & b0 & Hm & _ & Hb0 & Hbump)].
      - rewrite sdn_suffix_sfx in Hs. discriminate.
      - rewrite sdn_suffix_sfx in Hm. inversion Hm; subst m. cbn [m_start m_num] in *.
        rewrite firstn_app_exact in Hb0. subst b0. rewrite Hbump. apply length_fix_short.
        rewrite app_length, sfx_length.
        assert (length (dec (n + 1)) <= S k) by (apply dec_length_le; lia). lia. }
    rewrite Hnext in H. eapply IH in H; [exact H|exact Hb|exact Hl|lia].
Qed.

Lemma pow10_mono a b : a <= b -> (10 ^ N.of_nat a <= 10 ^ N.of_nat b)%N.
Proof. intro H. apply N.pow_le_mono_r; lia. Qed.

Theorem conflicts_fix_short i objs fuel D c r :
  headok c -> length c + 6 + S D <= 255 -> (N.of_nat fuel < 10 ^ N.of_nat (S D))%N ->
  conflicts_fix fuel i c objs = Ok r ->
  headok r /\ length r <= 255.
Proof.
  intros Hh Hl Hf H. destruct fuel as [|f]; [discriminate|]. cbn [conflicts_fix] in H.
  destruct (conflicts_good i (lower c) objs).
  { inversion H; subst. split; [exact Hh|lia]. }
  set (l0 := lower c) in *.
  assert (Hl0 : length l0 = length c) by (unfold l0, lower; apply map_length).
  assert (Hh0 : headok l0) by (apply headok_lower; exact Hh).
  assert (Hlow : lower l0 = l0) by (apply lower_idem).
  destruct (bump_form l0) as [[_ Hb]|(m & b0 & Hm & Hb0l & Hb0 & Hb)].
  - (* no suffix yet: l0 ++ "_sdn_1_" *)
    rewrite Hb in H. rewrite length_fix_short in H.
    2:{ rewrite app_length, sfx_length. change (length (dec 1)) with 1. lia. }
    apply (loop_short i objs D) in H; [|exact Hlow|lia|].
    2:{ rewrite Nat2N.inj_succ in Hf. lia. }
    destruct H as (n' & -> & Hn'). split.
    + destruct l0; [destruct Hh0|exact Hh0].
    + rewrite app_length, sfx_length. assert (length (dec n') <= S D) by (apply dec_length_le; exact Hn'). lia.
  - (* the name already ends in _sdn_<ds>_ : the counter continues from there *)
    destruct (sdn_suffix_spec _ _ Hm) as (b & ds & nl & Hdec & Hbl & _ & Hne & Hd & Hnum & _).
    assert (Hbb : b0 = b) by (rewrite Hb0, Hdec, <- Hbl; apply firstn_app_exact).
    rewrite Hbb in Hb, Hb0. clear Hb0l Hbb b0.
    assert (Hlen : length l0 = length b + 5 + length ds + 1 + length nl).
    { rewrite Hdec. rewrite !app_length. cbn. lia. }
    assert (Hds : 1 <= length ds) by (destruct ds; [congruence|cbn; lia]).
    set (M := Nat.max (length ds) (S D)).
    assert (Hnumlt : (m_num m < 10 ^ N.of_nat M)%N).
    { rewrite Hnum. eapply N.lt_le_trans; [apply digits_val_lt; exact Hd|]. apply pow10_mono. unfold M. lia. }
    assert (HfM : (N.of_nat (S f) < 10 ^ N.of_nat M)%N).
    { eapply N.lt_le_trans; [exact Hf|]. apply pow10_mono. unfold M. lia. }
    assert (Hlowb : lower b = b).
    { rewrite Hb0, lower_firstn, Hlow. reflexivity. }
    assert (Hlb : length b + 6 + S M <= 255) by (unfold M; lia).
    rewrite Hb in H. rewrite length_fix_short in H.
    2:{ rewrite app_length, sfx_length.
        assert (length (dec (m_num m + 1)) <= S M).
        { apply dec_length_le. rewrite (Nat2N.inj_succ M), N.pow_succ_r'. lia. }
        lia. }
    apply (loop_short i objs M) in H; [|exact Hlowb|exact Hlb|].
    2:{ rewrite (Nat2N.inj_succ M), N.pow_succ_r'. rewrite Nat2N.inj_succ in HfM. lia. }
    destruct H as (n' & -> & Hn'). split.
    + destruct b as [|h b']; [|].
      * rewrite Hdec in Hh0. cbn in Hh0. destruct Hh0; discriminate.
      * rewrite Hdec in Hh0. exact Hh0.
    + rewrite app_length, sfx_length. assert (length (dec n') <= S M) by (apply dec_length_le; exact Hn'). lia.
Qed.

(* names short enough that nothing is ever cut always get a legal identifier *)
Theorem make_valid_legal_short fuel D i objs name r :
  length name + 8 + S D <= 255 -> (N.of_nat fuel < 10 ^ N.of_nat (S D))%N ->
  make_valid fuel i objs name = Ok r -> legal_identifier r.
Proof.
  intros Hl Hf H. pose proof (make_valid_made _ _ _ _ _ H) as Hm. unfold make_valid in H.
  rewrite length_fix_short in H by lia.
  destruct (characters_fix name) as [c|] eqn:Ec; [|discriminate].
  destruct (characters_fix_short _ _ Ec) as [Hh Hlc]; [lia|].
  apply (conflicts_fix_short i objs fuel D) in H; [|exact Hh|lia|exact Hf].
  destruct H as [Hhr Hlr]. apply made_legal_iff; [exact Hm|].
  destruct r as [|h t]; [destruct Hhr|]. cbn [hd]. split.
  - destruct Hhr as [Hh'|Hh']; intro; subst; discriminate.
  - unfold length_ok. cbn [length] in *. destruct (N.eqb h 38); lia.
Qed.
