(* The lookup hypothesis LookOK of the C13 filter theorems in every state reached by editing calls, for both
   registered keys: .NAME (C10's table invariant) and EDIF.identifier (C10's invariant + policy coherence,
   Proofs/QueryEnumPolCoh.v). *)
From Coq Require Import List Arith NArith Bool Lia.
From SV Require Import Base.Base IR.State IR.NS IR.Ops Proofs.Inv1a Proofs.Inv2a Proofs.InvW Proofs.NsInv
  Query.Filter Query.Enum Proofs.QueryEnumFull Proofs.QueryEnumLookIdent Proofs.QueryEnumPolCoh.
Import ListNotations.

(* so, in every state reached by editing calls, the lookup hypothesis of the filter theorems holds for the key
   EDIF.identifier under whatever policy, lookups registered or not - no side condition left *)
Theorem reachable_lookok_ident ops reg r : ns_rel r = true -> LookOK (Ops.run ops State.init) reg str_IDENT r.
Proof.
  intro Hr. destruct (reachable_nsinv ops) as (HI & _ & _ & HN). cbn zeta in HI, HN.
  apply lookok_edif_ident; [exact HN|exact Hr|intro p; apply (i1_nodup _ (inv_a _ HI))|apply reachable_polcoh; exact Hr].
Qed.
Print Assumptions reachable_lookok_ident.

Theorem reachable_lookok_name ops reg r : ns_rel r = true -> LookOK (Ops.run ops State.init) reg str_NAME r.
Proof.
  intro Hr. destruct (reachable_nsinv ops) as (HI & _ & _ & HN). cbn zeta in HI, HN.
  apply lookok_name; [exact HN|exact Hr|intro p; apply (i1_nodup _ (inv_a _ HI))].
Qed.
