(* C12, get_hcables and the absence of duplicates.

   1. get_hwires_nodup / get_hcables_nodup : in ANY heap, for every selection and every object
      searched, an answer never repeats a reference (the in_yield set of the code).
      get_hpins_nodup : the same for get_hpins from a pin / port / cable / wire start (Inv1a for the
      port case: the pins of a port are distinct).
   2. get_hcables_of_get_hwires : in ANY heap, for every selection, from a pin / port / cable / wire
      start, get_hcables terminates exactly when get_hwires does and returns exactly the cables of
      the wires that get_hwires returns (k = tl b: the reference of a wire without its first item).
   3. get_hcables_ALL_wire / _pin / _port / _cable : under the hypotheses of C12, selection ALL:
      the cables of the connected wire occurrences. *)
From Coq Require Import List Arith Bool Lia Relations.
From SV Require Import Base.Base IR.State Proofs.Inv1a Proofs.Inv2a Hier.Paths Hier.Enum Hier.Trace Hier.Conn
  Proofs.HierValid Proofs.HierEnum Proofs.HierClosure Proofs.HierTrace Proofs.HierNarrow
  Proofs.HierTracePort Proofs.HierTraceCable.
Import ListNotations.

(* ------------------------------------------------------------------------------------------ *)
(* 1. no duplicates, any heap                                                                  *)
Theorem get_hwires_nodup : forall s x r usum obj l,
  get_hwires s x r usum obj = Some l -> NoDup l.
Proof.
  intros s x r usum obj l H. unfold get_hwires in H.
  destruct (is_valid s obj); cbn [negb] in H; [|inversion H; constructor].
  destruct obj as [|it rest]; [inversion H; constructor|]. cbv zeta in H.
  match type of H with
  | (match ?P with Some _ => _ | None => _ end) = _ => destruct P as [[y st]|]
  end; [|discriminate].
  destruct (hw_close s x (close_fuel usum st) st) as [found|]; [|discriminate].
  inversion H. apply result_nodup.
Qed.

Theorem get_hcables_nodup : forall s x r usum obj l,
  get_hcables s x r usum obj = Some l -> NoDup l.
Proof.
  intros s x r usum obj l H. unfold get_hcables in H.
  destruct (is_valid s obj); cbn [negb] in H; [|inversion H; constructor].
  destruct obj as [|it rest]; [inversion H; constructor|]. cbv zeta in H.
  match type of H with
  | (match ?P with Some _ => _ | None => _ end) = _ => destruct P as [[y st]|]
  end; [|discriminate].
  destruct (hc_close s x (close_fuel usum st) st) as [found|]; [|discriminate].
  inversion H. apply result_nodup.
Qed.

Definition head_not_instance (s : state) (obj : href) : Prop :=
  match obj with it :: _ => kind_of s it <> Some KInstance | [] => True end.

Lemma map_cons_nodup : forall (r : href) (l : list id), NoDup l -> NoDup (map (fun i => i :: r) l).
Proof.
  intros r l H. induction H as [|i l Hi _ IH]; cbn; constructor; [|exact IH].
  intro H. apply in_map_iff in H as (j & E & Hj). inversion E; subst. contradiction.
Qed.

Theorem get_hpins_nodup : forall s r obj l, Inv1a s -> head_not_instance s obj ->
  get_hpins s r obj = Some l -> NoDup l.
Proof.
  intros s r obj l I1 Hh H. unfold get_hpins in H.
  destruct (is_valid s obj); cbn [negb] in H; [|inversion H; constructor].
  destruct obj as [|it rest]; [inversion H; constructor|]. cbn in Hh.
  destruct (kind_of s it) as [[]|]; try (exfalso; apply Hh; reflexivity);
    inversion H; subst l; clear H;
    first [ apply map_cons_nodup; apply (i1_nodup s I1)
          | apply href_union_nodup; constructor
          | constructor; [intros []|constructor]
          | constructor ].
Qed.

(* ------------------------------------------------------------------------------------------ *)
(* 2. get_hcables = the cables of get_hwires, any heap, any selection                          *)
Section Tails.
  Variable s : state.
  Variable x : sel.
  Variable usum : nat.

  Definition rel_wc (ow oc : option (list href)) : Prop :=
    match ow, oc with
    | Some lw, Some lc => forall k, In k lc <-> exists b, In b lw /\ k = hcable_of b
    | None, None => True
    | _, _ => False
    end.

  Lemma tails_rel : forall y st,
    rel_wc
      (match hw_close s x (close_fuel usum st) st with
       | Some found => Some (href_union (href_union [] y) (rev found))
       | None => None
       end)
      (match hc_close s x (close_fuel usum st) st with
       | Some found => Some (href_union (href_union [] (map hcable_of y)) (map hcable_of (rev found)))
       | None => None
       end).
  Proof.
    intros y st. unfold hc_close. destruct (hw_close s x (close_fuel usum st) st) as [found|]; cbn; [|exact I].
    intro k. rewrite result_In, !in_map_iff. split.
    - intros [(b & E & Hb)|(b & E & Hb)]; exists b; (split; [apply result_In; auto|auto]).
    - intros (b & Hb & E). apply result_In in Hb as [Hb|Hb]; [left|right]; exists b; auto.
  Qed.

  (* the phase-1 fold of the Cable branch of get_hcables is the one of get_hwires with the
     yielded wires replaced by their cables *)
  Lemma fold_cable_rel : forall (obj : href) (l : list id) (acc : list href * list href),
    fold_left (fun acc w => let '(y, st) := hw_phase1_wire s x (w :: obj) in
                            pair_app acc (map hcable_of y, st)) l (map hcable_of (fst acc), snd acc) =
    (map hcable_of (fst (fold_left (fun acc w => pair_app acc (hw_phase1_wire s x (w :: obj))) l acc)),
     snd (fold_left (fun acc w => pair_app acc (hw_phase1_wire s x (w :: obj))) l acc)).
  Proof.
    intros obj. induction l as [|w l IH]; intros [a b]; cbn [fold_left fst snd]; [reflexivity|].
    destruct (hw_phase1_wire s x (w :: obj)) as [y st].
    change (pair_app (map hcable_of a, b) (map hcable_of y, st))
      with (map hcable_of a ++ map hcable_of y, b ++ st).
    change (pair_app (a, b) (y, st)) with (a ++ y, b ++ st).
    rewrite <- map_app.
    exact (IH (a ++ y, b ++ st)).
  Qed.
End Tails.

Theorem get_hcables_rel : forall s x r usum obj, head_not_instance s obj ->
  rel_wc (get_hwires s x r usum obj) (get_hcables s x r usum obj).
Proof.
  intros s x r usum obj Hh. unfold get_hwires, get_hcables.
  destruct (is_valid s obj); cbn [negb].
  2:{ cbn. intro k. split; [intros []|intros (b & [] & _)]. }
  destruct obj as [|it rest].
  { cbn. intro k. split; [intros []|intros (b & [] & _)]. }
  cbn in Hh. cbv zeta.
  destruct (kind_of s it) as [[]|]; try (exfalso; apply Hh; reflexivity);
    try apply (tails_rel s x usum [] _).
  - pose proof (fold_cable_rel s x (it :: rest) (kids s RWires it) ([], [])) as E.
    cbn [fst snd map] in E. rewrite E.
    destruct (fold_left (fun acc w => pair_app acc (hw_phase1_wire s x (w :: it :: rest)))
                        (kids s RWires it) ([], [])) as [y st].
    cbn [fst snd]. apply tails_rel.
  - destruct (hw_phase1_wire s x (it :: rest)) as [y st]. apply tails_rel.
Qed.

Theorem get_hcables_of_get_hwires : forall s x r usum obj lw, head_not_instance s obj ->
  get_hwires s x r usum obj = Some lw ->
  exists lc, get_hcables s x r usum obj = Some lc /\ NoDup lc /\
             (forall k, In k lc <-> exists b, In b lw /\ k = tl b).
Proof.
  intros s x r usum obj lw Hh E. pose proof (get_hcables_rel s x r usum obj Hh) as R.
  rewrite E in R. destruct (get_hcables s x r usum obj) as [lc|] eqn:Ec; [|destruct R].
  exists lc. split; [reflexivity|]. split; [exact (get_hcables_nodup s x r usum obj lc Ec)|exact R].
Qed.

Theorem get_hcables_stops_iff_get_hwires : forall s x r usum obj, head_not_instance s obj ->
  (get_hcables s x r usum obj = None <-> get_hwires s x r usum obj = None).
Proof.
  intros s x r usum obj Hh. pose proof (get_hcables_rel s x r usum obj Hh) as R.
  destruct (get_hwires s x r usum obj), (get_hcables s x r usum obj); cbn in R;
    split; intro H; try discriminate; try reflexivity; destruct R.
Qed.

(* ------------------------------------------------------------------------------------------ *)
(* 3. selection ALL under the hypotheses of C12                                                *)
Section CablesALL.
  Variable s : state.
  Variable t : id.
  Hypothesis I1 : Inv1a s.
  Hypothesis I2 : Inv2a s.
  Hypothesis K : WFk s.
  Hypothesis C : WFc s.
  Hypothesis Hroot : is_root s t.

  Local Notation nbA := (nb_sel s SAll).

  Lemma wire_head : forall x, hwire_occ s t x -> head_not_instance s x.
  Proof.
    intros x G. destruct G as (w & c & x0 & p & -> & Hp & Hc & Hw). cbn.
    rewrite (wk_kids s K RWires c w Hw). discriminate.
  Qed.

  Lemma pin_head : forall a, hpin_occ s t a -> head_not_instance s a.
  Proof.
    intros a G. destruct G as (i & q & x0 & p & -> & Hp & Hq & Hi). cbn.
    rewrite (wk_kids s K RPins q i Hi). discriminate.
  Qed.

  Theorem get_hcables_ALL_wire : forall n U x,
    acyclic s -> top s n = Some t -> all_hwires s n = Some U -> hwire_occ s t x ->
    exists l, get_hcables s SAll false (pin_weight s U) x = Some l /\ NoDup l /\
              (forall k, In k l <-> exists b, Conn.conn s t x b /\ k = tl b).
  Proof.
    intros n U x A Ht HU G.
    destruct (get_hwires_ALL_class s t I1 I2 K C Hroot n U x A Ht HU G) as (lw & Ew & Sw).
    destruct (get_hcables_of_get_hwires s SAll false _ x lw (wire_head x G) Ew) as (lc & Ec & Nc & Sc).
    exists lc. split; [exact Ec|]. split; [exact Nc|].
    intro k. rewrite Sc. split; intros (b & Hb & E); exists b; (split; [apply Sw; exact Hb|exact E]).
  Qed.

  Theorem get_hcables_ALL_pin : forall n U a,
    acyclic s -> top s n = Some t -> all_hwires s n = Some U -> hpin_occ s t a ->
    exists l, get_hcables s SAll false (pin_weight s U) a = Some l /\ NoDup l /\
              (forall k, In k l <-> exists x b, In x (nbA a) /\ Conn.conn s t x b /\ k = tl b).
  Proof.
    intros n U a A Ht HU G.
    destruct (get_hwires_ALL_pin s t I1 I2 K C Hroot n U a A Ht HU G) as (lw & Ew & Sw).
    destruct (get_hcables_of_get_hwires s SAll false _ a lw (pin_head a G) Ew) as (lc & Ec & Nc & Sc).
    exists lc. split; [exact Ec|]. split; [exact Nc|].
    intro k. rewrite Sc. split.
    - intros (b & Hb & E). apply Sw in Hb as (x & Hx & Hc). exists x, b. auto.
    - intros (x & b & Hx & Hc & E). exists b. split; [apply Sw; exists x; auto|exact E].
  Qed.

  Theorem get_hcables_ALL_port : forall n U q x p,
    acyclic s -> top s n = Some t -> all_hwires s n = Some U ->
    is_rpath s t (x :: p) -> In q (ports_of s x) ->
    exists l, get_hcables s SAll false (pin_weight s U) (q :: x :: p) = Some l /\ NoDup l /\
              (forall k, In k l <-> exists i y b, In i (kids s RPins q) /\
                                                  In y (nbA (i :: q :: x :: p)) /\
                                                  Conn.conn s t y b /\ k = tl b).
  Proof.
    intros n U q x p A Ht HU Hp Hq.
    destruct (get_hwires_ALL_port s t I1 I2 K C Hroot n U q x p A Ht HU Hp Hq) as (lw & Ew & _ & Sw).
    assert (Hh : head_not_instance s (q :: x :: p)).
    { cbn. rewrite (port_occ_kind s K q x Hq). discriminate. }
    destruct (get_hcables_of_get_hwires s SAll false _ _ lw Hh Ew) as (lc & Ec & Nc & Sc).
    exists lc. split; [exact Ec|]. split; [exact Nc|].
    intro k. rewrite Sc. split.
    - intros (b & Hb & E). apply Sw in Hb as (i & y & Hi & Hy & Hc). exists i, y, b. auto.
    - intros (i & y & b & Hi & Hy & Hc & E). exists b. split; [apply Sw; exists i, y; auto|exact E].
  Qed.

  Theorem get_hcables_ALL_cable : forall n U c x p,
    acyclic s -> top s n = Some t -> all_hwires s n = Some U ->
    is_rpath s t (x :: p) -> In c (cables_of s x) ->
    exists l, get_hcables s SAll false (pin_weight s U) (c :: x :: p) = Some l /\ NoDup l /\
              (forall k, In k l <-> exists w b, In w (kids s RWires c) /\
                                                Conn.conn s t (w :: c :: x :: p) b /\ k = tl b).
  Proof.
    intros n U c x p A Ht HU Hp Hc.
    destruct (get_hwires_ALL_cable s t I1 I2 K C Hroot n U c x p A Ht HU Hp Hc) as (lw & Ew & _ & Sw).
    assert (Hh : head_not_instance s (c :: x :: p)).
    { cbn. rewrite (cable_occ_kind s K c x Hc). discriminate. }
    destruct (get_hcables_of_get_hwires s SAll false _ _ lw Hh Ew) as (lc & Ec & Nc & Sc).
    exists lc. split; [exact Ec|]. split; [exact Nc|].
    intro k. rewrite Sc. split.
    - intros (b & Hb & E). apply Sw in Hb as (w & Hw & Hcn). exists w, b. auto.
    - intros (w & b & Hw & Hcn & E). exists b. split; [apply Sw; exists w; auto|exact E].
  Qed.
End CablesALL.

(* ------------------------------------------------------------------------------------------ *)
(* 4. the full statement of Props/C12.v (C12_full), and the same with "each once" everywhere   *)
Lemma C12_full_proof : forall s t,
  Inv1a s -> Inv2a s -> WFk s -> WFc s -> is_root s t ->
  forall n U, acyclic s -> top s n = Some t -> all_hwires s n = Some U ->
  (forall x, hwire_occ s t x ->
     exists l, get_hwires_ALL s (pin_weight s U) x = Some l /\ (forall b, In b l <-> Conn.conn s t x b))
  /\ (forall a, hpin_occ s t a ->
     exists l, get_hwires s SAll false (pin_weight s U) a = Some l /\
               (forall b, In b l <-> exists x, In x (nb_sel s SAll a) /\ Conn.conn s t x b))
  /\ (forall q x p, is_rpath s t (x :: p) -> In q (ports_of s x) ->
     exists l, get_hwires s SAll false (pin_weight s U) (q :: x :: p) = Some l /\
               (forall b, In b l <-> exists i y, In i (kids s RPins q) /\
                                                 In y (nb_sel s SAll (i :: q :: x :: p)) /\ Conn.conn s t y b))
  /\ (forall c x p, is_rpath s t (x :: p) -> In c (cables_of s x) ->
     exists l, get_hwires s SAll false (pin_weight s U) (c :: x :: p) = Some l /\
               (forall b, In b l <-> exists w, In w (kids s RWires c) /\ Conn.conn s t (w :: c :: x :: p) b))
  /\ (forall x, hwire_occ s t x ->
     exists l, get_hcables s SAll false (pin_weight s U) x = Some l /\
               (forall k, In k l <-> exists b, Conn.conn s t x b /\ k = tl b)).
Proof.
  intros s t I1 I2 K C Hroot n U A Ht HU.
  split; [intros x G; exact (get_hwires_ALL_class s t I1 I2 K C Hroot n U x A Ht HU G)|].
  split; [intros a G; exact (get_hwires_ALL_pin s t I1 I2 K C Hroot n U a A Ht HU G)|].
  split.
  { intros q x p Hp Hq.
    destruct (get_hwires_ALL_port s t I1 I2 K C Hroot n U q x p A Ht HU Hp Hq) as (l & E & _ & S).
    exists l. auto. }
  split.
  { intros c x p Hp Hc.
    destruct (get_hwires_ALL_cable s t I1 I2 K C Hroot n U c x p A Ht HU Hp Hc) as (l & E & _ & S).
    exists l. auto. }
  intros x G.
  destruct (get_hcables_ALL_wire s t I1 I2 K C Hroot n U x A Ht HU G) as (l & E & _ & S).
  exists l. auto.
Qed.

Lemma C12_full_nodup_proof : forall s t,
  Inv1a s -> Inv2a s -> WFk s -> WFc s -> is_root s t ->
  forall n U, acyclic s -> top s n = Some t -> all_hwires s n = Some U ->
  (forall x, hwire_occ s t x ->
     (exists l, get_hwires_ALL s (pin_weight s U) x = Some l /\ NoDup l /\
                (forall b, In b l <-> Conn.conn s t x b)) /\
     (exists l, get_hcables s SAll false (pin_weight s U) x = Some l /\ NoDup l /\
                (forall k, In k l <-> exists b, Conn.conn s t x b /\ k = tl b)))
  /\ (forall a, hpin_occ s t a ->
     (exists l, get_hwires s SAll false (pin_weight s U) a = Some l /\ NoDup l /\
                (forall b, In b l <-> exists x, In x (nb_sel s SAll a) /\ Conn.conn s t x b)) /\
     (exists l, get_hcables s SAll false (pin_weight s U) a = Some l /\ NoDup l /\
                (forall k, In k l <-> exists x b, In x (nb_sel s SAll a) /\ Conn.conn s t x b /\ k = tl b)))
  /\ (forall q x p, is_rpath s t (x :: p) -> In q (ports_of s x) ->
     (exists l, get_hwires s SAll false (pin_weight s U) (q :: x :: p) = Some l /\ NoDup l /\
                (forall b, In b l <-> exists i y, In i (kids s RPins q) /\
                                                  In y (nb_sel s SAll (i :: q :: x :: p)) /\ Conn.conn s t y b)) /\
     (exists l, get_hcables s SAll false (pin_weight s U) (q :: x :: p) = Some l /\ NoDup l /\
                (forall k, In k l <-> exists i y b, In i (kids s RPins q) /\
                                                    In y (nb_sel s SAll (i :: q :: x :: p)) /\
                                                    Conn.conn s t y b /\ k = tl b)))
  /\ (forall c x p, is_rpath s t (x :: p) -> In c (cables_of s x) ->
     (exists l, get_hwires s SAll false (pin_weight s U) (c :: x :: p) = Some l /\ NoDup l /\
                (forall b, In b l <-> exists w, In w (kids s RWires c) /\ Conn.conn s t (w :: c :: x :: p) b)) /\
     (exists l, get_hcables s SAll false (pin_weight s U) (c :: x :: p) = Some l /\ NoDup l /\
                (forall k, In k l <-> exists w b, In w (kids s RWires c) /\
                                                  Conn.conn s t (w :: c :: x :: p) b /\ k = tl b))).
Proof.
  intros s t I1 I2 K C Hroot n U A Ht HU.
  split.
  { intros x G. split; [|exact (get_hcables_ALL_wire s t I1 I2 K C Hroot n U x A Ht HU G)].
    destruct (get_hwires_ALL_class s t I1 I2 K C Hroot n U x A Ht HU G) as (l & E & S).
    exists l. split; [exact E|]. split; [exact (get_hwires_nodup _ _ _ _ _ _ E)|exact S]. }
  split.
  { intros a G. split; [|exact (get_hcables_ALL_pin s t I1 I2 K C Hroot n U a A Ht HU G)].
    destruct (get_hwires_ALL_pin s t I1 I2 K C Hroot n U a A Ht HU G) as (l & E & S).
    exists l. split; [exact E|]. split; [exact (get_hwires_nodup _ _ _ _ _ _ E)|exact S]. }
  split.
  { intros q x p Hp Hq. split.
    - exact (get_hwires_ALL_port s t I1 I2 K C Hroot n U q x p A Ht HU Hp Hq).
    - exact (get_hcables_ALL_port s t I1 I2 K C Hroot n U q x p A Ht HU Hp Hq). }
  intros c x p Hp Hc. split.
  - exact (get_hwires_ALL_cable s t I1 I2 K C Hroot n U c x p A Ht HU Hp Hc).
  - exact (get_hcables_ALL_cable s t I1 I2 K C Hroot n U c x p A Ht HU Hp Hc).
Qed.

Print Assumptions get_hwires_nodup.
Print Assumptions get_hcables_nodup.
Print Assumptions get_hpins_nodup.
Print Assumptions get_hcables_of_get_hwires.
Print Assumptions get_hcables_stops_iff_get_hwires.
Print Assumptions get_hcables_ALL_wire.
Print Assumptions get_hcables_ALL_pin.
Print Assumptions get_hcables_ALL_port.
Print Assumptions get_hcables_ALL_cable.
Print Assumptions C12_full_proof.
Print Assumptions C12_full_nodup_proof.
