(* Engine `verilog`: grow_rebase_correct - create_or_update_cable / create_or_update_port *)
From Coq Require Import List ZArith Bool Lia Arith Permutation.
From SV Require Import Fmt.VBits Proofs.VerilogLists.
Import ListNotations.
Open Scope Z_scope.

Definition wfb (b : bundle) : Prop :=
  (0 < length (b_items b))%nat /\ NoDup (b_items b) /\ (forall x, In x (b_items b) -> (x < b_next b)%nat).

(* b' extends b: nothing renumbered, every object of b keeps its Verilog index, new objects are fresh *)
Definition extends (b b' : bundle) : Prop :=
  (b_next b <= b_next b')%nat /\ wfb b' /\ b_lo b' <= b_lo b /\ b_hi b <= b_hi b' /\
  (forall i, b_lo b <= i <= b_hi b -> item_at b' i = item_at b i) /\
  (forall x, In x (b_items b') -> In x (b_items b) \/ (b_next b <= x)%nat).

Lemma NoDup_app_intro {A} (l1 l2 : list A) :
  NoDup l1 -> NoDup l2 -> (forall x, In x l1 -> ~ In x l2) -> NoDup (l1 ++ l2).
Proof.
  induction 1 as [|x l1 Hx Hl IH]; intros H2 Hd; cbn; [exact H2|].
  constructor.
  - rewrite in_app_iff. intros [H|H]; [contradiction|]. apply (Hd x); [left; reflexivity|exact H].
  - apply IH; [exact H2|]. intros y Hy. apply Hd. right. exact Hy.
Qed.

Lemma extends_refl b : wfb b -> extends b b.
Proof. intro H. unfold extends. repeat split; try lia; try apply H; auto. Qed.

Lemma extends_trans b1 b2 b3 : extends b1 b2 -> extends b2 b3 -> extends b1 b3.
Proof.
  intros (N1 & W1 & L1 & H1 & I1 & F1) (N2 & W2 & L2 & H2 & I2 & F2). unfold extends.
  repeat split; try lia; try apply W2.
  - intros i Hi. rewrite I2 by lia. apply I1. exact Hi.
  - intros x Hx. destruct (F2 x Hx) as [Hin|Hf]; [|right; lia].
    destruct (F1 x Hin); [left; assumption|right; assumption].
Qed.

Lemma append_extends b c : wfb b -> 0 <= c -> let b' := create_items c b in
  extends b b' /\ b_lo b' = b_lo b /\ b_hi b' = b_hi b + c.
Proof.
  intros (Hn & Hd & Hlt) Hc b'. subst b'. unfold extends, create_items, b_hi, item_at, wfb. cbn.
  rewrite !app_length, seq_length.
  repeat split; try lia.
  - apply NoDup_app_intro; [exact Hd|apply seq_NoDup|].
    intros x Hx Hs. apply in_seq in Hs. specialize (Hlt x Hx). lia.
  - intros x Hx. apply in_app_iff in Hx. destruct Hx as [Hx|Hx]; [specialize (Hlt x Hx); lia|apply in_seq in Hx; lia].
  - intros i Hi. destruct (Z.ltb_spec i (b_lo b)); [reflexivity|].
    apply nth_error_app1. lia.
  - intros x Hx. apply in_app_iff in Hx. destruct Hx as [Hx|Hx]; [left; exact Hx|right; apply in_seq in Hx; lia].
Qed.

Lemma prepend_items b c : 0 <= c ->
  b_items (prepend c b) = seq (b_next b) (Z.to_nat c) ++ b_items b.
Proof.
  intro Hc. unfold prepend, create_items. cbn.
  rewrite skipn_app, firstn_app, skipn_all, firstn_all. rewrite Nat.sub_diag. cbn. rewrite app_nil_r. reflexivity.
Qed.

Lemma prepend_extends b c : wfb b -> 0 <= c -> let b' := prepend c b in
  extends b b' /\ b_lo b' = b_lo b - c /\ b_hi b' = b_hi b.
Proof.
  intros (Hn & Hd & Hlt) Hc b'. subst b'.
  assert (Hi := prepend_items b c Hc).
  unfold extends, b_hi, item_at, wfb. rewrite Hi.
  assert (Hlo : b_lo (prepend c b) = b_lo b - c) by reflexivity.
  assert (Hnx : b_next (prepend c b) = (b_next b + Z.to_nat c)%nat) by reflexivity.
  rewrite Hlo, Hnx. rewrite !app_length, seq_length.
  repeat split; try lia.
  - apply NoDup_app_intro; [apply seq_NoDup|exact Hd|].
    intros x Hs Hx. apply in_seq in Hs. specialize (Hlt x Hx). lia.
  - intros x Hx. apply in_app_iff in Hx. destruct Hx as [Hx|Hx]; [apply in_seq in Hx; lia|specialize (Hlt x Hx); lia].
  - intros i Hr. destruct (Z.ltb_spec i (b_lo b - c)); [lia|]. destruct (Z.ltb_spec i (b_lo b)); [lia|].
    rewrite nth_error_app2 by (rewrite seq_length; lia). rewrite seq_length. f_equal. lia.
  - intros x Hx. apply in_app_iff in Hx. destruct Hx as [Hx|Hx]; [right; apply in_seq in Hx; lia|left; exact Hx].
Qed.

(* one growth step: the bundle now covers the hull of its old range and [il, iu] *)
Lemma grow_spec b il iu : wfb b -> il <= iu -> let b' := grow il iu b in
  extends b b' /\ b_lo b' = Z.min il (b_lo b) /\ b_hi b' = Z.max iu (b_hi b).
Proof.
  intros Hw Hr b'. subst b'. unfold grow.
  set (cl := b_lo b). set (cu := cl + Z.of_nat (length (b_items b)) - 1).
  assert (Hcu : cu = b_hi b) by reflexivity.
  destruct (Z.ltb_spec il cl) as [Hlt|Hge].
  - destruct (prepend_extends b (cl - il) Hw ltac:(lia)) as (E1 & L1 & H1).
    destruct (Z.ltb_spec cu iu) as [Hlt2|Hge2].
    + destruct (append_extends (prepend (cl - il) b) (iu - cu) ltac:(apply E1) ltac:(lia)) as (E2 & L2 & H2).
      split; [eapply extends_trans; eassumption|]. fold cl in L1. lia.
    + split; [exact E1|]. fold cl in L1. lia.
  - destruct (Z.ltb_spec cu iu) as [Hlt2|Hge2].
    + destruct (append_extends b (iu - cu) Hw ltac:(lia)) as (E2 & L2 & H2).
      split; [exact E2|]. fold cl in L2. lia.
    + split; [apply extends_refl; exact Hw|]. fold cl. lia.
Qed.

Lemma in_range_le l r il iu : in_range l r = Some (il, iu) -> il <= iu.
Proof. destruct l, r; cbn; intro H; inversion H; subst; lia. Qed.

(* a call that is not a defining declaration *)
Definition upd (b : bundle) (r : option Z * option Z) : bundle := update_cable (fst r) (snd r) false b.

Definition hull_lo (lo : Z) (rs : list (option Z * option Z)) : Z :=
  fold_left (fun acc r => match in_range (fst r) (snd r) with Some (il, _) => Z.min il acc | None => acc end) rs lo.
Definition hull_hi (hi : Z) (rs : list (option Z * option Z)) : Z :=
  fold_left (fun acc r => match in_range (fst r) (snd r) with Some (_, iu) => Z.max iu acc | None => acc end) rs hi.

Lemma upd_spec b r : wfb b -> let b' := upd b r in
  extends b b' /\ b_lo b' = hull_lo (b_lo b) [r] /\ b_hi b' = hull_hi (b_hi b) [r].
Proof.
  intros Hw b'. subst b'. unfold upd, update_cable, hull_lo, hull_hi. cbn [fold_left].
  destruct (in_range (fst r) (snd r)) as [[il iu]|] eqn:E.
  - cbn [rebase]. apply grow_spec; [exact Hw|]. eapply in_range_le. exact E.
  - split; [apply extends_refl; exact Hw|]. split; reflexivity.
Qed.

(* (d) any sequence of create_or_update_cable calls (ranges, single indices or bare names, in any order):
       the cable covers exactly the hull of its initial range and all ranges seen, its objects are pairwise
       different, and the wire that was bit i is still bit i *)
Theorem grow_rebase_lemma : forall (rs : list (option Z * option Z)) (b : bundle), wfb b ->
  let b' := fold_left upd rs b in
  wfb b' /\ b_lo b' = hull_lo (b_lo b) rs /\ b_hi b' = hull_hi (b_hi b) rs /\
  Z.of_nat (length (b_items b')) = b_hi b' - b_lo b' + 1 /\
  (forall i, b_lo b <= i <= b_hi b -> item_at b' i = item_at b i) /\
  (forall x, In x (b_items b') -> In x (b_items b) \/ (b_next b <= x)%nat).
Proof.
  assert (G : forall rs b, wfb b -> let b' := fold_left upd rs b in
              extends b b' /\ b_lo b' = hull_lo (b_lo b) rs /\ b_hi b' = hull_hi (b_hi b) rs).
  { induction rs as [|r rs IH]; intros b Hw; cbn [fold_left].
    - split; [apply extends_refl; exact Hw|]. split; reflexivity.
    - destruct (upd_spec b r Hw) as (E1 & L1 & H1).
      destruct (IH (upd b r) ltac:(apply E1)) as (E2 & L2 & H2).
      split; [eapply extends_trans; eassumption|].
      unfold hull_lo, hull_hi in *. cbn [fold_left] in *. rewrite L2, H2, L1, H1. split; reflexivity. }
  intros rs b Hw b'. destruct (G rs b Hw) as ((N & W & L & H & I & F) & Hlo & Hhi). fold b' in N, W, L, H, I, F, Hlo, Hhi.
  repeat split; try assumption; try apply W.
  unfold b_hi. lia.
Qed.

(* the defining declaration re-bases first: position k keeps its object, Verilog indices shift by il - lo *)
Theorem rebase_shift_lemma : forall b l r il iu, wfb b -> in_range l r = Some (il, iu) ->
  let b' := update_cable l r true b in
  wfb b' /\ b_lo b' = il /\ b_hi b' = Z.max iu (il + Z.of_nat (length (b_items b)) - 1) /\
  (forall i, b_lo b <= i <= b_hi b -> item_at b' (i - b_lo b + il) = item_at b i).
Proof.
  intros b l r il iu Hw E b'. subst b'. unfold update_cable. rewrite E. cbn [rebase].
  set (b0 := {| b_lo := il; b_items := b_items b; b_next := b_next b |}).
  assert (Hw0 : wfb b0) by exact Hw.
  destruct (grow_spec b0 il iu Hw0 (in_range_le _ _ _ _ E)) as ((N & W & L & H & I & F) & Hlo & Hhi).
  split; [exact W|]. split; [rewrite Hlo; cbn; lia|]. split; [rewrite Hhi; reflexivity|].
  intros i Hi. rewrite I.
  - unfold item_at. cbn. unfold b_hi in Hi.
    destruct (Z.ltb_spec (i - b_lo b + il) il); [lia|]. destruct (Z.ltb_spec i (b_lo b)); [lia|].
    f_equal. lia.
  - unfold b_hi in *. cbn. lia.
Qed.

(* ports: create_or_update_port skips the growth when the width already matches; with a common base
   (module ports are based at 0 and every instance-side call asks for [w-1:0]) it is the cable function *)
Theorem update_port_same_base_lemma : forall b l r d il iu, wfb b -> in_range l r = Some (il, iu) ->
  b_lo (rebase d il b) = il -> update_port l r d b = update_cable l r d b.
Proof.
  intros b l r d il iu Hw E Hb. unfold update_port, update_cable. rewrite E.
  destruct (Z.eqb_spec (iu - il) (Z.of_nat (length (b_items (rebase d il b))) - 1)) as [Ew|Ew]; [|reflexivity].
  unfold grow. rewrite Hb.
  destruct (Z.ltb_spec il il); [lia|].
  destruct (Z.ltb_spec (il + Z.of_nat (length (b_items (rebase d il b))) - 1) iu); [lia|]. reflexivity.
Qed.
