(* Every reference of an instance points at an allocated object (below the counter), in every state
   reachable by editing calls: the reference setter checks the kind of its target, kinds are never
   erased, and nothing else writes a reference. Needed to show that Definition.clone and uniquify
   keep the reference sets exact (C02 invariant) - a fresh copy cannot already be referenced. *)
From Coq Require Import List Arith Bool Lia.
From RecordUpdate Require Import RecordSet.
From SV Require Import Base.Base IR.State IR.NS IR.Ops Proofs.AssocX Proofs.Frame Proofs.Inv1a Proofs.Inv2a
  Proofs.InvP Proofs.InvW Proofs.Fresh.
Import ListNotations RecordSetNotations.

Definition RefK (s : state) : Prop := forall x d, iref s x = Some d -> kind_of s d <> None.

Record rq (s s' : state) : Prop := mkRq {
  rq_kind : forall x, kind_of s x <> None -> kind_of s' x <> None;
  rq_ref : forall x d, iref s' x = Some d -> iref s x = Some d \/ kind_of s' d <> None
}.
Lemma rq_refl s : rq s s. Proof. constructor; [auto|intros; left; assumption]. Qed.
Lemma rq_trans a b c : rq a b -> rq b c -> rq a c.
Proof.
  intros [A1 A2] [B1 B2]. constructor; [auto|]. intros x d H. destruct (B2 x d H) as [H1|H1]; [|right; exact H1].
  destruct (A2 x d H1) as [H2|H2]; [left; exact H2|right; apply B1; exact H2].
Qed.
Lemma rq_same s s' : kind_of s' = kind_of s -> iref s' = iref s -> rq s s'.
Proof. intros A B. constructor; rewrite ?A, ?B; [auto|intros; left; assumption]. Qed.
Lemma rq_bind r f s : rq s (fst r) -> (forall s1, rq s1 (fst (f s1))) -> rq s (fst (r >>= f)).
Proof. destruct r as [s1 [x|]]; cbn; intros H1 H2; [exact H1|]. eapply rq_trans; [exact H1|apply H2]. Qed.
Lemma rq_guard b x s k : (forall s1, rq s1 (fst (k s1))) -> rq s (fst (guard b x s k)).
Proof. intro H. unfold guard. destruct b; [apply H|apply rq_refl]. Qed.
Lemma rq_fold_idsR f l : (forall s x, rq s (fst (f s x))) -> forall s, rq s (fst (fold_idsR f l s)).
Proof. intro H. induction l as [|x l IH]; intro s; cbn; [apply rq_refl|]. apply rq_bind; [apply H|apply IH]. Qed.
Lemma rq_fold_pairsR f l : (forall s x, rq s (fst (f s x))) -> forall s, rq s (fst (fold_pairsR f l s)).
Proof. intro H. induction l as [|x l IH]; intro s; cbn; [apply rq_refl|]. apply rq_bind; [apply H|apply IH]. Qed.
Lemma rq_fold_ids f l : (forall s x, rq s (f s x)) -> forall s, rq s (fold_ids f l s).
Proof. intro H. induction l as [|x l IH]; intro s; cbn; [apply rq_refl|]. eapply rq_trans; [apply H|apply IH]. Qed.
Lemma rq_fold_left {A} (f : state -> A -> state) l : (forall s x, rq s (f s x)) -> forall s, rq s (fold_left f l s).
Proof. intro H. induction l as [|x l IH]; intro s; cbn; [apply rq_refl|]. eapply rq_trans; [apply H|apply IH]. Qed.
Lemma rq_struct s s' : struct_eq s s' -> rq s s'.
Proof. intro H. apply rq_same; [apply (se_kind _ _ H)|apply (se_iref _ _ H)]. Qed.
Lemma rq_fw s s' : frame_w s s' -> rq s s'.
Proof. intro H. apply rq_same; [apply (fw_kind _ _ H)|apply (fw_iref _ _ H)]. Qed.
Ltac rq_triv := apply rq_same; reflexivity.

Lemma rq_alloc s k : rq s (s <| next := S (next s) |> <| kind_of ::= fun f => upd f (next s) (Some k) |>).
Proof.
  constructor; cbn; [|intros; left; assumption]. intros x Hx. unfold upd. destruct (Nat.eqb x (next s)); [discriminate|exact Hx].
Qed.

Lemma rq_construct s k nm props : rq s (fst (fst (construct s k nm props))).
Proof.
  unfold construct, alloc. cbn zeta beta iota.
  set (s0 := s <| next := S (next s) |> <| kind_of ::= fun f => upd f (next s) (Some k) |>).
  assert (T0 : rq s s0) by apply rq_alloc.
  destruct (has_data k); cbn [fst]; [|exact T0].
  eapply rq_trans; [exact T0|]. apply rq_bind; [apply rq_struct, se_ns_create|]. intro s1.
  apply rq_bind; [destruct nm; [eapply rq_trans; [|apply rq_struct, se_dict_set]; rq_triv|rq_triv]|].
  intro s3. apply rq_struct, se_set_props.
Qed.

Lemma rq_op_add s r p c pos : rq s (fst (op_add s r p c pos)).
Proof.
  unfold op_add. repeat (apply rq_guard; intro).
  apply rq_bind; [destruct (ns_rel r); [apply rq_struct, se_ns_add|apply rq_refl]|].
  intro sx. eapply rq_trans; [|apply rq_fw, fw_add_post]. rq_triv.
Qed.

Lemma rq_remove_core s r p c : rq s (fst (remove_core s r p c)).
Proof.
  unfold remove_core. apply rq_bind; [|intro; rq_triv].
  eapply rq_trans with (b := emit (if ns_rel r then ns_remove_child s p c (rel_child r) else s) (ERemove r p c)).
  - destruct (ns_rel r); [|rq_triv]. eapply rq_trans; [apply rq_struct, se_ns_remove_child|rq_triv].
  - destruct r; try apply rq_refl.
    + apply rq_fold_idsR. intros s0 n. apply rq_fold_idsR. intros; apply rq_fw, fw_drop_outer.
    + destruct (par _ RPorts p); [|apply rq_refl]. apply rq_fold_idsR. intros; apply rq_fw, fw_drop_outer.
Qed.

(* the reference setter: the instance ends up with its old reference or the requested one, and a
   requested definition has passed the kind check *)
Lemma rq_op_set_reference s x v : rq s (fst (op_set_reference s x v)).
Proof.
  destruct (fw_op_set_reference_but_iref s x v) as [_ [_ [_ [Hkd Hother]]]].
  constructor; [intros y Hy; rewrite Hkd; exact Hy|].
  intros y d Hd. destruct (Nat.eq_dec y x) as [->|Hne]; [|left; rewrite <- Hother by exact Hne; exact Hd].
  rewrite Hkd. clear Hkd Hother. revert Hd. unfold op_set_reference, guard.
  destruct (is_kind s x KInstance && match v with Some d0 => is_kind s d0 KDefinition | None => true end) eqn:G; [|left; exact Hd].
  destruct (match v, iref s x with Some d', Some d0 => same_shape s d0 d' | _, _ => true end); [|left; exact Hd].
  apply andb_true_iff in G as [_ G].
  assert (Hgen : forall (r : R) (k : state -> R), frame_f s (fst r) ->
            (forall s1, iref (fst (k s1)) x = iref s1 x \/ iref (fst (k s1)) x = v) ->
            iref (fst (r >>= k)) x = Some d -> iref s x = Some d \/ kind_of s d <> None).
  { intros [s1 [e|]] k [_ [_ [C _]]] Hk; cbn [bindR fst] in *.
    - rewrite C. intro H; left; exact H.
    - destruct (Hk s1) as [H1|H1]; rewrite H1; [rewrite C; intro H; left; exact H|].
      intro Hv. rewrite Hv in H1. subst v. right. cbn beta iota in G. unfold is_kind in G. intro Hn. rewrite Hn in G. discriminate G. }
  destruct v as [d'|].
  - apply Hgen.
    + destruct (iref (emit s (EReference x (Some d'))) x) as [d0|].
      * apply ff_bind; [destruct (memb _ _); cbn; repeat split; reflexivity|].
        intro s2. apply ff_of_fw. apply fw_fold_pairsR. intros; apply fw_rekey.
      * cbn [fst ret]. apply ff_of_fw. eapply frame_w_trans; [|apply fw_fold_ids; intros; apply frame_new_outer]. constructor; reflexivity.
    + intro s3. right. cbn. apply upd_same.
  - apply Hgen.
    + apply ff_of_fw. eapply frame_w_trans; [|apply fw_fold_idsR; intros; apply fw_drop_outer]. constructor; reflexivity.
    + intro s3.
      destruct (iref (set_ipins s3 x []) x) as [d0|]; [destruct (memb x (drefs (set_ipins s3 x []) d0))|]; cbn; try (right; apply upd_same).
      left. reflexivity.
Qed.

Lemma rq_create_items r p : forall n s, rq s (fst (create_items s r p n)).
Proof.
  induction n as [|n IH]; intro s; cbn [create_items]; [apply rq_refl|]. unfold alloc. cbn zeta.
  eapply rq_trans; [apply (rq_alloc s (rel_child r))|]. apply rq_bind; [apply rq_op_add|apply IH].
Qed.

Lemma refk_rq s s' : rq s s' -> RefK s -> RefK s'.
Proof. intros [A B] H x d Hd. destruct (B x d Hd) as [H1|H1]; [apply A, (H x d H1)|exact H1]. Qed.

Ltac viar := match goal with FT : RefK ?s |- _ => apply (refk_rq s); [|exact FT] end.

Theorem step_refk s o : RefK s -> RefK (fst (step s o)).
Proof.
  intros FT. destruct o; cbn [step].
  - viar. apply rq_construct.
  - viar. apply rq_guard. intro s1. unfold create_and_add.
    pose proof (rq_construct s1 (rel_child r) nm props) as Tc.
    destruct (construct s1 (rel_child r) nm props) as [res x]. cbn [fst] in Tc.
    apply rq_bind; [apply rq_bind; [exact Tc|intro; apply rq_op_add]|].
    intro s2. destruct r; try apply rq_refl; [apply rq_create_items|apply rq_create_items|apply rq_op_set_reference].
  - viar. apply rq_guard. intro. apply rq_create_items.
  - viar. apply rq_op_add.
  - viar. unfold op_remove. repeat (apply rq_guard; intro). apply rq_bind; [apply rq_remove_core|intro; rq_triv].
  - viar. unfold op_remove_from. repeat (apply rq_guard; intro). apply rq_bind; [apply rq_fold_idsR; intros; apply rq_remove_core|intro; rq_triv].
  - viar. unfold op_reorder. repeat (apply rq_guard; intro). rq_triv.
  - viar. unfold op_reorder_wire. repeat (apply rq_guard; intro). rq_triv.
  - viar. unfold op_connect. apply rq_guard. intro s1. destruct p as [i|n i|]; cbn; try apply rq_refl.
    + destruct (ipwire s1 i); cbn; [apply rq_refl|rq_triv].
    + destruct (assoc i (ipins s1 n)) as [[w0|]|]; cbn; try apply rq_refl. rq_triv.
  - viar. unfold op_disconnect. repeat (apply rq_guard; intro). destruct p; rq_triv.
  - viar. unfold op_disconnect_from. repeat (apply rq_guard; intro). cbn [fst ret].
    match goal with |- rq ?sx (set_wpins (fold_left ?f ?l ?sx) _ _) =>
      apply (rq_trans sx (fold_left f l sx)); [|rq_triv]; apply rq_fold_left; intros sq q; destruct q; rq_triv end.
  - viar. apply rq_op_set_reference.
  - viar. unfold op_set_top. apply rq_guard. intro s0.
    set (s1 := clear_old_top (emit s0 (ETop n a)) n).
    assert (T1 : rq s0 s1) by (unfold s1, clear_old_top; destruct (top _ n); rq_triv).
    destruct a as [x|d|].
    + eapply rq_trans; [exact T1|rq_triv].
    + pose proof (rq_construct s1 KInstance None []) as Tc.
      destruct (construct s1 KInstance None []) as [res t]. cbn [fst] in Tc.
      eapply rq_trans; [exact T1|]. apply rq_bind; [exact Tc|]. intro s2.
      apply rq_bind; [apply rq_op_set_reference|]. intro s3. cbn [fst ret].
      unfold clear_old_top. destruct (top _ n); rq_triv.
    + eapply rq_trans; [exact T1|rq_triv].
  - viar. apply rq_guard. intro. apply rq_struct, se_op_set_name.
  - viar. apply rq_guard. intro. apply rq_struct, se_op_del_name.
  - viar. apply rq_guard. intro. apply rq_struct, se_dict_set.
  - viar. apply rq_guard. intro. apply rq_struct, se_dict_del.
  - viar. apply rq_guard. intro. apply rq_struct, se_dict_pop.
  - viar. apply rq_guard. intro. rq_triv.
  - viar. repeat (apply rq_guard; intro). rq_triv.
  - viar. apply rq_guard. intro. rq_triv.
  - viar. apply rq_guard. intro. rq_triv.
  - viar. rq_triv.
Qed.

Lemma refk_init : RefK init.
Proof. intros x d H. discriminate. Qed.

Theorem reachable_refk ops : RefK (run ops init).
Proof.
  assert (G : forall ops s, RefK s -> RefK (run ops s)).
  { induction ops0 as [|o ops0 IH]; intros s F; cbn [run fold_left]; [exact F|]. apply IH, step_refk, F. }
  apply G, refk_init.
Qed.

(* with freshness: references point below the counter *)
Lemma ref_lt s x d : RefK s -> Fresh s -> iref s x = Some d -> d < next s.
Proof.
  intros K F H. destruct (Nat.lt_ge_cases d (next s)) as [Hl|Hg]; [exact Hl|].
  exfalso. apply (K x d H). apply (f_kind _ F). exact Hg.
Qed.
