(* EBLIF engine: the reader builds what the statements say - tracking of every model's
   instances (kind, definition, data) through BlifRead.exec.

   [frame cur ms ms']: a step of the reader leaves, for every model other than the current one,
   the cables, the library, the declared flag and the instances' (kind, definition, data) as
   they were; models that appear are empty. *)
From Coq Require Import List Arith NArith Bool Lia Permutation.
From SV Require Import Base.Base Fmt.Blif Fmt.BlifRead Fmt.BlifSpec Proofs.BlifBase Proofs.BlifWF Proofs.BlifExec.
Import ListNotations.

Definition isigs (m : model) : list isig := map isig_of_inst (m_insts m).

Definition keep (m m' : model) : Prop :=
  m_cables m' = m_cables m /\ isigs m' = isigs m /\ m_lib m' = m_lib m /\ m_defined m' = m_defined m.

Definition blank (m : model) : Prop :=
  m_cables m = [] /\ m_insts m = [] /\ m_lib m = LNone /\ m_defined m = false.

Definition frame (cur : str) (ms ms' : list model) : Prop :=
  (forall nm m, find_model nm ms = Some m ->
     exists m', find_model nm ms' = Some m' /\ (nm <> cur -> keep m m')) /\
  (forall nm m', find_model nm ms = None -> find_model nm ms' = Some m' -> nm <> cur -> blank m').

Lemma keep_refl m : keep m m.
Proof. repeat split. Qed.

Lemma keep_trans a b c : keep a b -> keep b c -> keep a c.
Proof. intros [A1 [A2 [A3 A4]]] [B1 [B2 [B3 B4]]]. repeat split; congruence. Qed.

Lemma keep_blank m m' : blank m -> keep m m' -> blank m'.
Proof.
  intros [A1 [A2 [A3 A4]]] [B1 [B2 [B3 B4]]]. repeat split; try congruence.
  unfold isigs in B2. rewrite A2 in B2. cbn in B2. destruct (m_insts m'); [reflexivity|discriminate].
Qed.

Lemma frame_refl cur ms : frame cur ms ms.
Proof. split; [intros nm m H; exists m; split; [assumption|intro; apply keep_refl]|intros; congruence]. Qed.

Lemma frame_trans cur a b c : frame cur a b -> frame cur b c -> frame cur a c.
Proof.
  intros [A1 A2] [B1 B2]. split.
  - intros nm m H. destruct (A1 nm m H) as [m1 [H1 K1]]. destruct (B1 nm m1 H1) as [m2 [H2 K2]].
    exists m2. split; [assumption|]. intro Hne. eapply keep_trans; eauto.
  - intros nm m' Hn Hs Hne. destruct (find_model nm b) as [m1|] eqn:E.
    + destruct (B1 nm m1 E) as [m2 [H2 K2]]. assert (m2 = m') by congruence. subst m2.
      eapply keep_blank; [eapply A2; eauto|auto].
    + eapply B2; eauto.
Qed.

(* updates of the current model only *)
Lemma frame_upd_model cur f ms :
  (forall m, m_name m = cur -> m_name (f m) = cur) -> frame cur ms (upd_model cur f ms).
Proof.
  intro Hf. split.
  - intros nm m H. rewrite (find_model_upd _ _ _ _ Hf), H. eexists. split; [reflexivity|].
    intro Hne. pose proof (find_model_In _ _ _ H) as [_ Hn]. rewrite Hn.
    apply str_eqb_false in Hne. rewrite Hne. apply keep_refl.
  - intros nm m' Hn Hs. rewrite (find_model_upd _ _ _ _ Hf), Hn in Hs. discriminate.
Qed.

Lemma frame_upd_model_res cur f ms ms' :
  upd_model_res cur f ms = Ok ms' -> (forall m m', f m = Ok m' -> m_name m' = m_name m) -> frame cur ms ms'.
Proof.
  unfold upd_model_res. destruct (find_model cur ms) as [m|] eqn:E; [|discriminate].
  intros H Hf. apply bind_ok in H as [m' [H1 H2]]. inversion H2; subst ms'.
  apply frame_upd_model. intros x Hx. rewrite (Hf _ _ H1). apply find_model_In in E. tauto.
Qed.

(* updates that keep the tracked fields of every model *)
Lemma frame_upd_keep r f cur ms :
  (forall m, m_name m = r -> m_name (f m) = r) -> (forall m, keep m (f m)) -> frame cur ms (upd_model r f ms).
Proof.
  intros Hf Hk. split.
  - intros nm m H. rewrite (find_model_upd _ _ _ _ Hf), H. eexists. split; [reflexivity|].
    intros _. destruct (str_eqb (m_name m) r); [apply Hk|apply keep_refl].
  - intros nm m' Hn Hs. rewrite (find_model_upd _ _ _ _ Hf), Hn in Hs. discriminate.
Qed.

Lemma isig_bump r new i : isig_of_inst (bump r new i) = isig_of_inst i.
Proof. unfold bump. destruct (str_eqb (i_ref i) r); reflexivity. Qed.

Lemma frame_add_pins r new cur ms : frame cur ms (add_pins_refs r new ms).
Proof.
  split.
  - intros nm m H. rewrite find_model_add_pins, H. cbn. eexists. split; [reflexivity|]. intros _.
    repeat split. unfold isigs. cbn. rewrite map_map. apply map_ext. intro i. apply isig_bump.
  - intros nm m' Hn Hs. rewrite find_model_add_pins, Hn in Hs. discriminate.
Qed.

Lemma frame_add_port r q cur ms : frame cur ms (add_port r q ms).
Proof.
  unfold add_port. eapply frame_trans; [|apply frame_add_pins].
  apply frame_upd_keep; [intros x Hx; exact Hx|intro x; repeat split].
Qed.

Lemma frame_grow_port r p w cur ms : frame cur ms (grow_port r p w ms).
Proof.
  unfold grow_port. destruct (find_model r ms); [|apply frame_refl].
  destruct (Nat.ltb _ _); [|apply frame_refl].
  eapply frame_trans; [|apply frame_add_pins].
  apply frame_upd_keep; [intros x Hx; exact Hx|intro x; repeat split].
Qed.

Lemma frame_ensure nm cur ms : frame cur ms (ensure_model nm ms).
Proof.
  unfold ensure_model. destruct (find_model nm ms) eqn:E; [apply frame_refl|]. split.
  - intros r m H. rewrite find_model_app, H. exists m. split; [reflexivity|intro; apply keep_refl].
  - intros r m' Hn Hs _. rewrite find_model_app, Hn in Hs. cbn in Hs.
    destruct (str_eqb nm r); inversion Hs. repeat split.
Qed.

Lemma frame_ensure_port r q cur ms : frame cur ms (ensure_port r q ms).
Proof. unfold ensure_port. destruct (find_port _ _); [apply frame_refl|apply frame_add_port]. Qed.

Lemma frame_fold_ensure_port r qs cur ms : frame cur ms (fold_left (fun ms q => ensure_port r q ms) qs ms).
Proof.
  revert ms. induction qs as [|q qs IH]; intro ms; cbn; [apply frame_refl|].
  eapply frame_trans; [apply frame_ensure_port|apply IH].
Qed.

Lemma frame_fold {A X} (f : result A -> X -> result A) (g : A -> list model) cur l a a' :
  (forall e x, f (Error e) x = Error e) ->
  (forall a x a', f (Ok a) x = Ok a' -> frame cur (g a) (g a')) ->
  fold_left f l (Ok a) = Ok a' -> frame cur (g a) (g a').
Proof.
  intros He Hs H.
  apply (fold_res_inv f (fun b => frame cur (g a) (g b)) He) with (l := l) (a := a) (a' := a'); auto.
  - intros b x b' Hb Hf. eapply frame_trans; eauto.
  - apply frame_refl.
Qed.

Lemma frame_do_input al cur ms tok ms' : do_input al cur (Ok ms) tok = Ok ms' -> frame cur ms ms'.
Proof.
  intro H. unfold do_input in H. cbn [bind] in H. destruct (pni tok) as [[p i]|]; [|discriminate]. cbn [bind] in H.
  destruct (input_io cur p ms).
  { inversion H; subst. eapply frame_trans; [|apply frame_grow_port]. apply frame_upd_model; intros x Hx; exact Hx. }
  eapply frame_trans; [|eapply frame_upd_model_res; [exact H|intros; eapply connect_to_name; eauto]].
  eapply frame_trans; [|apply frame_grow_port].
  destruct (find_port _ _); [apply frame_upd_model; intros x Hx; exact Hx|apply frame_add_port].
Qed.

Lemma frame_do_output al cur ms tok ms' : do_output al cur (Ok ms) tok = Ok ms' -> frame cur ms ms'.
Proof.
  intro H. unfold do_output in H. cbn [bind] in H. destruct (pni tok) as [[p i]|]; [|discriminate]. cbn [bind] in H.
  set (ms1 := match find_port _ _ with None => _ | Some _ => ms end) in H.
  assert (F1 : frame cur ms ms1) by (unfold ms1; destruct (find_port _ _); [apply frame_refl|apply frame_add_port]).
  set (ms2 := upd_model cur _ ms1) in H.
  assert (F2 : frame cur ms1 ms2) by (apply frame_upd_model; intros x Hx; exact Hx).
  destruct (_ || _).
  - inversion H; subst. eapply frame_trans; [exact F1|]. eapply frame_trans; [exact F2|apply frame_grow_port].
  - eapply frame_trans; [exact F1|]. eapply frame_trans; [exact F2|]. eapply frame_trans; [apply frame_grow_port|].
    eapply frame_upd_model_res; [exact H|intros; eapply connect_to_name; eauto].
Qed.

Lemma frame_do_pair ref cur a tok a' : do_pair ref (Ok a) tok = Ok a' -> frame cur (fst a) (fst a').
Proof.
  destruct a as [ms info]. intro H. unfold do_pair in H. cbn [bind] in H. destruct (split_eq tok) as [formal actual].
  destruct (pni formal) as [[p i]|]; [|discriminate]. cbn [bind] in H.
  set (ms1 := match find_port _ _ with None => _ | Some _ => ms end) in H.
  assert (F1 : frame cur ms ms1) by (unfold ms1; destruct (find_port _ _); [apply frame_refl|apply frame_add_port]).
  destruct (Nat.leb _ _); inversion H; subst; cbn; [|assumption].
  eapply frame_trans; [exact F1|apply frame_grow_port].
Qed.

(* on the current model: the instances keep their (kind, definition, data) *)
Definition keepI (cur : str) (ms ms' : list model) : Prop :=
  forall m, find_model cur ms = Some m -> exists m', find_model cur ms' = Some m' /\ isigs m' = isigs m /\
     length (m_insts m') = length (m_insts m).

Lemma keepI_refl cur ms : keepI cur ms ms.
Proof. intros m H. exists m. auto. Qed.

Lemma keepI_trans cur a b c : keepI cur a b -> keepI cur b c -> keepI cur a c.
Proof.
  intros A B m H. destruct (A m H) as [m1 [H1 [I1 N1]]]. destruct (B m1 H1) as [m2 [H2 [I2 N2]]].
  exists m2. repeat split; congruence.
Qed.

Lemma keepI_upd_model cur f ms :
  (forall m, m_name m = cur -> m_name (f m) = cur) ->
  (forall m, isigs (f m) = isigs m /\ length (m_insts (f m)) = length (m_insts m)) ->
  keepI cur ms (upd_model cur f ms).
Proof.
  intros Hn Hf m H. rewrite (find_model_upd _ _ _ _ Hn), H. pose proof (find_model_In _ _ _ H) as [_ E].
  rewrite E, str_eqb_refl. eexists. split; [reflexivity|]. apply Hf.
Qed.

Lemma keepI_frame_keep cur ms ms' :
  (forall nm m, find_model nm ms = Some m -> exists m', find_model nm ms' = Some m' /\ keep m m' /\
       length (m_insts m') = length (m_insts m)) -> keepI cur ms ms'.
Proof.
  intros H m Hm. destruct (H cur m Hm) as [m' [H1 [[K1 [K2 [K3 K4]]] L]]]. exists m'. repeat split; auto.
Qed.

Lemma keepI_add_pins r new cur ms : keepI cur ms (add_pins_refs r new ms).
Proof.
  intros m H. rewrite find_model_add_pins, H. cbn. eexists. split; [reflexivity|]. repeat split.
  - unfold isigs. cbn. rewrite map_map. apply map_ext. intro i. apply isig_bump.
  - cbn. apply map_length.
Qed.

Lemma keepI_upd_any r f cur ms :
  (forall m, m_name m = r -> m_name (f m) = r) ->
  (forall m, isigs (f m) = isigs m /\ length (m_insts (f m)) = length (m_insts m)) ->
  keepI cur ms (upd_model r f ms).
Proof.
  intros Hn Hf m H. rewrite (find_model_upd _ _ _ _ Hn), H. eexists. split; [reflexivity|].
  destruct (str_eqb (m_name m) r); [apply Hf|auto].
Qed.

Lemma keepI_add_port r q cur ms : keepI cur ms (add_port r q ms).
Proof.
  unfold add_port. eapply keepI_trans; [|apply keepI_add_pins].
  apply keepI_upd_any; [intros x Hx; exact Hx|intro x; repeat split].
Qed.

Lemma keepI_grow_port r p w cur ms : keepI cur ms (grow_port r p w ms).
Proof.
  unfold grow_port. destruct (find_model r ms); [|apply keepI_refl].
  destruct (Nat.ltb _ _); [|apply keepI_refl].
  eapply keepI_trans; [|apply keepI_add_pins].
  apply keepI_upd_any; [intros x Hx; exact Hx|intro x; repeat split].
Qed.

Lemma keepI_ensure nm cur ms : keepI cur ms (ensure_model nm ms).
Proof.
  intros m H. unfold ensure_model. destruct (find_model nm ms); [eauto 6|].
  rewrite find_model_app, H. eauto 6.
Qed.

Lemma keepI_ensure_port r q cur ms : keepI cur ms (ensure_port r q ms).
Proof. unfold ensure_port. destruct (find_port _ _); [apply keepI_refl|apply keepI_add_port]. Qed.

Lemma keepI_fold_ensure_port r qs cur ms : keepI cur ms (fold_left (fun ms q => ensure_port r q ms) qs ms).
Proof.
  revert ms. induction qs as [|q qs IH]; intro ms; cbn; [apply keepI_refl|].
  eapply keepI_trans; [apply keepI_ensure_port|apply IH].
Qed.

Lemma keepI_upd_model_res cur f ms ms' :
  upd_model_res cur f ms = Ok ms' ->
  (forall m m', f m = Ok m' -> m_name m' = m_name m /\ isigs m' = isigs m /\
                 length (m_insts m') = length (m_insts m)) ->
  keepI cur ms ms'.
Proof.
  unfold upd_model_res. destruct (find_model cur ms) as [m|] eqn:E; [|discriminate].
  intros H Hf. apply bind_ok in H as [m' [H1 H2]]. inversion H2; subst ms'.
  intros x Hx. assert (x = m) by congruence. subst x.
  destruct (Hf _ _ H1) as [F1 F2]. pose proof (find_model_In _ _ _ E) as [_ En].
  rewrite find_model_upd; [|intros y Hy; congruence]. rewrite E, En, str_eqb_refl. eauto.
Qed.

Lemma connect_to_keeps al pr c k m m' :
  connect_to al pr c k m = Ok m' ->
  m_name m' = m_name m /\ isigs m' = isigs m /\ length (m_insts m') = length (m_insts m).
Proof. unfold connect_to. destruct (connected m pr); [discriminate|]. intro H. inversion H. repeat split. Qed.

Lemma keepI_fold {A X} (f : result A -> X -> result A) (g : A -> list model) cur l a a' :
  (forall e x, f (Error e) x = Error e) ->
  (forall a x a', f (Ok a) x = Ok a' -> keepI cur (g a) (g a')) ->
  fold_left f l (Ok a) = Ok a' -> keepI cur (g a) (g a').
Proof.
  intros He Hs H.
  apply (fold_res_inv f (fun b => keepI cur (g a) (g b)) He) with (l := l) (a := a) (a' := a'); auto.
  - intros b x b' Hb Hf. eapply keepI_trans; eauto.
  - apply keepI_refl.
Qed.

Lemma keepI_do_input al cur ms tok ms' : do_input al cur (Ok ms) tok = Ok ms' -> keepI cur ms ms'.
Proof.
  intro H. unfold do_input in H. cbn [bind] in H. destruct (pni tok) as [[p i]|]; [|discriminate]. cbn [bind] in H.
  destruct (input_io cur p ms).
  { inversion H; subst. eapply keepI_trans; [|apply keepI_grow_port].
    apply keepI_upd_any; [intros x Hx; exact Hx|intro x; repeat split]. }
  set (ms1 := match find_port _ _ with None => _ | Some _ => _ end) in H.
  assert (K1 : keepI cur ms ms1).
  { unfold ms1. destruct (find_port _ _); [|apply keepI_add_port].
    apply keepI_upd_any; [intros x Hx; exact Hx|intro x; repeat split]. }
  eapply keepI_trans; [exact K1|]. eapply keepI_trans; [apply keepI_grow_port|].
  eapply keepI_upd_model_res; [exact H|]. intros; eapply connect_to_keeps; eauto.
Qed.

Lemma keepI_do_output al cur ms tok ms' : do_output al cur (Ok ms) tok = Ok ms' -> keepI cur ms ms'.
Proof.
  intro H. unfold do_output in H. cbn [bind] in H. destruct (pni tok) as [[p i]|]; [|discriminate]. cbn [bind] in H.
  set (ms1 := match find_port _ _ with None => _ | Some _ => ms end) in H.
  assert (F1 : keepI cur ms ms1) by (unfold ms1; destruct (find_port _ _); [apply keepI_refl|apply keepI_add_port]).
  set (ms2 := upd_model cur _ ms1) in H.
  assert (F2 : keepI cur ms1 ms2) by (apply keepI_upd_any; [intros x Hx; exact Hx|intro x; repeat split]).
  destruct (_ || _).
  - inversion H; subst. eapply keepI_trans; [exact F1|]. eapply keepI_trans; [exact F2|apply keepI_grow_port].
  - eapply keepI_trans; [exact F1|]. eapply keepI_trans; [exact F2|]. eapply keepI_trans; [apply keepI_grow_port|].
    eapply keepI_upd_model_res; [exact H|intros; eapply connect_to_keeps; eauto].
Qed.

Lemma keepI_do_pair ref cur a tok a' : do_pair ref (Ok a) tok = Ok a' -> keepI cur (fst a) (fst a').
Proof.
  destruct a as [ms info]. intro H. unfold do_pair in H. cbn [bind] in H. destruct (split_eq tok) as [formal actual].
  destruct (pni formal) as [[p i]|]; [|discriminate]. cbn [bind] in H.
  set (ms1 := match find_port _ _ with None => _ | Some _ => ms end) in H.
  assert (F1 : keepI cur ms ms1) by (unfold ms1; destruct (find_port _ _); [apply keepI_refl|apply keepI_add_port]).
  destruct (Nat.leb _ _); inversion H; subst; cbn; [|assumption].
  eapply keepI_trans; [exact F1|apply keepI_grow_port].
Qed.

(* ---------- instance statements on the current model ---------- *)
Lemma frame_conn_one al cur ref idx ms fa ms' : conn_one al cur ref idx (Ok ms) fa = Ok ms' -> frame cur ms ms'.
Proof.
  intro H. unfold conn_one in H. cbn [bind] in H.
  destruct (pni (snd fa)) as [[c k]|]; [|discriminate]. cbn [bind] in H.
  destruct (pni (fst fa)) as [[p i]|]; [|discriminate]. cbn [bind] in H.
  destruct (str_eqb c k_unconn).
  - inversion H; subst. apply frame_upd_model. intros x Hx. exact Hx.
  - destruct (find_port _ _); [|discriminate].
    eapply frame_trans; [apply frame_grow_port|].
    eapply frame_upd_model_res; [exact H|intros; eapply connect_to_name; eauto].
Qed.

Lemma isigs_upd_inst idx f m :
  (forall i, isig_of_inst (f i) = isig_of_inst i) -> isigs (upd_inst idx f m) = isigs m.
Proof. intro Hf. unfold isigs, upd_inst. cbn. apply map_upd_nth_same. exact Hf. Qed.

Lemma keepI_conn_one al cur ref idx ms fa ms' : conn_one al cur ref idx (Ok ms) fa = Ok ms' -> keepI cur ms ms'.
Proof.
  intro H. unfold conn_one in H. cbn [bind] in H.
  destruct (pni (snd fa)) as [[c k]|]; [|discriminate]. cbn [bind] in H.
  destruct (pni (fst fa)) as [[p i]|]; [|discriminate]. cbn [bind] in H.
  destruct (str_eqb c k_unconn).
  - inversion H; subst. apply keepI_upd_model; [intros x Hx; exact Hx|]. intro m. repeat split.
    + apply isigs_upd_inst. reflexivity.
    + cbn. apply length_upd_nth.
  - destruct (find_port _ _); [|discriminate].
    eapply keepI_trans; [apply keepI_grow_port|].
    eapply keepI_upd_model_res; [exact H|intros; eapply connect_to_keeps; eauto].
Qed.

Lemma set_inst_name_keeps idx nm m m' :
  set_inst_name idx nm m = Ok m' ->
  m_name m' = m_name m /\ isigs m' = isigs m /\ length (m_insts m') = length (m_insts m).
Proof.
  unfold set_inst_name. destruct (name_taken _ _ _); [discriminate|]. intro H. inversion H; subst m'.
  repeat split; [apply isigs_upd_inst; reflexivity|cbn; apply length_upd_nth].
Qed.

Lemma finish_inst_track s ref idx nm info ms s' :
  finish_inst s ref idx nm info ms = Ok s' ->
  frame (s_cur s) ms (st_models s') /\ keepI (s_cur s) ms (st_models s') /\
  s_cur s' = s_cur s /\ s_curinst s' = Some idx.
Proof.
  intro H. unfold finish_inst in H.
  destruct (match nm with Some x => _ | None => _ end) as [name tbl].
  apply bind_ok in H as [ms1 [H1 H]]. apply bind_ok in H as [ms2 [H2 H]]. inversion H; subst s'. clear H.
  cbn [st_models s_nl b_models set_models s_cur s_curinst].
  assert (F1 : frame (s_cur s) ms ms1) by (eapply frame_upd_model_res; [exact H1|intros; eapply set_inst_name_name; eauto]).
  assert (K1 : keepI (s_cur s) ms ms1) by (eapply keepI_upd_model_res; [exact H1|intros; eapply set_inst_name_keeps; eauto]).
  unfold connect_instance_pins in H2.
  assert (F2 : frame (s_cur s) ms1 ms2).
  { apply (frame_fold (conn_one (s_merged s) (s_cur s) ref idx) (fun x => x) (s_cur s) info ms1 ms2); auto.
    intros a x a' A. eapply frame_conn_one; eauto. }
  assert (K2 : keepI (s_cur s) ms1 ms2).
  { apply (keepI_fold (conn_one (s_merged s) (s_cur s) ref idx) (fun x => x) (s_cur s) info ms1 ms2); auto.
    intros a x a' A. eapply keepI_conn_one; eauto. }
  split; [eapply frame_trans; eauto|]. split; [eapply keepI_trans; eauto|]. split; reflexivity.
Qed.

(* the instances' (kind, definition, data) of the model called [nm] *)
Definition isigs_at (nm : str) (ms : list model) : list isig :=
  match find_model nm ms with Some m => isigs m | None => [] end.

Definition new_isig (k : ikind) (ref : str) : isig := mkIsig k ref None [] [] [].

(* the effect of one statement on the instance list of the current model (BlifSpec.spec_insts) *)
Definition step_isig (x : stmt) (acc : list isig) : list isig :=
  match x with
  | SSub gate ref _ => acc ++ [new_isig (if gate then KGate else KSub) ref]
  | SNames nets => acc ++ [new_isig KNames (k_logic_gate ++ dec (length nets - 1))]
  | SLatch _ => acc ++ [new_isig KLatch k_latch_def]
  | SCover a b => upd_last (fun g => mkIsig (g_kind g) (g_ref g) (g_cname g) (g_attr g) (g_param g) (g_covers g ++ [(a, b)])) acc
  | SCname n => upd_last (fun g => mkIsig (g_kind g) (g_ref g) (Some n) (g_attr g) (g_param g) (g_covers g)) acc
  | SAttr k v => upd_last (fun g => mkIsig (g_kind g) (g_ref g) (g_cname g) (sassoc_set k v (g_attr g)) (g_param g) (g_covers g)) acc
  | SParam k v => upd_last (fun g => mkIsig (g_kind g) (g_ref g) (g_cname g) (g_attr g) (sassoc_set k v (g_param g)) (g_covers g)) acc
  | _ => acc
  end.

Lemma spec_insts_step acc x body : spec_insts acc (x :: body) = spec_insts (step_isig x acc) body.
Proof. destruct x; reflexivity. Qed.

(* the current instance is the last child of the current model *)
Definition CI (s : st) : Prop :=
  forall m, find_model (s_cur s) (st_models s) = Some m -> m_insts m <> [] ->
    s_curinst s = Some (length (m_insts m) - 1).

Lemma upd_last_map {A B} (g : A -> B) (f : A -> A) (f' : B -> B) l :
  (forall x, g (f x) = f' (g x)) ->
  map g (upd_nth (length l - 1) f l) = upd_last f' (map g l).
Proof.
  intro H. unfold upd_last. rewrite <- map_rev.
  destruct l as [|a l] using rev_ind; [reflexivity|].
  rewrite rev_app_distr. cbn [rev app map]. rewrite app_length. cbn [length].
  replace (length l + 1 - 1) with (length l) by lia.
  rewrite map_rev, rev_involutive.
  clear IHl. induction l as [|b l IH]; cbn; [rewrite H; reflexivity|]. rewrite IH. reflexivity.
Qed.

Lemma isigs_at_frame cur ms ms' nm : frame cur ms ms' -> nm <> cur -> isigs_at nm ms' = isigs_at nm ms.
Proof.
  intros [F1 F2] Hne. unfold isigs_at. destruct (find_model nm ms) as [m|] eqn:E.
  - destruct (F1 nm m E) as [m' [H1 K]]. rewrite H1. apply (K Hne).
  - destruct (find_model nm ms') as [m'|] eqn:E'; [|reflexivity].
    destruct (F2 nm m' E E' Hne) as [_ [B _]]. unfold isigs. rewrite B. reflexivity.
Qed.

Lemma isigs_at_keepI cur ms ms' : has cur ms -> keepI cur ms ms' -> isigs_at cur ms' = isigs_at cur ms.
Proof.
  intros Hc K. destruct (has_find _ _ Hc) as [m Hm]. destruct (K m Hm) as [m' [H1 [H2 _]]].
  unfold isigs_at. rewrite Hm, H1. exact H2.
Qed.

Lemma CI_keepI s s' :
  has (s_cur s) (st_models s) -> keepI (s_cur s) (st_models s) (st_models s') ->
  s_cur s' = s_cur s -> s_curinst s' = s_curinst s -> CI s -> CI s'.
Proof.
  intros Hc K E1 E2 HC m' Hm' Hne. rewrite E1 in Hm'. destruct (has_find _ _ Hc) as [m Hm].
  destruct (K m Hm) as [m1 [H1 [_ HL]]]. assert (m1 = m') by congruence. subst m1.
  rewrite E2, HL. apply (HC m Hm). intro E. apply Hne. apply length_zero_iff_nil. rewrite HL, E. reflexivity.
Qed.

Lemma inst_tail_track s ref k nm info ms s' :
  has (s_cur s) ms ->
  finish_inst s ref (length (m_insts (get_model (s_cur s) ms))) nm info (add_child (s_cur s) ref k ms) = Ok s' ->
  frame (s_cur s) ms (st_models s') /\
  isigs_at (s_cur s) (st_models s') = isigs_at (s_cur s) ms ++ [new_isig k ref] /\
  CI s' /\ s_cur s' = s_cur s.
Proof.
  intros Hc H. destruct (has_find _ _ Hc) as [m Hm]. rewrite (get_model_find _ _ _ Hm) in H.
  destruct (finish_inst_track _ _ _ _ _ _ _ H) as [F [K [E1 E2]]].
  pose proof (find_model_In _ _ _ Hm) as [_ Hn].
  assert (Hm2 : find_model (s_cur s) (add_child (s_cur s) ref k ms)
                = Some (set_insts m (m_insts m ++ [new_inst ref k (all_pins (get_model ref ms))]))).
  { unfold add_child. rewrite find_model_upd; [|intros x Hx; exact Hx]. rewrite Hm, Hn, str_eqb_refl. reflexivity. }
  destruct (K _ Hm2) as [m' [H1 [H2 HL]]].
  split; [|split; [|split]].
  - eapply frame_trans; [|exact F]. unfold add_child. apply frame_upd_model. intros x Hx. exact Hx.
  - unfold isigs_at. rewrite H1, Hm, H2. unfold isigs. cbn. rewrite map_app. reflexivity.
  - intros mm Hmm Hne. rewrite E1 in Hmm. assert (mm = m') by congruence. subst mm.
    rewrite E2, HL. cbn. rewrite app_length. cbn. f_equal. lia.
  - exact E1.
Qed.

Lemma do_conn_keeps al a i b j m m' :
  do_conn al a i b j m = Ok m' ->
  m_name m' = m_name m /\ isigs m' = isigs m /\ length (m_insts m') = length (m_insts m).
Proof.
  unfold do_conn. destruct (nb_eqb _ _); intro H; inversion H; repeat split.
Qed.

Lemma isigs_nil m : isigs m = [] -> m_insts m = [].
Proof. unfold isigs. destruct (m_insts m); [reflexivity|discriminate]. Qed.

Lemma upd_cur_inst_track s f f' s' :
  J s -> CI s -> upd_cur_inst s f = Ok s' ->
  (forall i, isig_of_inst (f i) = f' (isig_of_inst i)) ->
  frame (s_cur s) (st_models s) (st_models s') /\
  isigs_at (s_cur s) (st_models s') = upd_last f' (isigs_at (s_cur s) (st_models s)) /\
  CI s' /\ s_cur s' = s_cur s.
Proof.
  intros [HI Hc] HC H Hf. unfold upd_cur_inst in H. destruct (s_curinst s) as [idx|] eqn:Ei; [|discriminate].
  inversion H; subst s'. clear H. rewrite st_models_set_ms. cbn [s_cur set_ms set_nl].
  destruct (has_find _ _ Hc) as [m Hm]. pose proof (find_model_In _ _ _ Hm) as [_ Hn].
  assert (Hm' : find_model (s_cur s) (upd_model (s_cur s) (upd_inst idx f) (st_models s)) = Some (upd_inst idx f m)).
  { rewrite find_model_upd; [|intros x Hx; exact Hx]. rewrite Hm, Hn, str_eqb_refl. reflexivity. }
  split; [apply frame_upd_model; intros x Hx; exact Hx|]. split; [|split; [|reflexivity]].
  - unfold isigs_at. rewrite Hm', Hm. unfold isigs, upd_inst. cbn [set_insts m_insts].
    destruct (m_insts m) as [|i0 l0] eqn:El.
    + destruct idx; reflexivity.
    + assert (Hidx : idx = length (m_insts m) - 1).
      { specialize (HC m Hm). rewrite El in HC. specialize (HC ltac:(discriminate)). rewrite Ei in HC.
        inversion HC. rewrite El. reflexivity. }
      rewrite Hidx, El. apply upd_last_map. exact Hf.
  - intros mm Hmm Hne. cbn [s_cur set_ms set_nl st_models] in Hmm. rewrite st_models_set_ms in Hmm.
    assert (mm = upd_inst idx f m) by congruence. subst mm. cbn [s_curinst set_ms set_nl].
    unfold upd_inst in *. cbn [set_insts m_insts] in *. rewrite length_upd_nth. apply (HC m Hm).
    intro E. apply Hne. rewrite E. destruct idx; reflexivity.
Qed.

Definition next_cur (s : st) (x : stmt) : str := match x with SModel nm => nm | _ => s_cur s end.

Lemma keepI_step s s' :
  has (s_cur s) (st_models s) -> keepI (s_cur s) (st_models s) (st_models s') ->
  frame (s_cur s) (st_models s) (st_models s') ->
  s_cur s' = s_cur s -> s_curinst s' = s_curinst s -> CI s ->
  frame (s_cur s') (st_models s) (st_models s') /\
  isigs_at (s_cur s') (st_models s') = isigs_at (s_cur s') (st_models s) /\ CI s' /\ s_cur s' = s_cur s.
Proof.
  intros Hc K F E1 E2 HC. rewrite E1. split; [assumption|]. split; [apply isigs_at_keepI; assumption|].
  split; [eapply CI_keepI; eauto|reflexivity].
Qed.

Lemma exec_isig s x s' :
  J s -> CI s ->
  match x with SModel nm => isigs_at nm (st_models s) = [] | _ => True end ->
  exec s x = Ok s' ->
  frame (s_cur s') (st_models s) (st_models s') /\
  isigs_at (s_cur s') (st_models s') = step_isig x (isigs_at (s_cur s') (st_models s)) /\
  CI s' /\ s_cur s' = next_cur s x.
Proof.
  intros HJ HC Hpre H. pose proof HJ as [HI Hc]. destruct x; cbn [exec] in H; cbn [step_isig next_cur].
  - (* comment *)
    inversion H; subst s'. cbn. split; [apply frame_refl|]. split; [reflexivity|]. split; [exact HC|reflexivity].
  - (* .model *)
    assert (E : s_cur s' = nm /\ s_curinst s' = s_curinst s /\
                st_models s' = upd_model nm (fun m => set_defined m true) (ensure_model nm (st_models s))).
    { destruct (b_top (s_nl s)); inversion H; subst s'; cbn; auto. }
    destruct E as [E1 [E2 E3]]. rewrite E1, E3.
    assert (F : frame nm (st_models s) (upd_model nm (fun m => set_defined m true) (ensure_model nm (st_models s)))).
    { eapply frame_trans; [apply frame_ensure|]. apply frame_upd_model. intros y Hy; exact Hy. }
    assert (Hi : isigs_at nm (upd_model nm (fun m => set_defined m true) (ensure_model nm (st_models s))) = []).
    { unfold isigs_at. rewrite find_model_upd; [|intros y Hy; exact Hy].
      destruct (ensure_model_finds nm (st_models s)) as [m0 Hm0]. rewrite Hm0.
      pose proof (find_model_In _ _ _ Hm0) as [_ Hn0]. rewrite Hn0, str_eqb_refl.
      unfold ensure_model in Hm0. unfold isigs_at in Hpre.
      destruct (find_model nm (st_models s)) as [m1|] eqn:E0.
      - assert (m0 = m1) by congruence. subst m0. exact Hpre.
      - rewrite find_model_app, E0 in Hm0. cbn in Hm0. rewrite str_eqb_refl in Hm0. inversion Hm0. reflexivity. }
    split; [exact F|]. split; [rewrite Hi, Hpre; reflexivity|]. split; [|reflexivity].
    intros m Hm Hne. exfalso. apply Hne. apply isigs_nil. rewrite E1, E3 in Hm. unfold isigs_at in Hi. rewrite Hm in Hi. exact Hi.
  - (* .inputs *)
    apply bind_ok in H as [ms [H1 H2]]. inversion H2; subst s'.
    apply keepI_step; [exact Hc| | |reflexivity|reflexivity|exact HC]; rewrite ?st_models_set_ms.
    + apply (keepI_fold (do_input (s_merged s) (s_cur s)) (fun a => a) (s_cur s) l (st_models s) ms); auto.
      intros a x a' A. eapply keepI_do_input; eauto.
    + apply (frame_fold (do_input (s_merged s) (s_cur s)) (fun a => a) (s_cur s) l (st_models s) ms); auto.
      intros a x a' A. eapply frame_do_input; eauto.
  - (* .outputs *)
    apply bind_ok in H as [ms [H1 H2]]. inversion H2; subst s'.
    apply keepI_step; [exact Hc| | |reflexivity|reflexivity|exact HC]; rewrite ?st_models_set_ms.
    + apply (keepI_fold (do_output (s_merged s) (s_cur s)) (fun a => a) (s_cur s) l (st_models s) ms); auto.
      intros a x a' A. eapply keepI_do_output; eauto.
    + apply (frame_fold (do_output (s_merged s) (s_cur s)) (fun a => a) (s_cur s) l (st_models s) ms); auto.
      intros a x a' A. eapply frame_do_output; eauto.
  - (* .clock *)
    inversion H; subst s'. apply keepI_step; [exact Hc| | |reflexivity|reflexivity|exact HC]; rewrite ?st_models_set_ms.
    + apply keepI_upd_model; [intros y Hy; exact Hy|intro m; repeat split].
    + apply frame_upd_model. intros y Hy; exact Hy.
  - (* .subckt / .gate *)
    apply bind_ok in H as [s1 [H1 H]]. destruct (check_hierarchy_models _ _ _ H1) as [E1 E2].
    assert (E3 : s_curinst s1 = s_curinst s).
    { unfold check_hierarchy in H1. destruct (b_top (s_nl s)) as [[tn tr]|]; [|discriminate].
      destruct (str_eqb ref tr); [|inversion H1; reflexivity].
      destruct (str_eqb ref (s_cur s)); [discriminate|].
      destruct (parents_of _ _) as [|p ps]; cbn in H1; [inversion H1; reflexivity|].
      destruct (forallb _ _); cbn in H1; [inversion H1; reflexivity|discriminate]. }
    apply bind_ok in H as [[ms1 info] [H2 H]].
    assert (HI0 : Inv (ensure_model ref (st_models s1))) by (rewrite E1; apply inv_ensure; assumption).
    destruct (do_pairs_inv ref pairs _ _ _ _ HI0 (has_ensure _ _) H2) as [A1 [A2 A3]].
    assert (Hc1 : has (s_cur s1) ms1).
    { unfold has. rewrite A2, E2, E1. apply has_ensure_other. exact Hc. }
    destruct (inst_tail_track _ _ _ _ _ _ _ Hc1 H) as [T1 [T2 [T3 T4]]].
    assert (F0 : frame (s_cur s1) (st_models s) ms1).
    { rewrite <- E1. eapply frame_trans; [apply frame_ensure|].
      apply (frame_fold (do_pair ref) fst (s_cur s1) pairs (ensure_model ref (st_models s1), []) (ms1, info)); auto.
      intros a x a' A. eapply frame_do_pair; eauto. }
    assert (K0 : keepI (s_cur s1) (st_models s) ms1).
    { rewrite <- E1. eapply keepI_trans; [apply keepI_ensure|].
      apply (keepI_fold (do_pair ref) fst (s_cur s1) pairs (ensure_model ref (st_models s1), []) (ms1, info)); auto.
      intros a x a' A. eapply keepI_do_pair; eauto. }
    rewrite T4, E2 in *. split; [eapply frame_trans; eauto|]. split; [|split; [exact T3|reflexivity]].
    rewrite T2. f_equal. apply isigs_at_keepI; assumption.
  - (* .names *)
    destruct (rev nets) as [|lastnet _]; [discriminate|].
    set (ref := k_logic_gate ++ dec (length nets - 1)) in *.
    pose proof (inv_ensure ref _ HI) as HI0.
    destruct (fold_ensure_port_inv ref (names_ports (length nets - 1)) _ HI0 (has_ensure _ _)) as [A1 [A2 A3]].
    cbn zeta in A1, A2, A3. set (ms1 := fold_left _ (names_ports (length nets - 1)) _) in *.
    assert (Hc1 : has (s_cur s) ms1) by (unfold has; rewrite A2; apply has_ensure_other; exact Hc).
    destruct (inst_tail_track _ _ _ _ _ _ _ Hc1 H) as [T1 [T2 [T3 T4]]].
    assert (F0 : frame (s_cur s) (st_models s) ms1).
    { eapply frame_trans; [apply frame_ensure|]. apply frame_fold_ensure_port. }
    assert (K0 : keepI (s_cur s) (st_models s) ms1).
    { eapply keepI_trans; [apply keepI_ensure|]. apply keepI_fold_ensure_port. }
    rewrite T4. split; [eapply frame_trans; eauto|]. split; [|split; [exact T3|reflexivity]].
    rewrite T2. f_equal. apply isigs_at_keepI; assumption.
  - (* cover *)
    destruct (upd_cur_inst_track s _ (fun g => mkIsig (g_kind g) (g_ref g) (g_cname g) (g_attr g) (g_param g) (g_covers g ++ [(a, b)])) s' HJ HC H) as [T1 [T2 [T3 T4]]].
    { intro i. reflexivity. }
    rewrite T4. auto.
  - (* .latch *)
    set (ref := k_latch_def) in *. set (info := zip latch_order toks) in *.
    pose proof (inv_ensure ref _ HI) as HI0.
    set (ms0 := ensure_model ref (st_models s)) in *.
    set (ms1 := match m_ports (get_model ref ms0) with [] => _ | _ => ms0 end) in H.
    assert (A : map m_name ms1 = map m_name ms0 /\ frame (s_cur s) ms0 ms1 /\ keepI (s_cur s) ms0 ms1).
    { unfold ms1. destruct (m_ports (get_model ref ms0)); [|split; [reflexivity|split; [apply frame_refl|apply keepI_refl]]].
      rewrite (fold_left_map' (fun ms q => ensure_port ref q ms) (fun kv : str * str => latch_port (fst kv)) info ms0).
      destruct (fold_ensure_port_inv ref (map (fun kv => latch_port (fst kv)) info) ms0 HI0 (has_ensure _ _)) as [B1 [B2 _]].
      split; [exact B2|]. split; [apply frame_fold_ensure_port|apply keepI_fold_ensure_port]. }
    destruct A as [A2 [A3 A4]].
    assert (Hc1 : has (s_cur s) ms1) by (unfold has; rewrite A2; apply has_ensure_other; exact Hc).
    destruct (sassoc k_output info) as [out|]; [|discriminate].
    destruct (inst_tail_track _ _ _ _ _ _ _ Hc1 H) as [T1 [T2 [T3 T4]]].
    assert (F0 : frame (s_cur s) (st_models s) ms1) by (eapply frame_trans; [apply frame_ensure|exact A3]).
    assert (K0 : keepI (s_cur s) (st_models s) ms1) by (eapply keepI_trans; [apply keepI_ensure|exact A4]).
    rewrite T4. split; [eapply frame_trans; eauto|]. split; [|split; [exact T3|reflexivity]].
    rewrite T2. f_equal. apply isigs_at_keepI; assumption.
  - (* .param *)
    destruct (upd_cur_inst_track s _ (fun g => mkIsig (g_kind g) (g_ref g) (g_cname g) (g_attr g) (sassoc_set k v (g_param g)) (g_covers g)) s' HJ HC H) as [T1 [T2 [T3 T4]]].
    { intro i. reflexivity. }
    rewrite T4. auto.
  - (* .cname *)
    destruct (s_curinst s) as [idx|] eqn:Ei; [|discriminate]. apply bind_ok in H as [ms1 [H1 H2]]. inversion H2; subst s'.
    set (s0 := set_ms s (upd_model (s_cur s) (upd_inst idx (fun i => set_icname i (Some n))) (st_models s))).
    assert (H0 : upd_cur_inst s (fun i => set_icname i (Some n)) = Ok s0) by (unfold upd_cur_inst; rewrite Ei; reflexivity).
    destruct (upd_cur_inst_track s _ (fun g => mkIsig (g_kind g) (g_ref g) (Some n) (g_attr g) (g_param g) (g_covers g)) s0 HJ HC H0) as [T1 [T2 [T3 T4]]].
    { intro i. reflexivity. }
    assert (HJ0 : J s0).
    { split; [apply inv_upd_inst; [assumption|intro; split; reflexivity]|].
      unfold has. cbn. rewrite upd_model_names by (intros y Hy; exact Hy). exact Hc. }
    assert (K : keepI (s_cur s) (st_models s0) ms1).
    { eapply keepI_upd_model_res; [exact H1|intros; eapply set_inst_name_keeps; eauto]. }
    assert (F : frame (s_cur s) (st_models s0) ms1).
    { eapply frame_upd_model_res; [exact H1|intros; eapply set_inst_name_name; eauto]. }
    rewrite st_models_set_ms. cbn [s_cur set_ms set_nl].
    split; [eapply frame_trans; eauto|]. split; [|split; [|reflexivity]].
    + rewrite <- T2. apply isigs_at_keepI; [exact (proj2 HJ0)|exact K].
    + apply (CI_keepI s0 (set_ms s ms1)); [exact (proj2 HJ0)|rewrite st_models_set_ms; exact K|reflexivity|reflexivity|exact T3].
  - (* .attr *)
    destruct (upd_cur_inst_track s _ (fun g => mkIsig (g_kind g) (g_ref g) (g_cname g) (sassoc_set k v (g_attr g)) (g_param g) (g_covers g)) s' HJ HC H) as [T1 [T2 [T3 T4]]].
    { intro i. reflexivity. }
    rewrite T4. auto.
  - (* .conn *)
    destruct (pni a) as [[an ai]|]; [|discriminate]. cbn [bind] in H.
    destruct (pni b) as [[bn bi]|]; [|discriminate]. cbn [bind] in H.
    apply bind_ok in H as [ms [H1 H2]]. inversion H2; subst s'.
    apply keepI_step; [exact Hc| | |reflexivity|reflexivity|exact HC]; rewrite ?st_models_set_ms.
    + eapply keepI_upd_model_res; [exact H1|intros; eapply do_conn_keeps; eauto].
    + eapply frame_upd_model_res; [exact H1|intros; eapply do_conn_name; eauto].
  - (* .blackbox *)
    inversion H; subst s'. apply keepI_step; [exact Hc| | |reflexivity|reflexivity|exact HC]; cbn [st_models s_nl b_models set_models].
    + apply keepI_upd_model; [intros y Hy; exact Hy|intro m; repeat split].
    + apply frame_upd_model. intros y Hy; exact Hy.
  - (* .end *)
    destruct (m_lib (cur_model s)); inversion H; subst s'.
    apply keepI_step; [exact Hc| | |reflexivity|reflexivity|exact HC]; cbn [st_models s_nl b_models set_nl].
    + apply keepI_upd_model; [intros y Hy; exact Hy|intro m; repeat split].
    + apply frame_upd_model. intros y Hy; exact Hy.
  - discriminate.
Qed.

(* ---------- all statements ---------- *)
Lemma exec_all_track ss : forall s s',
  J s -> CI s -> NoDup (model_names ss) ->
  (forall nm, In nm (model_names ss) -> nm <> s_cur s /\ isigs_at nm (st_models s) = []) ->
  exec_all s ss = Ok s' ->
  forall nm, isigs_at nm (st_models s') = spec_insts (isigs_at nm (st_models s)) (body_of nm (s_cur s) ss).
Proof.
  induction ss as [|x ss IH]; intros s s' HJ HC Hnd Hfresh H nm; cbn [exec_all] in H.
  - inversion H; subst. reflexivity.
  - apply bind_ok in H as [s1 [H1 H2]].
    assert (Hpre : match x with SModel c => isigs_at c (st_models s) = [] | _ => True end).
    { destruct x; auto. apply Hfresh. left. reflexivity. }
    destruct (exec_isig s x s1 HJ HC Hpre H1) as [F [Hi [HC1 Hcur]]].
    pose proof (exec_inv _ _ _ HJ H1) as HJ1.
    assert (Hnd1 : NoDup (model_names ss)).
    { destruct x; cbn in Hnd; auto. inversion Hnd; assumption. }
    assert (Hfresh1 : forall c, In c (model_names ss) -> c <> s_cur s1 /\ isigs_at c (st_models s1) = []).
    { intros c Hin. assert (Hne : c <> s_cur s1).
      { rewrite Hcur. destruct x; cbn; try (apply Hfresh; cbn; auto; fail).
        cbn in Hnd. inversion Hnd; subst. intro E. subst. contradiction. }
      split; [exact Hne|]. rewrite (isigs_at_frame _ _ _ _ F Hne). apply Hfresh. destruct x; cbn; auto. }
    rewrite (IH s1 s' HJ1 HC1 Hnd1 Hfresh1 H2 nm). rewrite Hcur.
    destruct (str_eqb (s_cur s1) nm) eqn:E.
    + apply str_eqb_spec in E. subst nm. rewrite Hi. rewrite Hcur.
      destruct x; cbn [next_cur body_of step_isig]; try reflexivity;
        rewrite str_eqb_refl; cbn [app]; rewrite spec_insts_step; reflexivity.
    + apply str_eqb_false in E. assert (Hne : nm <> s_cur s1) by congruence.
      rewrite (isigs_at_frame _ _ _ _ F Hne). rewrite Hcur in E.
      destruct x; cbn [next_cur body_of]; try reflexivity; cbn [next_cur] in E;
        (destruct (str_eqb (s_cur s) nm) eqn:E2; [apply str_eqb_spec in E2; contradiction|reflexivity]).
Qed.

Lemma track_start ss : forall s s',
  top_ok ss -> st_models s = [] -> NoDup (model_names ss) -> exec_all s ss = Ok s' ->
  forall nm, isigs_at nm (st_models s') = spec_insts [] (body_of nm (s_cur s) ss).
Proof.
  induction ss as [|x ss IH]; intros s s' Ht Hs Hnd H nm; cbn [exec_all] in H.
  - inversion H; subst. unfold isigs_at. rewrite Hs. reflexivity.
  - apply bind_ok in H as [s1 [H1 H2]]. destruct x; try contradiction.
    + cbn in H1. inversion H1; subst s1. cbn [body_of]. apply (IH (add_comment s toks) s' Ht Hs Hnd H2 nm).
    + assert (HI : Inv (st_models s)) by (rewrite Hs; split; [constructor|intros m []]).
      pose proof (exec_model_J _ _ _ HI H1) as HJ1.
      assert (E : s_cur s1 = nm0 /\ st_models s1 = upd_model nm0 (fun m => set_defined m true) (ensure_model nm0 [])).
      { cbn [exec] in H1. rewrite <- Hs. destruct (b_top (s_nl s)); inversion H1; subst s1; cbn; auto. }
      destruct E as [E1 E2].
      assert (Hall : forall c, isigs_at c (st_models s1) = []).
      { intro c. rewrite E2. unfold isigs_at, ensure_model. cbn. rewrite str_eqb_refl. cbn.
        destruct (str_eqb nm0 c); reflexivity. }
      assert (HC1 : CI s1).
      { intros m Hm Hne. exfalso. apply Hne. apply isigs_nil. specialize (Hall (s_cur s1)). unfold isigs_at in Hall.
        rewrite Hm in Hall. exact Hall. }
      cbn in Hnd. apply NoDup_cons_iff in Hnd as [Hn1 Hn2].
      rewrite (exec_all_track ss s1 s' HJ1 HC1 Hn2); [|intros c Hc; split; [rewrite E1; intro; subst; contradiction|apply Hall]|exact H2].
      rewrite Hall, E1. reflexivity.
Qed.

(* finish keeps the instances' data *)
Definition same_isigs (m m' : model) : Prop := m_name m' = m_name m /\ isigs m' = isigs m.

Lemma conv_model_isigs ms todo m m' : conv_model ms todo m = Ok m' -> same_isigs m m'.
Proof.
  revert m. induction todo as [|idx todo IH]; intros m H; cbn in H.
  - inversion H. split; reflexivity.
  - destruct (nth_error (m_insts m) idx) as [i|]; [|inversion H; split; reflexivity].
    destruct (wants_conv i); [|apply IH; assumption].
    destruct (conv_name ms m idx i) as [nm|]; [|apply IH; assumption].
    apply bind_ok in H as [m1 [H1 H2]]. destruct (set_inst_name_keeps _ _ _ _ H1) as [A [B _]].
    destruct (IH _ H2) as [C D]. split; congruence.
Qed.

Lemma conv_all_isigs_at ms0 l : forall l', conv_all ms0 l = Ok l' ->
  forall nm, isigs_at nm (map (fun m => if m_defined m then m else set_lib m LPrim) l') = isigs_at nm l.
Proof.
  induction l as [|m l IH]; intros l' H1 nm; cbn in H1.
  - inversion H1. reflexivity.
  - apply bind_ok in H1 as [m' [A H1]]. apply bind_ok in H1 as [rest [B C]]. inversion C; subst l'.
    destruct (conv_model_isigs _ _ _ _ A) as [N I]. specialize (IH rest B nm).
    unfold isigs_at, find_model in *. cbn [map find].
    assert (Hn : m_name (if m_defined m' then m' else set_lib m' LPrim) = m_name m) by (destruct (m_defined m'); cbn; congruence).
    rewrite Hn. destruct (str_eqb (m_name m) nm).
    + destruct (m_defined m'); cbn; exact I.
    + exact IH.
Qed.

Lemma finish_isigs s n : finish s = Ok n -> forall nm, isigs_at nm (b_models n) = isigs_at nm (st_models s).
Proof.
  intro H. unfold finish in H. apply bind_ok in H as [ms [H1 H2]]. inversion H2; subst n. cbn [b_models].
  intro nm. apply (conv_all_isigs_at _ _ _ H1).
Qed.

(* ---------- declared models exist at the end ---------- *)
Lemma frame_has cur ms ms' nm : frame cur ms ms' -> has nm ms -> has nm ms'.
Proof.
  intros [F _] H. destruct (has_find _ _ H) as [m Hm]. destruct (F nm m Hm) as [m' [H1 _]]. eapply find_has; eauto.
Qed.

Lemma exec_all_has ss : forall s s',
  J s -> CI s -> NoDup (model_names ss) ->
  (forall nm, In nm (model_names ss) -> nm <> s_cur s /\ isigs_at nm (st_models s) = []) ->
  exec_all s ss = Ok s' ->
  (forall nm, has nm (st_models s) -> has nm (st_models s')) /\
  (forall nm, In nm (model_names ss) -> has nm (st_models s')).
Proof.
  induction ss as [|x ss IH]; intros s s' HJ HC Hnd Hfresh H; cbn [exec_all] in H.
  - inversion H; subst. split; [auto|intros nm []].
  - apply bind_ok in H as [s1 [H1 H2]].
    assert (Hpre : match x with SModel c => isigs_at c (st_models s) = [] | _ => True end).
    { destruct x; auto. apply Hfresh. left. reflexivity. }
    destruct (exec_isig s x s1 HJ HC Hpre H1) as [F [Hi [HC1 Hcur]]].
    pose proof (exec_inv _ _ _ HJ H1) as HJ1.
    assert (Hnd1 : NoDup (model_names ss)).
    { destruct x; cbn in Hnd; auto. inversion Hnd; assumption. }
    assert (Hfresh1 : forall c, In c (model_names ss) -> c <> s_cur s1 /\ isigs_at c (st_models s1) = []).
    { intros c Hin. assert (Hne : c <> s_cur s1).
      { rewrite Hcur. destruct x; cbn; try (apply Hfresh; cbn; auto; fail).
        cbn in Hnd. inversion Hnd; subst. intro E. subst. contradiction. }
      split; [exact Hne|]. rewrite (isigs_at_frame _ _ _ _ F Hne). apply Hfresh. destruct x; cbn; auto. }
    destruct (IH s1 s' HJ1 HC1 Hnd1 Hfresh1 H2) as [A B]. split.
    + intros nm Hn. apply A. eapply frame_has; eauto.
    + intros nm Hn. destruct x; cbn in Hn; try (apply B; exact Hn).
      destruct Hn as [<-|Hn]; [|apply B; exact Hn]. apply A. cbn in Hcur. rewrite <- Hcur. exact (proj2 HJ1).
Qed.

Lemma start_has ss : forall s s',
  top_ok ss -> st_models s = [] -> NoDup (model_names ss) -> exec_all s ss = Ok s' ->
  forall nm, In nm (model_names ss) -> has nm (st_models s').
Proof.
  induction ss as [|x ss IH]; intros s s' Ht Hs Hnd H nm Hn; cbn [exec_all] in H.
  - destruct Hn.
  - apply bind_ok in H as [s1 [H1 H2]]. destruct x; try contradiction.
    + cbn in H1. inversion H1; subst s1. apply (IH (add_comment s toks) s' Ht Hs Hnd H2 nm Hn).
    + assert (HI : Inv (st_models s)) by (rewrite Hs; split; [constructor|intros m []]).
      pose proof (exec_model_J _ _ _ HI H1) as HJ1.
      assert (E : s_cur s1 = nm0 /\ st_models s1 = upd_model nm0 (fun m => set_defined m true) (ensure_model nm0 [])).
      { cbn [exec] in H1. rewrite <- Hs. destruct (b_top (s_nl s)); inversion H1; subst s1; cbn; auto. }
      destruct E as [E1 E2].
      assert (Hall : forall c, isigs_at c (st_models s1) = []).
      { intro c. rewrite E2. unfold isigs_at, ensure_model. cbn. rewrite str_eqb_refl. cbn.
        destruct (str_eqb nm0 c); reflexivity. }
      assert (HC1 : CI s1).
      { intros m Hm Hne. exfalso. apply Hne. apply isigs_nil. specialize (Hall (s_cur s1)). unfold isigs_at in Hall.
        rewrite Hm in Hall. exact Hall. }
      cbn in Hnd. apply NoDup_cons_iff in Hnd as [Hn1 Hn2].
      destruct (exec_all_has ss s1 s' HJ1 HC1 Hn2) as [A B];
        [intros c Hc; split; [rewrite E1; intro; subst; contradiction|apply Hall]|exact H2|].
      cbn in Hn. destruct Hn as [<-|Hn]; [|apply B; exact Hn]. apply A. rewrite <- E1. exact (proj2 HJ1).
Qed.

(* ---------- reflection of the boolean checks of [supported] ---------- *)
Lemma strs_eqb_eq a b : strs_eqb a b = true -> a = b.
Proof.
  revert b. induction a as [|x a IH]; intros [|y b] H; cbn in H; try discriminate; [reflexivity|].
  apply andb_true_iff in H as [H1 H2]. apply str_eqb_spec in H1. apply IH in H2. congruence.
Qed.

Lemma ostr_eqb_eq a b : ostr_eqb a b = true -> a = b.
Proof. destruct a, b; cbn; intro H; try discriminate; [apply str_eqb_spec in H; congruence|reflexivity]. Qed.

Lemma stmt_eqb_eq a b : stmt_eqb a b = true -> a = b.
Proof.
  destruct a, b; cbn; intro H; try discriminate; try reflexivity;
    repeat match goal with
    | H : _ && _ = true |- _ => apply andb_true_iff in H; destruct H
    | H : strs_eqb _ _ = true |- _ => apply strs_eqb_eq in H
    | H : str_eqb _ _ = true |- _ => apply str_eqb_spec in H
    | H : ostr_eqb _ _ = true |- _ => apply ostr_eqb_eq in H
    | H : Bool.eqb _ _ = true |- _ => apply Bool.eqb_prop in H
    end; subst; reflexivity.
Qed.

Lemma stmts_eqb_eq a b : stmts_eqb a b = true -> a = b.
Proof.
  revert b. induction a as [|x a IH]; intros [|y b] H; cbn in H; try discriminate; [reflexivity|].
  apply andb_true_iff in H as [H1 H2]. apply stmt_eqb_eq in H1. apply IH in H2. congruence.
Qed.

Lemma nodup_strs_NoDup l : nodup_strs l = true -> NoDup l.
Proof.
  induction l as [|x l IH]; cbn; intro H; [constructor|].
  apply andb_true_iff in H as [H1 H2]. constructor; [|auto].
  intro Hin. apply negb_true_iff in H1. assert (existsb (str_eqb x) l = true); [|congruence].
  apply existsb_exists. exists x. split; [assumption|apply str_eqb_refl].
Qed.

(* ---------- the instance clause of [denote] ---------- *)
Theorem sound_insts d n :
  supported d = true -> elab d = Ok n ->
  exists ss, grammar d = Some ss /\
    forall nm, In nm (model_names ss) ->
      (exists m, find_model nm (b_models n) = Some m) /\
      (forall m, find_model nm (b_models n) = Some m ->
         map isig_of_inst (m_insts m) = spec_insts [] (body_of nm [] ss)) /\
      (forall m x, find_model nm (b_models n) = Some m -> In x (m_insts m) ->
         exists r, find_model (i_ref x) (b_models n) = Some r).
Proof.
  intros Hs He. unfold supported in Hs. destruct (classify d) as [a|] eqn:Ec; [|discriminate].
  destruct (grammar d) as [b|] eqn:Eg; [|discriminate].
  apply andb_true_iff in Hs as [Hs _]. apply andb_true_iff in Hs as [Hs _]. apply andb_true_iff in Hs as [Hs Hnd]. apply andb_true_iff in Hs as [Heq _].
  apply stmts_eqb_eq in Heq. subst b. apply nodup_strs_NoDup in Hnd.
  exists a. split; [reflexivity|]. intros nm Hn.
  pose proof (elab_inv d n He) as HI.
  unfold elab, elab_stmts in He. rewrite Ec in He. cbn [bind] in He. apply bind_ok in He as [s [H1 H2]].
  pose proof (classify_top_ok d a (classify_ok _ _ Ec)) as Ht.
  pose proof (track_start a init_st s Ht eq_refl Hnd H1 nm) as Htr.
  pose proof (finish_isigs s n H2 nm) as Hf.
  pose proof (start_has a init_st s Ht eq_refl Hnd H1 nm Hn) as Hh.
  assert (Hex : exists m, find_model nm (b_models n) = Some m).
  { unfold finish in H2. apply bind_ok in H2 as [ms [C1 C2]]. inversion C2; subst n. cbn [b_models].
    apply conv_all_core in C1. apply find_model_some_iff. rewrite map_map.
    assert (Hnames : map (fun m => m_name (if m_defined m then m else set_lib m LPrim)) ms = map m_name (st_models s)).
    { unfold st_models. clear -C1. induction C1 as [|x y l l' [Hxy _] _ IH]; cbn; [reflexivity|].
      rewrite IH. f_equal. destruct (m_defined y); cbn; exact Hxy. }
    rewrite Hnames. exact Hh. }
  split; [exact Hex|]. split.
  - intros m Hm. unfold isigs_at in Hf, Htr. rewrite Hm in Hf. unfold isigs in Hf. rewrite Hf. exact Htr.
  - intros m x Hm Hx. destruct HI as [_ Hall]. pose proof (find_model_In _ _ _ Hm) as [Hin _].
    destruct (Hall m Hin) as [_ _ W3 _ _]. apply (W3 x Hx).
Qed.
