(* Definition.clone: the copy has the structure and the connections of the original. *)
From Coq Require Import List Arith Bool Lia.
From RecordUpdate Require Import RecordSet.
From SV Require Import Base.Base IR.State IR.NS IR.Ops Xform.Clone Proofs.AssocX Proofs.Frame Proofs.Inv1a Proofs.Inv2a
  Proofs.InvP Proofs.InvW Proofs.Fresh Proofs.NsInv Proofs.Repoint Proofs.CloneInv Proofs.RefK Proofs.CloneRef Proofs.CloneT Proofs.FieldT
  Proofs.CloneMemo Proofs.CloneRR Proofs.CloneFaith Proofs.CloneInvP Proofs.CloneFull
  Proofs.CloneMemoK Proofs.CloneFaithK Proofs.CloneStage Proofs.CloneStageP Proofs.CloneRun Proofs.CloneEx Proofs.CloneRemap Proofs.CloneLib
  Proofs.SrcTree Proofs.CloneNetInv.
Import ListNotations RecordSetNotations.

Record DefStruct (s0 : state) (d : id) (sF : state) (d' : id) (M : memo) : Prop := mkDS {
  ds_fun : NoDup (map fst M);
  ds_inj : NoDup (map snd M);
  ds_rng : forall a b, img M a b -> a < next s0 /\ next s0 <= b /\ kind_of sF b = kind_of s0 a;
  ds_root : img M d d';
  ds_detached : forall r, par sF r d' = None;
  ds_ports : Forall2 (img M) (kids s0 RPorts d) (kids sF RPorts d');
  ds_cables : Forall2 (img M) (kids s0 RCables d) (kids sF RCables d');
  ds_children : Forall2 (img M) (kids s0 RChildren d) (kids sF RChildren d');
  ds_pins : forall p p', img M p p' -> kind_of s0 p = Some KPort -> Forall2 (img M) (kids s0 RPins p) (kids sF RPins p');
  ds_wires : forall c c', img M c c' -> kind_of s0 c = Some KCable -> Forall2 (img M) (kids s0 RWires c) (kids sF RWires c');
  (* the child instances keep instantiating the same definitions, with the same keys *)
  ds_ref : forall x x', img M x x' -> kind_of s0 x = Some KInstance -> iref sF x' = iref s0 x;
  ds_ipwire : forall i i', img M i i' -> kind_of s0 i = Some KPin -> mwire M (ipwire s0 i) = Some (ipwire sF i');
  ds_ipins : forall x x', img M x x' -> kind_of s0 x = Some KInstance -> map_opt (imap M) (ipins s0 x) = Some (ipins sF x');
  ds_wpins : forall w w', img M w w' -> kind_of s0 w = Some KWire -> map_opt (mpin s0 M) (wpins s0 w) = Some (wpins sF w');
  (* the memo covers objects of the definition only *)
  ds_dom : forall a b, img M a b -> In a (def_objects s0 d)
}.

(* the memo built by Definition._clone *)
Definition clone_memo (s0 : state) (d : id) : memo := snd (fst (fst (def_clone1 (s0, []) d))).

Theorem clone_definition_struct_m s0 d :
  UF s0 -> d < next s0 -> kind_of s0 d = Some KDefinition -> snd (fst (clone_definition s0 d)) = None ->
  DefStruct s0 d (fst (fst (clone_definition s0 d))) (snd (clone_definition s0 d)) (clone_memo s0 d).
Proof.
  intros U0 Hd Hkd. pose proof U0 as [I0 [T0 [F0 [FT0 K0]]]]. pose proof (inv_a _ I0) as I1.
  unfold clone_definition, clone_memo. destruct (def_clone1 (s0, []) d) as [[[G M] d'] [ex|]] eqn:E; [cbn; discriminate|].
  destruct (ry_def_stage s0 s0 G [] M d d' U0 (ry_start s0 U0) Hd Hkd (fun y _ H => H) E) as [Y [Hd' [Hin [_ [Ky [Hks [Hn [Hpd Hf]]]]]]]].
  pose proof (ry_rx _ _ _ Y) as X. pose proof (rx_ri _ _ _ X) as R. pose proof (ri_st _ _ _ R) as T. pose proof (rx_ex _ _ _ X) as EXG.
  pose proof (rx_di _ _ _ X d d' Hin Hkd) as DI.
  set (r := fold_idsR register_child (kids G RChildren d') G >>= fun s2 => reapply (set_drefs s2 d' []) d').
  cbn [fst snd]. intros _.
  assert (W : wsame G (fst r)).
  { unfold r. apply ws_bind; [apply ws_fold_idsR; intros; apply ws_register_child|]. intro s2.
    eapply ws_trans; [|apply ws_reapply]. constructor; reflexivity. }
  assert (KP : kpsame G (fst r)).
  { unfold r. apply kpsame_bind; [apply kpsame_fold_idsR; intros; apply kpsame_register_child|]. intro s2.
    eapply kpsame_trans; [|apply kpsame_reapply]. repeat split. }
  destruct KP as [Ek [Ep _]]. destruct W as [Ew Ewp Ei Er _ Ekd].
  (* the objects of the definition *)
  assert (Hobj : forall a b, In (a, b) M -> In a (def_objects s0 d)).
  { intros a b H. assert (Ha : In a (map fst M)) by (apply in_map_iff; exists (a, b); split; [reflexivity|exact H]).
    apply Ky in Ha as [Ha|[]]. exact Ha. }
  destruct (def_stage s0 s0 G [] M d d' U0 (ri_start s0 U0) Hd Hkd (fun y _ H => H) E) as [_ [SO _]].
  assert (Hflag : forall a b, In (a, b) M -> kind_of s0 a = Some KInstance -> iref G b = iref s0 a /\ rk s0 G b = false).
  { intros a b H Hk. destruct (st_rng _ _ _ T a b H) as [_ [Hb0 _]].
    destruct (so_inst _ _ _ _ _ _ SO a b H Hb0 Hk) as [_ Hir]. split; [exact Hir|].
    unfold rk. rewrite Hir. destruct (iref s0 a) as [e|] eqn:Er0; [|reflexivity]. apply Nat.leb_gt. apply (ref_lt s0 a e K0 F0 Er0). }
  cbn [fst snd]. constructor.
  - apply (st_fun _ _ _ T).
  - apply (st_inj _ _ _ T).
  - intros a b H. destruct (st_rng _ _ _ T a b H) as [A [B _]]. split; [exact A|]. split; [exact B|]. rewrite Ekd. apply (st_kind _ _ _ T a b H).
  - exact Hin.
  - intro r0. rewrite Ep. apply Hpd.
  - rewrite Ek. apply (di_ports_ord _ _ _ _ _ DI).
  - rewrite Ek. apply (di_cables_ord _ _ _ _ _ DI).
  - rewrite Ek. apply (di_children_ord _ _ _ _ _ DI).
  - intros p p' H Hk. pose proof (Hobj p p' H) as Hp. apply (def_objects_cases s0 d p) in Hp as [->|[[q [Hq [->|Hy]]]|[[q [Hq [->|Hy]]]|Hy]]].
    + congruence.
    + destruct (di_ports _ _ _ _ _ DI q Hq) as [q' [Hqq [_ [_ [_ O]]]]].
      assert (q' = p') by (apply (memo_fun M q q' p' (st_fun _ _ _ T)); assumption). subst q'. rewrite Ek. exact O.
    + rewrite (proj1 (T0 _ _ _ Hy)) in Hk. discriminate.
    + rewrite (proj1 (T0 _ _ _ Hq)) in Hk. discriminate.
    + rewrite (proj1 (T0 _ _ _ Hy)) in Hk. discriminate.
    + rewrite (proj1 (T0 _ _ _ Hy)) in Hk. discriminate.
  - intros p p' H Hk. pose proof (Hobj p p' H) as Hp. apply (def_objects_cases s0 d p) in Hp as [->|[[q [Hq [->|Hy]]]|[[q [Hq [->|Hy]]]|Hy]]].
    + congruence.
    + rewrite (proj1 (T0 _ _ _ Hq)) in Hk. discriminate.
    + rewrite (proj1 (T0 _ _ _ Hy)) in Hk. discriminate.
    + destruct (di_cables _ _ _ _ _ DI q Hq) as [q' [Hqq [_ [_ [_ O]]]]].
      assert (q' = p') by (apply (memo_fun M q q' p' (st_fun _ _ _ T)); assumption). subst q'. rewrite Ek. exact O.
    + rewrite (proj1 (T0 _ _ _ Hy)) in Hk. discriminate.
    + rewrite (proj1 (T0 _ _ _ Hy)) in Hk. discriminate.
  - intros x x' H Hk. rewrite Er. apply (Hflag x x' H Hk).
  - intros i i' H Hk. rewrite Ew. apply (ex_pin _ _ _ EXG i i' H Hk).
  - intros x x' H Hk. rewrite Ei. pose proof (ex_inst _ _ _ EXG x x' H Hk) as Hi. rewrite (proj2 (Hflag x x' H Hk)) in Hi.
    rewrite <- Hi. apply map_opt_ext. intro kv. symmetry. apply imapk_false.
  - intros w w' H Hk. rewrite Ewp. rewrite <- (ex_wire _ _ _ EXG w w' H Hk). apply map_opt_ext_in.
    intros q Hq. destruct q as [i|x i|]; cbn; try reflexivity.
    destruct (mget M x) as [x'|] eqn:Ex; [|reflexivity]. destruct (assoc i (ipins s0 x)) as [ow|] eqn:Eo; [|reflexivity].
    assert (Hkx : kind_of s0 x = Some KInstance) by (apply (ft_i _ FT0); intro E0; rewrite E0 in Eo; discriminate).
    rewrite (proj2 (Hflag x x' (mget_in _ _ _ Ex) Hkx)). reflexivity.
  - exact Hobj.
Qed.

Theorem clone_definition_struct s0 d :
  UF s0 -> d < next s0 -> kind_of s0 d = Some KDefinition -> snd (fst (clone_definition s0 d)) = None ->
  exists M, DefStruct s0 d (fst (fst (clone_definition s0 d))) (snd (clone_definition s0 d)) M.
Proof. intros U Hd Hk Hc. exists (clone_memo s0 d). apply clone_definition_struct_m; assumption. Qed.

Theorem clone_definition_reachable_struct ops d :
  let s := run ops init in
  d < next s -> kind_of s d = Some KDefinition -> snd (fst (clone_definition s d)) = None ->
  exists M, DefStruct s d (fst (fst (clone_definition s d))) (snd (clone_definition s d)) M.
Proof. cbn zeta. apply clone_definition_struct. apply reachable_uf. Qed.
