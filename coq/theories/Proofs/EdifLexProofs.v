(* Proofs about the EDIF tokenizer model (Fmt/EdifLex.v):
     tokenize_print   printing a well-formed document and tokenizing it gives its token sequence
     read_flatten     the generic reader inverts [flatten]
     lex_print        read (tokenize (print x)) = Some x
     tokens_nonempty  the tokenizer never yields an empty token
   plus computed examples documenting corner cases of generate_tokens. *)
From Coq Require Import String List NArith Bool.
From SV Require Import Base.Base Fmt.EdifLex.
Import ListNotations.
Local Open Scope N_scope.

(* ---------- induction principle for the nested inductive [sexp] ---------- *)
Section SexpInd.
  Variable P : sexp -> Prop.
  Hypothesis HA : forall a, P (Atom a).
  Hypothesis HS : forall s, P (Str s).
  Hypothesis HL : forall l, Forall P l -> P (SList l).

  Fixpoint sexp_ind' (x : sexp) : P x :=
    match x with
    | Atom a => HA a
    | Str s => HS s
    | SList l =>
      HL l ((fix go (l : list sexp) : Forall P l :=
               match l with
               | [] => Forall_nil P
               | y :: l' => Forall_cons y (sexp_ind' y) (go l')
               end) l)
    end.
End SexpInd.

(* ---------- one-step facts about tok_go (all by computation) ---------- *)
Lemma flush_cons c a : flush (c :: a) = [c :: a].
Proof. reflexivity. Qed.

Lemma tok_dq buf r : tok_go false buf (c_dq :: r) = tok_go true (buf ++ [c_dq]) r.
Proof. reflexivity. Qed.

Lemma tok_lp r : tok_go false [] (c_lp :: r) = t_lp :: tok_go false [] r.
Proof. reflexivity. Qed.

Lemma tok_rp r : tok_go false [] (c_rp :: r) = t_rp :: tok_go false [] r.
Proof. reflexivity. Qed.

Lemma tok_sp r : tok_go false [] (c_sp :: r) = tok_go false [] r.
Proof. reflexivity. Qed.

Lemma tok_close buf r : tok_go true buf (c_dq :: r) = (buf ++ [c_dq]) :: tok_go false [] r.
Proof. reflexivity. Qed.

Lemma atom_char_ok_inv c :
  atom_char_ok c = true -> is_ws c = false /\ is_paren c = false /\ N.eqb c c_dq = false.
Proof.
  unfold atom_char_ok. rewrite negb_true_iff, !orb_false_iff. tauto.
Qed.

Lemma str_char_ok_inv c :
  str_char_ok c = true -> N.eqb c c_dq = false /\ is_nlcr c = false.
Proof.
  unfold str_char_ok. rewrite negb_true_iff, orb_false_iff. tauto.
Qed.

(* an atom body is accumulated in the buffer *)
Lemma tok_atom a : forallb atom_char_ok a = true ->
  forall buf rest, tok_go false buf (a ++ rest) = tok_go false (buf ++ a) rest.
Proof.
  induction a as [|c a IH]; intros H buf rest.
  - rewrite app_nil_r. reflexivity.
  - cbn [forallb] in H. apply andb_true_iff in H as [Hc Ha].
    apply atom_char_ok_inv in Hc as (H1 & H2 & H3).
    cbn [app tok_go]. rewrite H3, H2, H1. rewrite IH by assumption.
    rewrite <- app_assoc. reflexivity.
Qed.

(* a string body up to its closing quote is one token *)
Lemma tok_str_body s : str_ok s = true ->
  forall buf rest, tok_go true buf (s ++ c_dq :: rest) = (buf ++ s ++ [c_dq]) :: tok_go false [] rest.
Proof.
  unfold str_ok. induction s as [|c s IH]; intros H buf rest.
  - apply tok_close.
  - cbn [forallb] in H. apply andb_true_iff in H as [Hc Hs].
    apply str_char_ok_inv in Hc as (H1 & H2).
    cbn [app tok_go]. rewrite H2, H1. rewrite IH by assumption.
    rewrite <- app_assoc. reflexivity.
Qed.

Lemma tok_quote s : str_ok s = true ->
  forall buf rest, tok_go false buf (quote s ++ rest) = (buf ++ quote s) :: tok_go false [] rest.
Proof.
  intros H buf rest. unfold quote. cbn [app]. rewrite <- app_assoc. cbn [app].
  rewrite tok_dq, tok_str_body by assumption. rewrite <- app_assoc. reflexivity.
Qed.

(* [delim rest]: whatever is in the buffer when [rest] starts is flushed as a token of its own.
   True for the end of input and for any [rest] starting with whitespace or a parenthesis. *)
Definition delim (rest : str) : Prop :=
  forall buf, tok_go false buf rest = flush buf ++ tok_go false [] rest.

Lemma delim_nil : delim [].
Proof. intro buf. cbn. rewrite app_nil_r. reflexivity. Qed.

Lemma delim_sep c rest : is_ws c || is_paren c = true -> delim (c :: rest).
Proof.
  unfold is_ws, is_paren. rewrite !orb_true_iff, !N.eqb_eq.
  intros [[[[->| ->]| ->]| ->]|[->| ->]] buf; reflexivity.
Qed.

Lemma delim_rp rest : delim (c_rp :: rest).
Proof. apply delim_sep. reflexivity. Qed.

Lemma delim_sp rest : delim (c_sp :: rest).
Proof. apply delim_sep. reflexivity. Qed.

(* ---------- printer ---------- *)
Lemma join_sp_cons a l : l <> [] -> join_sp (a :: l) = a ++ c_sp :: join_sp l.
Proof. destruct l; [congruence|reflexivity]. Qed.

Definition tok_print_at (x : sexp) : Prop :=
  sexp_ok x = true -> forall rest, delim rest ->
  tok_go false [] (print x ++ rest) = flatten x ++ tok_go false [] rest.

Lemma tok_join l : Forall tok_print_at l -> forallb sexp_ok l = true ->
  forall rest,
    tok_go false [] (join_sp (map print l) ++ c_rp :: rest)
    = flat_map flatten l ++ t_rp :: tok_go false [] rest.
Proof.
  induction 1 as [|x l Hx Hl IH]; intros Hok rest.
  - apply tok_rp.
  - cbn [forallb] in Hok. apply andb_true_iff in Hok as [Hokx Hokl].
    specialize (IH Hokl). cbn [map flat_map]. rewrite <- app_assoc.
    destruct l as [|y l'].
    + cbn [map join_sp flat_map app]. rewrite (Hx Hokx) by apply delim_rp.
      rewrite tok_rp. reflexivity.
    + assert (Hne : map print (y :: l') <> []) by (cbn [map]; discriminate).
      rewrite (join_sp_cons _ _ Hne). rewrite <- app_assoc, <- app_comm_cons.
      rewrite (Hx Hokx) by apply delim_sp. rewrite tok_sp, IH. reflexivity.
Qed.

Lemma tok_print x : tok_print_at x.
Proof.
  induction x as [a|s|l IH] using sexp_ind'; unfold tok_print_at.
  - cbn [sexp_ok print flatten]. intros H rest D.
    destruct a as [|c a]; [discriminate|].
    rewrite tok_atom by exact H. cbn [app]. rewrite D, flush_cons. reflexivity.
  - cbn [sexp_ok print flatten]. intros H rest _.
    rewrite tok_quote by assumption. reflexivity.
  - cbn [sexp_ok print flatten]. intros H rest _.
    cbn [app]. rewrite <- !app_assoc. cbn [app]. rewrite tok_lp. f_equal.
    apply tok_join; assumption.
Qed.

(* generalised form: a printed document followed by a delimited remainder *)
Theorem tokenize_print_app x rest : sexp_ok x = true -> delim rest ->
  tokenize (print x ++ rest) = flatten x ++ tokenize rest.
Proof. intros H D. apply tok_print; assumption. Qed.

Theorem tokenize_print : forall x, sexp_ok x = true -> tokenize (print x) = flatten x.
Proof.
  intros x H. rewrite <- (app_nil_r (print x)).
  rewrite (tokenize_print_app x [] H delim_nil). apply app_nil_r.
Qed.

(* ---------- reader ---------- *)
(* the reader only needs well-formed atoms; strings may contain anything *)
Fixpoint atoms_ok (x : sexp) : bool :=
  match x with
  | Atom a => atom_ok a
  | Str _ => true
  | SList l => forallb atoms_ok l
  end.

Lemma sexp_ok_atoms_ok x : sexp_ok x = true -> atoms_ok x = true.
Proof.
  induction x as [a|s|l IH] using sexp_ind'; cbn [sexp_ok atoms_ok]; auto.
  induction IH as [|x l Hx _ IHl]; cbn [forallb]; [reflexivity|].
  rewrite !andb_true_iff. intros [H1 H2]. auto.
Qed.

Lemma atom_ok_tok a : atom_ok a = true ->
  str_eqb a t_lp = false /\ str_eqb a t_rp = false /\ is_str_tok a = false.
Proof.
  destruct a as [|c a]; [discriminate|]. cbn [atom_ok forallb]. intro H.
  apply andb_true_iff in H as [Hc _]. apply atom_char_ok_inv in Hc as (_ & H2 & H3).
  unfold is_paren in H2. apply orb_false_iff in H2 as [H21 H22].
  unfold t_lp, t_rp. cbn [str_eqb is_str_tok]. rewrite H21, H22, H3. auto.
Qed.

Lemma quote_tok s :
  str_eqb (quote s) t_lp = false /\ str_eqb (quote s) t_rp = false /\ is_str_tok (quote s) = true.
Proof. repeat split; reflexivity. Qed.

Lemma unquote_quote s : unquote (quote s) = s.
Proof. unfold unquote, quote. cbn [tl]. apply removelast_last. Qed.

Lemma read_lp r st : read_go (t_lp :: r) st = read_go r ([] :: st).
Proof. reflexivity. Qed.

Lemma read_rp r top next st :
  read_go (t_rp :: r) (top :: next :: st) = read_go r ((SList (rev top) :: next) :: st).
Proof. reflexivity. Qed.

Definition read_one_at (x : sexp) : Prop :=
  atoms_ok x = true -> forall rest top stack,
  read_go (flatten x ++ rest) (top :: stack) = read_go rest ((x :: top) :: stack).

Lemma read_many l : Forall read_one_at l -> forallb atoms_ok l = true ->
  forall rest acc stack,
    read_go (flat_map flatten l ++ rest) (acc :: stack) = read_go rest ((rev l ++ acc) :: stack).
Proof.
  induction 1 as [|x l Hx Hl IH]; intros Hok rest acc stack.
  - reflexivity.
  - cbn [forallb] in Hok. apply andb_true_iff in Hok as [Hokx Hokl].
    cbn [flat_map rev]. rewrite <- !app_assoc. rewrite (Hx Hokx), (IH Hokl). reflexivity.
Qed.

Lemma read_one x : read_one_at x.
Proof.
  induction x as [a|s|l IH] using sexp_ind'; unfold read_one_at.
  - cbn [atoms_ok flatten app]. intros H rest top stack.
    apply atom_ok_tok in H as (H1 & H2 & H3). cbn [read_go]. rewrite H1, H2, H3. reflexivity.
  - cbn [flatten app]. intros _ rest top stack.
    destruct (quote_tok s) as (H1 & H2 & H3). cbn [read_go].
    rewrite H1, H2, H3, unquote_quote. reflexivity.
  - cbn [atoms_ok flatten]. intros H rest top stack.
    cbn [app]. rewrite <- app_assoc. cbn [app].
    rewrite read_lp, (read_many l IH H), read_rp, app_nil_r, rev_involutive. reflexivity.
Qed.

(* generalised forms *)
Theorem read_go_flatten x rest top stack : atoms_ok x = true ->
  read_go (flatten x ++ rest) (top :: stack) = read_go rest ((x :: top) :: stack).
Proof. intro H. apply read_one. assumption. Qed.

Theorem read_flatten_atoms : forall x, atoms_ok x = true -> read (flatten x) = Some x.
Proof.
  intros x H. unfold read. rewrite <- (app_nil_r (flatten x)).
  rewrite read_go_flatten by assumption. reflexivity.
Qed.

Theorem read_flatten : forall x, sexp_ok x = true -> read (flatten x) = Some x.
Proof. intros x H. apply read_flatten_atoms, sexp_ok_atoms_ok, H. Qed.

Theorem lex_print : forall x, sexp_ok x = true -> read (tokenize (print x)) = Some x.
Proof. intros x H. rewrite tokenize_print by assumption. apply read_flatten, H. Qed.

(* ---------- the tokenizer never yields an empty token ---------- *)
Lemma flush_nonempty buf t : In t (flush buf) -> t <> [].
Proof. destruct buf; cbn; [tauto|]. intros [<-|[]]. discriminate. Qed.

Lemma snoc_nonempty {A} (l : list A) x : l ++ [x] <> [].
Proof. destruct l; discriminate. Qed.

Lemma tok_go_nonempty s : forall inq buf t, In t (tok_go inq buf s) -> t <> [].
Proof.
  induction s as [|ch s IH]; intros inq buf t.
  - apply flush_nonempty.
  - cbn [tok_go].
    destruct inq; [destruct (is_nlcr ch); [apply IH|destruct (N.eqb ch c_dq)]|
                   destruct (N.eqb ch c_dq); [apply IH|destruct (is_paren ch); [|destruct (is_ws ch)]]].
    + intros [<-|H]; [apply snoc_nonempty|eapply IH, H].
    + apply IH.
    + rewrite in_app_iff. intros [H|[<-|H]];
        [eapply flush_nonempty, H|discriminate|eapply IH, H].
    + rewrite in_app_iff. intros [H|H]; [eapply flush_nonempty, H|eapply IH, H].
    + apply IH.
Qed.

Theorem tokens_nonempty : forall s t, In t (tokenize s) -> t <> [].
Proof. intros s t. apply tok_go_nonempty. Qed.

(* ---------- computed examples documenting generate_tokens ---------- *)
(* "a\nb" (with the quotes): the newline inside the quotes is dropped *)
Example tokenize_drops_newlines_in_quotes :
  tokenize [34; 97; 10; 98; 34] = [[34; 97; 98; 34]].
Proof. vm_compute. reflexivity. Qed.

(* ab"cd" : a quote does not flush the buffer, so this is ONE token *)
Example tokenize_quote_joins_buffer :
  tokenize [97; 98; 34; 99; 100; 34] = [[97; 98; 34; 99; 100; 34]].
Proof. vm_compute. reflexivity. Qed.

(* an unterminated quote is flushed at the end of input *)
Example tokenize_unterminated_quote :
  tokenize [40; 34; 97; 32; 41] = [[40]; [34; 97; 32; 41]].
Proof. vm_compute. reflexivity. Qed.

(* (edif top (edifVersion 2 0 0) (comment "a (b) c\d") () -42) *)
Definition example_doc : sexp :=
  SList [Atom (s2l "edif"); Atom (s2l "top");
         SList [Atom (s2l "edifVersion"); Atom (s2l "2"); Atom (s2l "0"); Atom (s2l "0")];
         SList [Atom (s2l "comment"); Str (s2l "a (b) c\d")];
         SList [];
         Atom (s2l "-42")].

Example print_example :
  print example_doc = s2l "(edif top (edifVersion 2 0 0) (comment ""a (b) c\d"") () -42)".
Proof. vm_compute. reflexivity. Qed.

Example lex_print_example :
  sexp_ok example_doc = true /\ read (tokenize (print example_doc)) = Some example_doc.
Proof. split; vm_compute; reflexivity. Qed.

(* a string containing a double quote does not survive: the side condition is needed *)
Example lex_print_needs_no_quote :
  read (tokenize (print (Str [c_dq]))) <> Some (Str [c_dq]).
Proof. intro H. vm_compute in H. discriminate H. Qed.

Print Assumptions tokenize_print.
Print Assumptions read_flatten.
Print Assumptions lex_print.
Print Assumptions tokens_nonempty.
Print Assumptions tokenize_print_app.
Print Assumptions read_flatten_atoms.
Print Assumptions lex_print_example.
Print Assumptions lex_print_needs_no_quote.
