(* For every writable value the writer model WRITES a document (no EmRaises / EmUnsupported), all
   atoms of the document are ASCII and the document is its own text (sexp_ok): the two side
   conditions of Proofs/EdifEmitCell.file_roundtrip and of the print/tokenize inverse. *)
From Coq Require Import List NArith ZArith Bool Arith String Lia.
From SV Require Import Base.Base Fmt.EdifLex Fmt.EdifName Fmt.EdifCable Fmt.EdifBus Fmt.EdifNets
  Fmt.EdifFile Fmt.EdifFileSpec Fmt.EdifEmit Proofs.EdifNameProofs Proofs.EdifNetsProofs
  Proofs.EdifFileWf Proofs.EdifEmitProofs Proofs.EdifEmitLemmas Proofs.EdifEmitNets Proofs.EdifEmitCell.
Import ListNotations.
Local Open Scope N_scope.

Definition fine (x : sexp) : Prop := atoms_ascii x = true /\ sexp_ok x = true.

Lemma fine_list l : Forall fine l -> fine (SList l).
Proof.
  intros H. split; cbn [atoms_ascii sexp_ok]; apply forallb_forall; intros x Hx;
    rewrite Forall_forall in H; destruct (H x Hx); auto.
Qed.

Lemma fine_atom a : ascii_ok a = true -> atom_ok a = true -> fine (Atom a).
Proof. intros H1 H2. split; auto. Qed.

Ltac kwfine := split; vm_compute; reflexivity.
Ltac flist := apply fine_list; repeat (apply Forall_cons || apply Forall_nil).

Lemma ident_w_fine i : ident_w i = true -> fine (Atom i).
Proof.
  intros H. destruct (ident_w_parts _ H) as (_ & _ & Hat). apply fine_atom; auto.
  unfold ident_w in H. now apply andb_true_iff in H as [_ H].
Qed.

Lemma str_tok_ok_str_ok s : str_tok_ok s = true -> str_ok s = true.
Proof.
  unfold str_tok_ok, str_ok. intros H. apply forallb_forall. intros c Hc. rewrite forallb_forall in H.
  specialize (H c Hc). unfold str_char_valid in H. unfold str_char_ok, is_nlcr, c_dq, c_nl, c_cr.
  destruct (N.eqb c 34) eqn:E1; [apply N.eqb_eq in E1; subst; discriminate|].
  destruct (N.eqb c 10) eqn:E2; [apply N.eqb_eq in E2; subst; discriminate|].
  destruct (N.eqb c 13) eqn:E3; [apply N.eqb_eq in E3; subst; discriminate|]. reflexivity.
Qed.

Lemma estr_total s : text_ok s = true -> exists x, estr_of s = EmOk x /\ fine x.
Proof.
  intros H. unfold estr_of. rewrite (has_nlcr_text _ H). eexists. split; [reflexivity|].
  split; [reflexivity|]. cbn [sexp_ok]. apply str_tok_ok_str_ok. now apply escape_tok_ok.
Qed.

Lemma atom_total a : ascii_ok a = true -> atom_ok a = true -> exists x, atom_of a = EmOk x /\ fine x.
Proof. intros H1 H2. unfold atom_of. rewrite H2. eexists. split; [reflexivity|]. now apply fine_atom. Qed.

Lemma rename_total i s : ascii_ok i = true -> atom_ok i = true -> text_ok s = true ->
  exists x, rename_sexp i s = EmOk x /\ fine x.
Proof.
  intros H1 H2 H3. unfold rename_sexp. destruct (atom_total i H1 H2) as (a & -> & Fa).
  destruct (estr_total s H3) as (b & -> & Fb). eexists. split; [reflexivity|].
  flist; first [assumption|kwfine].
Qed.

Lemma ident_w_ascii i : ident_w i = true -> ascii_ok i = true /\ atom_ok i = true.
Proof.
  intros H. destruct (ident_w_parts _ H) as (_ & _ & Hat). split; auto.
  unfold ident_w in H. now apply andb_true_iff in H as [_ H].
Qed.

Lemma name_total i s : ident_w i = true -> text_ok s = true -> exists x, name_sexp i s = EmOk x /\ fine x.
Proof.
  intros H1 H2. destruct (ident_w_ascii _ H1) as [Ha Hb]. unfold name_sexp.
  destruct (str_eqb s i); [now apply atom_total|now apply rename_total].
Qed.

Lemma emap_total {X} (f : X -> emres sexp) l : (forall a, In a l -> exists x, f a = EmOk x /\ fine x) ->
  exists xs, emap f l = EmOk xs /\ Forall fine xs.
Proof.
  induction l as [|a l IH]; intros H; [exists []; split; [reflexivity|constructor]|].
  destruct (H a (or_introl eq_refl)) as (x & Hx & Fx).
  destruct IH as (xs & Hxs & Fxs); [intros b Hb; apply H; now right|].
  exists (x :: xs). cbn [emap]. rewrite Hx, Hxs. split; [reflexivity|]. now constructor.
Qed.

Lemma dec_fine n : fine (Atom (dec n)).
Proof.
  assert (H : forall c, In c (dec n) -> 48 <= c <= 57).
  { intros c Hc. apply dec_no_special in Hc. unfold is_digit in Hc. apply andb_true_iff in Hc as [H1 H2].
    apply N.leb_le in H1. apply N.leb_le in H2. lia. }
  apply fine_atom.
  - unfold ascii_ok. apply forallb_forall. intros c Hc. apply N.ltb_lt. specialize (H c Hc). lia.
  - unfold atom_ok. pose proof (dec_nonempty n) as Hne. destruct (dec n) as [|c0 r] eqn:E; [congruence|].
    apply forallb_forall. intros c Hc. specialize (H c Hc). unfold atom_char_ok, is_ws, is_paren, c_cr, c_nl, c_tab, c_sp, c_lp, c_rp, c_dq.
    repeat match goal with |- context [N.eqb c ?k] => destruct (N.eqb c k) eqn:?E end;
      try (match goal with HH : N.eqb c _ = true |- _ => apply N.eqb_eq in HH; lia end); reflexivity.
Qed.

Lemma dec_z_fine z : fine (Atom (dec_z z)).
Proof.
  destruct z as [|p|p]; cbn [dec_z]; try apply dec_fine.
  destruct (dec_fine (Npos p)) as [H1 H2]. split.
  - cbn [atoms_ascii forallb] in *. apply andb_true_iff. split; [reflexivity|exact H1].
  - cbn [sexp_ok] in *. unfold atom_ok in *. destruct (dec (Npos p)) as [|c0 r0]; [discriminate|].
    change (forallb atom_char_ok (45 :: c0 :: r0)) with (atom_char_ok 45 && forallb atom_char_ok (c0 :: r0)).
    rewrite H2. reflexivity.
Qed.

Ltac fsolve := flist; first [assumption | apply dec_fine | apply dec_z_fine | kwfine].

Lemma prop_total p : prop_w p = true -> exists x, prop_sexp p = EmOk x /\ fine x.
Proof.
  unfold prop_w. intros H. apply andb_true_iff in H as [H Hv]. apply andb_true_iff in H as [Hid Ho].
  unfold propid_w in Hid. apply andb_true_iff in Hid as [Hid Hasc]. apply andb_true_iff in Hid as [_ Hat].
  unfold prop_sexp.
  assert (Hn : exists nx, match pr_orig p with Some o => rename_sexp (pr_ident p) o | None => atom_of (pr_ident p) end = EmOk nx /\ fine nx).
  { destruct (pr_orig p); [now apply rename_total|now apply atom_total]. }
  destruct Hn as (nx & -> & Fn).
  assert (Hvx : exists vx, val_sexp (pr_val p) = EmOk vx /\ fine vx).
  { destruct (pr_val p) as [z|s|b]; cbn [val_sexp].
    - eexists. split; [reflexivity|]. fsolve.
    - destruct (estr_total s Hv) as (sx & -> & Fs). eexists. split; [reflexivity|].
      fsolve.
    - eexists. split; [reflexivity|]. destruct b; kwfine. }
  destruct Hvx as (vx & -> & Fv). eexists. split; [reflexivity|]. fsolve.
Qed.

Lemma port_total p : port_w p = true -> exists x, port_sexp p = EmOk x /\ fine x.
Proof.
  unfold port_w. intros Hw.
  apply andb_true_iff in Hw as [Hw _]. apply andb_true_iff in Hw as [Hw _].
  apply andb_true_iff in Hw as [Hw _]. apply andb_true_iff in Hw as [Hel Hdir].
  unfold elem_w in Hel. apply andb_true_iff in Hel as [Hi Ht].
  unfold port_sexp. destruct (name_total _ _ Hi Ht) as (nx & -> & Fn).
  assert (Hd : exists dl, dir_sexp (po_dir p) = EmOk dl /\ Forall fine dl).
  { apply N.leb_le in Hdir. unfold dir_sexp.
    destruct (N.eqb (po_dir p) 0) eqn:E0; [eexists; split; [reflexivity|constructor]|].
    destruct (N.eqb (po_dir p) 1) eqn:E1; [eexists; split; [reflexivity|constructor; [kwfine|constructor]]|].
    destruct (N.eqb (po_dir p) 2) eqn:E2; [eexists; split; [reflexivity|constructor; [kwfine|constructor]]|].
    destruct (N.eqb (po_dir p) 3) eqn:E3; [eexists; split; [reflexivity|constructor; [kwfine|constructor]]|].
    apply N.eqb_neq in E0, E1, E2, E3. lia. }
  destruct Hd as (dl & -> & Fd).
  destruct (po_array p); eexists; (split; [reflexivity|]); apply fine_list.
  - cbn [app]. constructor; [kwfine|]. constructor; auto. fsolve.
  - constructor; [kwfine|]. constructor; auto.
Qed.

(* ---------------------------------------------------------------------------------------- *)
Lemma inst_total libs prev lib done cell i : env libs prev lib done -> inst_w prev lib done i = true ->
  exists x, inst_sexp [] lib cell i = EmOk x /\ fine x.
Proof.
  intros E H. unfold inst_w in H. apply andb_true_iff in H as [H Hr]. apply andb_true_iff in H as [Hel Hps].
  unfold elem_w in Hel. apply andb_true_iff in Hel as [Hi Ht].
  destruct (in_ref i) as [[l cn]|] eqn:Er; [|discriminate].
  destruct (ref_cell prev lib done (Some (l, cn))) as [C|] eqn:Erc; [|discriminate].
  destruct (ref_cell_facts libs prev lib done l cn C [] [] [] E Erc) as (_ & _ & Hcid & Hl & Hok & _).
  rewrite <- Hcid in *. destruct (ident_w_ascii _ Hok) as [Hc1 Hc2]. destruct (ident_w_ascii _ Hl) as [Hl1 Hl2].
  unfold inst_sexp. rewrite Er. destruct (name_total _ _ Hi Ht) as (nx & -> & Fn).
  destruct (atom_total _ Hc1 Hc2) as (cx & -> & Fc). destruct (atom_total _ Hl1 Hl2) as (lx & -> & Fl).
  unfold props_sexp, float_props. cbn [find option_map].
  destruct (emap_total prop_sexp (in_props i)) as (pxs & -> & Fps).
  { intros p Hp. apply prop_total. rewrite forallb_forall in Hps. auto. }
  eexists. split; [reflexivity|]. apply fine_list. cbn [app].
  constructor; [kwfine|]. constructor; [auto|]. constructor; [|exact Fps].
  flist; first [assumption|kwfine|idtac]. flist; first [assumption|kwfine|idtac]. flist; first [assumption|kwfine].
Qed.

Lemma target_total po k : k < po_width po -> ident_w (po_ident po) = true ->
  exists t, target_sexp po k = EmOk t /\ fine t.
Proof.
  intros Hk Hi. unfold target_sexp. apply N.ltb_lt in Hk. rewrite Hk. cbn [negb].
  destruct (ident_w_ascii _ Hi) as [H1 H2]. destruct (atom_total _ H1 H2) as (a & -> & Fa).
  destruct (po_array po); eexists; (split; [reflexivity|]); auto. fsolve.
Qed.

Lemma pin_total libs c rp p : pin_good libs c rp p -> exists x, pin_sexp libs c p = EmOk x /\ fine x.
Proof.
  intros Hg. destruct p as [pt k|i pt k]; cbn [pin_good] in Hg.
  - destruct Hg as (po & Hf & Hid & Hi & Hk & _). unfold pin_sexp. rewrite Hf. rewrite <- Hid in Hi.
    destruct (target_total po k Hk Hi) as (t & -> & Ft). eexists. split; [reflexivity|]. fsolve.
  - destruct Hg as (x & Hfi & Hii & Hiw & Hwp & po & Hf & Hid & Hi & Hk & _).
    unfold pin_sexp. rewrite Hfi. unfold wports in Hwp.
    destruct (in_ref x) as [[l cn]|]; [|discriminate].
    destruct (find_lib l libs) as [L|]; [|discriminate].
    destruct (find_cell cn (li_cells L)) as [C|]; [|discriminate]. inversion Hwp as [Hp]. rewrite Hp, Hf.
    rewrite <- Hid in Hi. destruct (target_total po k Hk Hi) as (t & -> & Ft).
    rewrite Hii. destruct (ident_w_ascii _ Hiw) as [H1 H2]. destruct (atom_total _ H1 H2) as (a & -> & Fa).
    eexists. split; [reflexivity|]. flist; first [assumption|kwfine|idtac]. fsolve.
Qed.

Lemma net_total libs c rp nt : net_good libs c rp nt -> exists x, net_sexp libs c nt = EmOk x /\ fine x.
Proof.
  intros (Hi & Ht & _ & Hp). unfold net_sexp. destruct (name_total _ _ Hi Ht) as (nx & -> & Fn).
  destruct (emap_total (pin_sexp libs c) (snd nt)) as (rxs & -> & Frs).
  { intros p Hin. apply (pin_total libs c rp). rewrite Forall_forall in Hp. auto. }
  eexists. split; [reflexivity|]. flist; first [assumption|kwfine|idtac].
  apply fine_list. constructor; [kwfine|exact Frs].
Qed.

Lemma cell_total libs prev lib done c : env libs prev lib done -> cell_w prev lib done c = true ->
  exists x, cell_sexp [] libs lib c = EmOk x /\ fine x.
Proof.
  intros E Hw. assert (Hw0 := Hw). unfold cell_w in Hw.
  repeat match type of Hw with _ && _ = true => let H := fresh "Hc" in apply andb_true_iff in Hw as [Hw H] end.
  unfold elem_w in Hw. apply andb_true_iff in Hw as [Hi Ht].
  unfold cell_sexp. rewrite Hc8, Hc5. cbn [andb negb].
  destruct (name_total _ _ Hi Ht) as (nx & -> & Fn).
  destruct (emap_total port_sexp (ce_ports c)) as (pxs & -> & Fps).
  { intros p Hp. apply port_total. rewrite forallb_forall in Hc9. auto. }
  destruct (emap_total (inst_sexp [] lib (ce_ident c)) (ce_insts c)) as (ixs & -> & Fis).
  { intros i Hin. apply (inst_total libs prev lib done); auto. rewrite forallb_forall in Hc6. auto. }
  destruct (emap_total (net_sexp libs c) (emit_nets (ce_cabs c))) as (nxs & -> & Fns).
  { intros nt Hin. apply (net_total libs c (rpf prev lib done)).
    assert (Hg : Forall (net_good libs c (rpf prev lib done)) (emit_nets (ce_cabs c))).
    { apply cabs_nets_good; auto. intros p Hp. rewrite forallb_forall in Hc0. eapply pin_w_good; eauto. }
    rewrite Forall_forall in Hg. auto. }
  eexists. split; [reflexivity|].
  flist; first [assumption|kwfine|idtac].
  apply fine_list. cbn [app]. constructor; [kwfine|]. constructor; [kwfine|]. constructor; [kwfine|].
  constructor; [apply fine_list; constructor; [kwfine|exact Fps]|].
  destruct (is_nil (ce_insts c) && is_nil (ce_cabs c)); [constructor|].
  constructor; [|constructor]. apply fine_list. constructor; [kwfine|]. apply Forall_app. auto.
Qed.

Lemma cells_w_split prev lib : forall todo done a c b, cells_w prev lib done todo = true -> todo = a ++ c :: b ->
  cell_w prev lib (done ++ a) c = true /\ forall C, In C a -> cell_ok C.
Proof.
  induction todo as [|c0 todo IH]; intros done a c b H E; [destruct a; discriminate|].
  cbn [cells_w] in H. apply andb_true_iff in H as [Hc Hs]. destruct a as [|a0 a].
  - inversion E. subst. rewrite app_nil_r. split; auto. intros C [].
  - inversion E. subst. destruct (IH (done ++ [a0]) a c b Hs eq_refl) as [H1 H2].
    rewrite <- app_assoc in H1. split; auto. intros C [<-|HC]; auto. eapply cell_w_ok; eauto.
Qed.

Lemma in_split_list {X} (x : X) l : In x l -> exists a b, l = a ++ x :: b.
Proof. apply in_split. Qed.

Lemma lib_total libs prev Lc after : libs = prev ++ Lc :: after -> uniq_ci (map li_ident libs) = true ->
  prev_ok prev -> lib_w prev Lc = true -> exists x, lib_sexp [] libs Lc = EmOk x /\ fine x.
Proof.
  intros Hlibs Hu [P1 P2] Hw. unfold lib_w in Hw.
  apply andb_true_iff in Hw as [Hw Hcn]. apply andb_true_iff in Hw as [Hw Hci]. apply andb_true_iff in Hw as [Hel Hcw].
  unfold elem_w in Hel. apply andb_true_iff in Hel as [Hi Ht].
  unfold lib_sexp. rewrite Hci. cbn [negb]. destruct (name_total _ _ Hi Ht) as (nx & -> & Fn).
  destruct (emap_total (cell_sexp [] libs (li_ident Lc)) (li_cells Lc)) as (cxs & -> & Fcs).
  { intros c Hc. destruct (in_split _ _ Hc) as (a & b & Hab).
    destruct (cells_w_split prev (li_ident Lc) (li_cells Lc) [] a c b Hcw Hab) as [Hwc Hoka].
    apply (cell_total libs prev (li_ident Lc) a); auto.
    constructor; auto. exists Lc, after, (c :: b). auto. }
  eexists. split; [reflexivity|]. apply fine_list. cbn [app].
  constructor; [kwfine|]. constructor; [auto|]. constructor; [kwfine|]. constructor; [kwfine|]. exact Fcs.
Qed.

Lemma libs_w_split : forall todo done a L b, prev_ok done -> libs_w done todo = true -> todo = a ++ L :: b ->
  lib_w (done ++ a) L = true /\ prev_ok (done ++ a).
Proof.
  induction todo as [|L0 todo IH]; intros done a L b Hp H E; [destruct a; discriminate|].
  cbn [libs_w] in H. apply andb_true_iff in H as [HL Hs]. destruct a as [|a0 a].
  - inversion E. subst. rewrite app_nil_r. auto.
  - inversion E. subst.
    assert (Hp' : prev_ok (done ++ [a0])) by (apply (libs_w_ok [a0] done Hp); cbn [libs_w]; now rewrite HL).
    destruct (IH (done ++ [a0]) a L b Hp' Hs eq_refl) as [H1 H2]. rewrite <- app_assoc in H1, H2. auto.
Qed.

Lemma status_total ts prog : params_w ts prog = true -> exists st, status_sexp ts prog = EmOk st /\ fine st.
Proof.
  unfold params_w. intros Hp. apply andb_true_iff in Hp as [Hp Hprog]. apply andb_true_iff in Hp as [_ Hts].
  assert (Hat : forallb atom_ok ts = true).
  { apply forallb_forall. intros a Ha. rewrite forallb_forall in Hts. specialize (Hts a Ha).
    apply andb_true_iff in Hts as [Hts _]. now apply andb_true_iff in Hts as [_ Hts]. }
  assert (Hfts : Forall fine (map Atom ts)).
  { apply Forall_forall. intros x Hx. apply in_map_iff in Hx as (a & <- & Ha). rewrite forallb_forall in Hts.
    specialize (Hts a Ha). apply andb_true_iff in Hts as [Hts Hasc]. apply andb_true_iff in Hts as [_ Hts].
    now apply fine_atom. }
  unfold status_sexp. rewrite (emap_atoms _ Hat).
  assert (Hplain : forall s, str_tok_ok s = true -> plain_str s = EmOk (Str s) /\ fine (Str s)).
  { intros s Hs. unfold plain_str. rewrite (str_tok_ok_str_ok _ Hs). split; auto. split; [reflexivity|].
    cbn [sexp_ok]. now apply str_tok_ok_str_ok. }
  assert (Fc : fine (SList [KW "comment"; Str (K "Built by 'BYU spydrnet tool'")])) by kwfine.
  assert (Fts : fine (SList (KW "timeStamp" :: map Atom ts))) by (apply fine_list; constructor; [kwfine|auto]).
  destruct prog as [[p v]|].
  - apply andb_true_iff in Hprog as [Hp1 Hv1]. destruct (Hplain p Hp1) as [-> Fp].
    destruct v as [v|].
    + destruct (Hplain v Hv1) as [-> Fv]. eexists. split; [reflexivity|]. cbn [app].
      flist; first [assumption|kwfine|idtac]. flist; first [assumption|kwfine|idtac].
      flist; first [assumption|kwfine|idtac]. flist; first [assumption|kwfine].
    + eexists. split; [reflexivity|]. cbn [app].
      flist; first [assumption|kwfine|idtac]. flist; first [assumption|kwfine|idtac].
      flist; first [assumption|kwfine].
  - eexists. split; [reflexivity|]. cbn [app].
    flist; first [assumption|kwfine|idtac]. flist; first [assumption|kwfine].
Qed.

(* every writable value is written, and the document is ASCII and its own text *)
Theorem emit_total ts prog n : writable n = true -> params_w ts prog = true ->
  exists d, emit_file ts prog [] n = EmOk d /\ atoms_ascii d = true /\ sexp_ok d = true.
Proof.
  intros Hw Hpar. unfold writable in Hw.
  apply andb_true_iff in Hw as [Hw Htop]. apply andb_true_iff in Hw as [Hw Hun].
  apply andb_true_iff in Hw as [Hw Hui]. apply andb_true_iff in Hw as [Hel Hlw].
  unfold elem_w in Hel. apply andb_true_iff in Hel as [Hi Ht].
  destruct n as [fname fident libs top]. cbn [nf_name nf_ident nf_libs nf_top] in *.
  destruct top as [t|]; [|discriminate].
  unfold top_w in Htop. apply andb_true_iff in Htop as [Htel Htf].
  unfold elem_w in Htel. apply andb_true_iff in Htel as [Hti Htt].
  destruct (find_lib (tp_lib t) libs) as [L|] eqn:EfL; [|discriminate].
  apply andb_true_iff in Htf as [HLid Htf]. apply str_eqb_spec in HLid.
  destruct (find_cell (tp_cell t) (li_cells L)) as [C|] eqn:EfC; [|discriminate].
  apply str_eqb_spec in Htf.
  pose proof (libs_w_ok libs [] prev_ok_nil Hlw) as [Pk1 Pk2]. cbn [app] in Pk1, Pk2.
  assert (HinL : In L libs) by (unfold find_lib in EfL; apply find_some in EfL; tauto).
  assert (HinC : In C (li_cells L)) by (unfold find_cell in EfC; apply find_some in EfC; tauto).
  assert (HwL : ident_w (tp_lib t) = true) by (rewrite <- HLid; auto).
  assert (HwC : ident_w (tp_cell t) = true) by (rewrite <- Htf; apply (Pk2 L C HinL HinC)).
  unfold emit_file. cbn [nf_name nf_ident nf_libs nf_top]. rewrite Hui. cbn [negb].
  destruct (name_total _ _ Hi Ht) as (nx & -> & Fn).
  destruct (status_total ts prog Hpar) as (st & -> & Fst).
  destruct (emap_total (lib_sexp [] libs) libs) as (lxs & -> & Fls).
  { intros L0 HL0. destruct (in_split _ _ HL0) as (a & b & Hab).
    destruct (libs_w_split libs [] a L0 b prev_ok_nil Hlw Hab) as [HwL0 Hpa]. cbn [app] in HwL0, Hpa.
    apply (lib_total libs a L0 b); auto. }
  destruct (name_total _ _ Hti Htt) as (tnx & -> & Ftn).
  destruct (ident_w_ascii _ HwC) as [C1 C2]. destruct (atom_total _ C1 C2) as (tcx & -> & Ftc).
  destruct (ident_w_ascii _ HwL) as [L1 L2]. destruct (atom_total _ L1 L2) as (tlx & -> & Ftl).
  eexists. split; [reflexivity|].
  assert (F : fine (SList ([KW "edif"; nx; SList [KW "edifversion"; KW "2"; KW "0"; KW "0"]; SList [KW "edifLevel"; KW "0"];
                  SList [KW "keywordmap"; SList [KW "keywordlevel"; KW "0"]]; st] ++ lxs ++
                 [SList [KW "design"; tnx; SList [KW "cellref"; tcx; SList [KW "libraryref"; tlx]]]]))).
  { apply fine_list. cbn [app]. constructor; [kwfine|]. constructor; [auto|]. constructor; [kwfine|].
    constructor; [kwfine|]. constructor; [kwfine|]. constructor; [auto|]. apply Forall_app. split; auto.
    constructor; [|constructor]. flist; first [assumption|kwfine|idtac]. flist; first [assumption|kwfine|idtac].
    flist; first [assumption|kwfine]. }
  exact F.
Qed.

(* THE THEOREM: for every writable netlist value (and admissible timestamp / program parameters) the
   writer model writes a text, and the reader model - tokenizer, parenthesis reader, elaboration -
   reads that text back as norm_file n *)
Theorem emit_roundtrip_full ts prog n : writable n = true -> params_w ts prog = true ->
  exists t, emit_text ts prog [] n = EmOk t /\ elab_text t = Ok (norm_file n).
Proof.
  intros Hw Hp. destruct (emit_total ts prog n Hw Hp) as (d & Hd & Hasc & Hok).
  pose proof (file_roundtrip ts prog n d Hw Hp Hd Hasc) as He.
  exists (print d). unfold emit_text. rewrite Hd. split; [reflexivity|].
  destruct (Proofs.EdifEmitProofs.elab_file_ok_list _ _ He) as [l ->].
  now rewrite Proofs.EdifEmitProofs.elab_text_print_eq.
Qed.
