(* C09, connectivity: the exact effect of the model of flatten._redo_connections for one pin
   (Xform.redo_pin) on the pin -> wire map is FlatConnRel.dissolve. *)
From Coq Require Import List Arith Bool Lia.
From RecordUpdate Require Import RecordSet.
From SV Require Import Base.Base IR.State IR.NS IR.Ops Xform.Clone Xform.Strs Xform.Xform
  Proofs.AssocX Proofs.Frame Proofs.Inv1a Proofs.Inv2a Proofs.InvP Proofs.InvW Proofs.XformInv Proofs.FlatConnRel.
Import ListNotations.

(* ---- single calls, on success ---- *)
Lemma op_disconnect_ok s w p s' :
  op_disconnect s w p = (s', None) ->
  pin_wire s p = Some w /\ p <> PDet /\
  (forall q, pin_wire s' q = if pin_eqb q p then None else pin_wire s q) /\
  (forall w0, wpins s' w0 = if Nat.eqb w0 w then pin_remove_first p (wpins s w) else wpins s w0).
Proof.
  unfold op_disconnect, guard, raise, ret. destruct (_ && _); [|discriminate].
  destruct (can_disconnect s w p) eqn:Hc; [|discriminate].
  apply can_disconnect_spec in Hc as [Hd [Hst Hw]].
  intro H. split; [exact Hw|]. split; [exact Hd|].
  destruct p as [i|n i|]; [| |congruence]; apply (f_equal fst) in H; cbn [fst] in H; subst s'; split.
  - intro q. rewrite pw_set_pin_wire by discriminate. destruct (pin_eqb q (PIn i)); [reflexivity|]. apply pw_ext; reflexivity.
  - intro w0. rewrite wpins_set_pin_wire. cbn. unfold upd. destruct (Nat.eqb w0 w); reflexivity.
  - intro q. rewrite pw_set_pin_wire by discriminate. destruct (pin_eqb q (POut n i)); [reflexivity|]. apply pw_ext; reflexivity.
  - intro w0. rewrite wpins_set_pin_wire. cbn. unfold upd. destruct (Nat.eqb w0 w); reflexivity.
Qed.

Lemma op_connect_ok s w p s' :
  op_connect s w p None = (s', None) ->
  pin_wire s p = None /\
  (forall q, pin_wire s' q = if pin_eqb q p then Some w else pin_wire s q) /\
  (forall w0, wpins s' w0 = if Nat.eqb w0 w then wpins s w ++ [p] else wpins s w0).
Proof.
  unfold op_connect, guard, raise, ret. destruct (_ && _); [|discriminate].
  destruct p as [i|n i|]; [| |discriminate].
  - destruct (ipwire s i) as [w1|] eqn:E; [discriminate|]. intro H. apply (f_equal fst) in H; cbn [fst] in H; subst s'.
    split; [exact E|]. split.
    + intro q. rewrite pw_set_pin_wire by discriminate. destruct (pin_eqb q (PIn i)); [reflexivity|]. apply pw_ext; reflexivity.
    + intro w0. rewrite wpins_set_pin_wire. cbn. unfold upd. destruct (Nat.eqb w0 w); reflexivity.
  - destruct (assoc i (ipins s n)) as [[w1|]|] eqn:E; try discriminate. intro H. apply (f_equal fst) in H; cbn [fst] in H; subst s'.
    split; [cbn [pin_wire]; rewrite E; reflexivity|]. split.
    + intro q. rewrite pw_set_pin_wire by discriminate. destruct (pin_eqb q (POut n i)); [reflexivity|]. apply pw_ext; reflexivity.
    + intro w0. rewrite wpins_set_pin_wire. cbn. unfold upd. destruct (Nat.eqb w0 w); reflexivity.
Qed.

Lemma op_disconnect_Inv s w p : Inv s -> Inv (fst (op_disconnect s w p)).
Proof. intro HI. exact (proj1 (step_inv s (ODisconnect w p) HI)). Qed.

Lemma op_connect_Inv s w p pos : Inv s -> Inv (fst (op_connect s w p pos)).
Proof. intro HI. exact (proj1 (step_inv s (OConnect w p pos) HI)). Qed.

Lemma pin_eqb_false a b : a <> b -> pin_eqb a b = false.
Proof. intro H. destruct (pin_eqb a b) eqn:E; [apply pin_eqb_spec in E; contradiction|reflexivity]. Qed.

(* ---- the loop that moves the pins of the inner wire to the outer wire ---- *)
Lemma redo_go_pw iw ow : forall ps x x',
  NoDup ps -> (forall p, In p ps -> pin_wire (st x) p = Some iw) ->
  (fix go (ps : list pin) (x : xstate) : XR :=
     match ps with
     | [] => (x, None)
     | p :: ps' => liftR x (op_disconnect (st x) iw p) (fun xa => liftR xa (op_connect (st xa) ow p None) (fun xb => go ps' xb))
     end) ps x = (x', None) ->
  forall q, pin_wire (st x') q = if pin_memb q ps then Some ow else pin_wire (st x) q.
Proof.
  induction ps as [|p ps IH]; intros x x' Hnd Hon Hgo q.
  - injection Hgo as <-. reflexivity.
  - unfold liftR at 1 in Hgo. destruct (op_disconnect (st x) iw p) as [s1 [e|]] eqn:E1; [discriminate Hgo|].
    unfold liftR at 1 in Hgo. cbn [st] in Hgo.
    destruct (op_connect s1 ow p None) as [s2 [e|]] eqn:E2; [discriminate Hgo|].
    destruct (op_disconnect_ok _ _ _ _ E1) as [_ [_ [D1 _]]].
    destruct (op_connect_ok _ _ _ _ E2) as [_ [C1 _]].
    inversion Hnd as [|p0 ps0 Hnp Hnd']; subst p0 ps0.
    assert (Hon' : forall p', In p' ps -> pin_wire (st (mkX s2 (uniq_ctr (mkX s1 (uniq_ctr x) (flat_ctr x))) (flat_ctr (mkX s1 (uniq_ctr x) (flat_ctr x))))) p' = Some iw).
    { intros p' Hp'. cbn [st]. assert (Hne : p' <> p) by (intros ->; contradiction).
      rewrite C1, D1, (pin_eqb_false _ _ Hne). apply Hon. right. exact Hp'. }
    rewrite (IH _ _ Hnd' Hon' Hgo q). cbn [st pin_memb]. rewrite C1, D1.
    destruct (pin_eqb q p); cbn [orb]; [destruct (pin_memb q ps); reflexivity|reflexivity].
Qed.

(* ---- an optional disconnect (steps 1 and 2) ---- *)
Lemma opt_disconnect_pw x o p x1 :
  Inv (st x) -> pin_wire (st x) p = o ->
  match o with
  | Some w => liftR x (op_disconnect (st x) w p) (fun x1 => (x1, None))
  | None => (x, None)
  end = (x1, None) ->
  Inv (st x1) /\ forall q, pin_wire (st x1) q = if pin_eqb q p then None else pin_wire (st x) q.
Proof.
  intros HI Hp H. destruct o as [w|].
  - unfold liftR in H. pose proof (op_disconnect_Inv (st x) w p HI) as HI1.
    destruct (op_disconnect (st x) w p) as [s1 [e|]] eqn:E1; [discriminate H|]. injection H as <-.
    cbn [st fst] in *. split; [exact HI1|]. exact (proj1 (proj2 (proj2 (op_disconnect_ok _ _ _ _ E1)))).
  - injection H as <-. split; [exact HI|]. intro q. destruct (pin_eqb q p) eqn:E; [|reflexivity].
    apply pin_eqb_spec in E. subst q. exact Hp.
Qed.

Theorem redo_pin_pw x inst i x' :
  Inv (st x) -> redo_pin x inst i = (x', None) ->
  forall p, pin_wire (st x') p = dissolve (pin_wire (st x)) inst i p.
Proof.
  intros HI H. unfold redo_pin in H. cbv zeta in H.
  destruct (assoc i (ipins (st x) inst)) as [out_wire|] eqn:Eo; [|discriminate H].
  assert (Po : pin_wire (st x) (POut inst i) = out_wire) by (cbn [pin_wire]; rewrite Eo; reflexivity).
  assert (Pi : pin_wire (st x) (PIn i) = ipwire (st x) i) by reflexivity.
  remember (ipwire (st x) i) as in_wire eqn:Ei. clear Ei.
  match type of H with (match ?r with _ => _ end) = _ => destruct r as [x1 [e|]] eqn:E1 end; [discriminate H|].
  destruct (opt_disconnect_pw x in_wire (PIn i) x1 HI Pi E1) as [HI1 P1].
  assert (Po1 : pin_wire (st x1) (POut inst i) = out_wire) by (rewrite P1; exact Po).
  match type of H with (match ?r with _ => _ end) = _ => destruct r as [x2 [e|]] eqn:E2 end; [discriminate H|].
  destruct (opt_disconnect_pw x1 out_wire (POut inst i) x2 HI1 Po1 E2) as [HI2 P2].
  assert (P12 : forall q, pin_wire (st x2) q = if pin_eqb q (POut inst i) || pin_eqb q (PIn i) then None else pin_wire (st x) q).
  { intro q. rewrite P2, P1. destruct (pin_eqb q (POut inst i)); reflexivity. }
  intro p. unfold dissolve. rewrite Po, Pi.
  destruct in_wire as [iw|]; [destruct out_wire as [ow|]|].
  - pose proof (inv_p _ HI2) as [Hpins Hnd].
    assert (Hon : forall q, In q (wpins (st x2) iw) -> pin_wire (st x2) q = Some iw) by (intros q Hq; apply Hpins; exact Hq).
    rewrite (redo_go_pw iw ow _ _ _ (Hnd iw) Hon H p).
    destruct (pin_memb p (wpins (st x2) iw)) eqn:Em.
    + apply pin_memb_In, Hpins in Em. rewrite P12 in Em.
      destruct (pin_eqb p (POut inst i) || pin_eqb p (PIn i)); [discriminate Em|].
      rewrite Em, Nat.eqb_refl. reflexivity.
    + rewrite P12. destruct (pin_eqb p (POut inst i) || pin_eqb p (PIn i)) eqn:Eb; [reflexivity|].
      destruct (pin_wire (st x) p) as [w|] eqn:Ep; [|reflexivity].
      destruct (Nat.eqb_spec w iw) as [->|Hne]; [|reflexivity].
      exfalso. assert (Hin : In p (wpins (st x2) iw)) by (apply Hpins; rewrite P12, Eb; exact Ep).
      apply pin_memb_In in Hin. congruence.
  - injection H as <-. rewrite P12. reflexivity.
  - injection H as <-. rewrite P12. destruct out_wire; reflexivity.
Qed.

Corollary redo_pin_unwired x inst i x' p :
  Inv (st x) -> redo_pin x inst i = (x', None) -> pin_wire (st x) p = None -> pin_wire (st x') p = None.
Proof.
  intros HI H Hp. rewrite (redo_pin_pw x inst i x' HI H p). unfold dissolve. rewrite Hp.
  destruct (pin_eqb p (POut inst i) || pin_eqb p (PIn i)); [reflexivity|].
  destruct (pin_wire (st x) (POut inst i)); [destruct (pin_wire (st x) (PIn i))|]; reflexivity.
Qed.

