(* Consequences of soundness + completeness:
   - one comparison characterises structural equivalence exactly (so does comparing both ways);
   - every single difference of any class (Cmp/Diff.v) breaks the equivalence, so the
     class-by-class rejection theorems are corollaries of soundness;
   - completeness for "pins as a set" holds (the comparer matches the pins of two wires by key);
     the witness of the former refutation (pins of one wire listed in the other order) is accepted;
   - the lower index of a port is not compared. *)
From Coq Require Import String List Arith NArith ZArith Bool Lia Permutation.
From SV Require Import Base.Base Cmp.Comparer Cmp.Diff Cmp.Equiv
  Proofs.CmpBase Proofs.CmpPinSet Proofs.CmpAccept Proofs.CmpReject Proofs.CmpSound Proofs.CmpComplete Proofs.CmpWitness.
Import ListNotations.

(* ---------- matched siblings are the siblings of the same name ---------- *)
Lemma names_ok_inj {A} (name : A -> oname) l ns y y' :
  names_ok name l ns -> In y l -> In y' l -> name y = name y' -> y = y'.
Proof.
  intros Hok Hy Hy' Hn.
  destruct (map_some_in name l ns y (no_map _ _ _ Hok) Hy) as [n [Hyn _]].
  pose proof (find_has_name_in name l ns y n Hok Hy Hyn) as F1.
  assert (Hyn' : name y' = Some n) by congruence.
  pose proof (find_has_name_in name l ns y' n Hok Hy' Hyn') as F2. congruence.
Qed.

Lemma Forall2_in_l {A B} (P : A -> B -> Prop) la lb x :
  Forall2 P la lb -> In x la -> exists y, In y lb /\ P x y.
Proof.
  induction 1 as [|a b la lb Hab HF IH]; intro Hin; [contradiction|].
  destruct Hin as [->|Hin]; [exists b; split; [left; reflexivity|assumption]|].
  destruct (IH Hin) as [y [Hy Hp]]. exists y. split; [right; assumption|assumption].
Qed.

Lemma sib_equiv_pair {A} (R : A -> A -> Prop) (name : A -> oname) la lb x y :
  sib_equiv R la lb -> named_ok name lb = true -> (forall u v, R u v -> name u = name v) ->
  In x la -> In y lb -> name x = name y -> R x y.
Proof.
  intros [lb' [Hp HF]] Hn HR Hx Hy Hxy. apply named_ok_spec in Hn as [ns Hok].
  destruct (Forall2_in_l _ _ _ x HF Hx) as [y' [Hy' Hr]].
  assert (y' = y); [|subst; assumption].
  eapply names_ok_inj; [eassumption|apply (Permutation_in _ Hp); assumption|assumption|].
  rewrite <- (HR x y' Hr). assumption.
Qed.

Lemma Forall2_flip {A B} (P : A -> B -> Prop) la lb :
  Forall2 P la lb -> Forall2 (fun b a => P a b) lb la.
Proof. induction 1; constructor; assumption. Qed.

Lemma sib_equiv_sym {A} (R R' : A -> A -> Prop) la lb :
  (forall x y, In x la -> In y lb -> R x y -> R' y x) -> sib_equiv R la lb -> sib_equiv R' lb la.
Proof.
  intros H [lb' [Hp HF]].
  destruct (Permutation_Forall2 Hp (Forall2_flip _ _ _ HF)) as [la' [Hp' HF']].
  exists la'. split; [apply Permutation_sym; assumption|].
  eapply Forall2_impl_in; [|exact HF']. cbn. intros y x Hy Hx Hr. apply H; [|assumption|assumption].
  apply (Permutation_in _ (Permutation_sym Hp')). assumption.
Qed.

Lemma props_eq_sym p q : props_eq p q -> props_eq q p.
Proof. intros [H0 [H1 H2]]. split; [symmetry; assumption|split; assumption]. Qed.

Theorem nv_rel_sym (WR : wire -> wire -> Prop) a b : (forall w w', WR w w' -> WR w' w) ->
  nv_rel props_eq WR a b -> nv_rel props_eq WR b a.
Proof.
  intros HW [H1 [H2 [H3 H4]]]. split; [auto|]. split; [auto|]. split.
  - destruct (n_top a), (n_top b); cbn in *; try assumption.
    destruct H3 as [G1 [G2 [G3 G4]]]. split; [auto|]. split; [auto|]. split; [auto|].
    apply props_eq_sym. assumption.
  - eapply sib_equiv_sym; [|exact H4]. cbn.
    intros la lb _ _ [L1 [L2 L3]]. split; [auto|]. split; [auto|].
    eapply sib_equiv_sym; [|exact L3]. cbn.
    intros da db _ _ [D1 [D2 [D3 [D4 D5]]]]. split; [auto|]. split; [auto|]. split; [|split].
    + eapply sib_equiv_sym; [|exact D3]. cbn. intros p q _ _ [P1 [P2 [P3 [P4 P5]]]].
      repeat split; auto.
    + eapply sib_equiv_sym; [|exact D4]. cbn. intros c c' _ _ [C1 [C2 C3]].
      split; [auto|]. split; [auto|]. apply Forall2_flip in C3.
      eapply Forall2_impl_in; [|exact C3]. cbn. intros w w' _ _. apply HW.
    + eapply sib_equiv_sym; [|exact D5]. cbn. intros i j _ _ [I1 [I2 [I3 I4]]].
      split; [auto|]. split; [auto|]. split; [auto|]. apply props_eq_sym. assumption.
Qed.

Theorem nv_equiv_ord_sym a b : nv_equiv_ord a b -> nv_equiv_ord b a.
Proof. apply nv_rel_sym. intros w w' H. symmetry. assumption. Qed.

Theorem nv_equiv_sym a b : nv_equiv a b -> nv_equiv b a.
Proof. apply nv_rel_sym. intros w w'. apply Permutation_sym. Qed.

(* ---------- the reverse comparison closes the hole ---------- *)
Lemma wf_named_libs a : wf_named a ->
  named_ok l_name (n_libs a) = true /\ forall l, In l (n_libs a) -> wf_lib l = true.
Proof.
  unfold wf_named, wf_namedb. intro H. apply andb_true_iff in H as [H Hw].
  apply andb_true_iff in H as [_ Hn]. rewrite forallb_forall in Hw. split; assumption.
Qed.

Lemma wf_lib_defs l : wf_lib l = true ->
  named_ok d_name (l_defs l) = true /\ forall d, In d (l_defs l) -> wf_def d = true.
Proof.
  unfold wf_lib. intro H. apply andb_true_iff in H as [Hn Hw]. rewrite forallb_forall in Hw.
  split; assumption.
Qed.

(* comparing both ways decides structural equivalence exactly (a corollary of compare_iff_equiv:
   one comparison is enough since the repair of compare_instances) *)
Theorem compare_both_ways a b : wf_named a -> wf_named b -> no_asg a -> no_asg b ->
  (compare a b = true /\ compare b a = true <-> nv_equiv a b).
Proof.
  intros Ha Hb Na Nb. split.
  - intros [H1 _]. apply compare_sound; assumption.
  - intro H. split; [apply compare_complete_set; assumption|].
    apply compare_complete_set; [assumption|assumption|assumption|]. apply nv_equiv_sym. assumption.
Qed.

(* what is accepted one way round is accepted the other way round *)
Theorem compare_symmetric a b : wf_named a -> wf_named b -> no_asg a -> no_asg b ->
  compare a b = true -> compare b a = true.
Proof.
  intros Ha Hb Na Nb H. apply compare_complete_set; try assumption.
  apply nv_equiv_sym. apply compare_sound; assumption.
Qed.

(* ---------- every single difference breaks the equivalence ---------- *)
Lemma sib_splice {A} (R : A -> A -> Prop) (name : A -> oname) l1 x y l2 :
  named_ok name (l1 ++ x :: l2) = true -> name y = name x ->
  (forall u v, R u v -> name u = name v) ->
  sib_equiv R (l1 ++ x :: l2) (l1 ++ y :: l2) -> R x y.
Proof.
  intros Hn Hy HR H. eapply (sib_equiv_pair R name); [exact H| |exact HR| | |].
  - rewrite <- (named_ok_ext name (l1 ++ x :: l2)); [assumption|apply map_splice; assumption].
  - apply in_or_app. right. left. reflexivity.
  - apply in_or_app. right. left. reflexivity.
  - symmetry. assumption.
Qed.

Lemma sib_dropped {A} (R : A -> A -> Prop) la lb : dropped la lb -> ~ sib_equiv R la lb.
Proof.
  intros Hd H. destruct Hd as [l1 x l2]. apply sib_equiv_length in H. rewrite !app_length in H. cbn in H. lia.
Qed.

Lemma sib_added {A} (R : A -> A -> Prop) la lb : dropped lb la -> ~ sib_equiv R la lb.
Proof.
  intros Hd H. destruct Hd as [l1 x l2]. apply sib_equiv_length in H. rewrite !app_length in H. cbn in H. lia.
Qed.

Lemma port_diff_not_rel m p p' : port_diff m p p' -> ~ port_rel p p'.
Proof.
  destruct 1 as [p d' Hd|p w' arr' Hw|p]; intros [_ [_ [H3 [H4 H5]]]]; cbn in *.
  - congruence.
  - congruence.
  - destruct (p_array p); discriminate.
Qed.

Lemma splice_neq {A} (R : A -> A -> Prop) l l' : (forall x y, R x y -> x <> y) -> splice R l l' -> l <> l'.
Proof.
  intros HR [l1 x y l2 Hxy] H. apply app_inv_head in H. inversion H. apply (HR x y Hxy). assumption.
Qed.

Lemma Forall2_splice_mid {A} (R : A -> A -> Prop) l1 x y l2 :
  Forall2 R (l1 ++ x :: l2) (l1 ++ y :: l2) -> R x y.
Proof.
  induction l1 as [|z l1 IH]; cbn; intro H; inversion H; subst; [assumption|apply IH; assumption].
Qed.

(* one pin of one wire replaced by a different pin: the wire no longer carries the same pins,
   in whatever order they are listed *)
Lemma cable_diff_not_rel io m c c' : cable_diff io m c c' -> ~ cable_rel wire_perm c c'.
Proof.
  destruct 1 as [c ws' Hl|m c ws' Hs]; intros [_ [_ H3]]; cbn in H3.
  - apply Forall2_len in H3. congruence.
  - destruct Hs as [W1 w w' W2 Hw]. apply Forall2_splice_mid in H3.
    destruct Hw as [P1 p p' P2 [Hd _]]. unfold wire_perm in H3.
    apply (perm_splice_same pinref_eq_dec) in H3. exact (pin_diff_neq m p p' Hd H3).
Qed.

Lemma inst_diff_not_rel m i i' : props_ok i -> inst_diff m i i' -> ~ inst_rel props_eq i i'.
Proof.
  intros Hk Hd [_ [_ [H3 [H0 [[_ H4] [_ H5]]]]]].
  destruct Hd as [i r r' Hr Hne|i ps ps' Hp Hs|i ps' Hp|i ps d Hp|i ps l1 d kv l2 Hp Hps Hnew];
    cbn in *.
  - congruence.
  - rewrite Hp in H4. unfold props_ok in Hk. rewrite Hp in Hk.
    destruct Hs as [L1 d d' L2 Hd]. destruct Hd as [l1 k v v' l2 He].
    assert (Hkd : keys_nodup (l1 ++ (k, v) :: l2) = true).
    { rewrite forallb_forall in Hk. apply Hk. apply in_or_app. right. left. reflexivity. }
    pose proof (keys_nodup_notin l1 k v l2 Hkd) as Hnot.
    destruct (H4 (length L1) k v) as [v'' [Hv He']].
    { cbn. rewrite nth_error_app_here. rewrite sassoc_app_notin by assumption.
      cbn. rewrite str_eqb_refl. reflexivity. }
    cbn in Hv. rewrite nth_error_app_here in Hv. rewrite sassoc_app_notin in Hv by assumption.
    cbn in Hv. rewrite str_eqb_refl in Hv. inversion Hv; subst. congruence.
  - (* EDIF.properties only on the copy *)
    rewrite Hp in H0. discriminate H0.
  - (* one more entry *)
    rewrite Hp in H0. cbn in H0. inversion H0 as [Hl]. rewrite app_length in Hl. cbn in Hl. lia.
  - (* one more key in an entry *)
    rewrite Hp in H5. subst ps. destruct kv as [k v]. cbn in Hnew.
    assert (Hs : exists v0, sassoc k (d ++ [(k, v)]) = Some v0).
    { apply has_key_sassoc. apply (in_has_key (k, v)). apply in_or_app. right. left. reflexivity. }
    destruct Hs as [v0 Hv0].
    destruct (H5 (length l1) k v0) as [v1 [Hv1 _]].
    { cbn. rewrite nth_error_app_here. assumption. }
    cbn in Hv1. rewrite nth_error_app_here in Hv1.
    unfold has_key in Hnew. rewrite Hv1 in Hnew. discriminate Hnew.
Qed.

Lemma splice_not_sib {A} (R D : A -> A -> Prop) (name : A -> oname) l l' :
  named_ok name l = true -> (forall x y, D x y -> name y = name x) ->
  (forall u v, R u v -> name u = name v) ->
  (forall x y, In x l -> D x y -> ~ R x y) ->
  splice D l l' -> ~ sib_equiv R l l'.
Proof.
  intros Hn HD HR Hnot Hs H. destruct Hs as [l1 x y l2 Hxy].
  apply (Hnot x y); [apply in_or_app; right; left; reflexivity|assumption|].
  eapply (sib_splice R name); [exact Hn|apply HD; assumption|exact HR|exact H].
Qed.

Lemma def_diff_not_rel m d d' : wf_def d = true -> def_diff m d d' ->
  ~ defn_rel props_eq wire_perm d d'.
Proof.
  intros Hwf Hd [_ [_ [H3 [H4 H5]]]]. apply wf_def_unpack in Hwf.
  destruct Hd as [m d ps' Hs|d ps' Hs|d ps' Hs|m d cs' Hs|d cs' Hs|d cs' Hs|m d xs' Hs|d xs' Hs _|d xs' Hs _];
    cbn in *.
  - revert H3. apply (splice_not_sib port_rel (port_diff m) p_name); [apply (wd_np _ Hwf)| | | |exact Hs].
    + intros x y. apply port_diff_name.
    + intros u v [G _]. exact G.
    + intros x y _. apply port_diff_not_rel.
  - apply (sib_dropped _ _ _ Hs H3).
  - apply (sib_added _ _ _ Hs H3).
  - revert H4. apply (splice_not_sib (cable_rel wire_perm) (cable_diff (d_insts d) m) c_name); [apply (wd_nc _ Hwf)| | | |exact Hs].
    + intros x y. apply cable_diff_name.
    + intros u v [G _]. exact G.
    + intros x y _. apply cable_diff_not_rel.
  - apply (sib_dropped _ _ _ Hs H4).
  - apply (sib_added _ _ _ Hs H4).
  - revert H5. apply (splice_not_sib (inst_rel props_eq) (inst_diff m) i_name); [apply (wd_ni _ Hwf)| | | |exact Hs].
    + intros x y. apply inst_diff_name.
    + intros u v [G _]. exact G.
    + intros x y Hx. apply inst_diff_not_rel.
      apply wf_inst_props_ok. apply (wd_wi _ Hwf). assumption.
  - apply (sib_dropped _ _ _ Hs H5).
  - apply (sib_added _ _ _ Hs H5).
Qed.

Lemma lib_diff_not_rel m l l' : wf_lib l = true -> lib_diff m l l' ->
  ~ lib_rel props_eq wire_perm l l'.
Proof.
  intros Hwf Hd [_ [_ H3]]. destruct (wf_lib_defs l Hwf) as [Hn Hw].
  destruct Hd as [m l ds' Hs|l ds' Hs|l ds' Hs]; cbn in *.
  - revert H3. apply (splice_not_sib (defn_rel props_eq wire_perm) (def_diff m) d_name); [exact Hn| | | |exact Hs].
    + intros x y Hxy. apply (def_diff_name m x y Hxy).
    + intros u v [G _]. exact G.
    + intros x y Hx. apply def_diff_not_rel. apply Hw; assumption.
  - apply (sib_dropped _ _ _ Hs H3).
  - apply (sib_added _ _ _ Hs H3).
Qed.

Theorem nv_diff_not_equiv m a b : wf_named a -> nv_diff m a b -> ~ nv_equiv a b.
Proof.
  intros Hwf Hd [_ [_ [H3 H4]]]. destruct (wf_named_libs a Hwf) as [Hn Hw].
  destruct Hd as [m a ls' Hs|a ls' Hs|a ls' Hs|m a t t' Ht Hi]; cbn in *.
  - revert H4. apply (splice_not_sib (lib_rel props_eq wire_perm) (lib_diff m) l_name); [exact Hn| | | |exact Hs].
    + intros x y Hxy. apply (lib_diff_name m x y Hxy).
    + intros u v [G _]. exact G.
    + intros x y Hx. apply lib_diff_not_rel. apply Hw; assumption.
  - apply (sib_dropped _ _ _ Hs H4).
  - apply (sib_added _ _ _ Hs H4).
  - rewrite Ht in H3. cbn in H3. apply (inst_diff_not_rel m t t'); try assumption.
    unfold wf_named, wf_namedb in Hwf. apply andb_true_iff in Hwf as [Hwf _].
    apply andb_true_iff in Hwf as [Htop _]. rewrite Ht in Htop. cbn in Htop.
    unfold props_ok. destruct (i_props t); [assumption|exact I].
Qed.

(* the class-by-class rejection theorems, as corollaries of soundness (acceptance form) *)
Theorem rejects_by_soundness m a b : wf_named a -> no_asg a -> nv_diff m a b -> compare a b = false.
Proof.
  intros Hwf Hna Hd. destruct (compare a b) eqn:E; [|reflexivity].
  exfalso. apply (nv_diff_not_equiv m a b Hwf Hd). apply compare_sound; assumption.
Qed.

Theorem single_diff_rejected_by_soundness a b : wf_named a -> no_asg a -> single_diff a b ->
  compare a b = false.
Proof. intros Hwf Hna [m Hd]. eapply rejects_by_soundness; eassumption. Qed.

(* contrapositive of soundness: any difference at all, two or more at once included *)
Theorem not_equiv_rejected a b : wf_named a -> no_asg a -> ~ nv_equiv a b -> compare a b = false.
Proof.
  intros Hwf Hna H. destruct (compare a b) eqn:E; [|reflexivity].
  exfalso. apply H. apply compare_sound; assumption.
Qed.

(* the weaker form that held before the repair of compare_instances: a corollary *)
Theorem not_covered_rejected a b : wf_named a -> no_asg a -> ~ nv_covered_set a b -> compare a b = false.
Proof.
  intros Hwf Hna H. apply not_equiv_rejected; try assumption.
  intro E. apply H. apply equiv_covered_set. assumption.
Qed.

(* ---------- nothing that the positional comparison accepted is lost ---------- *)
Lemma inst_equiv_accept_key o c : inst_equiv o c = Accept ->
  inst_key (op_inst o) = inst_key (op_inst c).
Proof.
  unfold inst_equiv. intro H. apply seq_accept in H as [H _]. unfold inst_key.
  destruct (asg_class (op_inst o)) as [x|] eqn:Eo; destruct (asg_class (op_inst c)) as [y|] eqn:Ec;
    apply check_accept in H.
  - apply str_eqb_spec in H. subst y. reflexivity.
  - apply oname_eqb_spec in H. rewrite H in Eo. congruence.
  - apply oname_eqb_spec in H. rewrite H in Eo. congruence.
  - apply oname_eqb_spec in H. assumption.
Qed.

Lemma cmp_pin_accept_key xo xc io ic o c : cmp_pin xo xc io ic o c = Accept ->
  exists k, pin_key xo io o = inr k /\ pin_key xc ic c = inr k.
Proof.
  unfold cmp_pin, pin_key. intro H.
  destruct (resolve xo io o) as [qo bo|po| |]; destruct (resolve xc ic c) as [qc bc|pc| |]; try discriminate H.
  - apply inner_equiv_sound in H as [-> ->]. eauto.
  - apply seq_accept in H as [H1 H2]. apply inner_equiv_sound in H2 as [Hb Hq].
    rewrite (inst_equiv_accept_key _ _ H1), Hb, Hq. eauto.
  - eauto.
Qed.

Theorem zip_accept_still_accepted xo xc io ic : forall wo wc, length wo = length wc ->
  zip_pins xo xc io ic wo wc = Accept -> cmp_wire xo xc io ic wo wc = Accept.
Proof.
  intros wo wc Hl Hz. rewrite cmp_wire_zip; [assumption| |].
  - revert wc Hl Hz. induction wo as [|o wo IH]; intros [|c wc] Hl Hz; try discriminate Hl; [intros ? []|].
    cbn [zip_pins] in Hz. apply seq_accept in Hz as [H1 H2]. intros p [<-|Hp].
    + destruct (cmp_pin_accept_key _ _ _ _ _ _ H1) as [k [_ Hk]]. eauto.
    + apply (IH wc); [cbn in Hl; lia|assumption|assumption].
  - revert wc Hl Hz. induction wo as [|o wo IH]; intros [|c wc] Hl Hz; try discriminate Hl; constructor.
    + cbn [zip_pins] in Hz. apply seq_accept in Hz as [H1 _].
      destruct (cmp_pin_accept_key _ _ _ _ _ _ H1) as [k [-> ->]]. reflexivity.
    + cbn [zip_pins] in Hz. apply seq_accept in Hz as [_ H2]. apply IH; [cbn in Hl; lia|assumption].
Qed.

Lemma zip_accept_ex :
  exists xo xc io ic wo wc, wo <> [] /\ length wo = length wc /\ zip_pins xo xc io ic wo wc = Accept.
Proof.
  exists (Some (s2l "top"), Some (s2l "work")), (Some (s2l "top"), Some (s2l "work")).
  exists [mkinst (Some (s2l "u0")) None (Some (Some (s2l "LEAF"), Some (s2l "work"))) None;
          mkinst (Some (s2l "u1")) None (Some (Some (s2l "LEAF"), Some (s2l "work"))) None].
  exists [mkinst (Some (s2l "u1")) None (Some (Some (s2l "LEAF"), Some (s2l "work"))) None;
          mkinst (Some (s2l "u0")) None (Some (Some (s2l "LEAF"), Some (s2l "work"))) None].
  exists [POut (Some (s2l "u0")) (Some (s2l "b")) 0; POut (Some (s2l "u1")) (Some (s2l "a")) 0].
  exists [POut (Some (s2l "u0")) (Some (s2l "b")) 0; POut (Some (s2l "u1")) (Some (s2l "a")) 0].
  split; [discriminate|]. split; vm_compute; reflexivity.
Qed.

(* ---------- concrete netlists ---------- *)
Ltac vmr := vm_compute; reflexivity.

Lemma w_perm_wf : wf_named w_perm /\ no_asg w_perm. Proof. split; vmr. Qed.
Lemma w_perm_ne : w_perm <> w_base. Proof. intro H; vm_compute in H; discriminate H. Qed.
Lemma w_perm_ab : compare w_base w_perm = true. Proof. vmr. Qed.
Lemma w_perm_ba : compare w_perm w_base = true. Proof. vmr. Qed.

Lemma w_perm_equiv : nv_equiv w_base w_perm.
Proof.
  apply compare_both_ways; [exact w_base_wf|apply w_perm_wf|exact w_base_noasg|apply w_perm_wf|].
  split; [exact w_perm_ab|exact w_perm_ba].
Qed.

Lemma sound_ex : exists a b, a <> b /\ wf_named a /\ no_asg a /\ compare a b = true.
Proof.
  exists w_base, w_perm. split; [intro H; symmetry in H; exact (w_perm_ne H)|].
  split; [exact w_base_wf|]. split; [exact w_base_noasg|exact w_perm_ab].
Qed.

(* two differences at once *)
Lemma w_double_rejected : cmp_run w_base w_double = Reject. Proof. vmr. Qed.

Lemma double_ex : exists a b, wf_named a /\ wf_named b /\ no_asg a /\ ~ nv_equiv a b.
Proof.
  exists w_base, w_double. split; [exact w_base_wf|]. split; [vmr|]. split; [exact w_base_noasg|].
  intro H. apply compare_complete_set in H; [|exact w_base_wf|vmr|exact w_base_noasg].
  vm_compute in H. discriminate H.
Qed.

(* the hole: assignment instances (no_asg is needed, even when comparing both ways) *)
Lemma assignment_hole :
  exists a b, wf_named a /\ wf_named b /\ compare a b = true /\ compare b a = true /\ ~ nv_equiv a b.
Proof.
  exists w_asg, w_asg_ref. split; [exact w_asg_wf|]. split; [vmr|]. split; [exact w_asg_ref_accepted|].
  split; [vmr|].
  apply (nv_diff_not_equiv MInstRef); [exact w_asg_wf|exact w_asg_ref_diff].
Qed.

(* ---------- pins as a set: the same connectivity listed in another order is accepted ---------- *)
Lemma props_sub_refl p : props_sub p p.
Proof. split; [auto|]. intros x k v H. exists v. split; [assumption|apply pval_eqb_refl]. Qed.

Lemma props_eq_refl p : props_eq p p.
Proof. split; [reflexivity|split; apply props_sub_refl]. Qed.

Lemma props_sub_none p : props_sub None p.
Proof. split; [intro H; exfalso; apply H; reflexivity|intros x k v H; discriminate H]. Qed.

Ltac rel_id :=
  repeat first
    [ exact I
    | reflexivity
    | apply props_eq_refl
    | match goal with
      | |- _ /\ _ => split
      | |- sib_equiv _ _ ?l' => exists l'; split; [apply Permutation_refl|]
      | |- Forall2 _ _ _ => constructor
      | |- wire_perm _ _ => first [apply Permutation_refl | apply perm_swap]
      end ].

Ltac unfold_rel :=
  cbv [nv_equiv nv_equiv_ord nv_rel lib_rel defn_rel cable_rel inst_rel port_rel top_rel
       n_name n_oid n_top n_libs l_name l_oid l_defs d_name d_oid d_ports d_cables d_insts
       c_name c_oid c_wires i_name i_oid i_ref i_props p_name p_oid p_dir p_array p_width].

Lemma w_pin_order_equiv : nv_equiv w_base w_pin_order.
Proof. unfold w_base, w_pin_order. unfold_rel. rel_id. Qed.

(* the witness of the former refutation: rejected by the positional comparison, accepted now *)
Lemma w_pin_order_accepted : cmp_run w_base w_pin_order = Accept /\ cmp_run w_pin_order w_base = Accept.
Proof. split; vmr. Qed.

(* ... although the two netlists do differ in the order of the pins of one wire *)
Lemma w_pin_order_not_ord : ~ nv_equiv_ord w_base w_pin_order.
Proof.
  intros [_ [_ [_ H4]]].
  assert (Hb : wf_named w_pin_order) by vmr.
  destruct (wf_named_libs _ Hb) as [Hnl Hwl].
  pose (la := nth 0 (n_libs w_base) (mklib None None [])).
  pose (lb := nth 0 (n_libs w_pin_order) (mklib None None [])).
  assert (L : lib_rel props_eq eq la lb).
  { eapply (sib_equiv_pair _ l_name); [exact H4|exact Hnl|intros u v [G _]; exact G| | |];
      [left; reflexivity|left; reflexivity|reflexivity]. }
  destruct L as [_ [_ L3]].
  destruct (wf_lib_defs lb (Hwl lb (or_introl eq_refl))) as [Hnd Hwd].
  pose (da := nth 2 (l_defs la) (mkdefn None None [] [] [])).
  pose (db := nth 2 (l_defs lb) (mkdefn None None [] [] [])).
  assert (D : defn_rel props_eq eq da db).
  { eapply (sib_equiv_pair _ d_name); [exact L3|exact Hnd|intros u v [G _]; exact G| | |];
      [right; right; left; reflexivity|right; right; left; reflexivity|reflexivity]. }
  destruct D as [_ [_ [_ [D4 _]]]].
  pose proof (wf_def_unpack db (Hwd db (or_intror (or_intror (or_introl eq_refl))))) as Hf.
  pose (ca := nth 1 (d_cables da) (mkcable None None [])).
  pose (cb := nth 1 (d_cables db) (mkcable None None [])).
  assert (C : cable_rel eq ca cb).
  { eapply (sib_equiv_pair _ c_name); [exact D4|exact (wd_nc db Hf)|intros u v [G _]; exact G| | |];
      [right; left; reflexivity|right; left; reflexivity|reflexivity]. }
  destruct C as [_ [_ C3]]. apply Forall2_eq in C3. vm_compute in C3. discriminate C3.
Qed.

(* completeness with the pins of a wire taken as a set *)
Definition complete_for_pin_sets : Prop :=
  forall a b, wf_named a -> wf_named b -> no_asg a -> nv_equiv a b -> compare a b = true.

Lemma complete_for_pin_sets_holds : complete_for_pin_sets.
Proof. exact compare_complete_set. Qed.

Lemma pin_order_witness :
  exists a b, wf_named a /\ wf_named b /\ no_asg a /\ no_asg b /\ nv_equiv a b /\ ~ nv_equiv_ord a b /\
              cmp_run a b = Accept /\ cmp_run b a = Accept.
Proof.
  exists w_base, w_pin_order. repeat (split; [vmr|]). split; [exact w_pin_order_equiv|].
  split; [exact w_pin_order_not_ord|]. exact w_pin_order_accepted.
Qed.

Lemma complete_ex : exists a b, a <> b /\ wf_named a /\ wf_named b /\ no_asg a /\ nv_equiv a b.
Proof.
  exists w_base, w_perm. split; [intro H; symmetry in H; exact (w_perm_ne H)|].
  split; [exact w_base_wf|]. split; [apply w_perm_wf|]. split; [exact w_base_noasg|exact w_perm_equiv].
Qed.

(* the hypothesis no_asg of completeness for pin sets is needed: two instances named
   SDN_Assignment_x_w and SDN_Assignment_y_w have the same key, each pin takes the first pin of
   the other wire with its key, and the two instances may differ in their reference
   (corpus/cmp/c20-asg-pin-order.json) *)
Lemma w_asg3_equiv : nv_equiv w_asg3 w_asg3_swapped.
Proof. unfold w_asg3, w_asg3_swapped. unfold_rel. rel_id. Qed.

Lemma pin_sets_need_no_asg :
  exists a b, wf_named a /\ wf_named b /\ nv_equiv a b /\ compare a a = true /\ cmp_run a b = Reject.
Proof.
  exists w_asg3, w_asg3_swapped. split; [vmr|]. split; [vmr|]. split; [exact w_asg3_equiv|]. split; vmr.
Qed.

(* the lower index of a port is not compared (and not part of the equivalence) *)
Lemma w_lower_equiv : nv_equiv_ord w_base w_lower.
Proof. unfold w_base, w_lower. unfold_rel. rel_id. Qed.

Lemma lower_index_witness :
  exists a b, a <> b /\ wf_named a /\ wf_named b /\ nv_equiv_ord a b /\ compare a b = true.
Proof.
  exists w_base, w_lower. split; [intro H; vm_compute in H; discriminate H|].
  split; [vmr|]. split; [vmr|]. split; [exact w_lower_equiv|vmr].
Qed.

Lemma complete_ord_ex : exists a b, a <> b /\ wf_named a /\ wf_named b /\ nv_equiv_ord a b.
Proof.
  exists w_base, w_lower. split; [intro H; vm_compute in H; discriminate H|].
  split; [vmr|]. split; [vmr|exact w_lower_equiv].
Qed.

(* hypotheses of not_equiv_rejected are satisfiable: two differences at once *)
Lemma structural_difference_ex : exists a b, wf_named a /\ no_asg a /\ ~ nv_equiv a b.
Proof.
  destruct double_ex as [a [b [H1 [_ [H2 H3]]]]]. exists a, b. auto.
Qed.

Lemma reverse_ex : exists a b, a <> b /\ wf_named a /\ wf_named b /\ no_asg a /\ no_asg b /\ compare a b = true.
Proof.
  exists w_base, w_perm. split; [intro H; symmetry in H; exact (w_perm_ne H)|].
  split; [exact w_base_wf|]. split; [apply w_perm_wf|]. split; [exact w_base_noasg|].
  split; [apply w_perm_wf|exact w_perm_ab].
Qed.

(* ---------- properties that only the second netlist has (the former hole) ---------- *)
Ltac rel_sub :=
  repeat first
    [ exact I
    | reflexivity
    | apply props_sub_refl
    | apply props_sub_none
    | match goal with
      | |- _ /\ _ => split
      | |- sib_equiv _ _ ?l' => exists l'; split; [apply Permutation_refl|]
      | |- Forall2 _ _ _ => constructor
      | |- wire_perm _ _ => apply Permutation_refl
      end ].

Lemma w_prop_new_covered : nv_covered_set w_base w_prop_new.
Proof. unfold w_base, w_prop_new. cbv [nv_covered_set]. unfold_rel. rel_sub. Qed.

(* covered, not equivalent: accepted before the repair of compare_instances, rejected now *)
Lemma extra_props_rejected :
  exists a b, wf_named a /\ wf_named b /\ no_asg a /\ no_asg b /\ nv_covered_set a b /\ ~ nv_equiv a b /\
              cmp_run a b = Reject /\ cmp_run b a = Reject.
Proof.
  exists w_base, w_prop_new. repeat (split; [vmr|]). split; [exact w_prop_new_covered|].
  split; [|split; vmr].
  apply (nv_diff_not_equiv MPropAdded); [exact w_base_wf|exact w_prop_new_diff].
Qed.
