(* Final statements about the comparer model, used verbatim by Props/C20.v. *)
From Coq Require Import String List Arith NArith ZArith Bool.
From SV Require Import Base.Base Cmp.Comparer Cmp.Diff Proofs.CmpBase Proofs.CmpAccept Proofs.CmpReject
  Proofs.CmpWitness.
Import ListNotations.

(* ---------- accepts ---------- *)
Lemma accepts_self : forall a, wf_named a -> compare a a = true.
Proof. exact compare_refl. Qed.

(* a structurally equal copy is the same value *)
Lemma accepts_copy : forall a b, wf_named a -> b = a -> compare a b = true.
Proof. intros a b H ->. apply compare_refl. assumption. Qed.

Lemma accepts_ex : wf_named w_base /\ no_asg w_base /\ compare w_base w_base = true.
Proof. split; [exact w_base_wf|split; [exact w_base_noasg|exact w_base_accept]]. Qed.

(* ---------- rejects, one statement per mutation class ---------- *)
Lemma wf_of (P : Prop) : P -> P. Proof. auto. Qed.

(* a port's direction differs *)
Lemma rejects_port_dir : forall a b, wf_named a -> no_asg a -> nv_diff MPortDir a b -> cmp_run a b = Reject.
Proof. intros a b H1 H2 H3. exact (nv_diff_reject MPortDir a b H1 H2 eq_refl H3). Qed.

Lemma rejects_port_dir_ex : exists a b, wf_named a /\ no_asg a /\ nv_diff MPortDir a b.
Proof. exists w_base, w_port_dir. split; [vm_compute; reflexivity|split; [vm_compute; reflexivity|exact w_port_dir_diff]]. Qed.

(* a port's width differs *)
Lemma rejects_port_width : forall a b, wf_named a -> no_asg a -> nv_diff MPortWidth a b -> cmp_run a b = Reject.
Proof. intros a b H1 H2 H3. exact (nv_diff_reject MPortWidth a b H1 H2 eq_refl H3). Qed.

Lemma rejects_port_width_ex : exists a b, wf_named a /\ no_asg a /\ nv_diff MPortWidth a b.
Proof. exists w_base, w_port_width. split; [vm_compute; reflexivity|split; [vm_compute; reflexivity|exact w_port_width_diff]]. Qed.

(* a port's array-ness differs *)
Lemma rejects_port_array : forall a b, wf_named a -> no_asg a -> nv_diff MPortArray a b -> cmp_run a b = Reject.
Proof. intros a b H1 H2 H3. exact (nv_diff_reject MPortArray a b H1 H2 eq_refl H3). Qed.

Lemma rejects_port_array_ex : exists a b, wf_named a /\ no_asg a /\ nv_diff MPortArray a b.
Proof. exists w_base, w_port_array. split; [vm_compute; reflexivity|split; [vm_compute; reflexivity|exact w_port_array_diff]]. Qed.

(* a cable's width differs *)
Lemma rejects_cable_width : forall a b, wf_named a -> no_asg a -> nv_diff MCableWidth a b -> cmp_run a b = Reject.
Proof. intros a b H1 H2 H3. exact (nv_diff_reject MCableWidth a b H1 H2 eq_refl H3). Qed.

Lemma rejects_cable_width_ex : exists a b, wf_named a /\ no_asg a /\ nv_diff MCableWidth a b.
Proof. exists w_base, w_cable_width. split; [vm_compute; reflexivity|split; [vm_compute; reflexivity|exact w_cable_width_diff]]. Qed.

(* a connection moved to another instance *)
Lemma rejects_conn_inst : forall a b, wf_named a -> no_asg a -> nv_diff MConnInst a b -> cmp_run a b = Reject.
Proof. intros a b H1 H2 H3. exact (nv_diff_reject MConnInst a b H1 H2 eq_refl H3). Qed.

Lemma rejects_conn_inst_ex : exists a b, wf_named a /\ no_asg a /\ nv_diff MConnInst a b.
Proof. exists w_base, w_conn_inst. split; [vm_compute; reflexivity|split; [vm_compute; reflexivity|exact w_conn_inst_diff]]. Qed.

(* a connection moved to another port *)
Lemma rejects_conn_port : forall a b, wf_named a -> no_asg a -> nv_diff MConnPort a b -> cmp_run a b = Reject.
Proof. intros a b H1 H2 H3. exact (nv_diff_reject MConnPort a b H1 H2 eq_refl H3). Qed.

Lemma rejects_conn_port_ex : exists a b, wf_named a /\ no_asg a /\ nv_diff MConnPort a b.
Proof. exists w_base, w_conn_port. split; [vm_compute; reflexivity|split; [vm_compute; reflexivity|exact w_conn_port_diff]]. Qed.

(* a connection moved to another bit *)
Lemma rejects_conn_bit : forall a b, wf_named a -> no_asg a -> nv_diff MConnBit a b -> cmp_run a b = Reject.
Proof. intros a b H1 H2 H3. exact (nv_diff_reject MConnBit a b H1 H2 eq_refl H3). Qed.

Lemma rejects_conn_bit_ex : exists a b, wf_named a /\ no_asg a /\ nv_diff MConnBit a b.
Proof. exists w_base, w_conn_bit. split; [vm_compute; reflexivity|split; [vm_compute; reflexivity|exact w_conn_bit_diff]]. Qed.

(* an instance (or the top instance) re-pointed to another definition *)
Lemma rejects_inst_ref : forall a b, wf_named a -> no_asg a -> nv_diff MInstRef a b -> cmp_run a b = Reject.
Proof. intros a b H1 H2 H3. exact (nv_diff_reject MInstRef a b H1 H2 eq_refl H3). Qed.

Lemma rejects_inst_ref_ex : exists a b, wf_named a /\ no_asg a /\ nv_diff MInstRef a b.
Proof. exists w_base, w_inst_ref. split; [vm_compute; reflexivity|split; [vm_compute; reflexivity|exact w_inst_ref_diff]]. Qed.

(* the value of one property of an instance differs *)
Lemma rejects_inst_prop : forall a b, wf_named a -> no_asg a -> nv_diff MInstProp a b -> cmp_run a b = Reject.
Proof. intros a b H1 H2 H3. exact (nv_diff_reject MInstProp a b H1 H2 eq_refl H3). Qed.

Lemma rejects_inst_prop_ex : exists a b, wf_named a /\ no_asg a /\ nv_diff MInstProp a b.
Proof. exists w_base, w_prop_value. split; [vm_compute; reflexivity|split; [vm_compute; reflexivity|exact w_prop_value_diff]]. Qed.

(* the copy has one more library *)
Lemma rejects_lib_add : forall a b, wf_named a -> no_asg a -> nv_diff MLibAdd a b -> cmp_run a b = Reject.
Proof. intros a b H1 H2 H3. exact (nv_diff_reject MLibAdd a b H1 H2 eq_refl H3). Qed.

Lemma rejects_lib_add_ex : exists a b, wf_named a /\ no_asg a /\ nv_diff MLibAdd a b.
Proof. exists w_lib_drop, w_base. split; [vm_compute; reflexivity|split; [vm_compute; reflexivity|exact w_lib_add_diff]]. Qed.

(* the copy lacks one library *)
Lemma rejects_lib_drop : forall a b, wf_named a -> no_asg a -> nv_diff MLibDrop a b -> cmp_run a b = Reject.
Proof. intros a b H1 H2 H3. exact (nv_diff_reject MLibDrop a b H1 H2 eq_refl H3). Qed.

Lemma rejects_lib_drop_ex : exists a b, wf_named a /\ no_asg a /\ nv_diff MLibDrop a b.
Proof. exists w_base, w_lib_drop. split; [vm_compute; reflexivity|split; [vm_compute; reflexivity|exact w_lib_drop_diff]]. Qed.

(* the copy has one more definition *)
Lemma rejects_def_add : forall a b, wf_named a -> no_asg a -> nv_diff MDefAdd a b -> cmp_run a b = Reject.
Proof. intros a b H1 H2 H3. exact (nv_diff_reject MDefAdd a b H1 H2 eq_refl H3). Qed.

Lemma rejects_def_add_ex : exists a b, wf_named a /\ no_asg a /\ nv_diff MDefAdd a b.
Proof. exists w_base, w_def_add. split; [vm_compute; reflexivity|split; [vm_compute; reflexivity|exact w_def_add_diff]]. Qed.

(* the copy lacks one definition *)
Lemma rejects_def_drop : forall a b, wf_named a -> no_asg a -> nv_diff MDefDrop a b -> cmp_run a b = Reject.
Proof. intros a b H1 H2 H3. exact (nv_diff_reject MDefDrop a b H1 H2 eq_refl H3). Qed.

Lemma rejects_def_drop_ex : exists a b, wf_named a /\ no_asg a /\ nv_diff MDefDrop a b.
Proof. exists w_def_add, w_base. split; [vm_compute; reflexivity|split; [vm_compute; reflexivity|exact w_def_drop_diff]]. Qed.

(* the copy has one more port *)
Lemma rejects_port_add : forall a b, wf_named a -> no_asg a -> nv_diff MPortAdd a b -> cmp_run a b = Reject.
Proof. intros a b H1 H2 H3. exact (nv_diff_reject MPortAdd a b H1 H2 eq_refl H3). Qed.

Lemma rejects_port_add_ex : exists a b, wf_named a /\ no_asg a /\ nv_diff MPortAdd a b.
Proof. exists w_base, w_port_add. split; [vm_compute; reflexivity|split; [vm_compute; reflexivity|exact w_port_add_diff]]. Qed.

(* the copy lacks one port *)
Lemma rejects_port_drop : forall a b, wf_named a -> no_asg a -> nv_diff MPortDrop a b -> cmp_run a b = Reject.
Proof. intros a b H1 H2 H3. exact (nv_diff_reject MPortDrop a b H1 H2 eq_refl H3). Qed.

Lemma rejects_port_drop_ex : exists a b, wf_named a /\ no_asg a /\ nv_diff MPortDrop a b.
Proof. exists w_port_add, w_base. split; [vm_compute; reflexivity|split; [vm_compute; reflexivity|exact w_port_drop_diff]]. Qed.

(* the copy has one more cable *)
Lemma rejects_cable_add : forall a b, wf_named a -> no_asg a -> nv_diff MCableAdd a b -> cmp_run a b = Reject.
Proof. intros a b H1 H2 H3. exact (nv_diff_reject MCableAdd a b H1 H2 eq_refl H3). Qed.

Lemma rejects_cable_add_ex : exists a b, wf_named a /\ no_asg a /\ nv_diff MCableAdd a b.
Proof. exists w_base, w_cable_add. split; [vm_compute; reflexivity|split; [vm_compute; reflexivity|exact w_cable_add_diff]]. Qed.

(* the copy lacks one cable *)
Lemma rejects_cable_drop : forall a b, wf_named a -> no_asg a -> nv_diff MCableDrop a b -> cmp_run a b = Reject.
Proof. intros a b H1 H2 H3. exact (nv_diff_reject MCableDrop a b H1 H2 eq_refl H3). Qed.

Lemma rejects_cable_drop_ex : exists a b, wf_named a /\ no_asg a /\ nv_diff MCableDrop a b.
Proof. exists w_cable_add, w_base. split; [vm_compute; reflexivity|split; [vm_compute; reflexivity|exact w_cable_drop_diff]]. Qed.

(* the copy has one more instance *)
Lemma rejects_inst_add : forall a b, wf_named a -> no_asg a -> nv_diff MInstAdd a b -> cmp_run a b = Reject.
Proof. intros a b H1 H2 H3. exact (nv_diff_reject MInstAdd a b H1 H2 eq_refl H3). Qed.

Lemma rejects_inst_add_ex : exists a b, wf_named a /\ no_asg a /\ nv_diff MInstAdd a b.
Proof. exists w_base, w_inst_add. split; [vm_compute; reflexivity|split; [vm_compute; reflexivity|exact w_inst_add_diff]]. Qed.

(* the copy lacks one instance *)
Lemma rejects_inst_drop : forall a b, wf_named a -> no_asg a -> nv_diff MInstDrop a b -> cmp_run a b = Reject.
Proof. intros a b H1 H2 H3. exact (nv_diff_reject MInstDrop a b H1 H2 eq_refl H3). Qed.

Lemma rejects_inst_drop_ex : exists a b, wf_named a /\ no_asg a /\ nv_diff MInstDrop a b.
Proof. exists w_inst_add, w_base. split; [vm_compute; reflexivity|split; [vm_compute; reflexivity|exact w_inst_drop_diff]]. Qed.

(* all noticed classes at once *)
Lemma rejects_all : forall a b, wf_named a -> no_asg a -> single_diff a b -> compare a b = false.
Proof. exact single_diff_rejected. Qed.

Lemma rejects_all_assertion : forall a b m, wf_named a -> no_asg a -> noticed m = true -> nv_diff m a b ->
  cmp_run a b = Reject.
Proof. intros a b m H1 H2 H3 H4. exact (nv_diff_reject m a b H1 H2 H3 H4). Qed.

(* ---------- the property at full strength, and why it fails ---------- *)
(* every named netlist is accepted against itself and rejected against every copy with one
   difference of any class of the property - including a property only the copy has, and
   without excluding instances named like assignments *)
Definition full : Prop :=
  forall a, wf_named a ->
    compare a a = true /\ forall m b, nv_diff m a b -> compare a b = false.

Lemma refuted_extra_property : ~ full.
Proof.
  intro H. destruct (H w_base w_base_wf) as [_ Hr].
  specialize (Hr MPropAdded w_prop_new w_prop_new_diff). rewrite w_prop_new_accepted in Hr. discriminate.
Qed.

Lemma refuted_extra_property_entry :
  exists a b, wf_named a /\ no_asg a /\ nv_diff MPropAdded a b /\ compare a b = true.
Proof.
  exists w_base, w_prop_entry. repeat split; try (vm_compute; reflexivity).
  - exact w_prop_entry_diff.
Qed.

(* the noticed classes without the hypothesis no_asg *)
Definition full_noticed : Prop := forall a b, wf_named a -> single_diff a b -> compare a b = false.

Lemma refuted_assignment_reference : ~ full_noticed.
Proof.
  intro H. specialize (H w_asg w_asg_ref w_asg_wf).
  rewrite w_asg_ref_accepted in H. discriminate H. exists MInstRef. split; [reflexivity|exact w_asg_ref_diff].
Qed.

Lemma refuted_assignment_moved :
  exists a b, wf_named a /\ nv_diff MConnInst a b /\ compare a b = true.
Proof. exists w_asg2, w_asg2_moved. split; [exact w_asg2_wf|split; [exact w_asg2_moved_diff|exact w_asg2_moved_accepted]]. Qed.

(* differences among unnamed elements are not looked at *)
Lemma refuted_unnamed :
  exists a b, nv_diff MPortDir a b /\ compare a b = true.
Proof. exists w_unnamed, w_unnamed_dir. split; [exact w_unnamed_dir_diff|exact w_unnamed_dir_accepted]. Qed.

(* netlists outside the domain that are not accepted against their own copy *)
Lemma refuted_self_wildcard_names : exists a, cmp_run a a = Reject.
Proof. exists w_wild. exact w_wild_self. Qed.
Lemma refuted_self_zero_width_port : exists a, cmp_run a a = Reject /\ a <> w_wild.
Proof. exists w_zero. split; [exact w_zero_self|intro H; vm_compute in H; discriminate H]. Qed.
Lemma refuted_self_short_assignment_name : exists a, cmp_run a a = IndexErr.
Proof. exists w_short. exact w_short_self. Qed.
Lemma refuted_self_unnamed_instance : exists a, cmp_run a a = AttrErr.
Proof. exists w_noname. exact w_noname_self. Qed.

(* differences reported by another exception than AssertionError *)
Lemma missing_property_is_keyerror : exists a b, wf_named a /\ no_asg a /\ cmp_run a b = KeyErr.
Proof. exists w_base, w_prop_dropped. split; [exact w_base_wf|split; [exact w_base_noasg|exact w_prop_dropped_keyerror]]. Qed.
Lemma renamed_element_is_stopiteration : exists a b, wf_named a /\ no_asg a /\ cmp_run a b = StopIter.
Proof. exists w_base, w_renamed. split; [exact w_base_wf|split; [exact w_base_noasg|exact w_renamed_stopiter]]. Qed.
