(* Final statements about the comparer model, used verbatim by Props/C20.v. *)
From Coq Require Import String List Arith NArith ZArith Bool Lia.
From SV Require Import Base.Base Cmp.Comparer Cmp.Diff Proofs.CmpBase Proofs.CmpAccept Proofs.CmpReject
  Proofs.CmpSound Proofs.CmpWitness Proofs.CmpAcceptAny.
Import ListNotations.

(* ---------- accepts ---------- *)
Lemma accepts_self : forall a, wf_named a -> compare a a = true.
Proof. exact compare_refl. Qed.

(* a structurally equal copy is the same value *)
Lemma accepts_copy : forall a b, wf_named a -> b = a -> compare a b = true.
Proof. intros a b H ->. apply compare_refl. assumption. Qed.

Lemma accepts_ex : wf_named w_base /\ no_asg w_base /\ compare w_base w_base = true.
Proof. split; [exact w_base_wf|split; [exact w_base_noasg|exact w_base_accept]]. Qed.

(* ---------- rejects, one statement per mutation class ---------- *)
Lemma wf_of (P : Prop) : P -> P. Proof. auto. Qed.

(* a port's direction differs *)
Lemma rejects_port_dir : forall a b, wf_named a -> no_asg a -> nv_diff MPortDir a b -> cmp_run a b = Reject.
Proof. intros a b H1 H2 H3. exact (nv_diff_reject MPortDir a b H1 H2 H3). Qed.

Lemma rejects_port_dir_ex : exists a b, wf_named a /\ no_asg a /\ nv_diff MPortDir a b.
Proof. exists w_base, w_port_dir. split; [vm_compute; reflexivity|split; [vm_compute; reflexivity|exact w_port_dir_diff]]. Qed.

(* a port's width differs *)
Lemma rejects_port_width : forall a b, wf_named a -> no_asg a -> nv_diff MPortWidth a b -> cmp_run a b = Reject.
Proof. intros a b H1 H2 H3. exact (nv_diff_reject MPortWidth a b H1 H2 H3). Qed.

Lemma rejects_port_width_ex : exists a b, wf_named a /\ no_asg a /\ nv_diff MPortWidth a b.
Proof. exists w_base, w_port_width. split; [vm_compute; reflexivity|split; [vm_compute; reflexivity|exact w_port_width_diff]]. Qed.

(* a port's array-ness differs *)
Lemma rejects_port_array : forall a b, wf_named a -> no_asg a -> nv_diff MPortArray a b -> cmp_run a b = Reject.
Proof. intros a b H1 H2 H3. exact (nv_diff_reject MPortArray a b H1 H2 H3). Qed.

Lemma rejects_port_array_ex : exists a b, wf_named a /\ no_asg a /\ nv_diff MPortArray a b.
Proof. exists w_base, w_port_array. split; [vm_compute; reflexivity|split; [vm_compute; reflexivity|exact w_port_array_diff]]. Qed.

(* a cable's width differs *)
Lemma rejects_cable_width : forall a b, wf_named a -> no_asg a -> nv_diff MCableWidth a b -> cmp_run a b = Reject.
Proof. intros a b H1 H2 H3. exact (nv_diff_reject MCableWidth a b H1 H2 H3). Qed.

Lemma rejects_cable_width_ex : exists a b, wf_named a /\ no_asg a /\ nv_diff MCableWidth a b.
Proof. exists w_base, w_cable_width. split; [vm_compute; reflexivity|split; [vm_compute; reflexivity|exact w_cable_width_diff]]. Qed.

(* a connection moved to another instance *)
Lemma rejects_conn_inst : forall a b, wf_named a -> no_asg a -> nv_diff MConnInst a b -> cmp_run a b = Reject.
Proof. intros a b H1 H2 H3. exact (nv_diff_reject MConnInst a b H1 H2 H3). Qed.

Lemma rejects_conn_inst_ex : exists a b, wf_named a /\ no_asg a /\ nv_diff MConnInst a b.
Proof. exists w_base, w_conn_inst. split; [vm_compute; reflexivity|split; [vm_compute; reflexivity|exact w_conn_inst_diff]]. Qed.

(* a connection moved to another port *)
Lemma rejects_conn_port : forall a b, wf_named a -> no_asg a -> nv_diff MConnPort a b -> cmp_run a b = Reject.
Proof. intros a b H1 H2 H3. exact (nv_diff_reject MConnPort a b H1 H2 H3). Qed.

Lemma rejects_conn_port_ex : exists a b, wf_named a /\ no_asg a /\ nv_diff MConnPort a b.
Proof. exists w_base, w_conn_port. split; [vm_compute; reflexivity|split; [vm_compute; reflexivity|exact w_conn_port_diff]]. Qed.

(* a connection moved to another bit *)
Lemma rejects_conn_bit : forall a b, wf_named a -> no_asg a -> nv_diff MConnBit a b -> cmp_run a b = Reject.
Proof. intros a b H1 H2 H3. exact (nv_diff_reject MConnBit a b H1 H2 H3). Qed.

Lemma rejects_conn_bit_ex : exists a b, wf_named a /\ no_asg a /\ nv_diff MConnBit a b.
Proof. exists w_base, w_conn_bit. split; [vm_compute; reflexivity|split; [vm_compute; reflexivity|exact w_conn_bit_diff]]. Qed.

(* an instance (or the top instance) re-pointed to another definition *)
Lemma rejects_inst_ref : forall a b, wf_named a -> no_asg a -> nv_diff MInstRef a b -> cmp_run a b = Reject.
Proof. intros a b H1 H2 H3. exact (nv_diff_reject MInstRef a b H1 H2 H3). Qed.

Lemma rejects_inst_ref_ex : exists a b, wf_named a /\ no_asg a /\ nv_diff MInstRef a b.
Proof. exists w_base, w_inst_ref. split; [vm_compute; reflexivity|split; [vm_compute; reflexivity|exact w_inst_ref_diff]]. Qed.

(* the value of one property of an instance differs *)
Lemma rejects_inst_prop : forall a b, wf_named a -> no_asg a -> nv_diff MInstProp a b -> cmp_run a b = Reject.
Proof. intros a b H1 H2 H3. exact (nv_diff_reject MInstProp a b H1 H2 H3). Qed.

Lemma rejects_inst_prop_ex : exists a b, wf_named a /\ no_asg a /\ nv_diff MInstProp a b.
Proof. exists w_base, w_prop_value. split; [vm_compute; reflexivity|split; [vm_compute; reflexivity|exact w_prop_value_diff]]. Qed.

(* the copy has one more library *)
Lemma rejects_lib_add : forall a b, wf_named a -> no_asg a -> nv_diff MLibAdd a b -> cmp_run a b = Reject.
Proof. intros a b H1 H2 H3. exact (nv_diff_reject MLibAdd a b H1 H2 H3). Qed.

Lemma rejects_lib_add_ex : exists a b, wf_named a /\ no_asg a /\ nv_diff MLibAdd a b.
Proof. exists w_lib_drop, w_base. split; [vm_compute; reflexivity|split; [vm_compute; reflexivity|exact w_lib_add_diff]]. Qed.

(* the copy lacks one library *)
Lemma rejects_lib_drop : forall a b, wf_named a -> no_asg a -> nv_diff MLibDrop a b -> cmp_run a b = Reject.
Proof. intros a b H1 H2 H3. exact (nv_diff_reject MLibDrop a b H1 H2 H3). Qed.

Lemma rejects_lib_drop_ex : exists a b, wf_named a /\ no_asg a /\ nv_diff MLibDrop a b.
Proof. exists w_base, w_lib_drop. split; [vm_compute; reflexivity|split; [vm_compute; reflexivity|exact w_lib_drop_diff]]. Qed.

(* the copy has one more definition *)
Lemma rejects_def_add : forall a b, wf_named a -> no_asg a -> nv_diff MDefAdd a b -> cmp_run a b = Reject.
Proof. intros a b H1 H2 H3. exact (nv_diff_reject MDefAdd a b H1 H2 H3). Qed.

Lemma rejects_def_add_ex : exists a b, wf_named a /\ no_asg a /\ nv_diff MDefAdd a b.
Proof. exists w_base, w_def_add. split; [vm_compute; reflexivity|split; [vm_compute; reflexivity|exact w_def_add_diff]]. Qed.

(* the copy lacks one definition *)
Lemma rejects_def_drop : forall a b, wf_named a -> no_asg a -> nv_diff MDefDrop a b -> cmp_run a b = Reject.
Proof. intros a b H1 H2 H3. exact (nv_diff_reject MDefDrop a b H1 H2 H3). Qed.

Lemma rejects_def_drop_ex : exists a b, wf_named a /\ no_asg a /\ nv_diff MDefDrop a b.
Proof. exists w_def_add, w_base. split; [vm_compute; reflexivity|split; [vm_compute; reflexivity|exact w_def_drop_diff]]. Qed.

(* the copy has one more port *)
Lemma rejects_port_add : forall a b, wf_named a -> no_asg a -> nv_diff MPortAdd a b -> cmp_run a b = Reject.
Proof. intros a b H1 H2 H3. exact (nv_diff_reject MPortAdd a b H1 H2 H3). Qed.

Lemma rejects_port_add_ex : exists a b, wf_named a /\ no_asg a /\ nv_diff MPortAdd a b.
Proof. exists w_base, w_port_add. split; [vm_compute; reflexivity|split; [vm_compute; reflexivity|exact w_port_add_diff]]. Qed.

(* the copy lacks one port *)
Lemma rejects_port_drop : forall a b, wf_named a -> no_asg a -> nv_diff MPortDrop a b -> cmp_run a b = Reject.
Proof. intros a b H1 H2 H3. exact (nv_diff_reject MPortDrop a b H1 H2 H3). Qed.

Lemma rejects_port_drop_ex : exists a b, wf_named a /\ no_asg a /\ nv_diff MPortDrop a b.
Proof. exists w_port_add, w_base. split; [vm_compute; reflexivity|split; [vm_compute; reflexivity|exact w_port_drop_diff]]. Qed.

(* the copy has one more cable *)
Lemma rejects_cable_add : forall a b, wf_named a -> no_asg a -> nv_diff MCableAdd a b -> cmp_run a b = Reject.
Proof. intros a b H1 H2 H3. exact (nv_diff_reject MCableAdd a b H1 H2 H3). Qed.

Lemma rejects_cable_add_ex : exists a b, wf_named a /\ no_asg a /\ nv_diff MCableAdd a b.
Proof. exists w_base, w_cable_add. split; [vm_compute; reflexivity|split; [vm_compute; reflexivity|exact w_cable_add_diff]]. Qed.

(* the copy lacks one cable *)
Lemma rejects_cable_drop : forall a b, wf_named a -> no_asg a -> nv_diff MCableDrop a b -> cmp_run a b = Reject.
Proof. intros a b H1 H2 H3. exact (nv_diff_reject MCableDrop a b H1 H2 H3). Qed.

Lemma rejects_cable_drop_ex : exists a b, wf_named a /\ no_asg a /\ nv_diff MCableDrop a b.
Proof. exists w_cable_add, w_base. split; [vm_compute; reflexivity|split; [vm_compute; reflexivity|exact w_cable_drop_diff]]. Qed.

(* the copy has one more instance *)
Lemma rejects_inst_add : forall a b, wf_named a -> no_asg a -> nv_diff MInstAdd a b -> cmp_run a b = Reject.
Proof. intros a b H1 H2 H3. exact (nv_diff_reject MInstAdd a b H1 H2 H3). Qed.

Lemma rejects_inst_add_ex : exists a b, wf_named a /\ no_asg a /\ nv_diff MInstAdd a b.
Proof. exists w_base, w_inst_add. split; [vm_compute; reflexivity|split; [vm_compute; reflexivity|exact w_inst_add_diff]]. Qed.

(* the copy lacks one instance *)
Lemma rejects_inst_drop : forall a b, wf_named a -> no_asg a -> nv_diff MInstDrop a b -> cmp_run a b = Reject.
Proof. intros a b H1 H2 H3. exact (nv_diff_reject MInstDrop a b H1 H2 H3). Qed.

Lemma rejects_inst_drop_ex : exists a b, wf_named a /\ no_asg a /\ nv_diff MInstDrop a b.
Proof. exists w_inst_add, w_base. split; [vm_compute; reflexivity|split; [vm_compute; reflexivity|exact w_inst_drop_diff]]. Qed.

(* all noticed classes at once *)
Lemma rejects_all : forall a b, wf_named a -> no_asg a -> single_diff a b -> compare a b = false.
Proof. exact single_diff_rejected. Qed.

Lemma rejects_all_assertion : forall a b m, wf_named a -> no_asg a -> nv_diff m a b -> cmp_run a b = Reject.
Proof. intros a b m H1 H2 H3. exact (nv_diff_reject m a b H1 H2 H3). Qed.

(* a property that only the copy has: EDIF.properties on the copy only, one more entry, one more
   key in an entry *)
Lemma rejects_prop_added : forall a b, wf_named a -> no_asg a -> nv_diff MPropAdded a b -> cmp_run a b = Reject.
Proof. intros a b H1 H2 H3. exact (nv_diff_reject MPropAdded a b H1 H2 H3). Qed.

Lemma rejects_prop_added_ex : exists a b, wf_named a /\ no_asg a /\ nv_diff MPropAdded a b.
Proof. exists w_base, w_prop_new. split; [exact w_base_wf|split; [exact w_base_noasg|exact w_prop_new_diff]]. Qed.

(* ---------- the property at full strength ---------- *)
(* every named netlist is accepted against itself and rejected against every copy with one
   difference of any class of the property - including a property only the copy has *)
Definition full_named : Prop :=
  forall a, wf_named a -> no_asg a ->
    compare a a = true /\ forall m b, nv_diff m a b -> cmp_run a b = Reject.

Lemma full_named_holds : full_named.
Proof.
  intros a Hwf Hna. split; [apply compare_refl; assumption|].
  intros m b Hd. apply (nv_diff_reject m a b); assumption.
Qed.

(* the former witnesses of the refutation (a property only the copy has was accepted) *)
Lemma extra_property_rejected :
  nv_diff MPropAdded w_base w_prop_new /\ cmp_run w_base w_prop_new = Reject /\
  nv_diff MPropAdded w_base w_prop_entry /\ cmp_run w_base w_prop_entry = Reject.
Proof.
  split; [exact w_prop_new_diff|]. split; [exact w_prop_new_rejected|].
  split; [exact w_prop_entry_diff|exact w_prop_entry_rejected].
Qed.

(* ... without excluding instances named like assignments it still fails *)
Definition full : Prop :=
  forall a, wf_named a ->
    compare a a = true /\ forall m b, nv_diff m a b -> compare a b = false.

Lemma refuted_full_by_assignment : ~ full.
Proof.
  intro H. destruct (H w_asg w_asg_wf) as [_ Hr].
  specialize (Hr MInstRef w_asg_ref w_asg_ref_diff). rewrite w_asg_ref_accepted in Hr. discriminate.
Qed.

(* single differences without the hypothesis no_asg *)
Definition full_noticed : Prop := forall a b, wf_named a -> single_diff a b -> compare a b = false.

Lemma refuted_assignment_reference : ~ full_noticed.
Proof.
  intro H. specialize (H w_asg w_asg_ref w_asg_wf).
  rewrite w_asg_ref_accepted in H. discriminate H. exists MInstRef. exact w_asg_ref_diff.
Qed.

Lemma refuted_assignment_moved :
  exists a b, wf_named a /\ nv_diff MConnInst a b /\ compare a b = true.
Proof. exists w_asg2, w_asg2_moved. split; [exact w_asg2_wf|split; [exact w_asg2_moved_diff|exact w_asg2_moved_accepted]]. Qed.

(* differences among unnamed elements are not looked at *)
Lemma refuted_unnamed :
  exists a b, nv_diff MPortDir a b /\ compare a b = true.
Proof. exists w_unnamed, w_unnamed_dir. split; [exact w_unnamed_dir_diff|exact w_unnamed_dir_accepted]. Qed.

(* the witnesses of the former self-reject refutations (sibling names 'ab' and 'a*'; a port without
   pins; an instance named SDN_Assignment_x; a connected instance without a name): accepted
   against their own copy since the repairs; the first three are in the domain of the theorems *)
Lemma self_wildcard_names_accepted : wf_named w_wild /\ cmp_run w_wild w_wild = Accept.
Proof. split; [exact w_wild_wf|exact w_wild_self]. Qed.
Lemma self_zero_width_port_accepted : wf_named w_zero /\ cmp_run w_zero w_zero = Accept /\ w_zero <> w_wild.
Proof. split; [exact w_zero_wf|split; [exact w_zero_self|intro H; vm_compute in H; discriminate H]]. Qed.
Lemma self_short_assignment_name_accepted : wf_named w_short /\ no_asg w_short /\ cmp_run w_short w_short = Accept.
Proof. destruct w_short_wf as [H1 H2]. split; [exact H1|split; [exact H2|exact w_short_self]]. Qed.
Lemma self_unnamed_instance_accepted : ~ wf_named w_noname /\ cmp_run w_noname w_noname = Accept.
Proof.
  split; [|exact w_noname_self]. unfold wf_named. rewrite w_noname_not_named. discriminate.
Qed.

(* differences that were reported by another exception than AssertionError: a property the copy
   lacks (was KeyError), a renamed element (was StopIteration) *)
Lemma missing_property_is_rejected : exists a b, wf_named a /\ no_asg a /\ cmp_run a b = Reject /\ cmp_run b a = Reject.
Proof. exists w_base, w_prop_dropped. split; [exact w_base_wf|split; [exact w_base_noasg|split; [exact w_prop_dropped_rejected|vm_compute; reflexivity]]]. Qed.
Lemma renamed_element_is_rejected : exists a b, wf_named a /\ no_asg a /\ cmp_run a b = Reject /\ cmp_run b a = Reject.
Proof. exists w_base, w_renamed. split; [exact w_base_wf|split; [exact w_base_noasg|split; [exact w_renamed_rejected|vm_compute; reflexivity]]]. Qed.

(* ---------- compare_instances returns or raises AssertionError, nothing else ---------- *)
(* whatever the two EDIF.properties lists are: the asserts on the number of entries and on the key
   sets make properties_composer[x] and properties_composer[x][key] always succeed *)
Definition assert_only (x : outcome) : Prop := x = Accept \/ x = Reject.

Lemma cmp_items_assert_only items : forall dc,
  forallb (fun kv => has_key (fst kv) dc) items = true -> assert_only (cmp_items items dc).
Proof.
  induction items as [|[k v] items IH]; intros dc H; cbn; [left; reflexivity|].
  cbn in H. apply andb_true_iff in H as [Hk H]. destruct (has_key_sassoc Hk) as [v' ->].
  destruct (pval_eqb v v'); cbn; [apply IH; assumption|right; reflexivity].
Qed.

Lemma cmp_props_assert_only po : forall pc, length po = length pc -> assert_only (cmp_props po pc).
Proof.
  induction po as [|o po IH]; intros [|c pc] Hl; try discriminate Hl; cbn [cmp_props]; [left; reflexivity|].
  destruct (keys_eqb o c) eqn:E; cbn [check seq]; [|right; reflexivity].
  unfold keys_eqb in E. apply andb_true_iff in E as [E _].
  destruct (cmp_items_assert_only o c E) as [-> | ->]; cbn [seq]; [|right; reflexivity].
  apply IH. cbn in Hl. lia.
Qed.

Lemma assert_only_seq a b : assert_only a -> assert_only b -> assert_only (seq a b).
Proof. intros [->| ->] Hb; cbn; [assumption|right; reflexivity]. Qed.

Lemma assert_only_check b : assert_only (check b).
Proof. destruct b; [left|right]; reflexivity. Qed.

Lemma cmp_ref_assert_only ro rc : assert_only (cmp_ref ro rc).
Proof.
  destruct ro as [[d1 l1]|], rc as [[d2 l2]|]; cbn; try (right; reflexivity); [|left; reflexivity].
  apply assert_only_check.
Qed.

(* compare_instances on any two instances (or None): returns or raises AssertionError, whatever
   their names, references and properties *)
Lemma cmp_inst_assert_only o c : assert_only (cmp_inst o c).
Proof.
  unfold cmp_inst. destruct o as [o|], c as [c|]; try (right; reflexivity); [|left; reflexivity].
  apply assert_only_seq; [apply assert_only_check|].
  apply assert_only_seq; [apply assert_only_check|].
  apply assert_only_seq; [apply cmp_ref_assert_only|].
  destruct (i_props o) as [po|], (i_props c) as [pc|]; try (right; reflexivity); [|left; reflexivity].
  destruct (Nat.eqb (length po) (length pc)) eqn:E; cbn [check seq]; [|right; reflexivity].
  apply cmp_props_assert_only. apply Nat.eqb_eq. assumption.
Qed.

(* ---------- the whole comparer returns or raises AssertionError, on ALL netlist values ----------
   (Ill = the value is not the abstraction of a netlist the model covers: a pin whose instance
   or port cannot be followed, PForeign / an unresolvable POut) *)
Definition ok3 (x : outcome) : Prop := x = Accept \/ x = Reject \/ x = Ill.

Lemma ok3_of_assert x : assert_only x -> ok3 x.
Proof. intros [->| ->]; [left|right; left]; reflexivity. Qed.

Lemma ok3_seq a b : ok3 a -> ok3 b -> ok3 (seq a b).
Proof. intros [->|[->| ->]] Hb; cbn; [assumption|right; left; reflexivity|right; right; reflexivity]. Qed.

Lemma ok3_check b : ok3 (check b).
Proof. apply ok3_of_assert, assert_only_check. Qed.

Lemma cmp_each_ok3 {A} (name : A -> oname) skip look f l :
  (forall x y, ok3 (f x y)) -> ok3 (cmp_each name skip look f l).
Proof.
  intro Hf. induction l as [|o l IH]; cbn; [left; reflexivity|].
  destruct (name o) as [n|]; [|assumption]. destruct (skip o); [assumption|].
  destruct (look n) as [c|]; [|right; left; reflexivity]. apply ok3_seq; [apply Hf|assumption].
Qed.

Lemma cmp_port_assert_only xo xc o c : assert_only (cmp_port xo xc o c).
Proof. unfold cmp_port. repeat (apply assert_only_seq; [apply assert_only_check|]). apply assert_only_check. Qed.

Lemma inst_equiv_assert_only o c : assert_only (inst_equiv o c).
Proof.
  unfold inst_equiv. apply assert_only_seq; [|apply assert_only_check].
  destruct (asg_class (op_inst o)), (asg_class (op_inst c)); apply assert_only_check.
Qed.

Lemma inner_equiv_assert_only bo qo xo bc qc xc : assert_only (inner_equiv bo qo xo bc qc xc).
Proof. unfold inner_equiv. apply assert_only_seq; apply assert_only_check. Qed.

Lemma cmp_pin_ok3 xo xc io ic po pc : ok3 (cmp_pin xo xc io ic po pc).
Proof.
  unfold cmp_pin. destruct (resolve xo io po), (resolve xc ic pc);
    try (left; reflexivity); try (right; left; reflexivity); try (right; right; reflexivity).
  - apply ok3_of_assert, inner_equiv_assert_only.
  - apply ok3_of_assert, assert_only_seq; [apply inst_equiv_assert_only|apply inner_equiv_assert_only].
Qed.

Lemma pin_key_inl x io p e : pin_key x io p = inl e -> e = Ill.
Proof. unfold pin_key. destruct (resolve x io p); intro H; inversion H; reflexivity. Qed.

Lemma pin_table_inl x io w e : pin_table x io w = inl e -> e = Ill.
Proof.
  induction w as [|p w IH]; cbn; [discriminate|].
  destruct (pin_key x io p) as [e'|k] eqn:Ek.
  - intro H. inversion H. subst. exact (pin_key_inl _ _ _ _ Ek).
  - destruct (pin_table x io w) as [e'|t]; [|discriminate]. intro H. inversion H. subst. apply IH. reflexivity.
Qed.

Lemma cmp_pins_ok3 xo xc io ic po : forall t, ok3 (cmp_pins xo xc io ic po t).
Proof.
  induction po as [|o po IH]; intro t; cbn; [left; reflexivity|].
  destruct (pin_key xo io o) as [e|k] eqn:Ek.
  - rewrite (pin_key_inl _ _ _ _ Ek). right; right; reflexivity.
  - destruct (take_key k t) as [[c t']|]; [|right; left; reflexivity].
    apply ok3_seq; [apply cmp_pin_ok3|apply IH].
Qed.

Lemma cmp_wire_ok3 xo xc io ic wo wc : ok3 (cmp_wire xo xc io ic wo wc).
Proof.
  unfold cmp_wire. apply ok3_seq; [apply ok3_check|].
  destruct (pin_table xc ic wc) as [e|t] eqn:Et.
  - rewrite (pin_table_inl _ _ _ _ Et). right; right; reflexivity.
  - apply cmp_pins_ok3.
Qed.

Lemma cmp_wires_ok3 xo xc io ic wo : forall wc, ok3 (cmp_wires xo xc io ic wo wc).
Proof.
  induction wo as [|o wo IH]; intros [|c wc]; cbn; try (left; reflexivity).
  apply ok3_seq; [apply cmp_wire_ok3|apply IH].
Qed.

Lemma cmp_cable_ok3 xo xc io ic o c : ok3 (cmp_cable xo xc io ic o c).
Proof.
  unfold cmp_cable. repeat (apply ok3_seq; [apply ok3_check|]). apply cmp_wires_ok3.
Qed.

Lemma cmp_def_ok3 lo lc o c : ok3 (cmp_def lo lc o c).
Proof.
  unfold cmp_def. cbv zeta.
  apply ok3_seq; [apply ok3_check|]. apply ok3_seq; [apply ok3_check|]. apply ok3_seq; [apply ok3_check|].
  apply ok3_seq; [apply cmp_each_ok3; intros; apply ok3_of_assert, cmp_port_assert_only|].
  apply ok3_seq; [apply ok3_check|].
  apply ok3_seq; [apply cmp_each_ok3; intros; apply cmp_cable_ok3|].
  apply ok3_seq; [apply ok3_check|].
  apply ok3_seq; [apply cmp_each_ok3; intros; apply ok3_of_assert, cmp_inst_assert_only|].
  unfold cmp_assign. cbv zeta. apply ok3_check.
Qed.

Lemma cmp_lib_ok3 o c : ok3 (cmp_lib o c).
Proof.
  unfold cmp_lib. repeat (apply ok3_seq; [apply ok3_check|]).
  apply cmp_each_ok3. intros. apply cmp_def_ok3.
Qed.

(* every outcome of compare() is "returns" or AssertionError: no hypothesis on the two netlists
   (unnamed elements, assignment-style names, dangling pins, pins without a port included) *)
Theorem cmp_run_assert_only a b : cmp_run a b = Accept \/ cmp_run a b = Reject \/ cmp_run a b = Ill.
Proof.
  change (ok3 (cmp_run a b)). unfold cmp_run.
  apply ok3_seq; [apply ok3_check|]. apply ok3_seq; [apply ok3_check|].
  apply ok3_seq.
  - destruct (n_top a), (n_top b); try (left; reflexivity); apply ok3_of_assert, cmp_inst_assert_only.
  - apply ok3_seq; [apply ok3_check|]. apply cmp_each_ok3. intros. apply cmp_lib_ok3.
Qed.

Lemma cmp_run_no_other_exception a b :
  cmp_run a b <> StopIter /\ cmp_run a b <> IndexErr /\ cmp_run a b <> KeyErr /\
  cmp_run a b <> AttrErr /\ cmp_run a b <> TypeErr.
Proof.
  destruct (cmp_run_assert_only a b) as [->|[->| ->]]; repeat split; discriminate.
Qed.

(* netlists outside the named ones that the general self-acceptance theorem covers: a connected
   instance without a name, an unnamed port, assignment-style names, a name read as a pattern *)
Lemma accepts_any_ex :
  wf_any w_noname /\ ~ wf_named w_noname /\ wf_any w_unnamed /\ wf_any w_asg2 /\ wf_any w_wild /\ wf_any w_zero.
Proof.
  split; [vm_compute; reflexivity|]. split; [apply self_unnamed_instance_accepted|].
  repeat split; vm_compute; reflexivity.
Qed.

Lemma cmp_run_assert_only_ex :
  ~ wf_named w_noname /\ cmp_run w_noname w_noname = Accept /\ cmp_run w_noname w_base = Reject.
Proof.
  split; [apply self_unnamed_instance_accepted|]. split; [exact w_noname_self|vm_compute; reflexivity].
Qed.

Lemma cmp_inst_assert_only_ex :
  exists o c, i_ref o <> None /\ i_ref c <> None /\ i_props o <> i_props c /\ i_props o <> None /\ i_props c <> None.
Proof.
  exists (mkinst (Some (s2l "u")) None (Some (Some (s2l "d"), Some (s2l "l"))) (Some [[(s2l "k", PInt 1%Z)]])),
         (mkinst (Some (s2l "u")) None (Some (Some (s2l "d"), Some (s2l "l"))) (Some [])).
  repeat split; cbn; discriminate.
Qed.
