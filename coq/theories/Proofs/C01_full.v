(* Lifting the one-step theorem to every history: C01 and C02 at full strength, and no-stuck. *)
From Coq Require Import List Arith Bool.
From SV Require Import Base.Base IR.State IR.NS IR.Ops Proofs.AssocX Proofs.Inv1a Proofs.Inv2a Proofs.InvP Proofs.InvW.
Import ListNotations.

Lemma run_inv ops : forall s, Inv s -> Inv (run ops s).
Proof.
  induction ops as [|o ops IH]; intros s Hi; cbn; [exact Hi|]. apply IH. apply step_inv. exact Hi.
Qed.

Lemma run_app ops1 ops2 s : run (ops1 ++ ops2) s = run ops2 (run ops1 s).
Proof. unfold run. apply fold_left_app. Qed.

(* at every prefix of every history from the empty heap *)
Theorem reachable_inv ops : Inv (run ops init).
Proof. apply run_inv, inv_init. Qed.

Theorem reachable_never_stuck ops o : snd (step (run ops init) o) <> Some XStuck.
Proof. apply step_inv, reachable_inv. Qed.

(* readable corollaries *)
Lemma inv_container s : Inv s -> forall r p x, In x (kids s r p) <-> par s r x = Some p.
Proof. intros H. apply (i1_kids s (inv_a s H)). Qed.

Lemma inv_container_once s : Inv s -> forall r p, NoDup (kids s r p).
Proof. intros H. apply (i1_nodup s (inv_a s H)). Qed.

Lemma inv_wire_pins s : Inv s -> forall w p, In p (wpins s w) <-> pin_wire s p = Some w.
Proof. intros H. apply (p_pins s (inv_p s H)). Qed.

Lemma inv_wire_once s : Inv s -> forall w, NoDup (wpins s w).
Proof. intros H. apply (p_nodup s (inv_p s H)). Qed.

(* a wire never lists an outer pin that its instance does not carry (dropped pins left first) *)
Lemma inv_no_dropped_pin_on_wire s : Inv s -> forall w n i, In (POut n i) (wpins s w) -> In i (keys s n).
Proof.
  intros H w n i Hin. apply (inv_wire_pins s H) in Hin. cbn in Hin.
  apply assoc_In_fst. destruct (assoc i (ipins s n)) as [ow|]; [eexists; reflexivity|discriminate].
Qed.

Lemma inv_reference_sets s : Inv s -> forall n d, In n (drefs s d) <-> iref s n = Some d.
Proof. intros H. apply (i2_ref s (inv_r s H)). Qed.

Lemma inv_outer_pins s : Inv s -> forall n i,
  In i (keys s n) <-> (exists d p, iref s n = Some d /\ par s RPorts p = Some d /\ par s RPins i = Some p).
Proof. intros H. apply (k_keys s (inv_k s H)). Qed.

Lemma inv_outer_pins_once s : Inv s -> forall n, NoDup (keys s n).
Proof. intros H. apply (k_nodup s (inv_k s H)). Qed.

(* non-vacuity: a reachable state with an instance, a wired outer pin and a wired inner pin *)
Definition sample_ops : list op :=
  [ ONew KDefinition None []; OCreate RPorts 0 None [] 2 None; ONew KDefinition None [];
    OCreate RChildren 4 None [] 0 (Some 0); OCreate RCables 4 None [] 1 None;
    OConnect 7 (POut 5 2) None; OConnect 7 (PIn 3) None ].

Example sample_reachable :
  let s := run sample_ops init in
  wpins s 7 = [POut 5 2; PIn 3] /\ keys s 5 = [2; 3] /\ drefs s 0 = [5] /\ pin_wire s (POut 5 2) = Some 7.
Proof. vm_compute. repeat split. Qed.
