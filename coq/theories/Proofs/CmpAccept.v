(* The comparer accepts a named, well-formed netlist value compared with itself (and hence with
   any structurally equal copy: a copy is the same value). *)
From Coq Require Import String List Arith NArith ZArith Bool Lia.
From SV Require Import Base.Base Cmp.Comparer Proofs.CmpBase Proofs.CmpPinSet.
Import ListNotations.

Ltac split_andb :=
  repeat match goal with
         | H : _ && _ = true |- _ => apply andb_true_iff in H; destruct H
         end.

(* ---------- ports ---------- *)
Lemma cmp_port_refl x p : cmp_port x x p p = Accept.
Proof.
  unfold cmp_port.
  rewrite !oname_eqb_refl, dir_eqb_refl, eqb_reflx, Nat.eqb_refl, ctx_eqb_refl. reflexivity.
Qed.

(* ---------- the assignment pattern ---------- *)
Lemma glob_star v : glob [42%N] v = true.
Proof.
  induction v as [|x v IH]; [reflexivity|].
  change (glob [42%N] (x :: v)) with (glob [] (x :: v) || glob [42%N] v).
  rewrite IH. apply orb_true_r.
Qed.

Definition is_wild (c : N) : bool := N.eqb c 42 || N.eqb c 63.
Lemma glob_prefix pre : forallb (fun c => negb (is_wild c)) pre = true ->
  forall v, glob (pre ++ [42%N]) v = starts_with pre v.
Proof.
  induction pre as [|c pre IH]; intros H v.
  - cbn [app starts_with]. apply glob_star.
  - cbn in H. apply andb_true_iff in H as [Hc Hp]. unfold is_wild in Hc.
    apply negb_true_iff, orb_false_iff in Hc as [H42 H63].
    cbn [app glob]. rewrite H42. destruct v as [|x v]; [reflexivity|].
    cbn [starts_with]. rewrite H63. cbn [orb]. rewrite IH by assumption. reflexivity.
Qed.

Lemma asg_pattern_prefix v : glob asg_pattern v = starts_with asg_prefix v.
Proof.
  change asg_pattern with (asg_prefix ++ [42%N]). apply glob_prefix. reflexivity.
Qed.

Lemma incr_fst k d :
  (In k (map fst d) /\ map fst (incr k d) = map fst d) \/
  (~ In k (map fst d) /\ map fst (incr k d) = map fst d ++ [k]).
Proof.
  induction d as [|[k' n] d IH]; cbn.
  - right. split; [tauto|reflexivity].
  - destruct (str_eqb k k') eqn:E.
    + apply str_eqb_spec in E; subst. left. split; [left; reflexivity|reflexivity].
    + assert (k' <> k) by (intro; subst; rewrite str_eqb_refl in E; discriminate).
      destruct IH as [[H1 H2]|[H1 H2]]; cbn.
      * left. split; [right; assumption|congruence].
      * right. split; [intros [?|?]; contradiction|congruence].
Qed.

Lemma incr_nodup k d : NoDup (map fst d) -> NoDup (map fst (incr k d)).
Proof.
  intro H. destruct (incr_fst k d) as [[_ ->]|[Hn ->]]; [assumption|].
  apply NoDup_app_remove_l with (l := []) || idtac.
  rewrite <- (rev_involutive (map fst d ++ [k])). apply NoDup_rev. rewrite rev_app_distr. cbn.
  constructor; [rewrite <- in_rev; assumption|apply NoDup_rev; assumption].
Qed.

Lemma sassoc_in_nodup {B} (d : list (str * B)) k n :
  NoDup (map fst d) -> In (k, n) d -> sassoc k d = Some n.
Proof.
  induction d as [|[k' m] d IH]; cbn; [tauto|]. intros Hnd [H|H].
  - inversion H; subst. rewrite str_eqb_refl. reflexivity.
  - inversion Hnd; subst. destruct (str_eqb k k') eqn:E.
    + apply str_eqb_spec in E; subst. exfalso. apply H2. apply (in_map fst) in H. assumption.
    + apply IH; assumption.
Qed.

Definition asg_ok (i : inst) : Prop :=
  match i_name i with Some _ => True | None => False end.

Lemma wf_inst_asg_ok i : wf_inst i = true -> asg_ok i.
Proof.
  unfold wf_inst, asg_ok. intro H. apply andb_true_iff in H as [_ H].
  destruct (i_name i) as [n|]; [exact I|discriminate].
Qed.

Lemma count_widths_ok l : forall d, NoDup (map fst d) -> NoDup (map fst (count_widths l d)).
Proof.
  induction l as [|i l IH]; intros d Hd; cbn [count_widths]; [assumption|].
  destruct (scan_match i_name true asg_pattern i); [|apply IH; assumption].
  destruct (asg_class (i_name i)); apply IH; [apply incr_nodup|]; assumption.
Qed.

Lemma cmp_assign_refl d : cmp_assign d d = Accept.
Proof.
  unfold cmp_assign. cbv zeta.
  pose proof (count_widths_ok (d_insts d) [] (NoDup_nil _)) as Hnd.
  set (cd := count_widths (d_insts d) []) in *.
  replace (forallb _ cd) with true; [reflexivity|]. symmetry. apply forallb_forall.
  intros [k n] Hin. cbn. rewrite (sassoc_in_nodup cd k n Hnd Hin). apply Nat.eqb_refl.
Qed.

(* ---------- pins, wires, cables ---------- *)
Lemma find_has_name_some {A} (name : A -> oname) n l x :
  find (has_name name n) l = Some x -> In x l /\ name x = Some n.
Proof.
  intro H. apply find_some in H as [Hin Hn]. split; [assumption|].
  unfold has_name in Hn. destruct (name x) as [m|]; [|discriminate].
  apply str_eqb_spec in Hn. congruence.
Qed.

Lemma inner_equiv_refl b q x : inner_equiv b q x b q x = Accept.
Proof. unfold inner_equiv. rewrite Nat.eqb_refl, oname_eqb_refl, ctx_eqb_refl. reflexivity. Qed.

Lemma inst_equiv_refl o : inst_equiv o o = Accept.
Proof.
  unfold inst_equiv. rewrite !oname_eqb_refl. cbn [andb check].
  destruct (asg_class (op_inst o)); [rewrite str_eqb_refl|]; reflexivity.
Qed.

Lemma cmp_pin_refl x io p :
  (forall i, In i io -> asg_ok i) -> wf_pin io p = true -> cmp_pin x x io io p p = Accept.
Proof.
  intros Hio Hp. destruct p as [q b|[n|] q b| | | |]; cbn in Hp; try discriminate.
  - unfold cmp_pin. cbn. apply inner_equiv_refl.
  - unfold cmp_pin. cbn. destruct (find (has_name i_name n) io) as [i|] eqn:Ef; [|discriminate].
    destruct (i_ref i) as [r|]; [|discriminate].
    rewrite inst_equiv_refl. cbn. apply inner_equiv_refl.
Qed.

Lemma zip_pins_refl x io w :
  (forall i, In i io -> asg_ok i) -> forallb (wf_pin io) w = true -> zip_pins x x io io w w = Accept.
Proof.
  intros Hio. induction w as [|p w IH]; cbn; intro H; [reflexivity|].
  apply andb_true_iff in H as [H1 H2]. rewrite cmp_pin_refl, IH by assumption. reflexivity.
Qed.

(* ---------- the key of a well-formed pin: read off the pin designator ---------- *)
Definition raw_key (p : pinref) : outcome + pkey :=
  match p with
  | PIn q b => inr (false, None, q, Some b)
  | POut n q b | PDang n _ _ q b => inr (true, inst_key n, q, Some b)
  | PAnon _ _ q b => inr (true, None, q, Some b)
  | PLoose => inr (false, None, None, None)
  | PForeign => inl Ill
  end.

Lemma pin_key_raw x io p : wf_pin io p = true -> pin_key x io p = raw_key p.
Proof.
  destruct p as [q b|[n|] q b| | | |]; cbn [wf_pin]; try discriminate; intro H; [reflexivity|].
  unfold pin_key. cbn [resolve].
  destruct (find (has_name i_name n) io) as [i|]; [|discriminate].
  destruct (i_ref i) as [r|]; [|discriminate]. reflexivity.
Qed.

Lemma raw_key_wf io p : (forall i, In i io -> asg_ok i) -> wf_pin io p = true ->
  exists k, raw_key p = inr k.
Proof.
  intros Hio. destruct p as [q b|[n|] q b| | | |]; cbn [wf_pin]; try discriminate; intro H; [cbn; eauto|].
  cbn [raw_key]. eauto.
Qed.

Lemma pin_key_wf x io p : (forall i, In i io -> asg_ok i) -> wf_pin io p = true ->
  exists k, pin_key x io p = inr k.
Proof. intros Hio H. rewrite (pin_key_raw x io p H). eapply raw_key_wf; eassumption. Qed.

Lemma Forall2_same {A} (R : A -> A -> Prop) l : (forall x, In x l -> R x x) -> Forall2 R l l.
Proof.
  induction l as [|x l IH]; intro H; constructor; [apply H; left; reflexivity|].
  apply IH. intros y Hy. apply H. right. assumption.
Qed.

(* a wire against itself: the same keys position by position, so every pin meets itself *)
Lemma cmp_wire_refl x io w :
  (forall i, In i io -> asg_ok i) -> forallb (wf_pin io) w = true -> cmp_wire x x io io w w = Accept.
Proof.
  intros Hio H. rewrite cmp_wire_zip.
  - apply zip_pins_refl; assumption.
  - intros c Hc. apply pin_key_wf; [assumption|]. rewrite forallb_forall in H. apply H. assumption.
  - apply Forall2_same. reflexivity.
Qed.

Lemma cmp_wires_refl x io ws :
  (forall i, In i io -> asg_ok i) -> forallb (forallb (wf_pin io)) ws = true ->
  cmp_wires x x io io ws ws = Accept.
Proof.
  intros Hio. induction ws as [|w ws IH]; cbn; intro H; [reflexivity|].
  apply andb_true_iff in H as [H1 H2]. rewrite cmp_wire_refl, IH by assumption. reflexivity.
Qed.

Lemma cmp_cable_refl x io c :
  (forall i, In i io -> asg_ok i) -> wf_cable io c = true -> cmp_cable x x io io c c = Accept.
Proof.
  intros Hio H. unfold cmp_cable. rewrite !oname_eqb_refl, Nat.eqb_refl. cbn.
  apply cmp_wires_refl; assumption.
Qed.

(* ---------- instances ---------- *)
Lemma keys_nodup_notin pre k v rest :
  keys_nodup (pre ++ (k, v) :: rest) = true -> forall kv, In kv pre -> str_eqb k (fst kv) = false.
Proof.
  induction pre as [|[k' v'] pre IH]; cbn; [tauto|]. intro H.
  apply andb_true_iff in H as [H1 H2]. intros kv [<-|Hin]; [|apply IH; assumption].
  cbn. apply negb_true_iff in H1.
  destruct (str_eqb k k') eqn:E; [|reflexivity]. apply str_eqb_spec in E; subst.
  exfalso. rewrite <- not_true_iff_false in H1. apply H1. apply existsb_exists.
  exists (k', v). split; [apply in_or_app; right; left; reflexivity|cbn; apply str_eqb_refl].
Qed.

Lemma sassoc_app_notin {B} (pre : list (str * B)) k rest :
  (forall kv, In kv pre -> str_eqb k (fst kv) = false) -> sassoc k (pre ++ rest) = sassoc k rest.
Proof.
  induction pre as [|[k' v'] pre IH]; cbn; intro H; [reflexivity|].
  specialize (H (k', v') (or_introl eq_refl)) as Hk. cbn in Hk. rewrite Hk. apply IH. intros; apply H; right; assumption.
Qed.

Lemma cmp_items_suffix dc : keys_nodup dc = true ->
  forall items pre, dc = pre ++ items -> cmp_items items dc = Accept.
Proof.
  intro Hk. induction items as [|[k v] items IH]; intros pre Hd; cbn; [reflexivity|].
  subst dc. rewrite sassoc_app_notin by (eapply keys_nodup_notin; eassumption).
  cbn. rewrite str_eqb_refl, pval_eqb_refl. cbn.
  apply (IH (pre ++ [(k, v)])). rewrite <- app_assoc. reflexivity.
Qed.

Lemma nth_error_app_here {A} (pre : list A) x rest : nth_error (pre ++ x :: rest) (length pre) = Some x.
Proof. induction pre; cbn; auto. Qed.

Lemma in_has_key kv d : In kv d -> has_key (fst kv) d = true.
Proof.
  unfold has_key. induction d as [|[k' v'] d IH]; cbn; [contradiction|].
  intros [<-|Hin]; cbn.
  - rewrite str_eqb_refl. reflexivity.
  - destruct (str_eqb (fst kv) k'); [reflexivity|apply IH; assumption].
Qed.

Lemma keys_eqb_refl d : keys_eqb d d = true.
Proof.
  unfold keys_eqb. apply andb_true_iff. split; apply forallb_forall; intros kv Hin; apply in_has_key; assumption.
Qed.

Lemma cmp_props_refl ps : forallb keys_nodup ps = true -> cmp_props ps ps = Accept.
Proof.
  induction ps as [|d ps IH]; cbn [forallb cmp_props]; intro Hk; [reflexivity|].
  apply andb_true_iff in Hk as [Hd Hk].
  rewrite keys_eqb_refl. cbn [check seq].
  rewrite (cmp_items_suffix d Hd d []) by reflexivity. cbn [seq]. apply IH. assumption.
Qed.

Definition props_ok (i : inst) : Prop :=
  match i_props i with None => True | Some ps => forallb keys_nodup ps = true end.

Lemma cmp_ref_refl r : cmp_ref r r = Accept.
Proof. destruct r as [[d l]|]; cbn; [|reflexivity]. rewrite !oname_eqb_refl. reflexivity. Qed.

Lemma cmp_inst_refl i : props_ok i -> cmp_inst (Some i) (Some i) = Accept.
Proof.
  unfold props_ok, cmp_inst. intro H. cbn. rewrite !oname_eqb_refl, cmp_ref_refl. cbn.
  destruct (i_props i) as [ps|]; [|reflexivity].
  rewrite Nat.eqb_refl. cbn [check seq]. apply cmp_props_refl. assumption.
Qed.

Lemma wf_inst_props_ok i : wf_inst i = true -> props_ok i.
Proof.
  unfold wf_inst, props_ok. intro H. apply andb_true_iff in H as [H _].
  destruct (i_props i); [assumption|exact I].
Qed.

(* ---------- definitions, libraries, netlists ---------- *)
Lemma cmp_def_refl lo d : wf_def d = true -> cmp_def lo lo d d = Accept.
Proof.
  unfold wf_def. intro H. split_andb.
  rename H into Hnp, H3 into Hnc, H2 into Hwc, H1 into Hni, H0 into Hwi.
  assert (Hasg : forall i, In i (d_insts d) -> asg_ok i).
  { intros i Hi. apply wf_inst_asg_ok. rewrite forallb_forall in Hwi. apply Hwi. assumption. }
  unfold cmp_def. rewrite !oname_eqb_refl, !Nat.eqb_refl. cbn [check seq].
  rewrite (cmp_each_zip p_name) by (assumption || reflexivity).
  rewrite cmp_zip_refl.
  2:{ intros p Hp _. apply cmp_port_refl. }
  cbn [seq].
  rewrite (cmp_each_zip c_name) by (assumption || reflexivity).
  rewrite cmp_zip_refl.
  2:{ intros c Hc _. apply cmp_cable_refl; [assumption|]. rewrite forallb_forall in Hwc. apply Hwc. assumption. }
  cbn [seq].
  rewrite (cmp_each_zip i_name) by (assumption || reflexivity).
  rewrite cmp_zip_refl.
  2:{ intros i Hi _. apply cmp_inst_refl. apply wf_inst_props_ok. rewrite forallb_forall in Hwi. apply Hwi. assumption. }
  cbn [seq]. apply cmp_assign_refl.
Qed.

Lemma cmp_lib_refl l : wf_lib l = true -> cmp_lib l l = Accept.
Proof.
  unfold wf_lib. intro H. apply andb_true_iff in H as [Hn Hw].
  unfold cmp_lib. rewrite !oname_eqb_refl, Nat.eqb_refl. cbn [check seq].
  rewrite (cmp_each_zip d_name) by (assumption || reflexivity).
  apply cmp_zip_refl. intros d Hd _. apply cmp_def_refl. rewrite forallb_forall in Hw. apply Hw. assumption.
Qed.

Lemma cmp_top_refl i : wf_top (Some i) = true -> cmp_inst (Some i) (Some i) = Accept.
Proof.
  cbn. intro H. apply cmp_inst_refl.
  unfold props_ok. destruct (i_props i); [assumption|exact I].
Qed.

Theorem cmp_run_refl a : wf_named a -> cmp_run a a = Accept.
Proof.
  unfold wf_named, wf_namedb. intro H. split_andb. rename H into Ht, H1 into Hn, H0 into Hw.
  unfold cmp_run. rewrite !oname_eqb_refl, Nat.eqb_refl. cbn [check seq].
  replace (match n_top a with Some i => _ | None => _ end) with Accept.
  2:{ destruct (n_top a) as [i|]; [|reflexivity]. symmetry. apply cmp_top_refl. assumption. }
  cbn [seq].
  rewrite (cmp_each_zip l_name) by (assumption || reflexivity).
  apply cmp_zip_refl. intros l Hl _. apply cmp_lib_refl. rewrite forallb_forall in Hw. apply Hw. assumption.
Qed.

Theorem compare_refl a : wf_named a -> compare a a = true.
Proof. intro H. unfold compare. rewrite cmp_run_refl by assumption. reflexivity. Qed.
