(* get_cables, selections INSIDE / OUTSIDE / BOTH: the candidates enumerated by the loop of
   Query/Enum.v are exactly the elements named by the declarative specification, for every kind of
   root (cands_cables_spec). Selection ALL (the cross-hierarchy closure) is not covered here. *)
From Coq Require Import List Arith Bool Lia Relations.
From SV Require Import Base.Base IR.State IR.NS IR.Ops Proofs.Inv1a Proofs.Inv2a Proofs.InvW Proofs.AssocX
  Hier.Paths Hier.Enum Hier.Trace Proofs.KindD Query.Filter Query.Enum Query.EnumSpec
  Proofs.QueryEnumWL Proofs.QueryEnumBase Proofs.QueryEnumView Proofs.QueryEnumPorts Proofs.QueryEnumPins.
Import ListNotations.

Lemma emit_map_push {T} (l : list item) : flat_map (@emit_of T) (map (@APush T) l) = [].
Proof. induction l as [|a l IH]; cbn; [reflexivity|exact IH]. Qed.
Lemma succ_map_push {T} (l : list item) : flat_map (@succ_of T) (map (@APush T) l) = l.
Proof. induction l as [|a l IH]; cbn; [reflexivity|f_equal; exact IH]. Qed.

Section Cab.
Variable s : state.
Hypothesis W : QWF s.
Variable rec : bool.
Notation A x := (acts_cables s rec x).
Notation Em x := (Emits (acts_cables s rec x)).

Definition cab_of (w : id) : list qout := match par s RWires w with Some c => [OOth c] | None => [] end.

Lemma in_search x (Hx : sel_all x = false) ow a : In a (search_wire s x ow) <-> exists w, ow = Some w /\ a = AMark w (cab_of w) [].
Proof.
  unfold search_wire, cab_of. rewrite Hx. destruct ow as [w|]; cbn.
  - split; [intros [<-|[]]; exists w; auto|intros (w' & E & ->); injection E as <-; left; reflexivity].
  - split; [intros []|intros (w' & E & _); discriminate].
Qed.

Lemma search_succs x (Hx : sel_all x = false) ow : flat_map succ_of (search_wire s x ow) = [].
Proof. unfold search_wire. rewrite Hx. destruct ow; reflexivity. Qed.

Lemma search_emits x (Hx : sel_all x = false) ow o : In o (flat_map emit_of (search_wire s x ow)) <->
  exists w c, ow = Some w /\ par s RWires w = Some c /\ o = OOth c.
Proof.
  unfold search_wire. rewrite Hx. destruct ow as [w|]; cbn.
  - rewrite app_nil_r. destruct (par s RWires w) as [c|] eqn:Ec; cbn.
    + split; [intros [<-|[]]; exists w, c; auto|intros (w' & c' & E & E' & ->); injection E as <-; rewrite Ec in E'; injection E' as <-; left; reflexivity].
    + split; [intros []|intros (w' & c' & E & E' & _); injection E as <-; congruence].
  - split; [intros []|intros (w' & c' & E & _); discriminate].
Qed.

(* ---- pins ---- *)
Lemma c_pin_succs x (Hx : sel_all x = false) i : kind_of s i = Some KPin -> succs (A x) (IE i) = [].
Proof.
  intro Hk. unfold succs. cbn [acts_cables]. rewrite Hk, flat_map_app.
  assert (E1 : flat_map succ_of (if sel_in x then search_wire s x (ipwire s i) else []) = []) by (destruct (sel_in x); [apply (search_succs x Hx)|reflexivity]).
  assert (E2 : flat_map succ_of (if sel_out x then flat_map (fun n => search_wire s x (pin_wire s (POut n i))) (outer_of s i) else []) = []).
  { destruct (sel_out x); [|reflexivity]. rewrite flat_map_flat_map. apply flat_map_nil. intros n _. apply (search_succs x Hx). }
  rewrite E1, E2. reflexivity.
Qed.

Lemma c_pin x (Hx : sel_all x = false) i o : kind_of s i = Some KPin -> (Em x (IE i) o <-> exists c, o = OOth c /\ pin_cables s x (PIn i) c).
Proof.
  intro Hk. rewrite (emits_leaf (A x) _ _ (c_pin_succs x Hx i Hk)). unfold emits. cbn [acts_cables]. rewrite Hk, flat_map_app, in_app_iff.
  unfold pin_cables, pin_wires, inner_wire, outer_wire. split.
  - intros [H|H].
    + destruct (sel_in x) eqn:Ei; [|destruct H]. apply (search_emits x Hx) in H as (w & c & Hw & Hc & ->). exists c. split; [reflexivity|].
      exists w. split; [left; split; [reflexivity|exists i; auto]|exact Hc].
    + destruct (sel_out x) eqn:Eo; [|destruct H]. rewrite flat_map_flat_map in H. apply in_flat_map in H as (n & Hn & H).
      apply (search_emits x Hx) in H as (w & c & Hw & Hc & ->). exists c. split; [reflexivity|].
      exists w. split; [right; split; [reflexivity|exists n; split; [apply (outer_opin s W); exact Hn|exact Hw]]|exact Hc].
  - intros (c & -> & w & [[Ei (i' & E & Hw)]|[Eo (n & Hn & Hw)]] & Hc).
    + cbn in E. injection E as <-. left. rewrite Ei. apply (search_emits x Hx). exists w, c. auto.
    + right. rewrite Eo. rewrite flat_map_flat_map. apply in_flat_map. exists n. split; [apply (outer_opin s W); exact Hn|].
      apply (search_emits x Hx). exists w, c. auto.
Qed.

Lemma c_opin x (Hx : sel_all x = false) n i o : Em x (IO n i) o <-> exists c, o = OOth c /\ pin_cables s x (POut n i) c.
Proof.
  assert (Es : succs (A x) (IO n i) = []).
  { unfold succs. cbn [acts_cables]. rewrite flat_map_app. destruct (sel_in x), (sel_out x); rewrite ?(search_succs x Hx); reflexivity. }
  rewrite (emits_leaf (A x) _ _ Es). unfold emits. cbn [acts_cables]. rewrite flat_map_app, in_app_iff.
  unfold pin_cables, pin_wires, inner_wire, outer_wire. split.
  - intros [H|H].
    + destruct (sel_in x) eqn:Ei; [|destruct H]. apply (search_emits x Hx) in H as (w & c & Hw & Hc & ->). exists c. split; [reflexivity|].
      exists w. split; [left; split; [reflexivity|exists i; auto]|exact Hc].
    + destruct (sel_out x) eqn:Eo; [|destruct H]. apply (search_emits x Hx) in H as (w & c & Hw & Hc & ->). exists c. split; [reflexivity|].
      exists w. split; [right; auto|exact Hc].
  - intros (c & -> & w & [[Ei (i' & E & Hw)]|[Eo Hw]] & Hc).
    + cbn in E. injection E as <-. left. rewrite Ei. apply (search_emits x Hx). exists w, c. auto.
    + right. rewrite Eo. apply (search_emits x Hx). exists w, c. auto.
Qed.

(* a pin object found on a wire *)
Lemma c_on_wire x (Hx : sel_all x = false) w q o : pin_wire s q = Some w -> (Em x (item_of_pin q) o <-> exists c, o = OOth c /\ pin_cables s x q c).
Proof.
  intro Hq. destruct (on_wire_kind s W w q Hq) as (i & Hi & Hk). destruct q as [j|n j|]; cbn in Hi; try discriminate; injection Hi as <-; cbn [item_of_pin].
  - apply (c_pin x Hx), Hk.
  - apply (c_opin x Hx).
Qed.

Lemma through_list x x0 (ys : list item) o :
  emits (A x) (IE x0) = [] -> succs (A x) (IE x0) = ys -> (Em x (IE x0) o <-> exists y, In y ys /\ Em x y o).
Proof. intros E1 E2. rewrite (emits_through (A x) _ _ E1), E2. tauto. Qed.

Lemma c_port x (Hx : sel_all x = false) p o : kind_of s p = Some KPort ->
  (Em x (IE p) o <-> exists i c, par s RPins i = Some p /\ o = OOth c /\ pin_cables s x (PIn i) c).
Proof.
  intro Hk. rewrite (through_list x p (map IE (kids s RPins p)) o);
    [|unfold emits; cbn [acts_cables]; rewrite Hk; apply emit_push_ids|unfold succs; cbn [acts_cables]; rewrite Hk; apply succ_push_ids].
  split.
  - intros (y & Hy & H). apply in_map_iff in Hy as (i & <- & Hi). apply (c_pin x Hx i o (kid_kind s W _ _ _ Hi)) in H as (c & -> & H).
    exists i, c. split; [apply (kids_par s W); exact Hi|auto].
  - intros (i & c & Hi & -> & H). apply (kids_par s W) in Hi. exists (IE i). split; [apply in_map; exact Hi|].
    apply (c_pin x Hx i _ (kid_kind s W _ _ _ Hi)). exists c. auto.
Qed.

(* ---- wires and cables ---- *)
Lemma c_wire x (Hx : sel_all x = false) w o : kind_of s w = Some KWire ->
  (Em x (IE w) o <-> exists c, o = OOth c /\ wire_cables s x w c).
Proof.
  intro Hk. destruct x; try discriminate Hx; unfold wire_cables.
  - (* INSIDE *)
    rewrite (emits_leaf (A SInside) (IE w) o) by (unfold succs; cbn [acts_cables]; rewrite Hk; destruct (par s RWires w); reflexivity).
    unfold emits. cbn [acts_cables]. rewrite Hk. destruct (par s RWires w) as [c|]; cbn.
    + split; [intros [<-|[]]; exists c; auto|intros (c' & -> & E); injection E as <-; left; reflexivity].
    + split; [intros []|intros (c' & _ & E); discriminate].
  - (* OUTSIDE *)
    rewrite emits_iff. unfold emits, succs. cbn [acts_cables]. rewrite Hk. rewrite !flat_map_flat_map. split.
    + intros [H|(y & Hy & H)].
      * apply in_flat_map in H as (q & Hq & H). apply (wpins_pin_wire s W) in Hq. destruct q as [i|n i|]; cbn in H; try (destruct H; fail).
        destruct (ipwire s i) as [w'|] eqn:Ew; [|destruct H]. destruct (par s RWires w') as [c|] eqn:Ec; cbn in H; [|destruct H].
        destruct H as [<-|[]]. exists c. split; [reflexivity|]. exists (POut n i). split; [exact Hq|]. cbn.
        exists w'. split; [left; split; [reflexivity|exists i; auto]|exact Ec].
      * apply in_flat_map in Hy as (q & Hq & Hy). apply (wpins_pin_wire s W) in Hq. destruct q as [i|n i|]; cbn in Hy.
        -- destruct Hy as [<-|[]]. destruct (on_wire_kind s W w _ Hq) as (j & E & Hj). injection E as <-.
           apply (c_pin SOutside eq_refl i o Hj) in H as (c & -> & H). exists c. split; [reflexivity|]. exists (PIn i). auto.
        -- destruct (ipwire s i) as [w'|]; [|destruct Hy]. destruct (par s RWires w'); destruct Hy.
        -- destruct Hy.
    + intros (c & -> & q & Hq & Hs). pose proof Hq as Hq'. apply (wpins_pin_wire s W) in Hq'. destruct q as [i|n i|]; cbn in Hs; [| |destruct Hs].
      * right. exists (IE i). split; [apply in_flat_map; exists (PIn i); split; [exact Hq'|left; reflexivity]|].
        destruct (on_wire_kind s W w _ Hq) as (j & E & Hj). injection E as <-. apply (c_pin SOutside eq_refl i _ Hj). exists c. auto.
      * left. apply in_flat_map. exists (POut n i). split; [exact Hq'|]. destruct Hs as (w' & [[_ (j & E & Hw')]|[E _]] & Hc); [|discriminate E].
        cbn in E. injection E as <-. cbn. rewrite Hw', Hc. left. reflexivity.
  - (* BOTH *)
    rewrite (through_list SBoth w (map item_of_pin (wpins s w)) o);
      [|unfold emits; cbn [acts_cables]; rewrite Hk; apply emit_push_pins|unfold succs; cbn [acts_cables]; rewrite Hk; apply succ_push_pins].
    split.
    + intros (y & Hy & H). apply in_map_iff in Hy as (q & <- & Hq). apply (wpins_pin_wire s W) in Hq.
      apply (c_on_wire SBoth eq_refl w q o Hq) in H as (c & -> & H). exists c. split; [reflexivity|]. exists q. auto.
    + intros (c & -> & q & Hq & H). exists (item_of_pin q). split; [apply in_map, (wpins_pin_wire s W); exact Hq|].
      apply (c_on_wire SBoth eq_refl w q _ Hq). exists c. auto.
Qed.

Lemma c_cable x (Hx : sel_all x = false) cb o : kind_of s cb = Some KCable ->
  (Em x (IE cb) o <-> exists c, o = OOth c /\
     match x with SInside => c = cb | _ => exists w, par s RWires w = Some cb /\ wire_cables s x w c end).
Proof.
  intro Hk.
  assert (Hthrough : x <> SInside ->
    (Em x (IE cb) o <-> exists c, o = OOth c /\ exists w, par s RWires w = Some cb /\ wire_cables s x w c)).
  { intro Hn. rewrite (through_list x cb (map IE (kids s RWires cb)) o);
      [|unfold emits; cbn [acts_cables]; rewrite Hk; destruct x; try congruence; apply emit_push_ids
       |unfold succs; cbn [acts_cables]; rewrite Hk; destruct x; try congruence; apply succ_push_ids].
    split.
    - intros (y & Hy & H). apply in_map_iff in Hy as (w & <- & Hw). apply (c_wire x Hx w o (kid_kind s W _ _ _ Hw)) in H as (c & -> & H).
      exists c. split; [reflexivity|]. exists w. split; [apply (kids_par s W); exact Hw|exact H].
    - intros (c & -> & w & Hw & H). apply (kids_par s W) in Hw. exists (IE w). split; [apply in_map; exact Hw|].
      apply (c_wire x Hx w _ (kid_kind s W _ _ _ Hw)). exists c. auto. }
  destruct x; try discriminate Hx; try (apply Hthrough; discriminate).
  rewrite (emits_leaf (A SInside) (IE cb) o) by (unfold succs; cbn [acts_cables]; rewrite Hk; reflexivity).
  unfold emits. cbn [acts_cables]. rewrite Hk. cbn. split; [intros [<-|[]]; exists cb; auto|intros (c & -> & ->); left; reflexivity].
Qed.

(* ---- instances and definitions, OUTSIDE / BOTH: through their pins, no recursion ---- *)
Lemma c_inst_out x (Hx : sel_all x = false) n o : kind_of s n = Some KInstance -> sel_ia x = false ->
  (Em x (IE n) o <-> sel_out x = true /\ exists i c, opin_of s n i /\ o = OOth c /\ pin_cables s x (POut n i) c).
Proof.
  intros Hk Hia.
  assert (Hacts : A x (IE n) = if sel_out x then map APush (opins s n) else []).
  { cbn [acts_cables]. rewrite Hk, Hia. reflexivity. }
  destruct (sel_out x) eqn:Eo; cbv iota in Hacts.
  - rewrite (emits_through (A x) (IE n) o) by (unfold emits; rewrite Hacts; apply emit_map_push).
    unfold succs. rewrite Hacts, succ_map_push. unfold opins. split.
    + intros (y & Hy & H). apply in_map_iff in Hy as ([i v] & <- & Hi). cbn [fst] in H. apply (c_opin x Hx n i o) in H as (c & -> & H).
      split; [reflexivity|]. exists i, c. split; [|auto]. apply (k_keys _ (inv_k _ (q_inv _ W))). unfold keys. apply in_map_iff. exists (i, v). auto.
    + intros (_ & i & c & Hi & -> & H). apply (k_keys _ (inv_k _ (q_inv _ W))) in Hi. unfold keys in Hi.
      apply in_map_iff in Hi as ([i' v] & E & Hi). cbn in E. subst i'. exists (IO n i). split; [apply in_map_iff; exists (i, v); auto|].
      apply (c_opin x Hx). exists c. auto.
  - split; [|intros [E _]; discriminate]. intro H. apply emits_iff in H. unfold emits, succs in H. rewrite Hacts in H. destruct H as [[]|(y & [] & _)].
Qed.

Lemma c_def_out x (Hx : sel_all x = false) d o : kind_of s d = Some KDefinition -> sel_ia x = false ->
  (Em x (IE d) o <-> sel_out x = true /\
     exists p i c, par s RPorts p = Some d /\ par s RPins i = Some p /\ o = OOth c /\ pin_cables s x (PIn i) c).
Proof.
  intros Hk Hia.
  assert (Hacts : A x (IE d) = if sel_out x then flat_map (fun p => push_ids (kids s RPins p)) (kids s RPorts d) else []).
  { cbn [acts_cables]. rewrite Hk, Hia. reflexivity. }
  destruct (sel_out x) eqn:Eo; cbv iota in Hacts.
  - rewrite (through_list x d (map IE (flat_map (fun p => kids s RPins p) (kids s RPorts d))) o).
    + split.
      * intros (y & Hy & H). apply in_map_iff in Hy as (i & <- & Hi). apply in_flat_map in Hi as (p & Hp & Hi).
        apply (c_pin x Hx i o (kid_kind s W _ _ _ Hi)) in H as (c & -> & H). split; [reflexivity|]. exists p, i, c.
        split; [apply (kids_par s W); exact Hp|split; [apply (kids_par s W); exact Hi|auto]].
      * intros (_ & p & i & c & Hp & Hi & -> & H). apply (kids_par s W) in Hp, Hi. exists (IE i). split; [apply in_map, in_flat_map; exists p; auto|].
        apply (c_pin x Hx i _ (kid_kind s W _ _ _ Hi)). exists c. auto.
    + unfold emits. rewrite Hacts, flat_map_flat_map. apply flat_map_nil. intros p _. apply emit_push_ids.
    + unfold succs. rewrite Hacts, flat_map_flat_map. clear Hacts. induction (kids s RPorts d) as [|p ps IH]; cbn; [reflexivity|]. rewrite map_app, succ_push_ids, IH. reflexivity.
  - split; [|intros [E _]; discriminate]. intro H. apply emits_iff in H. unfold emits, succs in H. rewrite Hacts in H. destruct H as [[]|(y & [] & _)].
Qed.

(* ---- INSIDE: walking down through the children ---- *)
Notation AI := (acts_cables s rec SInside).

Lemma ci_inst_view n : kind_of s n = Some KInstance ->
  emits AI (IE n) = map OOth (match iref s n with Some r => kids s RCables r | None => [] end) /\
  succs AI (IE n) = if rec then map IE (sub s n) else [].
Proof.
  intro Hk. unfold emits, succs, sub. cbn [acts_cables sel_ia sel_out sel_all]. rewrite Hk, app_nil_r, orb_false_r.
  destruct (iref s n) as [r|]; [|split; [reflexivity|destruct rec; reflexivity]].
  rewrite !flat_map_app, emit_oth_ids, succ_oth_ids. cbn [app]. destruct rec.
  - rewrite emit_push_ids, succ_push_ids, app_nil_r. split; reflexivity.
  - cbn. rewrite app_nil_r. split; reflexivity.
Qed.

Lemma ci_def_view d : kind_of s d = Some KDefinition ->
  emits AI (IE d) = [OPar d] /\ succs AI (IE d) = if rec then map IE (kids s RChildren d) else [].
Proof.
  intro Hk. unfold emits, succs. cbn [acts_cables sel_ia sel_out sel_all]. rewrite Hk, app_nil_r, orb_false_r. cbn [flat_map emit_of succ_of app].
  destruct rec; [rewrite emit_push_ids, succ_push_ids|]; split; reflexivity.
Qed.

(* below a start item whose appended items are the children of d0 *)
Lemma ci_down_reach (start : item) d0 : succs AI start = (if rec then map IE (kids s RChildren d0) else []) ->
  forall y, Reach AI start y <->
    y = start \/ (rec = true /\ exists ch dp, y = IE ch /\ par s RChildren ch = Some dp /\ clos_refl_trans id (uses s) d0 dp).
Proof.
  intros HS y. split.
  - intro Hr. apply (reach_invariant AI (fun y => y = start \/ (rec = true /\ exists ch dp, y = IE ch /\ par s RChildren ch = Some dp /\
      clos_refl_trans id (uses s) d0 dp)) start) in Hr; [exact Hr|left; reflexivity|].
    intros a b [->|(Er & ch & dp & -> & Hp & Hs)] Hb.
    + rewrite HS in Hb. destruct (bool_cases rec) as [Er|Er]; rewrite Er in Hb; [|destruct Hb]. apply in_map_iff in Hb as (ch & <- & Hch).
      right. split; [exact Er|]. exists ch, d0. split; [reflexivity|split; [apply (kids_par s W); exact Hch|apply rt_refl]].
    + pose proof (par_kind s W _ _ _ Hp) as Hk. cbn [rel_child] in Hk. rewrite (proj2 (ci_inst_view ch Hk)), Er in Hb.
      apply in_map_iff in Hb as (c' & <- & Hc'). unfold sub in Hc'. destruct (iref s ch) as [r|] eqn:Er'; [|destruct Hc'].
      right. split; [exact Er|]. exists c', r. split; [reflexivity|split; [apply (kids_par s W); exact Hc'|]].
      eapply rt_trans; [exact Hs|apply rt_step]. exists ch. auto.
  - intros [->|(Er & ch & dp & -> & Hp & Hs)]; [apply reach_refl|].
    apply clos_rt_rtn1 in Hs. revert ch Hp. induction Hs as [|dp' dp (c0 & Hc0 & Hr0) _ IH]; intros ch Hp.
    + eapply reach_step; [|apply reach_refl]. apply step_succs. rewrite HS, Er. apply in_map, (kids_par s W). exact Hp.
    + eapply reach_trans; [apply (IH c0 Hc0)|]. eapply reach_step; [|apply reach_refl]. apply step_succs.
      rewrite (proj2 (ci_inst_view c0 (iref_kind s W _ _ Hr0))), Er. apply in_map. unfold sub. rewrite Hr0. apply (kids_par s W). exact Hp.
Qed.

Lemma ci_inst n o : kind_of s n = Some KInstance ->
  (Emits AI (IE n) o <-> exists c d0 d', o = OOth c /\ iref s n = Some d0 /\ star (uses s) rec d0 d' /\ par s RCables c = Some d').
Proof.
  intro Hk. destruct (ci_inst_view n Hk) as [Ve Vs]. destruct (iref s n) as [d0|] eqn:Er.
  - assert (HS : succs AI (IE n) = if rec then map IE (kids s RChildren d0) else []) by (rewrite Vs; unfold sub; rewrite Er; reflexivity).
    split.
    + intro H. apply emits_inv in H as (y & Hr & Ho). apply (ci_down_reach (IE n) d0 HS) in Hr as [->|(Erec & ch & dp & -> & Hp & Hs)].
      * rewrite Ve in Ho. apply in_map_iff in Ho as (c & <- & Hc). exists c, d0, d0. split; [reflexivity|split; [reflexivity|split; [apply star_refl|apply (kids_par s W); exact Hc]]].
      * pose proof (par_kind s W _ _ _ Hp) as Hkc. cbn [rel_child] in Hkc. rewrite (proj1 (ci_inst_view ch Hkc)) in Ho.
        apply in_map_iff in Ho as (c & <- & Hc). destruct (iref s ch) as [r|] eqn:Er'; [|destruct Hc].
        exists c, d0, r. split; [reflexivity|split; [reflexivity|split; [|apply (kids_par s W); exact Hc]]].
        apply (star_rt _ _ _ _ Erec). eapply rt_trans; [exact Hs|apply rt_step]. exists ch. auto.
    + intros (c & d0' & d' & -> & E & Hs & Hc). injection E as <-. apply star_cases in Hs as [[Erec Hs]|[_ <-]].
      * apply clos_rt_rtn1 in Hs. destruct Hs as [|dp d' (ch & Hp & Hr') Hs].
        -- eapply emits_at; [apply reach_refl|]. rewrite Ve. apply in_map, (kids_par s W). exact Hc.
        -- eapply emits_at; [apply (ci_down_reach (IE n) d0 HS); right; split; [exact Erec|]; exists ch, dp; split; [reflexivity|split; [exact Hp|apply clos_rtn1_rt; exact Hs]]|].
           rewrite (proj1 (ci_inst_view ch (iref_kind s W _ _ Hr'))), Hr'. apply in_map, (kids_par s W). exact Hc.
      * eapply emits_at; [apply reach_refl|]. rewrite Ve. apply in_map, (kids_par s W). exact Hc.
  - split; [|intros (c & d0 & d' & _ & E & _); discriminate]. intro H. apply emits_iff in H. rewrite Ve, Vs in H. unfold sub in H. rewrite Er in H.
    destruct H as [[]|(y & Hy & _)]. destruct rec; destruct Hy.
Qed.

Lemma ci_def d o : kind_of s d = Some KDefinition ->
  (Emits AI (IE d) o <-> o = OPar d \/
     (rec = true /\ exists c d', o = OOth c /\ clos_trans id (uses s) d d' /\ par s RCables c = Some d')).
Proof.
  intro Hk. destruct (ci_def_view d Hk) as [Ve Vs]. split.
  - intro H. apply emits_inv in H as (y & Hr & Ho). apply (ci_down_reach (IE d) d Vs) in Hr as [->|(Erec & ch & dp & -> & Hp & Hs)].
    + rewrite Ve in Ho. destruct Ho as [<-|[]]. left. reflexivity.
    + right. split; [exact Erec|]. pose proof (par_kind s W _ _ _ Hp) as Hkc. cbn [rel_child] in Hkc. rewrite (proj1 (ci_inst_view ch Hkc)) in Ho.
      apply in_map_iff in Ho as (c & <- & Hc). destruct (iref s ch) as [r|] eqn:Er'; [|destruct Hc].
      exists c, r. split; [reflexivity|split; [|apply (kids_par s W); exact Hc]]. apply t_split_r. exists dp. split; [exact Hs|exists ch; auto].
  - intros [->|(Erec & c & d' & -> & Ht & Hc)].
    + eapply emits_at; [apply reach_refl|]. rewrite Ve. left. reflexivity.
    + apply t_split_r in Ht as (dp & Hs & (ch & Hp & Hr')).
      eapply emits_at; [apply (ci_down_reach (IE d) d Vs); right; split; [exact Erec|]; exists ch, dp; auto|].
      rewrite (proj1 (ci_inst_view ch (iref_kind s W _ _ Hr'))), Hr'. apply in_map, (kids_par s W). exact Hc.
Qed.

(* ---- every mark statement is a wire search: it appends nothing (selection not ALL) and records the
        cable of the wire ---- *)
Lemma cab_marks x (Hx : sel_all x = false) y c os ys : In (AMark c os ys) (A x y) -> os = cab_of c /\ ys = [].
Proof.
  assert (Hs : forall ow, In (AMark c os ys) (search_wire s x ow) -> os = cab_of c /\ ys = []).
  { intros ow H. apply (in_search x Hx) in H as (w & _ & E). injection E as -> -> ->. auto. }
  assert (Hpi : forall l, ~ In (AMark c os ys) (@push_ids qout l)) by (intros l H; apply in_push_ids in H as (z & _ & E); discriminate E).
  assert (Hoi : forall l, ~ In (AMark c os ys) (oth_ids l)) by (intros l H; apply in_oth_ids in H as (z & _ & E); discriminate E).
  destruct y as [e|n i| |h]; cbn [acts_cables].
  - destruct (kind_of s e) as [[]|]; intro H.
    + apply in_flat_map in H as (l & _ & H). exfalso. apply (Hpi _ H).
    + exfalso. apply (Hpi _ H).
    + exfalso. apply in_app_or in H as [H|H].
      * destruct (sel_ia x); [|destruct H]. destruct H as [E|H]; [discriminate E|]. destruct (rec || sel_all x); [apply (Hpi _ H)|destruct H].
      * destruct (sel_out x); [|destruct H]. apply in_flat_map in H as (p & _ & H). apply (Hpi _ H).
    + exfalso. apply (Hpi _ H).
    + exfalso. destruct x; try (apply (Hpi _ H)). destruct H as [E|[]]. discriminate E.
    + exfalso. destruct x.
      * destruct (par s RWires e); [destruct H as [E|[]]; discriminate E|destruct H].
      * apply in_flat_map in H as (q & _ & H). destruct q as [j|m j|]; [destruct H as [E|[]]; discriminate E| |destruct H].
        destruct (ipwire s j) as [w'|]; [|destruct H]. destruct (par s RWires w'); [destruct H as [E|[]]; discriminate E|destruct H].
      * apply in_map_iff in H as (q & E & _). discriminate E.
      * apply in_map_iff in H as (q & E & _). discriminate E.
    + apply in_app_or in H as [H|H].
      * destruct (sel_in x); [apply (Hs _ H)|destruct H].
      * destruct (sel_out x); [|destruct H]. apply in_flat_map in H as (m & _ & H). apply (Hs _ H).
    + exfalso. apply in_app_or in H as [H|H].
      * destruct (sel_ia x); [|destruct H]. destruct (iref s e); [|destruct H]. apply in_app_or in H as [H|H]; [apply (Hoi _ H)|].
        destruct (rec || sel_all x); [apply (Hpi _ H)|destruct H].
      * destruct (sel_out x); [|destruct H]. apply in_map_iff in H as (q & E & _). discriminate E.
    + destruct H.
  - intro H. apply in_app_or in H as [H|H]; [destruct (sel_in x); [apply (Hs _ H)|destruct H]|destruct (sel_out x); [apply (Hs _ H)|destruct H]].
  - intros [].
  - intro H. apply in_push_opt in H as (z & _ & E). discriminate E.
Qed.

(* ---- elements ---- *)
Lemma c_scope x (Hx : sel_all x = false) r o :
  kind_of s r = Some KDefinition \/ kind_of s r = Some KLibrary \/ kind_of s r = Some KNetlist ->
  (Em x (IE r) o <-> exists d, scope_defs s r d /\ Em x (IE d) o).
Proof.
  intro Hk. apply (scope_through s W (A x)); [| |exact Hk].
  - intros l Hl. unfold emits, succs. cbn [acts_cables]. rewrite Hl. split; [apply emit_push_ids|apply succ_push_ids].
  - intros n Hn. unfold emits, succs. cbn [acts_cables]. rewrite Hn. destruct (net_defs_shape (T := qout) s n) as [E1 E2]. split; assumption.
Qed.

Lemma sel_not_all x : sel_all x = false -> x = SInside \/ (sel_ia x = false /\ sel_out x = true /\ x <> SInside).
Proof. destruct x; cbn; intro H; try discriminate H; auto; right; repeat split; discriminate. Qed.

Lemma c_elem_A x (Hx : sel_all x = false) r p : Em x (IE r) (OPar p) <-> sel_ia x = true /\ scope_defs s r p.
Proof.
  assert (Hd : forall d, kind_of s d = Some KDefinition -> (Em x (IE d) (OPar p) <-> sel_ia x = true /\ p = d)).
  { intros d Hk. destruct (sel_not_all x Hx) as [->|(Hia & Ho & Hn)].
    - rewrite (ci_def d _ Hk). split; [intros [E|(_ & c & d' & E & _)]; [injection E as ->; auto|discriminate E]|intros [_ ->]; left; reflexivity].
    - rewrite (c_def_out x Hx d _ Hk Hia). rewrite Hia. split; [intros (_ & q & i & c & _ & _ & E & _); discriminate E|intros [E _]; discriminate E]. }
  destruct (kind_of s r) as [[]|] eqn:Hk.
  1-3: rewrite (c_scope x Hx r _) by tauto; split;
    [ intros (d & Hs & H); apply (Hd d (scope_kind s W r d Hs)) in H as [Hia ->]; auto
    | intros [Hia Hs]; exists p; split; [exact Hs|]; apply (Hd p (scope_kind s W r p Hs)); auto ].
  all: split; [|intros [_ Hs]; unfold scope_defs in Hs; rewrite Hk in Hs; contradiction].
  - intro H. apply (c_port x Hx r _ Hk) in H as (i & c & _ & E & _). discriminate E.
  - intro H. apply (c_cable x Hx r _ Hk) in H as (c & E & _). discriminate E.
  - intro H. apply (c_wire x Hx r _ Hk) in H as (c & E & _). discriminate E.
  - intro H. apply (c_pin x Hx r _ Hk) in H as (c & E & _). discriminate E.
  - intro H. destruct (sel_not_all x Hx) as [->|(Hia & Ho & Hn)].
    + apply (ci_inst r _ Hk) in H as (c & d0 & d' & E & _). discriminate E.
    + apply (c_inst_out x Hx r _ Hk Hia) in H as (_ & i & c & _ & E & _). discriminate E.
  - intro H. apply emits_iff in H. unfold emits, succs in H. cbn [acts_cables] in H. rewrite Hk in H. destruct H as [[]|(y & [] & _)].
Qed.

Lemma c_elem_B x (Hx : sel_all x = false) r e : Em x (IE r) (OOth e) <-> cablesB_elem s rec x r e.
Proof.
  assert (Hd : forall d, kind_of s d = Some KDefinition ->
    (Em x (IE d) (OOth e) <->
     (x = SInside /\ rec = true /\ exists d', clos_trans id (uses s) d d' /\ par s RCables e = Some d') \/
     (sel_out x = true /\ exists q i, par s RPorts q = Some d /\ par s RPins i = Some q /\ pin_cables s x (PIn i) e))).
  { intros d Hk. destruct (sel_not_all x Hx) as [->|(Hia & Ho & Hn)].
    - rewrite (ci_def d _ Hk). split.
      + intros [E|(Er & c & d' & E & Ht & Hc)]; [discriminate E|]. injection E as <-. left. split; [reflexivity|split; [exact Er|exists d'; auto]].
      + intros [(_ & Er & d' & Ht & Hc)|(E & _)]; [|discriminate E]. right. split; [exact Er|exists e, d'; auto].
    - rewrite (c_def_out x Hx d _ Hk Hia). split.
      + intros (_ & q & i & c & Hq & Hi & E & H). injection E as <-. right. split; [exact Ho|exists q, i; auto].
      + intros [(E & _)|(_ & q & i & Hq & Hi & H)]; [contradiction|]. split; [exact Ho|exists q, i, e; auto]. }
  unfold cablesB_elem. destruct (kind_of s r) as [[]|] eqn:Hk.
  1-3: rewrite (c_scope x Hx r _) by tauto; split;
    [ intros (d & Hs & H); apply (Hd d (scope_kind s W r d Hs)) in H as [(E & Er & d' & Ht & Hc)|(Ho & q & i & Hq & Hi & H)];
      [left; split; [exact E|split; [exact Er|exists d, d'; auto]]|right; split; [exact Ho|exists d, q, i; auto]]
    | intros [(E & Er & d & d' & Hs & Ht & Hc)|(Ho & d & q & i & Hs & Hq & Hi & H)]; exists d; (split; [exact Hs|]);
      apply (Hd d (scope_kind s W r d Hs)); [left; split; [exact E|split; [exact Er|exists d'; auto]]|right; split; [exact Ho|exists q, i; auto]] ].
  - rewrite (c_port x Hx r _ Hk). split; [intros (i & c & Hi & E & H); injection E as <-; exists i; auto|intros (i & Hi & H); exists i, e; auto].
  - rewrite (c_cable x Hx r _ Hk). split; [intros (c & E & H); injection E as <-; exact H|intro H; exists e; auto].
  - rewrite (c_wire x Hx r _ Hk). split; [intros (c & E & H); injection E as <-; exact H|intro H; exists e; auto].
  - rewrite (c_pin x Hx r _ Hk). split; [intros (c & E & H); injection E as <-; exact H|intro H; exists e; auto].
  - destruct (sel_not_all x Hx) as [->|(Hia & Ho & Hn)].
    + rewrite (ci_inst r _ Hk). split.
      * intros (c & d0 & d' & E & Hr & Hs & Hc). injection E as <-. left. split; [reflexivity|exists d0, d'; auto].
      * intros [(_ & d0 & d' & Hr & Hs & Hc)|(E & _)]; [exists e, d0, d'; auto|discriminate E].
    + rewrite (c_inst_out x Hx r _ Hk Hia). split.
      * intros (_ & i & c & Hi & E & H). injection E as <-. right. split; [exact Ho|exists i; auto].
      * intros [(E & _)|(_ & i & Hi & H)]; [contradiction|]. split; [exact Ho|exists i, e; auto].
  - split; [|intros []]. intro H. apply emits_iff in H. unfold emits, succs in H. cbn [acts_cables] in H. rewrite Hk in H. destruct H as [[]|(y & [] & _)].
Qed.

(* ---- every kind of root ---- *)
Theorem cands_cables_spec x fuel it ps os : sel_all x = false ->
  cands_cables s fuel [it] rec x = WOk (ps, os) ->
  (forall e, (exists p, In p ps /\ In e (kids s RCables p)) <-> reachA_cables s x it e) /\
  (forall e, In e os <-> reachB_cables s rec x it e) /\ NoDup os.
Proof.
  intros Hx H. unfold cands_cables in H.
  destruct (wl_run (A x) (bad_cables s x) fuel [it]) as [l| |] eqn:E; try discriminate H. cbn in H. injection H as <- <-.
  assert (Hem : forall o, In o l <-> Em x it o).
  { apply (flat_exact (A x) (bad_cables s x) it) with (fuel := fuel); [| |exact E].
    - intros y c os ys _ Ha. apply (cab_marks x Hx y c os ys Ha).
    - intros y y' c os os' ys ys' _ _ Ha Ha'. destruct (cab_marks x Hx y c os ys Ha) as [-> _]. destruct (cab_marks x Hx y' c os' ys' Ha') as [-> _]. reflexivity. }
  assert (Hroot : forall o, Em x it o <->
    match it with
    | IE r => Em x (IE r) o
    | IO n i => exists c, o = OOth c /\ pin_cables s x (POut n i) c
    | IDet => False
    | IH h => exists r, href_to s h r /\ Em x (IE r) o
    end).
  { intro o. destruct it as [r|n i| |h].
    - tauto.
    - apply (c_opin x Hx).
    - split; [|intros []]. intro H. apply emits_iff in H. cbn in H. destruct H as [[]|(y & [] & _)].
    - rewrite (emits_through (A x) (IH h) o) by (unfold emits; cbn [acts_cables]; apply emit_push_opt).
      unfold succs. cbn [acts_cables]. rewrite succ_push_opt. destruct (href_item s h) as [r|] eqn:Ex.
      + apply (href_item_iff s W) in Ex. split.
        * intros (y & [<-|[]] & H). exists r. auto.
        * intros (r' & Hr' & H). destruct Ex as [_ E1]. destruct Hr' as [_ E2]. rewrite E1 in E2. injection E2 as <-.
          exists (IE r). split; [left; reflexivity|exact H].
      + split; [intros (y & [] & _)|]. intros (r' & Hr' & _). apply (href_item_iff s W) in Hr'. congruence. }
  split; [|split]; [intro e|intro e|apply dedup_NoDup].
  - split.
    + intros (p & Hp & He). apply in_pars, Hem, Hroot in Hp. destruct it as [r|n i| |h]; cbn [reachA_cables].
      * apply (c_elem_A x Hx) in Hp as [Hia Hs]. split; [exact Hia|]. exists p. split; [exact Hs|apply (kids_par s W); exact He].
      * destruct Hp as (c & E' & _). discriminate E'.
      * exact Hp.
      * destruct Hp as (r & Hr & Hp). apply (c_elem_A x Hx) in Hp as [_ Hs]. apply (scope_root_kind s r p) in Hs.
        destruct (href_item_kind s W h r Hr) as [K|[K|[K|[K|K]]]]; rewrite K in Hs; destruct Hs as [?|[?|?]]; discriminate.
    + destruct it as [r|n i| |h]; cbn [reachA_cables]; try contradiction. intros (Hia & d & Hs & He). exists d.
      split; [|apply (kids_par s W); exact He]. apply in_pars, Hem, Hroot. apply (c_elem_A x Hx). auto.
  - rewrite dedup_In, in_oths, Hem, Hroot. destruct it as [r|n i| |h]; cbn [reachB_cables].
    + apply (c_elem_B x Hx).
    + split; [intros (c & E' & H); injection E' as <-; exact H|intro H; exists e; auto].
    + tauto.
    + split; intros (r & Hr & H); exists r; (split; [exact Hr|apply (c_elem_B x Hx); exact H]).
Qed.
End Cab.
