(* Engine `verilog`, document-level reader: composition. The port map of an instance as the FINAL netlist value shows
   it: bit k of every connection expression is joined to bit k of the port, and stays so through the rest of the
   module body, the end of the module, add_blackbox_definitions and the deferred positional maps (any label-stable
   continuation, Proofs/VElabFrame.v); [visible] comes from the reachable-state invariant (Proofs/VElabVis.v). *)
From Coq Require Import List ZArith Bool Arith Lia Permutation.
From SV Require Import Base.Base Fmt.VBits Fmt.VTop Fmt.VDoc Fmt.VElab Fmt.VSpec Fmt.VSem
  Proofs.VerilogLists Proofs.VerilogGrow Proofs.VElabBase Proofs.VElabInv Proofs.VElabWf Proofs.VElabExpr Proofs.VElabConn
  Proofs.VElabAssign Proofs.VElabNets Proofs.VElabTop Proofs.VElabStable Proofs.VElabVis Proofs.VElabFrame.
Import ListNotations.
Open Scope Z_scope.

Lemma crange_same_cables d d' : ed_cables d' = ed_cables d -> crange d' = crange d.
Proof. intro E. unfold crange, find_cable. rewrite E. reflexivity. Qed.

(* the state in which the port map of a new instance is read *)
Lemma inst_item_mid cur m i params attrs l s s' : Inv s -> VInv s -> (cur < length (st_defs s))%nat ->
  ed_name (get_def cur s) <> m ->
  (forall k, find_def m s = Some k -> all_lo0 (get_def k s)) ->
  inst_item cur m i params attrs (CNamed l) s = Ok s' ->
  exists s3 s4 rk ii inst,
    Inv s3 /\ VInv s3 /\ cur <> rk /\ (cur < length (st_defs s3))%nat /\ (rk < length (st_defs s3))%nat /\
    nth_error (ed_insts (get_def cur s3)) ii = Some inst /\ ei_name inst = i /\ ei_ref inst = RName (ed_name (get_def rk s3)) /\
    crange (get_def cur s3) = crange (get_def cur s) /\ all_lo0 (get_def rk s3) /\
    fold_res (named_conn cur ii rk) l s3 = Ok s4 /\ LS s4 s' /\ ed_name (get_def rk s3) = m.
Proof.
  unfold inst_item. intros I VI Hc Hne A0 H.
  destruct (get_blackbox m s) as [s1 rk] eqn:G.
  pose proof (get_blackbox_vstep _ _ _ _ G) as V0.
  destruct (get_blackbox_inv _ _ _ _ G I) as (I1 & Hrk & Nrk & L1).
  assert (Gc : get_def cur s1 = get_def cur s /\ (forall k, find_def m s = Some k -> k = rk /\ get_def rk s1 = get_def k s) /\
               (find_def m s = None -> ed_ports (get_def rk s1) = [])).
  { unfold get_blackbox in G. destruct (find_def m s) as [j|] eqn:F; inversion G; subst.
    - split; [reflexivity|]. split; [intros k Hk; inversion Hk; subst; auto|discriminate].
    - split; [unfold get_def; cbn; apply app_nth1; exact Hc|]. split; [discriminate|]. intros _.
      unfold get_def. cbn. rewrite app_nth2, Nat.sub_diag by lia. reflexivity. }
  destruct Gc as (Gc & Gk & Gn).
  assert (Hcr : cur <> rk) by (intro E; subst rk; apply Hne; rewrite <- Gc; exact Nrk).
  destruct (_ && _); [destruct (parents_of _ _); [destruct (forallb _ _)|]; discriminate|].
  set (s2 := elect_step cur rk s1) in *.
  assert (I2 : Inv s2) by (apply elect_step_inv; [exact I1|lia]).
  assert (D2 : st_defs s2 = st_defs s1) by (unfold s2, elect_step; destruct (st_tops s1); reflexivity).
  assert (P2 : st_pending s2 = st_pending s1) by (unfold s2, elect_step; destruct (st_tops s1); reflexivity).
  assert (G2 : forall k, get_def k s2 = get_def k s1) by (intro k; unfold get_def; rewrite D2; reflexivity).
  assert (V2 : vstep s1 s2) by (apply vstep_same_defs; [exact D2|intros e He; left; rewrite <- P2; exact He]).
  apply bind_ok in H. destruct H as ([d1 ii] & H1 & H).
  destruct (add_inst_inv _ _ _ _ H1) as (N1 & DI1 & R1 & _). cbn [ei_ref] in R1.
  destruct (add_inst_dvstep _ _ _ _ H1) as (Dv1 & _ & Hi1 & Ec1 & _).
  set (s3 := set_curinst (put_def cur d1 s2) (Some (cur, ii))) in *.
  assert (Hk : (cur < length (st_defs s2))%nat) by (rewrite D2; lia).
  assert (I3 : Inv s3).
  { apply inv_set_curinst.
    assert (E : nth_error (st_defs s2) cur = Some (get_def cur s2)) by (unfold get_def; apply nth_error_nth'; exact Hk).
    assert (Nm : names (put_def cur d1 s2) = names s2).
    { unfold names, put_def, upd_def. cbn. apply nth_upd_map_at. intros x Hx. rewrite E in Hx. inversion Hx; subst. exact N1. }
    constructor.
    - rewrite Nm. apply (iv_names s2 I2).
    - unfold put_def, upd_def. cbn. apply Forall_forall. intros x Hx. apply nth_upd_In in Hx. destruct Hx as [Hx|(y & Hy & ->)].
      + eapply Forall_forall; [apply (iv_defs s2 I2)|exact Hx].
      + apply DI1. apply get_def_dinv. exact I2.
    - rewrite Nm. unfold put_def, upd_def. cbn. intros x n Hx Hn. apply nth_upd_In in Hx. destruct Hx as [Hx|(y & Hy & ->)].
      + eapply (iv_refs s2 I2); eassumption.
      + rewrite R1 in Hn. apply in_app_iff in Hn. destruct Hn as [Hn|[Hn|[]]].
        * apply (iv_refs s2 I2 (get_def cur s2)); [apply get_def_in; exact Hk|exact Hn].
        * inversion Hn as [Hm]. rewrite <- Hm, <- Nrk. unfold names. rewrite D2. apply in_map. apply get_def_in. exact Hrk.
    - unfold put_def, upd_def. cbn. rewrite nth_upd_length. apply (iv_tops s2 I2).
    - unfold put_def, upd_def. cbn. rewrite nth_upd_length. apply (iv_ps s2 I2). }
  assert (V3 : vstep s2 s3).
  { eapply vstep_trans; [apply (put_def_vstep cur d1 s2 N1 Dv1)|]. apply vstep_same_defs; [reflexivity|intros e He; left; exact He]. }
  assert (VI3 : VInv s3).
  { eapply vinv_vstep; [|exact V3]. eapply vinv_vstep; [|exact V2]. eapply vinv_vstep; [exact VI|exact V0]. }
  assert (L3 : length (st_defs s3) = length (st_defs s1)) by (unfold s3; cbn; rewrite nth_upd_length, D2; reflexivity).
  assert (Gc3 : get_def cur s3 = d1) by (change (get_def cur s3) with (get_def cur (put_def cur d1 s2)); apply get_put_same; exact Hk).
  assert (Gr3 : get_def rk s3 = get_def rk s1).
  { change (get_def rk s3) with (get_def rk (put_def cur d1 s2)). rewrite get_put_other by (intro E; apply Hcr; symmetry; exact E). apply G2. }
  apply bind_ok in H. destruct H as (s4 & H4 & H). inversion H; subst s'. clear H.
  exists s3, s4, rk, ii, {| ei_name := i; ei_ref := RName m; ei_params := []; ei_attrs := dict_of attrs |}.
  split; [exact I3|]. split; [exact VI3|]. split; [exact Hcr|]. split; [lia|]. split; [lia|].
  split; [rewrite Gc3; exact Hi1|]. split; [reflexivity|]. split; [cbn [ei_ref]; rewrite Gr3, Nrk; reflexivity|].
  split; [rewrite Gc3, (crange_same_cables _ _ Ec1), G2, Gc; reflexivity|].
  split.
  - rewrite Gr3. destruct (find_def m s) as [k|] eqn:F.
    + destruct (Gk k eq_refl) as [-> E]. rewrite E. apply A0. reflexivity.
    + intros p Hp. rewrite (Gn eq_refl) in Hp. destruct Hp.
  - split; [exact H4|]. split; [|rewrite Gr3; exact Nrk]. apply upd_def_LS. apply lstepd_of_dstep; [apply upd_inst_dstep; reflexivity|intros _; apply upd_inst_lmono; reflexivity].
Qed.

(* the connection clause on the final value: for an instance with a named port map read in a reachable state, bit k of
   every connection expression is on the net bit it names, joined to bit k of the port - in the module as it stands
   after ANY label-stable continuation (the rest of the body without port declarations, the end of the module,
   add_blackbox_definitions, the deferred positional maps) *)
Theorem inst_named_persists cur m i params attrs l s s1 s2 : Inv s -> VInv s -> (cur < length (st_defs s))%nat ->
  ed_name (get_def cur s) <> m ->
  Forall (conn_typed (crange (get_def cur s))) l -> Forall (fun pc => has_glob (fst pc) = false) l ->
  (forall k, find_def m s = Some k -> all_lo0 (get_def k s)) ->
  inst_item cur m i params attrs (CNamed l) s = Ok s1 -> LS s1 s2 ->
  forall pc e r, In pc l -> In (e, r) (conn_meaning i (crange (get_def cur s)) pc) ->
  In e (net_of r (abs_def s2 (get_def cur s2))).
Proof.
  intros I VI Hc Hne T G A0 H L pc e r Hpc Hin.
  destruct (inst_item_mid _ _ _ _ _ _ _ _ I VI Hc Hne A0 H) as (s3 & s4 & rk & ii & inst & I3 & VI3 & Hcr & Hc3 & Hr3 & Hi & Hn & Href & Cr & A3 & H4 & L4 & _).
  rewrite <- Cr in T, Hin.
  assert (V3 : visible s3 (get_def cur s3)) by (apply conn_ok_visible; apply (proj1 VI3)).
  destruct (instance_nets_visible cur ii rk inst l s3 s4 I3 Hcr Hc3 Hr3 Hi Href T G A3 V3 H4) as [_ M].
  destruct (fold_named_inv _ _ _ _ _ _ H4 I3) as [I4 _].
  eapply (LS_nets s4 s2); [exact I4|eapply LS_trans; [exact L4|exact L]|].
  apply M. right. exists pc. split; [exact Hpc|]. rewrite Hn. exact Hin.
Qed.
