(* Proofs about stage B of Query/Filter.v: the name map, the collection of the "other" elements,
   and the per-pattern loops of the five variants. *)
From Coq Require Import List NArith Arith Bool Lia Permutation.
From SV Require Import Base.Base Query.Glob Query.Patterns Query.Filter Proofs.QueryFilterA.
Import ListNotations.

(* ------------------------------------------------------------------------------------------ *)
(* name maps *)

Section NM.
Context {K : Type}.
Variable keqb : K -> K -> bool.
Hypothesis keqb_spec : forall a b, keqb a b = true <-> a = b.
Variable nf : id -> K.                    (* the name under which an element is filed *)

Definition elems (nm : list (K * list id)) : list id := concat (map snd nm).

Definition build (l : list id) (nm : list (K * list id)) : list (K * list id) :=
  fold_left (fun nm e => nm_add keqb (nf e) e nm) l nm.

(* well-keyed: names pairwise different, no element filed twice, every element under its name *)
Definition WK (nm : list (K * list id)) : Prop :=
  NoDup (map fst nm) /\ NoDup (elems nm) /\ forall n es e, In (n, es) nm -> In e es -> nf e = n.

Lemma keqb_refl a : keqb a a = true.
Proof. apply keqb_spec. reflexivity. Qed.

Lemma in_elems nm e : In e (elems nm) <-> exists n es, In (n, es) nm /\ In e es.
Proof.
  unfold elems. rewrite in_concat. split.
  - intros (es & H1 & H2). apply in_map_iff in H1 as ([n es'] & <- & H3). exists n, es'. auto.
  - intros (n & es & H1 & H2). exists es. split; [|exact H2]. apply in_map_iff. exists (n, es). auto.
Qed.

Lemma elems_cons n es nm : elems ((n, es) :: nm) = es ++ elems nm.
Proof. reflexivity. Qed.

Lemma nm_add_fst m e nm n : In n (map fst (nm_add keqb m e nm)) <-> n = m \/ In n (map fst nm).
Proof.
  induction nm as [|[n' es] nm IH]; cbn [nm_add map fst In].
  - intuition.
  - destruct (keqb m n') eqn:E; cbn [map fst In].
    + apply keqb_spec in E. subst n'. intuition.
    + rewrite IH. intuition.
Qed.

Lemma nm_add_elems m e nm x : In x (elems (nm_add keqb m e nm)) <-> x = e \/ In x (elems nm).
Proof.
  induction nm as [|[n' es] nm IH]; cbn [nm_add].
  - cbn. intuition.
  - destruct (keqb m n'); rewrite !elems_cons, !in_app_iff.
    + cbn. intuition.
    + rewrite IH. intuition.
Qed.

Lemma WK_add nm e : WK nm -> ~ In e (elems nm) -> WK (nm_add keqb (nf e) e nm).
Proof.
  intros (H1 & H2 & H3) He. induction nm as [|[n es] nm IH]; cbn [nm_add].
  - repeat split; cbn.
    + constructor; [intros []|constructor].
    + constructor; [intros []|constructor].
    + intros n es x [E|[]] Hx. inversion E; subst. destruct Hx as [<-|[]]. reflexivity.
  - cbn [map fst] in H1. inversion H1 as [|? ? Hn Hd]; subst. rewrite elems_cons in H2, He.
    apply NoDup_app_iff in H2 as (Ha & Hb & Hc).
    assert (Hwk : WK nm).
    { repeat split; auto. intros n' es' x Hi Hx. eapply H3; [right; exact Hi|exact Hx]. }
    destruct (keqb (nf e) n) eqn:E.
    + apply keqb_spec in E. repeat split.
      * cbn [map fst]. constructor; assumption.
      * rewrite elems_cons. apply NoDup_app_iff. split; [|split; [exact Hb|]].
        -- apply NoDup_app_iff. split; [exact Ha|]. split; [constructor; [intros []|constructor]|].
           intros x Hx [<-|[]]. apply He. apply in_or_app. left. exact Hx.
        -- intros x Hx. apply in_app_or in Hx as [Hx|[<-|[]]]; [apply Hc, Hx|].
           intro Hi. apply He. apply in_or_app. right. exact Hi.
      * intros n' es' x [Ei|Hi] Hx.
        -- inversion Ei; subst. apply in_app_or in Hx as [Hx|[<-|[]]]; [|reflexivity].
           eapply H3; [left; reflexivity|exact Hx].
        -- eapply H3; [right; exact Hi|exact Hx].
    + assert (He' : ~ In e (elems nm)) by (intro Hi; apply He; apply in_or_app; right; exact Hi).
      destruct (IH (proj1 Hwk) (proj1 (proj2 Hwk)) (proj2 (proj2 Hwk)) He') as (I1 & I2 & I3).
      repeat split.
      * cbn [map fst]. constructor; [|exact I1]. rewrite nm_add_fst. intros [->|Hi]; [|contradiction].
        rewrite keqb_refl in E. discriminate.
      * rewrite elems_cons. apply NoDup_app_iff. split; [exact Ha|]. split; [exact I2|].
        intros x Hx. rewrite nm_add_elems. intros [->|Hi]; [|apply (Hc x Hx Hi)].
        apply He. apply in_or_app. left. exact Hx.
      * intros n' es' x [Ei|Hi] Hx.
        -- inversion Ei; subst. eapply H3; [left; reflexivity|exact Hx].
        -- eapply I3; eauto.
Qed.

Lemma WK_nil : WK [].
Proof. repeat split; cbn; try constructor. intros ? ? ? []. Qed.

Lemma build_spec l : forall nm, WK nm -> NoDup l -> (forall e, In e l -> ~ In e (elems nm)) ->
  WK (build l nm) /\ forall x, In x (elems (build l nm)) <-> In x (elems nm) \/ In x l.
Proof.
  induction l as [|e l IH]; intros nm Hwk Hnd Hdis; cbn [build fold_left].
  - split; [exact Hwk|]. cbn. tauto.
  - inversion Hnd as [|? ? He Hl]; subst.
    fold (build l (nm_add keqb (nf e) e nm)).
    assert (Hwk' : WK (nm_add keqb (nf e) e nm)) by (apply WK_add; [exact Hwk|apply Hdis; left; reflexivity]).
    destruct (IH _ Hwk' Hl) as [I1 I2].
    + intros x Hx. rewrite nm_add_elems. intros [->|Hi]; [contradiction|]. apply (Hdis x); [right; exact Hx|exact Hi].
    + split; [exact I1|]. intro x. rewrite I2, nm_add_elems. cbn [In]. intuition.
Qed.

Lemma nm_get_spec nm p e : WK nm -> (In e (nm_get keqb p nm) <-> In e (elems nm) /\ nf e = p).
Proof.
  intros (H1 & H2 & H3). induction nm as [|[n es] nm IH]; cbn [nm_get].
  - cbn. tauto.
  - cbn [map fst] in H1. inversion H1 as [|? ? Hn Hd]; subst. rewrite elems_cons in *.
    apply NoDup_app_iff in H2 as (Ha & Hb & Hc).
    assert (H3' : forall n' es' x, In (n', es') nm -> In x es' -> nf x = n')
      by (intros n' es' x Hi Hx; eapply H3; [right; exact Hi|exact Hx]).
    destruct (keqb p n) eqn:E.
    + apply keqb_spec in E. subst n. rewrite in_app_iff. split.
      * intro Hx. split; [left; exact Hx|]. eapply H3; [left; reflexivity|exact Hx].
      * intros [[Hx|Hx] Hp]; [exact Hx|]. exfalso. apply in_elems in Hx as (n' & es' & Hi & Hx).
        apply Hn. apply in_map_iff. exists (n', es'). split; [|exact Hi]. cbn.
        rewrite <- Hp. symmetry. eapply H3'; eauto.
    + rewrite (IH Hd Hb H3'), in_app_iff. split; [tauto|]. intros [[Hx|Hx] Hp]; [|tauto]. exfalso.
      assert (nf e = n) by (eapply H3; [left; reflexivity|exact Hx]).
      subst. rewrite keqb_refl in E. discriminate.
Qed.

Lemma nm_get_sub nm p e : In e (nm_get keqb p nm) -> In e (elems nm).
Proof.
  induction nm as [|[n es] nm IH]; cbn [nm_get]; [intros []|]. rewrite elems_cons, in_app_iff.
  destruct (keqb p n); auto.
Qed.

Lemma nm_get_NoDup nm p : NoDup (elems nm) -> NoDup (nm_get keqb p nm).
Proof.
  induction nm as [|[n es] nm IH]; cbn [nm_get]; [constructor|]. rewrite elems_cons. intro H.
  apply NoDup_app_iff in H as (Ha & Hb & _). destruct (keqb p n); auto.
Qed.

Lemma filter_fst_sub (F : K * list id -> bool) nm n : In n (map fst (filter F nm)) -> In n (map fst nm).
Proof.
  rewrite !in_map_iff. intros (x & E & H). apply filter_In in H as [H _]. exists x. auto.
Qed.

Lemma filter_elems_sub (F : K * list id -> bool) nm e : In e (elems (filter F nm)) -> In e (elems nm).
Proof.
  rewrite !in_elems. intros (n & es & H & He). apply filter_In in H as [H _]. exists n, es. auto.
Qed.

Lemma WK_filter (F : K * list id -> bool) nm : WK nm -> WK (filter F nm).
Proof.
  intros (H1 & H2 & H3). repeat split.
  - clear H2 H3. induction nm as [|[n es] nm IH]; cbn [filter]; [constructor|].
    cbn [map fst] in H1. inversion H1; subst. destruct (F (n, es)); [|auto].
    cbn [map fst]. constructor; [|auto]. intro Hi. apply filter_fst_sub in Hi. contradiction.
  - clear H1 H3. induction nm as [|[n es] nm IH]; cbn [filter]; [constructor|].
    rewrite elems_cons in H2. apply NoDup_app_iff in H2 as (Ha & Hb & Hc).
    destruct (F (n, es)); [|auto]. rewrite elems_cons. apply NoDup_app_iff. repeat split; auto.
    intros x Hx Hi. apply filter_elems_sub in Hi. apply (Hc x Hx Hi).
  - intros n es e Hi He. apply filter_In in Hi as [Hi _]. eapply H3; eauto.
Qed.

(* the elements filed under the names selected by f *)
Lemma elems_filter_spec (f : K -> bool) nm e : WK nm ->
  (In e (elems (filter (fun ne => f (fst ne)) nm)) <-> In e (elems nm) /\ f (nf e) = true).
Proof.
  intros (_ & _ & H3). rewrite !in_elems. split.
  - intros (n & es & Hi & He). apply filter_In in Hi as [Hi Hf]. cbn in Hf.
    split; [exists n, es; auto|]. rewrite (H3 n es e Hi He). exact Hf.
  - intros ((n & es & Hi & He) & Hf). exists n, es. split; [|exact He]. apply filter_In. split; [exact Hi|].
    cbn. rewrite <- (H3 n es e Hi He). exact Hf.
Qed.

Lemma nm_del_eq p nm : nm_del keqb p nm = filter (fun ne => negb (keqb p (fst ne))) nm.
Proof. reflexivity. Qed.

End NM.

(* ------------------------------------------------------------------------------------------ *)
(* "for x in result: if x in live: live.remove(x); yield x" *)

Lemma take_spec es : forall live y live', take es live = (y, live') ->
  (forall e, In e y <-> In e es /\ In e live) /\
  (forall e, In e live' <-> In e live /\ ~ In e es) /\
  NoDup y /\ (NoDup live -> NoDup live').
Proof.
  induction es as [|x es IH]; intros live y live' H; cbn [take] in H.
  - inversion H; subst. split; [intro e; cbn; tauto|]. split; [intro e; cbn; tauto|]. split; [constructor|auto].
  - destruct (memb x live) eqn:Em.
    + destruct (take es (remove_all_in [x] live)) as [y0 l0] eqn:Et. inversion H; subst.
      destruct (IH _ _ _ Et) as (I1 & I2 & I3 & I4). apply memb_In in Em.
      assert (Hrm : forall e, In e (remove_all_in [x] live) <-> In e live /\ e <> x).
      { intro e. rewrite remove_all_in_In. cbn [In]. intuition. }
      split; [|split; [|split]].
      * intro e. cbn [In]. rewrite I1, Hrm. split.
        -- intros [<-|H1]; tauto.
        -- intros [[<-|He] Hl]; [left; reflexivity|].
           destruct (Nat.eq_dec x e) as [->|Hne]; [left; reflexivity|right]. repeat split; auto.
      * intro e. cbn [In]. rewrite I2, Hrm. split.
        -- intros [[H1 H2] H3]. split; [exact H1|]. intros [<-|Hi]; tauto.
        -- intros [Hl Hn]. split; [split; [exact Hl|]|]; intro; apply Hn; [left|right]; auto.
      * constructor; [|exact I3]. intro Hi. apply I1 in Hi as [_ Hi]. apply Hrm in Hi. tauto.
      * intro Hnd. apply I4. unfold remove_all_in. apply NoDup_filter. exact Hnd.
    + apply memb_false in Em. destruct (IH _ _ _ H) as (I1 & I2 & I3 & I4).
      split; [|split; [|split]]; auto.
      * intro e. cbn [In]. rewrite I1. split; [tauto|]. intros [[<-|He] Hl]; [contradiction|tauto].
      * intro e. cbn [In]. rewrite I2. split.
        -- intros [H1 H2]. split; [exact H1|]. intros [<-|Hi]; tauto.
        -- intros [Hl Hn]. split; [exact Hl|]. intro; apply Hn; right; auto.
Qed.

Lemma take_names_spec (names : list (str * list id)) : forall live y live',
  take_names names live = (y, live') ->
  (forall e, In e y <-> In e (elems names) /\ In e live) /\
  (forall e, In e live' <-> In e live /\ ~ In e (elems names)) /\
  (NoDup live -> NoDup y /\ NoDup live').
Proof.
  induction names as [|[n es] names IH]; intros live y live' H; cbn [take_names] in H.
  - inversion H; subst. split; [intro e; cbn; tauto|]. split; [intro e; cbn; tauto|].
    intro Hnd. split; [constructor|exact Hnd].
  - destruct (take es live) as [y1 l1] eqn:E1. destruct (take_names names l1) as [y2 l2] eqn:E2.
    inversion H; subst. destruct (take_spec _ _ _ _ E1) as (T1 & T2 & T3 & T4).
    destruct (IH _ _ _ E2) as (I1 & I2 & I3). rewrite elems_cons. split; [|split].
    + intro e. rewrite !in_app_iff, T1, I1, T2. split; [tauto|].
      intros [[He|He] Hl]; [tauto|].
      destruct (in_dec Nat.eq_dec e es) as [Hes|Hes]; [left; tauto|right; tauto].
    + intro e. rewrite I2, T2, in_app_iff. tauto.
    + intro Hnd. destruct (I3 (T4 Hnd)) as [J1 J2]. split; [|exact J2].
      apply NoDup_app_iff. split; [exact T3|]. split; [exact J1|].
      intros x Hx Hx2. apply I1 in Hx2 as [_ Hx2]. apply T2 in Hx2. apply T1 in Hx. tauto.
Qed.

(* ------------------------------------------------------------------------------------------ *)
(* the stages *)

Section StageB.
Variable key : id -> option str.
Variable fold : id -> bool.
Variable mt : str -> str -> bool.
Variable ab : str -> bool.
Hypothesis abs_eq : forall p v, ab p = true -> (mt p v = true <-> v = p).

Notation val := (val key).
Notation has_key := (has_key key).
Notation em := (em key mt).
Notation xeq := (xeq key fold).
Notation sm := (sm key fold mt ab).
Notation any_match := (any_match key fold mt ab).
Notation xkey := (xkey key fold).
Notation nkey := (nkey key fold).
Notation xkeyo := (xkeyo key fold).

Lemma str_eqb_spec' a b : str_eqb a b = true <-> a = b.
Proof. apply str_eqb_spec. Qed.

Lemma ostr_eqb_spec a b : ostr_eqb a b = true <-> a = b.
Proof.
  destruct a as [x|], b as [y|]; cbn; try (split; [discriminate|congruence]); [|tauto].
  rewrite str_eqb_spec. split; congruence.
Qed.

(* the keys of the name maps are compared exactly *)
Lemma xk_eqb_spec a b : xk_eqb a b = true <-> a = b.
Proof.
  destruct a as [a1 a2], b as [b1 b2]. unfold xk_eqb. cbn [fst snd].
  rewrite andb_true_iff, Bool.eqb_true_iff, str_eqb_spec. split.
  - intros [-> ->]. reflexivity.
  - intro H. inversion H. auto.
Qed.

Lemma xko_eqb_spec a b : xko_eqb a b = true <-> a = b.
Proof.
  destruct a as [a1 a2], b as [b1 b2]. unfold xko_eqb. cbn [fst snd].
  rewrite andb_true_iff, Bool.eqb_true_iff, ostr_eqb_spec. split.
  - intros [-> ->]. reflexivity.
  - intro H. inversion H. auto.
Qed.

(* an element is filed under one of the exact keys of the pattern iff the pattern equals its value *)
Lemma xkey_xeq p e : (xkey e = (false, p) \/ xkey e = (true, lower p)) <-> xeq p e = true.
Proof.
  unfold Filter.xkey, Filter.xeq. destruct (fold e); rewrite str_eqb_spec; split.
  - intros [H|H]; [discriminate|]. injection H as H. symmetry. exact H.
  - intro H. right. rewrite H. reflexivity.
  - intros [H|H]; [|discriminate]. injection H as H. symmetry. exact H.
  - intro H. left. rewrite H. reflexivity.
Qed.

Lemma xlookup_spec nm p e : WK xkey nm ->
  (In e (xlookup p nm) <-> In e (elems nm) /\ xeq p e = true).
Proof.
  intro Hwk. unfold xlookup.
  rewrite in_app_iff, !(nm_get_spec xk_eqb xk_eqb_spec xkey nm _ e Hwk), <- xkey_xeq. tauto.
Qed.

(* a name key is selected by a pattern iff the pattern selects the element *)
Lemma xm_nkey p e : xm p (nkey e) = xeq p e.
Proof. reflexivity. Qed.

Lemma nmt_nkey p e : nmt mt ab p (nkey e) = sm p e.
Proof. reflexivity. Qed.

(* get_netlists: a netlist without the key is filed under None, and no non-empty pattern equals "" *)
Lemma xkeyo_xeq p e : p <> [] ->
  ((xkeyo e = (false, Some p) \/ xkeyo e = (true, Some (lower p))) <-> xeq p e = true).
Proof.
  intro Hp. destruct (has_key e) eqn:Hk.
  - unfold Filter.has_key in Hk. unfold Filter.xkeyo, Filter.xeq, Filter.val.
    destruct (key e) as [w|]; [|discriminate]. cbn [value_or_empty].
    destruct (fold e); rewrite str_eqb_spec; split.
    + intros [H|H]; [discriminate|]. injection H as H. symmetry. exact H.
    + intro H. right. rewrite H. reflexivity.
    + intros [H|H]; [|discriminate]. injection H as H. symmetry. exact H.
    + intro H. left. rewrite H. reflexivity.
  - rewrite (xeq_nokey key fold p e Hp Hk). unfold Filter.has_key in Hk. unfold Filter.xkeyo.
    destruct (key e); [discriminate|]. split; [|discriminate].
    intros [H|H]; discriminate.
Qed.

Lemma xolookup_spec nm p e : WK xkeyo nm -> p <> [] ->
  (In e (nm_get xko_eqb (false, Some p) nm ++ nm_get xko_eqb (true, Some (lower p)) nm) <->
   In e (elems nm) /\ xeq p e = true).
Proof.
  intros Hwk Hp.
  rewrite in_app_iff, !(nm_get_spec xko_eqb xko_eqb_spec xkeyo nm _ e Hwk), <- (xkeyo_xeq p e Hp). tauto.
Qed.

(* the elements that the collection loop adds, in order *)
Fixpoint fresh (others found : list id) : list id :=
  match others with
  | [] => []
  | e :: rest => if memb e found then fresh rest found else e :: fresh rest (e :: found)
  end.

Lemma fresh_spec others : forall found e, In e (fresh others found) <-> In e others /\ ~ In e found.
Proof.
  induction others as [|x rest IH]; intros found e; cbn [fresh]; [cbn; tauto|].
  destruct (memb x found) eqn:Em.
  - apply memb_In in Em. rewrite IH. cbn [In]. split; [tauto|]. intros [[<-|H] Hn]; tauto.
  - apply memb_false in Em. cbn [In]. rewrite IH. cbn [In]. split.
    + intros [<-|[H1 H2]]; tauto.
    + intros [[<-|H] Hn]; [tauto|]. destruct (Nat.eq_dec x e); [tauto|]. right. tauto.
Qed.

Lemma fresh_NoDup others : forall found, NoDup (fresh others found).
Proof.
  induction others as [|x rest IH]; intro found; cbn [fresh]; [constructor|].
  destruct (memb x found); [apply IH|]. constructor; [|apply IH].
  rewrite fresh_spec. cbn [In]. tauto.
Qed.

Lemma collect_eq others : forall found nm,
  collect key fold others found nm =
  (rev (fresh others found) ++ found, build xk_eqb nkey (fresh others found) nm).
Proof.
  induction others as [|x rest IH]; intros found nm; cbn [collect fresh]; [reflexivity|].
  destruct (memb x found); [apply IH|]. rewrite IH. cbn [rev build fold_left].
  rewrite <- app_assoc. reflexivity.
Qed.

Lemma collect_netlists_eq objs : forall found nm,
  collect_netlists key fold objs found nm =
  (rev (fresh objs found) ++ found, build xko_eqb xkeyo (fresh objs found) nm).
Proof.
  induction objs as [|x rest IH]; intros found nm; cbn [collect_netlists fresh]; [reflexivity|].
  destruct (memb x found); [apply IH|]. rewrite IH. cbn [rev build fold_left].
  rewrite <- app_assoc. reflexivity.
Qed.

Lemma em_abs p e : ab p = true -> (em p e = true <-> val e = p).
Proof. intro H. unfold Filter.em. apply abs_eq, H. Qed.

(* ---- get_instances / get_libraries ---- *)

Lemma memb_app x (a b : list id) : memb x (a ++ b) = memb x a || memb x b.
Proof.
  destruct (memb x (a ++ b)) eqn:E1, (memb x a) eqn:E2, (memb x b) eqn:E3; try reflexivity; exfalso;
    rewrite ?memb_In, ?memb_false in *; rewrite in_app_iff in E1; tauto.
Qed.

Lemma fresh_ext others : forall f1 f2, (forall x, In x f1 <-> In x f2) -> fresh others f1 = fresh others f2.
Proof.
  induction others as [|x rest IH]; intros f1 f2 H; cbn [fresh]; [reflexivity|].
  assert (E : memb x f1 = memb x f2).
  { destruct (memb x f1) eqn:E1, (memb x f2) eqn:E2; try reflexivity; exfalso;
      rewrite ?memb_In, ?memb_false in *; apply H in E1 || apply H in E2; tauto. }
  rewrite E. destruct (memb x f2); [apply IH, H|]. f_equal. apply IH. intro y. cbn [In]. rewrite H. tauto.
Qed.

Lemma collect_fresh_eq others yielded : forall found nm,
  collect_fresh key fold others yielded found nm =
  (rev (fresh others (yielded ++ found)) ++ found, build xk_eqb xkey (fresh others (yielded ++ found)) nm).
Proof.
  induction others as [|x rest IH]; intros found nm; cbn [collect_fresh fresh]; [reflexivity|].
  rewrite memb_app. destruct (memb x yielded || memb x found); [apply IH|]. rewrite IH.
  rewrite (fresh_ext rest (yielded ++ x :: found) (x :: yielded ++ found))
    by (intro y; cbn [In]; rewrite !in_app_iff; cbn [In]; tauto).
  cbn [rev build fold_left]. rewrite <- app_assoc. reflexivity.
Qed.

Lemma stageB_found_pats_spec nm pats : WK xkey nm ->
  forall found, NoDup found -> incl found (elems nm) ->
  NoDup (stageB_found_pats key mt ab pats found nm) /\
  forall e, In e (stageB_found_pats key mt ab pats found nm) <-> In e found /\ any_match pats e = true.
Proof.
  intros Hwk. induction pats as [|p ps IH]; intros found Hnd Hinc; cbn [stageB_found_pats].
  - split; [constructor|]. intro e. cbn. split; [intros []|]. intros [_ H]. discriminate.
  - destruct (ab p) eqn:Ea.
    + destruct (take (xlookup p nm) found) as [y found'] eqn:Et.
      destruct (take_spec _ _ _ _ Et) as (T1 & T2 & T3 & T4).
      assert (Hy : forall e, In e y <-> In e found /\ sm p e = true).
      { intro e. rewrite T1, (xlookup_spec nm p e Hwk), (sm_abs key fold mt ab p e Ea).
        split; [tauto|]. intros [H1 H2]. repeat split; auto. }
      destruct (IH found' (T4 Hnd)) as [I1 I2].
      { intros x Hx. apply T2 in Hx as [Hx _]. apply Hinc, Hx. }
      split.
      * apply NoDup_app_iff. repeat split; auto. intros x Hx Hr. apply I2 in Hr as [Hr _].
        apply T2 in Hr as [_ Hr]. apply T1 in Hx as [Hx _]. contradiction.
      * intro e. rewrite in_app_iff, I2, Hy, T2, any_match_cons, orb_true_iff. split; [tauto|].
        intros [Hf [Hm|Hm]]; [tauto|]. destruct (sm p e) eqn:Ep; [tauto|]. right.
        repeat split; auto. intro Hi.
        assert (In e y) as Hey by (apply T1; tauto). apply Hy in Hey as [_ Hey]. congruence.
    + destruct (IH (filter (fun e => negb (em p e)) found) (NoDup_filter _ _ Hnd)) as [I1 I2].
      { intros x Hx. apply filter_In in Hx as [Hx _]. apply Hinc, Hx. }
      split.
      * apply NoDup_app_iff. split; [apply NoDup_filter, Hnd|]. split; [exact I1|].
        intros x Hx Hr. apply filter_In in Hx as [_ Hx]. apply I2 in Hr as [Hr _].
        apply filter_In in Hr as [_ Hr]. rewrite Hx in Hr. discriminate.
      * intro e. rewrite in_app_iff, I2, !filter_In, negb_true_iff, any_match_cons, orb_true_iff.
        rewrite (sm_nonabs key fold mt ab p e Ea).
        split; [tauto|]. intros [Hf [Hm|Hm]]; [tauto|]. destruct (em p e) eqn:Ep; tauto.
Qed.

(* what stage B of get_instances / get_libraries yields: the collected elements that stage A has not
   yielded and that match, each once *)
Theorem stageB_found_full others pats yielded :
  NoDup (stageB_found key fold mt ab others pats yielded) /\
  forall e, In e (stageB_found key fold mt ab others pats yielded) <->
            In e others /\ ~ In e yielded /\ any_match pats e = true.
Proof.
  unfold stageB_found. destruct others as [|o others]; [split; [constructor|cbn; tauto]|].
  set (os := o :: others). rewrite collect_fresh_eq, !app_nil_r.
  destruct (build_spec xk_eqb xk_eqb_spec xkey (fresh os yielded) [] (WK_nil _) (fresh_NoDup _ _))
    as [Hwk Hel]; [intros x _ []|].
  destruct (stageB_found_pats_spec _ pats Hwk (rev (fresh os yielded))) as [H1 H2].
  - apply NoDup_rev, fresh_NoDup.
  - intros x Hx. apply Hel. right. apply in_rev. exact Hx.
  - split; [exact H1|]. intro e. rewrite H2, <- in_rev, fresh_spec. tauto.
Qed.

Theorem stageB_found_spec others pats yielded e :
  In e (stageB_found key fold mt ab others pats yielded) <->
  In e others /\ ~ In e yielded /\ any_match pats e = true.
Proof. apply stageB_found_full. Qed.

Theorem stageB_found_NoDup others pats yielded : NoDup (stageB_found key fold mt ab others pats yielded).
Proof. apply stageB_found_full. Qed.

(* ---- get_definitions, get_ports, get_cables ---- *)

Lemma stageB_names_pats_spec pats : forall nm e, WK nkey nm ->
  (In e (stageB_names_pats mt ab pats nm) <-> In e (elems nm) /\ any_match pats e = true).
Proof.
  induction pats as [|p ps IH]; intros nm e Hwk; cbn [stageB_names_pats].
  - cbn. split; [intros []|]. intros [_ H]. discriminate.
  - rewrite any_match_cons, orb_true_iff, in_app_iff.
    rewrite IH by (apply WK_filter; exact Hwk).
    rewrite (elems_filter_spec nkey (fun n => nmt mt ab p n) nm e Hwk).
    rewrite (elems_filter_spec nkey (fun n => negb (nmt mt ab p n)) nm e Hwk), negb_true_iff, nmt_nkey.
    split; [tauto|]. intros [H [H1|H1]]; [tauto|].
    destruct (sm p e) eqn:E; [left|right]; tauto.
Qed.

Lemma stageB_names_pats_NoDup pats : forall nm, WK nkey nm ->
  NoDup (stageB_names_pats mt ab pats nm).
Proof.
  induction pats as [|p ps IH]; intros nm Hwk; cbn [stageB_names_pats]; [constructor|].
  apply NoDup_app_iff.
  split; [apply (WK_filter nkey (fun ne => nmt mt ab p (fst ne)) nm Hwk)|]. split; [apply IH, WK_filter, Hwk|].
  intros x Hx Hr. apply (elems_filter_spec nkey (fun n => nmt mt ab p n) nm x Hwk) in Hx as [_ Hx].
  apply (stageB_names_pats_spec ps _ x (WK_filter nkey _ _ Hwk)) in Hr as [Hr _].
  apply (elems_filter_spec nkey (fun n => negb (nmt mt ab p n)) nm x Hwk) in Hr as [_ Hr].
  rewrite Hx in Hr. discriminate.
Qed.

Lemma collected_nm others found :
  WK nkey (build xk_eqb nkey (fresh others found) []) /\
  forall x, In x (elems (build xk_eqb nkey (fresh others found) [])) <-> In x others /\ ~ In x found.
Proof.
  destruct (build_spec xk_eqb xk_eqb_spec nkey (fresh others found) [] (WK_nil _) (fresh_NoDup _ _))
    as [Hwk Hel]; [intros x _ []|].
  split; [exact Hwk|]. intro x. rewrite Hel, fresh_spec. cbn. tauto.
Qed.

Theorem stageB_names_spec others pats found e :
  In e (stageB_names key fold mt ab others pats found) <->
  In e others /\ ~ In e found /\ any_match pats e = true.
Proof.
  unfold stageB_names. destruct others as [|o others]; [cbn; tauto|].
  set (os := o :: others). rewrite collect_eq.
  destruct (collected_nm os found) as [Hwk Hel].
  rewrite (stageB_names_pats_spec pats _ e Hwk), Hel. tauto.
Qed.

Theorem stageB_names_NoDup others pats found :
  NoDup (stageB_names key fold mt ab others pats found).
Proof.
  unfold stageB_names. destruct others as [|o others]; [constructor|].
  rewrite collect_eq. apply stageB_names_pats_NoDup. apply collected_nm.
Qed.

(* ---- get_netlists ---- *)

Lemma key_val_nonempty p e : p <> [] -> (key e = Some p <-> val e = p).
Proof.
  intro Hp. unfold Filter.val, value_or_empty. destruct (key e) as [w|]; split.
  - intro H. inversion H. reflexivity.
  - intro H. subst. reflexivity.
  - discriminate.
  - intro H. symmetry in H. contradiction.
Qed.

Lemma stageB_netlists_pats_spec nm pats : WK xkeyo nm -> good_pats ab pats ->
  forall found, NoDup found -> incl found (elems nm) ->
  NoDup (stageB_netlists_pats key mt ab pats found nm) /\
  forall e, In e (stageB_netlists_pats key mt ab pats found nm) <-> In e found /\ any_match pats e = true.
Proof.
  intros Hwk. induction pats as [|p ps IH]; intros Hg found Hnd Hinc; cbn [stageB_netlists_pats].
  - split; [constructor|]. intro e. cbn. split; [intros []|]. intros [_ H]. discriminate.
  - assert (Hg' : good_pats ab ps) by (intros q Hq; apply Hg; right; exact Hq).
    destruct (ab p) eqn:Ea.
    + assert (Hp : p <> []) by (apply Hg; [left; reflexivity|exact Ea]).
      destruct (take (nm_get xko_eqb (false, Some p) nm ++ nm_get xko_eqb (true, Some (lower p)) nm) found)
        as [y found'] eqn:Et.
      destruct (take_spec _ _ _ _ Et) as (T1 & T2 & T3 & T4).
      assert (Hy : forall e, In e y <-> In e found /\ sm p e = true).
      { intro e. rewrite T1, (xolookup_spec nm p e Hwk Hp), (sm_abs key fold mt ab p e Ea).
        split; [tauto|]. intros [H1 H2]. repeat split; auto. }
      destruct (IH Hg' found' (T4 Hnd)) as [I1 I2].
      { intros x Hx. apply T2 in Hx as [Hx _]. apply Hinc, Hx. }
      split.
      * apply NoDup_app_iff. repeat split; auto. intros x Hx Hr. apply I2 in Hr as [Hr _].
        apply T2 in Hr as [_ Hr]. apply T1 in Hx as [Hx _]. contradiction.
      * intro e. rewrite in_app_iff, I2, Hy, T2, any_match_cons, orb_true_iff. split; [tauto|].
        intros [Hf [Hm|Hm]]; [tauto|]. destruct (sm p e) eqn:Ep; [tauto|]. right.
        repeat split; auto. intro Hi.
        assert (In e y) as Hey by (apply T1; tauto). apply Hy in Hey as [_ Hey]. congruence.
    + destruct (IH Hg' (filter (fun e => negb (em p e)) found) (NoDup_filter _ _ Hnd)) as [I1 I2].
      { intros x Hx. apply filter_In in Hx as [Hx _]. apply Hinc, Hx. }
      split.
      * apply NoDup_app_iff. split; [apply NoDup_filter, Hnd|]. split; [exact I1|].
        intros x Hx Hr. apply filter_In in Hx as [_ Hx]. apply I2 in Hr as [Hr _].
        apply filter_In in Hr as [_ Hr]. rewrite Hx in Hr. discriminate.
      * intro e. rewrite in_app_iff, I2, !filter_In, negb_true_iff, any_match_cons, orb_true_iff.
        rewrite (sm_nonabs key fold mt ab p e Ea).
        split; [tauto|]. intros [Hf [Hm|Hm]]; [tauto|]. destruct (em p e) eqn:Ep; tauto.
Qed.

Theorem stageB_netlists_spec objs pats : good_pats ab pats ->
  NoDup (stageB_netlists key fold mt ab objs pats) /\
  forall e, In e (stageB_netlists key fold mt ab objs pats) <-> In e objs /\ any_match pats e = true.
Proof.
  intro Hg. unfold stageB_netlists. rewrite collect_netlists_eq, app_nil_r.
  destruct (build_spec xko_eqb xko_eqb_spec xkeyo (fresh objs []) [] (WK_nil _) (fresh_NoDup _ _))
    as [Hwk Hel]; [intros x _ []|].
  destruct (stageB_netlists_pats_spec _ pats Hwk Hg (rev (fresh objs []))) as [H1 H2].
  - apply NoDup_rev, fresh_NoDup.
  - intros x Hx. apply Hel. right. apply in_rev. exact Hx.
  - split; [exact H1|]. intro e. rewrite H2, <- in_rev, fresh_spec. cbn. tauto.
Qed.

End StageB.

(* ---- hierarchical queries ---- *)

Section Hier.
Variable mt : str -> str -> bool.
Variable ab : str -> bool.
Hypothesis abs_eq : forall p v, ab p = true -> (mt p v = true <-> v = p).
Variable hname : id -> str.

Lemma stageB_hier_pats_spec nm pats : WK hname nm ->
  forall live, NoDup live -> incl live (elems nm) ->
  NoDup (stageB_hier_pats mt ab pats live nm) /\
  forall e, In e (stageB_hier_pats mt ab pats live nm) <->
            In e live /\ existsb (fun p => mt p (hname e)) pats = true.
Proof.
  intro Hwk. induction pats as [|p ps IH]; intros live Hnd Hinc; cbn [stageB_hier_pats].
  - split; [constructor|]. intro e. cbn. split; [intros []|]. intros [_ H]. discriminate.
  - set (sel := if ab p then take (nm_get str_eqb p nm) live
                else take_names (filter (fun ne => mt p (fst ne)) nm) live).
    assert (Hsel : forall y live', sel = (y, live') ->
              (forall e, In e y <-> In e live /\ mt p (hname e) = true) /\
              (forall e, In e live' <-> In e live /\ mt p (hname e) = false) /\
              NoDup y /\ NoDup live').
    { intros y live' E. unfold sel in E. destruct (ab p) eqn:Ea.
      - destruct (take_spec _ _ _ _ E) as (T1 & T2 & T3 & T4).
        assert (Hg : forall e, In e live -> (In e (nm_get str_eqb p nm) <-> mt p (hname e) = true)).
        { intros e He. rewrite (nm_get_spec str_eqb str_eqb_spec hname nm p e Hwk), (abs_eq p _ Ea).
          split; [tauto|]. intro H. split; [apply Hinc, He|exact H]. }
        split; [|split; [|split]].
        + intro e. rewrite T1. split.
          * intros [H1 H2]. split; [exact H2|]. apply Hg; assumption.
          * intros [H1 H2]. split; [apply Hg; assumption|exact H1].
        + intro e. rewrite T2. split.
          * intros [H1 H2]. split; [exact H1|].
            destruct (mt p (hname e)) eqn:Em; [|reflexivity]. exfalso. apply H2. apply Hg; assumption.
          * intros [H1 H2]. split; [exact H1|]. intro H. apply Hg in H; [congruence|exact H1].
        + exact T3.
        + apply T4, Hnd.
      - destruct (take_names_spec _ _ _ _ E) as (T1 & T2 & T3).
        assert (Hg : forall e, In e live ->
                  (In e (elems (filter (fun ne => mt p (fst ne)) nm)) <-> mt p (hname e) = true)).
        { intros e He. rewrite (elems_filter_spec hname (fun n => mt p n) nm e Hwk).
          split; [tauto|]. intro H. split; [apply Hinc, He|exact H]. }
        destruct (T3 Hnd) as [T4 T5]. split; [|split; [|split]].
        + intro e. rewrite T1. split.
          * intros [H1 H2]. split; [exact H2|]. apply Hg; assumption.
          * intros [H1 H2]. split; [apply Hg; assumption|exact H1].
        + intro e. rewrite T2. split.
          * intros [H1 H2]. split; [exact H1|].
            destruct (mt p (hname e)) eqn:Em; [|reflexivity]. exfalso. apply H2. apply Hg; assumption.
          * intros [H1 H2]. split; [exact H1|]. intro H. apply Hg in H; [congruence|exact H1].
        + exact T4.
        + exact T5. }
    fold sel. destruct sel as [y live'] eqn:Es. destruct (Hsel y live' eq_refl) as (S1 & S2 & S3 & S4).
    destruct (IH live' S4) as [I1 I2].
    { intros x Hx. apply S2 in Hx as [Hx _]. apply Hinc, Hx. }
    split.
    + apply NoDup_app_iff. repeat split; auto. intros x Hx Hr. apply I2 in Hr as [Hr _].
      apply S2 in Hr as [_ Hr]. apply S1 in Hx as [_ Hx]. congruence.
    + intro e. rewrite in_app_iff, I2, S1, S2. cbn [existsb]. rewrite orb_true_iff.
      split; [tauto|]. intros [Hl [Hm|Hm]]; [tauto|]. destruct (mt p (hname e)); tauto.
Qed.

(* refs: the references entered in the name map (each once); in_yield: those already yielded
   without looking at the patterns *)
Theorem stageB_hier_spec refs in_yield pats : NoDup refs ->
  NoDup (stageB_hier mt ab hname refs in_yield pats) /\
  forall e, In e (stageB_hier mt ab hname refs in_yield pats) <->
            In e refs /\ ~ In e in_yield /\ existsb (fun p => mt p (hname e)) pats = true.
Proof.
  intro Hnd. unfold stageB_hier, build_hier_nm.
  destruct (build_spec str_eqb str_eqb_spec hname refs [] (WK_nil _) Hnd) as [Hwk Hel]; [intros x _ []|].
  fold (build str_eqb hname refs []).
  destruct (stageB_hier_pats_spec _ pats Hwk (remove_all_in in_yield refs)) as [H1 H2].
  - unfold remove_all_in. apply NoDup_filter, Hnd.
  - intros x Hx. apply remove_all_in_In in Hx as [Hx _]. apply Hel. right. exact Hx.
  - split; [exact H1|]. intro e. rewrite H2, remove_all_in_In. tauto.
Qed.
End Hier.
