(* Correctness of the generic work-list closure of Hier/Trace.v (Section WorkList: memB, visit,
   wl_close), the model of spydrnet/util/get_hwires.py `_get_hwires_from_hpins`.

   1. worklist_closure_correct : over a finite universe U of wires the loop with a visited set
      returns exactly the set reachable from the start pins, each wire once, as soon as the fuel
      exceeds (number of start pins + total number of pin slots of U).
   2. worklist_no_expand       : the variant without pushes (pins := fun _ => []) returns the
      wires of the start pins.
   3. conn_*, reach_*_conn     : for well-formed nodes (pins/nb mutually inverse) reachability is
      an equivalence relation and the closure computes the class of the start wire.
   4. a 3-wire chain as a satisfiability check of the premises of 1.

   Stdlib only, no axioms. *)
From Coq Require Import List Arith Bool Lia Relations Permutation.
From SV Require Import Base.Base IR.State Hier.Paths Hier.Enum Hier.Trace.
Import ListNotations.

Section Closure.
  Variables A B : Type.
  Variable eqA : A -> A -> bool.
  Variable eqB : B -> B -> bool.
  Hypothesis eqA_spec : forall x y, eqA x y = true <-> x = y.
  Hypothesis eqB_spec : forall x y, eqB x y = true <-> x = y.
  Variable nb : A -> list B.

  (* ---------------------------------------------------------------------------------------- *)
  (* 1. the closure, for an arbitrary [pins] (inner section: the corollary 2 instantiates it)  *)
  Section Gen.
  Variable pins : B -> list A.

  Inductive reach (init : list A) : B -> Prop :=
  | reach_init a b : In a init -> In b (nb a) -> reach init b
  | reach_step b a b' : reach init b -> In a (pins b) -> In b' (nb a) -> reach init b'.

  Local Notation mem := (memB B eqB).
  Local Notation vis := (visit A B eqA eqB pins).
  Local Notation wl := (wl_close A B eqA eqB nb pins).

  Lemma memB_In : forall b l, mem b l = true <-> In b l.
  Proof.
    intros b. induction l as [|c l IH]; simpl.
    - split; [discriminate | tauto].
    - rewrite orb_true_iff, IH, eqB_spec. split; intros [H|H]; subst; auto.
  Qed.

  Lemma memB_nIn : forall b l, mem b l = false <-> ~ In b l.
  Proof.
    intros b l. rewrite <- memB_In. destruct (mem b l); split; intros H; congruence.
  Qed.

  Lemma mem_cons : forall c b l, mem c (b :: l) = eqB c b || mem c l.
  Proof. reflexivity. Qed.

  Lemma eqB_refl : forall b, eqB b b = true.
  Proof. intros b. apply eqB_spec. reflexivity. Qed.

  Lemma eqB_neq : forall b c, b <> c -> eqB b c = false.
  Proof.
    intros b c H. destruct (eqB b c) eqn:E; auto. apply eqB_spec in E. contradiction.
  Qed.

  (* the measure: pin slots of the wires of the universe that are not found yet *)
  Definition wsum (U found : list B) : nat :=
    list_sum (map (fun b => length (pins b)) (filter (fun b => negb (mem b found)) U)).

  Lemma wsum_cons : forall c U found,
    wsum (c :: U) found = if mem c found then wsum U found else length (pins c) + wsum U found.
  Proof. intros c U found. unfold wsum. cbn [filter]. destruct (mem c found); reflexivity. Qed.

  Lemma wsum_nil_l : forall found, wsum [] found = 0.
  Proof. reflexivity. Qed.

  Lemma wsum_nil : forall U, wsum U [] = list_sum (map (fun b => length (pins b)) U).
  Proof.
    induction U as [|c U IH]; [reflexivity|].
    rewrite wsum_cons. cbn [memB map list_sum]. rewrite IH. reflexivity.
  Qed.

  Lemma wsum_notin : forall U b found, ~ In b U -> wsum U (b :: found) = wsum U found.
  Proof.
    induction U as [|c U IH]; intros b found Hn; [reflexivity|].
    rewrite !wsum_cons, mem_cons.
    rewrite (eqB_neq c b) by (intro; subst; apply Hn; left; reflexivity).
    cbn [orb]. rewrite IH by (intro; apply Hn; right; assumption). reflexivity.
  Qed.

  Lemma wsum_in : forall U b found, NoDup U -> In b U -> ~ In b found ->
    wsum U found = wsum U (b :: found) + length (pins b).
  Proof.
    induction U as [|c U IH]; intros b found Hnd Hin Hnf; [destruct Hin|].
    inversion Hnd as [|? ? Hc HU]; subst.
    rewrite !wsum_cons, mem_cons.
    destruct Hin as [->|Hin].
    - rewrite eqB_refl. cbn [orb]. apply memB_nIn in Hnf. rewrite Hnf.
      rewrite wsum_notin by assumption. lia.
    - rewrite (eqB_neq c b) by (intro; subst; contradiction).
      cbn [orb]. rewrite (IH b found) by assumption.
      destruct (mem c found); lia.
  Qed.

  Lemma In_rev_append : forall (l st : list A) x, In x (rev_append l st) <-> In x l \/ In x st.
  Proof. intros. rewrite rev_append_rev, in_app_iff, <- in_rev. tauto. Qed.

  Lemma filter_len_le : forall (f : A -> bool) l, length (filter f l) <= length l.
  Proof. intros f. induction l as [|x l IH]; simpl; [lia|]. destruct (f x); simpl; lia. Qed.

  Lemma visit_eq : forall a st found b,
    vis a (st, found) b =
    if mem b found then (st, found)
    else (rev_append (filter (fun x => negb (eqA x a)) (pins b)) st, b :: found).
  Proof. reflexivity. Qed.

  (* one pop = one fold of [visit a] over [nb a] *)
  Lemma fold_visit : forall a l st found st' found',
    fold_left (vis a) l (st, found) = (st', found') ->
    incl found found' /\
    incl st st' /\
    (forall b, In b found' -> In b found \/ In b l) /\
    (forall b, In b l -> In b found') /\
    (NoDup found -> NoDup found') /\
    (forall x, In x st' -> In x st \/ exists b, In b found' /\ In x (pins b)) /\
    (forall b x, In b found' -> ~ In b found -> In x (pins b) -> x <> a -> In x st').
  Proof.
    intros a. induction l as [|b l IH]; intros st found st' found' H.
    - cbn in H. inversion H; subst. repeat apply conj; auto using incl_refl.
      + intros b [].
      + intros b x H1 H2. contradiction.
    - cbn [fold_left] in H. rewrite visit_eq in H. destruct (mem b found) eqn:E.
      + apply IH in H. destruct H as (H1&H2&H3&H4&H5&H6&H7). apply memB_In in E.
        repeat apply conj; auto.
        * intros b0 Hb. destruct (H3 b0 Hb); [left|right;right]; assumption.
        * intros b0 [<-|Hb]; auto.
      + apply IH in H. destruct H as (H1&H2&H3&H4&H5&H6&H7). apply memB_nIn in E.
        repeat apply conj.
        * intros y Hy. apply H1. right; assumption.
        * intros y Hy. apply H2. apply In_rev_append. right; assumption.
        * intros b0 Hb. destruct (H3 b0 Hb) as [[<-|Hf]|Hl].
          -- right; left; reflexivity.
          -- left; assumption.
          -- right; right; assumption.
        * intros b0 [<-|Hb]; [apply H1; left; reflexivity | auto].
        * intros Hnd. apply H5. constructor; assumption.
        * intros x Hx. destruct (H6 x Hx) as [Hs|Hex]; [|right; assumption].
          apply In_rev_append in Hs. destruct Hs as [Hs|Hs]; [|left; assumption].
          right. exists b. split; [apply H1; left; reflexivity|].
          apply filter_In in Hs. tauto.
        * intros b0 x Hb Hnf Hx Hxa.
          destruct (eqB b0 b) eqn:Eb.
          -- apply eqB_spec in Eb. subst b0. apply H2. apply In_rev_append. left.
             apply filter_In. split; [assumption|].
             destruct (eqA x a) eqn:Ea; [|reflexivity].
             apply eqA_spec in Ea. contradiction.
          -- apply (H7 b0 x); auto. intros [->|Hf]; [|contradiction].
             rewrite eqB_refl in Eb. discriminate.
  Qed.

  Lemma fold_visit_measure : forall U a, NoDup U -> forall l st found st' found',
    fold_left (vis a) l (st, found) = (st', found') ->
    (forall b, In b l -> In b U) ->
    length st' + wsum U found' <= length st + wsum U found.
  Proof.
    intros U a HU. induction l as [|b l IH]; intros st found st' found' H Hl.
    - cbn in H. inversion H; subst. lia.
    - cbn [fold_left] in H. rewrite visit_eq in H. destruct (mem b found) eqn:E.
      + apply IH in H; [assumption|]. intros; apply Hl; right; assumption.
      + apply IH in H; [|intros; apply Hl; right; assumption]. apply memB_nIn in E.
        rewrite (wsum_in U b found) by (auto; apply Hl; left; reflexivity).
        rewrite rev_append_rev, app_length, rev_length in H.
        pose proof (filter_len_le (fun x => negb (eqA x a)) (pins b)). lia.
  Qed.

  (* a pin that the loop has met: a start pin or a pin of a wire found *)
  Definition rpin (init : list A) (found : list B) (a : A) : Prop :=
    In a init \/ exists b, In b found /\ In a (pins b).

  (* the loop invariant, for an arbitrary loop state *)
  Lemma wl_inv : forall U init, NoDup U -> (forall b, reach init b -> In b U) ->
    forall fuel stack found,
      NoDup found ->
      (forall b, In b found -> reach init b) ->
      (forall a, In a stack -> rpin init found a) ->
      (forall a, rpin init found a -> In a stack \/ forall b, In b (nb a) -> In b found) ->
      length stack + wsum U found < fuel ->
      exists l, wl fuel stack found = Some l /\ NoDup l /\ forall b, In b l <-> reach init b.
  Proof.
    intros U init HU HUr. induction fuel as [|f IHf]; intros stack found Hnd I1 I2 I3 Hm; [lia|].
    destruct stack as [|a st].
    - exists found. split; [reflexivity|]. split; [assumption|].
      intros b; split; [apply I1|].
      induction 1 as [a b Ha Hb|b a b' _ IH Ha Hb].
      + destruct (I3 a (or_introl Ha)) as [[]|Hc]. auto.
      + destruct (I3 a (or_intror (ex_intro _ b (conj IH Ha)))) as [[]|Hc]. auto.
    - cbn [wl_close].
      destruct (fold_left (vis a) (nb a) (st, found)) as [st' found'] eqn:E.
      destruct (fold_visit _ _ _ _ _ _ E) as (F1&F2&F3&F4&F5&F6&F7).
      assert (Ha : rpin init found a) by (apply I2; left; reflexivity).
      assert (Hnb : forall b, In b (nb a) -> reach init b).
      { intros b Hb. destruct Ha as [Ha|(b0&Hb0&Ha)].
        - eapply reach_init; eauto.
        - eapply reach_step; eauto. }
      pose proof (fold_visit_measure U a HU _ _ _ _ _ E (fun b Hb => HUr b (Hnb b Hb))) as M.
      apply IHf.
      + auto.
      + intros b Hb. destruct (F3 b Hb); auto.
      + intros x Hx. destruct (F6 x Hx) as [Hx'|Hx'].
        * destruct (I2 x (or_intror Hx')) as [Hi|(b&Hb&Hp)]; [left; assumption|].
          right. exists b. auto.
        * right; assumption.
      + intros x Hx.
        assert (Hold : rpin init found x ->
                       In x st' \/ forall b, In b (nb x) -> In b found').
        { intros Hr. destruct (I3 x Hr) as [[<-|Hs]|Hc];
            [right; auto | left; auto | right; auto]. }
        destruct Hx as [Hx|(b&Hb&Hx)]; [apply Hold; left; assumption|].
        destruct (mem b found) eqn:Em.
        * apply memB_In in Em. apply Hold. right. exists b. auto.
        * apply memB_nIn in Em. destruct (eqA x a) eqn:Ea.
          -- apply eqA_spec in Ea. subst x. right. auto.
          -- left. apply (F7 b x); auto. intros ->.
             rewrite (proj2 (eqA_spec a a) eq_refl) in Ea. discriminate.
      + cbn [length] in Hm. lia.
  Qed.

  Theorem worklist_closure_correct : forall (U : list B) (init : list A) (fuel : nat),
    NoDup U ->
    (forall b, reach init b -> In b U) ->
    length init + list_sum (map (fun b => length (pins b)) U) < fuel ->
    exists l, wl_close A B eqA eqB nb pins fuel init [] = Some l /\ NoDup l /\
              (forall b, In b l <-> reach init b).
  Proof.
    intros U init fuel HU HUr Hf.
    apply (wl_inv U init HU HUr).
    - constructor.
    - intros b [].
    - intros a Ha. left. assumption.
    - intros a [Ha|(b&[]&_)]. left. assumption.
    - rewrite wsum_nil. assumption.
  Qed.

  End Gen.

  (* ---------------------------------------------------------------------------------------- *)
  (* 2. no pushes                                                                              *)
  Lemma reach_nopins : forall init b,
    reach (fun _ => []) init b <-> exists a, In a init /\ In b (nb a).
  Proof.
    intros init b. split.
    - induction 1 as [a b Ha Hb|b a b' _ _ Ha _].
      + exists a. auto.
      + cbn in Ha. contradiction.
    - intros (a&Ha&Hb). eapply reach_init; eauto.
  Qed.

  Lemma decB : forall x y : B, {x = y} + {x <> y}.
  Proof.
    intros x y. destruct (eqB x y) eqn:E.
    - left. apply eqB_spec. assumption.
    - right. intro H. apply eqB_spec in H. congruence.
  Qed.

  Lemma list_sum_map_zero : forall (X : Type) (f : X -> nat) l,
    (forall x, f x = 0) -> list_sum (map f l) = 0.
  Proof. intros X f l H. induction l as [|x l IH]; simpl; [reflexivity|]. rewrite H, IH. reflexivity. Qed.

  Corollary worklist_no_expand : forall init fuel,
    length init < fuel ->
    exists l, wl_close A B eqA eqB nb (fun _ => []) fuel init [] = Some l /\ NoDup l /\
              (forall b, In b l <-> exists a, In a init /\ In b (nb a)).
  Proof.
    intros init fuel Hf.
    destruct (worklist_closure_correct (fun _ => []) (nodup decB (flat_map nb init)) init fuel)
      as (l&H1&H2&H3).
    - apply NoDup_nodup.
    - intros b Hb. apply nodup_In. apply in_flat_map. apply reach_nopins. assumption.
    - rewrite list_sum_map_zero by reflexivity. lia.
    - exists l. split; [assumption|]. split; [assumption|].
      intros b. rewrite H3. apply reach_nopins.
  Qed.

  (* ---------------------------------------------------------------------------------------- *)
  (* 3. connectivity as an equivalence on well-formed nodes                                    *)
  Section Conn.
  Variable pins : B -> list A.
  Variable GA : A -> Prop.
  Variable GB : B -> Prop.
  Hypothesis g_pins : forall b a, GB b -> In a (pins b) -> GA a.
  Hypothesis g_nb : forall a b, GA a -> In b (nb a) -> GB b.
  Hypothesis sym1 : forall a b, GB b -> In a (pins b) -> In b (nb a).
  Hypothesis sym2 : forall a b, GA a -> In b (nb a) -> In a (pins b).

  Definition step1 (b b' : B) : Prop := exists a, In a (pins b) /\ In b' (nb a).
  Definition conn : B -> B -> Prop := clos_refl_trans B step1.

  Lemma conn_good : forall x y, GB x -> conn x y -> GB y.
  Proof.
    intros x y G H. revert G. unfold conn in H.
    induction H as [x y (a&H1&H2)|x|x y z _ IH1 _ IH2]; intros G; auto.
    eapply g_nb; eauto.
  Qed.

  Theorem conn_sym : forall x y, GB x -> conn x y -> conn y x.
  Proof.
    intros x y G H. revert G. unfold conn in *.
    induction H as [x y (a&H1&H2)|x|x y z H1 IH1 H2 IH2]; intros G.
    - apply rt_step. exists a. split.
      + apply sym2; [eapply g_pins; eauto | assumption].
      + apply sym1; assumption.
    - apply rt_refl.
    - apply rt_trans with y; [apply IH2|apply IH1]; auto.
      apply (conn_good x y); assumption.
  Qed.

  Theorem conn_class_eq : forall x y, GB x -> conn x y -> forall b, conn x b <-> conn y b.
  Proof.
    intros x y G H b. split; intros Hb.
    - apply rt_trans with x; [apply conn_sym; assumption | assumption].
    - apply rt_trans with y; assumption.
  Qed.

  (* the class of a wire = the wire + the closure started from its pins
     (holds without any well-formedness; the premise [GB x] of the corollary is not used) *)
  Lemma reach_pins_conn_gen : forall x b, (b = x \/ reach pins (pins x) b) <-> conn x b.
  Proof.
    intros x b. split.
    - intros [->|H]; [apply rt_refl|].
      induction H as [a b Ha Hb|b a b' _ IH Ha Hb].
      + apply rt_step. exists a. auto.
      + apply rt_trans with b; [exact IH|]. apply rt_step. exists a. auto.
    - intros H. apply clos_rt_rtn1 in H.
      induction H as [|y z (a&H1&H2) _ IH]; [left; reflexivity|].
      right. destruct IH as [->|IH].
      + eapply reach_init; eauto.
      + eapply reach_step; eauto.
  Qed.

  Theorem reach_pins_conn : forall x b, GB x -> (b = x \/ reach pins (pins x) b) <-> conn x b.
  Proof. intros x b _. apply reach_pins_conn_gen. Qed.

  (* with sym1 the start wire itself is found by the closure as soon as it has a pin *)
  Lemma reach_pins_self : forall x, GB x -> pins x <> [] -> reach pins (pins x) x.
  Proof.
    intros x G Hne. destruct (pins x) as [|a l] eqn:E; [contradiction|].
    apply reach_init with a; [left; reflexivity|].
    apply sym1; [assumption|]. rewrite E. left; reflexivity.
  Qed.

  Corollary reach_pins_conn_nonempty : forall x b, GB x -> pins x <> [] ->
    (reach pins (pins x) b <-> conn x b).
  Proof.
    intros x b G Hne. rewrite <- reach_pins_conn_gen. split; [auto|].
    intros [->|H]; [apply reach_pins_self|]; assumption.
  Qed.

  (* start from one pin that has a wire x *)
  Theorem reach_pin_conn : forall a x b, GA a -> In x (nb a) -> (reach pins [a] b <-> conn x b).
  Proof.
    intros a x b G Hx. split.
    - intros H. induction H as [a0 b Ha Hb|b a0 b' _ IH Ha Hb].
      + destruct Ha as [<-|[]]. apply rt_step. exists a. split; [apply sym2|]; assumption.
      + apply rt_trans with b; [exact IH|]. apply rt_step. exists a0. auto.
    - intros H. apply clos_rt_rtn1 in H.
      induction H as [|y z (a0&H1&H2) _ IH].
      + apply reach_init with a; [left; reflexivity|assumption].
      + eapply reach_step; eauto.
  Qed.

  (* the loop computes the class: get_hwires(hwire) = start wire + closure from its pins *)
  Corollary worklist_conn_class : forall (U : list B) (x : B) (fuel : nat),
    NoDup U ->
    (forall b, conn x b -> In b U) ->
    length (pins x) + list_sum (map (fun b => length (pins b)) U) < fuel ->
    exists l, wl_close A B eqA eqB nb pins fuel (pins x) [] = Some l /\ NoDup l /\
              (forall b, (b = x \/ In b l) <-> conn x b).
  Proof.
    intros U x fuel HU HUc Hf.
    destruct (worklist_closure_correct pins U (pins x) fuel HU) as (l&H1&H2&H3); [|assumption|].
    - intros b Hb. apply HUc. apply reach_pins_conn_gen. right. assumption.
    - exists l. split; [assumption|]. split; [assumption|].
      intros b. rewrite H3. apply reach_pins_conn_gen.
  Qed.

  End Conn.
End Closure.

(* ------------------------------------------------------------------------------------------ *)
(* 4. sanity: a chain of three wires 0 -(pin 0)- 1 -(pin 1)- 2                                 *)
Definition ex_nb (a : nat) : list nat :=
  match a with 0 => [0; 1] | 1 => [1; 2] | _ => [] end.
Definition ex_pins (b : nat) : list nat :=
  match b with 0 => [0] | 1 => [0; 1] | 2 => [1] | _ => [] end.

Example chain_run :
  wl_close nat nat Nat.eqb Nat.eqb ex_nb ex_pins 6 [0] [] = Some [2; 1; 0].
Proof. vm_compute. reflexivity. Qed.

Example chain_len : exists l,
  wl_close nat nat Nat.eqb Nat.eqb ex_nb ex_pins 6 [0] [] = Some l /\ length l = 3.
Proof. exists [2; 1; 0]. split; vm_compute; reflexivity. Qed.

Lemma chain_reach_U : forall b, reach nat nat ex_nb ex_pins [0] b -> In b [0; 1; 2].
Proof.
  intros b H. induction H as [a b Ha Hb|b a b' _ IH Ha Hb].
  - destruct Ha as [<-|[]]. simpl in *. tauto.
  - simpl in IH. destruct IH as [<-|[<-|[<-|[]]]]; simpl in Ha.
    + destruct Ha as [<-|[]]. simpl in *. tauto.
    + destruct Ha as [<-|[<-|[]]]; simpl in *; tauto.
    + destruct Ha as [<-|[]]. simpl in *. tauto.
Qed.

Example chain_thm : exists l,
  wl_close nat nat Nat.eqb Nat.eqb ex_nb ex_pins 6 [0] [] = Some l /\ NoDup l /\
  (forall b, In b l <-> reach nat nat ex_nb ex_pins [0] b).
Proof.
  apply (worklist_closure_correct nat nat Nat.eqb Nat.eqb Nat.eqb_eq Nat.eqb_eq
           ex_nb ex_pins [0; 1; 2] [0] 6).
  - repeat constructor; simpl; intuition discriminate.
  - exact chain_reach_U.
  - vm_compute. lia.
Qed.

(* all three wires of the chain are reachable from pin 0 *)
Example chain_all : forall b, In b [0; 1; 2] <-> reach nat nat ex_nb ex_pins [0] b.
Proof.
  destruct chain_thm as (l&H1&_&H3). rewrite chain_run in H1. inversion H1; subst l.
  intros b. rewrite <- H3. simpl. tauto.
Qed.

Print Assumptions worklist_closure_correct.
Print Assumptions worklist_no_expand.
Print Assumptions conn_good.
Print Assumptions conn_sym.
Print Assumptions conn_class_eq.
Print Assumptions reach_pins_conn.
Print Assumptions reach_pins_conn_nonempty.
Print Assumptions reach_pin_conn.
Print Assumptions worklist_conn_class.
Print Assumptions chain_thm.
Print Assumptions chain_all.
