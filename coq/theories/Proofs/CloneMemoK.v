(* Generalisation of Proofs/CloneMemo.v to a running memo: the invariant of phase one relative to a
   watermark state sk - entries created at or after the watermark are plain copies, everything below
   the watermark is left alone. *)
From Coq Require Import List Arith Bool Lia.
From RecordUpdate Require Import RecordSet.
From SV Require Import Base.Base IR.State IR.NS IR.Ops Xform.Clone Proofs.AssocX Proofs.Frame Proofs.Inv1a
  Proofs.InvW Proofs.Fresh Proofs.NsInv Proofs.CloneInv Proofs.RefK Proofs.CloneRef Proofs.CloneT Proofs.FieldT Proofs.CloneMemo.
Import ListNotations RecordSetNotations.

Record PK (s0 sk s : state) (m : memo) : Prop := mkPK {
  pk_le : next sk <= next s;
  pk_0k : next s0 <= next sk;
  pk_src : forall y, y < next s0 -> ipwire sk y = ipwire s0 y /\ wpins sk y = wpins s0 y /\ ipins sk y = ipins s0 y /\ kind_of sk y = kind_of s0 y /\ iref sk y = iref s0 y;
  pk_rng : forall a b, In (a, b) m -> a < next s0 /\ next s0 <= b < next s;
  pk_fun : NoDup (map fst m);
  pk_inj : NoDup (map snd m);
  pk_kind : forall a b, In (a, b) m -> kind_of s b = kind_of s0 a;
  pk_pin : forall a b, In (a, b) m -> next sk <= b -> kind_of s b = Some KPin -> ipwire s b = ipwire s0 a;
  pk_wire : forall a b, In (a, b) m -> next sk <= b -> kind_of s b = Some KWire -> wpins s b = wpins s0 a;
  pk_inst : forall a b, In (a, b) m -> next sk <= b -> kind_of s b = Some KInstance -> ipins s b = ipins s0 a /\ iref s b = iref s0 a;
  pk_def : forall y, next sk <= y ->
             (kind_of s y <> Some KPin -> ipwire s y = None) /\ (kind_of s y <> Some KWire -> wpins s y = []) /\
             (kind_of s y <> Some KInstance -> ipins s y = [] /\ iref s y = None);
  pk_cov : forall y, next sk <= y < next s ->
             (kind_of s y = Some KPin \/ kind_of s y = Some KWire \/ kind_of s y = Some KInstance) -> exists a, In (a, y) m;
  pk_old : forall y, y < next sk -> ipwire s y = ipwire sk y /\ wpins s y = wpins sk y /\ ipins s y = ipins sk y /\ kind_of s y = kind_of sk y /\ iref s y = iref sk y;
  pk_kids : forall r y, y < next s0 -> kids s r y = kids s0 r y;
  pk_fresh : forall y, next s <= y -> kind_of s y = None
}.

Lemma pk_start s0 sk m :
  next s0 <= next sk ->
  (forall y, y < next s0 -> ipwire sk y = ipwire s0 y /\ wpins sk y = wpins s0 y /\ ipins sk y = ipins s0 y /\ kind_of sk y = kind_of s0 y /\ iref sk y = iref s0 y) ->
  (forall a b, In (a, b) m -> a < next s0 /\ next s0 <= b < next sk) -> NoDup (map fst m) -> NoDup (map snd m) ->
  (forall a b, In (a, b) m -> kind_of sk b = kind_of s0 a) ->
  (forall y, next sk <= y -> kind_of sk y = None /\ ipwire sk y = None /\ wpins sk y = [] /\ ipins sk y = [] /\ iref sk y = None) ->
  (forall r y, y < next s0 -> kids sk r y = kids s0 r y) ->
  PK s0 sk sk m.
Proof.
  intros H0 Hsrc Hrng Hf Hi Hk Hab Hkids. constructor; try assumption.
  - apply Nat.le_refl.
  - intros a b H Hb. destruct (Hrng a b H). lia.
  - intros a b H Hb. destruct (Hrng a b H). lia.
  - intros a b H Hb. destruct (Hrng a b H). lia.
  - intros y Hy. destruct (Hab y Hy) as [_ [A [B [C D]]]]. split; [intros _; exact A|split; [intros _; exact B|intros _; split; assumption]].
  - intros y Hy. lia.
  - intros y Hy. repeat split.
  - intros y Hy. apply (proj1 (Hab y Hy)).
Qed.

(* a step that allocates one object of kind K for source x and copies at most one pin-wire field *)
Lemma pk_leaf s0 sk s m x K s' :
  PK s0 sk s m -> x < next s0 -> ~ In x (map fst m) -> kind_of s0 x = Some K ->
  next s' = S (next s) -> kind_of s' = upd (kind_of s) (next s) (Some K) -> kids s' = kids s ->
  (forall y, y <> next s -> ipwire s' y = ipwire s y /\ wpins s' y = wpins s y /\ ipins s' y = ipins s y /\ iref s' y = iref s y) ->
  ipwire s' (next s) = (if kind_eqb K KPin then ipwire s x else ipwire s (next s)) ->
  wpins s' (next s) = (if kind_eqb K KWire then wpins s x else wpins s (next s)) ->
  ipins s' (next s) = (if kind_eqb K KInstance then ipins s x else ipins s (next s)) ->
  iref s' (next s) = (if kind_eqb K KInstance then iref s x else iref s (next s)) ->
  PK s0 sk s' ((x, next s) :: m).
Proof.
  intros [P0 P0k Psrc P1 P2 P3 P4 P5 P6 P7 P8 P9 P10 P11 P12] Hx Hnx HK Hn Hkd Hkids Hoth Hw Hp Hi Hr.
  assert (Hkold : forall y, y <> next s -> kind_of s' y = kind_of s y).
  { intros y Hy. rewrite Hkd. unfold upd. apply Nat.eqb_neq in Hy. rewrite Hy. reflexivity. }
  assert (Hknew : kind_of s' (next s) = Some K) by (rewrite Hkd; apply upd_same).
  assert (Hb : forall a b, In (a, b) m -> b <> next s) by (intros a b H; destruct (P1 a b H); lia).
  assert (Hxk : x < next sk) by lia.
  destruct (P10 x Hxk) as [Oa1 [Oa2 [Oa3 [_ Oa4]]]]. destruct (Psrc x Hx) as [Ob1 [Ob2 [Ob3 [_ Ob4]]]].
  assert (Ox1 : ipwire s x = ipwire s0 x) by congruence. assert (Ox2 : wpins s x = wpins s0 x) by congruence.
  assert (Ox3 : ipins s x = ipins s0 x) by congruence. assert (Ox4 : iref s x = iref s0 x) by congruence.
  destruct (P8 (next s) P0) as [Dn1 [Dn2 Dn3]]. rewrite (P12 (next s) (Nat.le_refl _)) in Dn1, Dn2, Dn3.
  constructor.
  - lia.
  - exact P0k.
  - exact Psrc.
  - intros a b [E|H]; [injection E as <- <-; lia|destruct (P1 a b H); lia].
  - cbn. constructor; assumption.
  - cbn. constructor; [|exact P3]. intro H. apply in_map_iff in H as [[a b] [E H]]. cbn in E. subst b. apply (Hb a _ H). reflexivity.
  - intros a b [E|H]; [injection E as <- <-; rewrite Hknew, HK; reflexivity|rewrite (Hkold b (Hb a b H)); apply P4; exact H].
  - intros a b [E|H] Hge Hk.
    + injection E as <- <-. rewrite Hknew in Hk. injection Hk as ->. rewrite Hw. cbn. exact Ox1.
    + rewrite (Hkold b (Hb a b H)) in Hk. rewrite (proj1 (Hoth b (Hb a b H))). apply P5; assumption.
  - intros a b [E|H] Hge Hk.
    + injection E as <- <-. rewrite Hknew in Hk. injection Hk as ->. rewrite Hp. cbn. exact Ox2.
    + rewrite (Hkold b (Hb a b H)) in Hk. rewrite (proj1 (proj2 (Hoth b (Hb a b H)))). apply P6; assumption.
  - intros a b [E|H] Hge Hk.
    + injection E as <- <-. rewrite Hknew in Hk. injection Hk as ->. rewrite Hi, Hr. cbn. split; assumption.
    + rewrite (Hkold b (Hb a b H)) in Hk. destruct (Hoth b (Hb a b H)) as [_ [_ [-> ->]]]. apply P7; assumption.
  - intros y Hy. destruct (Nat.eq_dec y (next s)) as [->|Hne].
    + rewrite Hknew, Hw, Hp, Hi, Hr. split; [|split]; intro Hk.
      * destruct K; try (exfalso; apply Hk; reflexivity); cbn; apply Dn1; discriminate.
      * destruct K; try (exfalso; apply Hk; reflexivity); cbn; apply Dn2; discriminate.
      * destruct K; try (exfalso; apply Hk; reflexivity); cbn; apply Dn3; discriminate.
    + rewrite (Hkold y Hne). destruct (Hoth y Hne) as [-> [-> [-> ->]]]. apply P8. exact Hy.
  - intros y Hy Hk. destruct (Nat.eq_dec y (next s)) as [->|Hne]; [exists x; left; reflexivity|].
    rewrite (Hkold y Hne) in Hk. destruct (P9 y ltac:(lia) Hk) as [a Ha]. exists a. right. exact Ha.
  - intros y Hy. assert (Hne : y <> next s) by lia. rewrite (Hkold y Hne). destruct (Hoth y Hne) as [-> [-> [-> ->]]]. apply P10. exact Hy.
  - intros r y Hy. rewrite Hkids. apply P11. exact Hy.
  - intros y Hy. rewrite Hkold by lia. apply P12. lia.
Qed.

(* a step that leaves kinds, the three pin-wire fields, the counter and the old containers alone *)
Lemma pk_same s0 sk s s' m :
  PK s0 sk s m -> next s' = next s -> kind_of s' = kind_of s -> ipwire s' = ipwire s -> wpins s' = wpins s -> ipins s' = ipins s -> iref s' = iref s ->
  (forall r y, y < next s0 -> kids s' r y = kids s r y) -> PK s0 sk s' m.
Proof.
  intros [P0 P0k Psrc P1 P2 P3 P4 P5 P6 P7 P8 P9 P10 P11 P12] Hn Hk Hw Hp Hi Hr Hkids.
  constructor; rewrite ?Hn, ?Hk, ?Hw, ?Hp, ?Hi, ?Hr; try assumption.
  intros r y Hy. rewrite Hkids by exact Hy. apply P11. exact Hy.
Qed.

(* what clone_alloc does to the fields we follow *)
(* ---- the three leaves ---- *)
Lemma pk_pin_clone1 s0 sk s m i s' m' i' :
  PK s0 sk s m -> i < next s0 -> ~ In i (map fst m) -> kind_of s0 i = Some KPin ->
  pin_clone1 (s, m) i = ((s', m'), i') -> PK s0 sk s' m' /\ m' = (i, i') :: m /\ i' = next s.
Proof.
  intros P Hi Hn Hk E. unfold pin_clone1 in E. destruct (clone_alloc s KPin) as [s1 x] eqn:Ea.
  destruct (clone_alloc_fields _ _ _ _ Ea) as [Hx [N1 [K1 [Kd1 [W1 [P1 [I1 R1]]]]]]]. injection E as <- <- <-. subst x.
  split; [|split; reflexivity].
  apply (pk_leaf s0 sk s m i KPin); try assumption; cbn; rewrite ?W1, ?P1, ?I1, ?R1; try reflexivity.
  - intros y Hy. unfold upd. apply Nat.eqb_neq in Hy. rewrite Hy. repeat split.
  - apply upd_same.
Qed.

Lemma pk_wire_clone1 s0 sk s m i s' m' i' :
  PK s0 sk s m -> i < next s0 -> ~ In i (map fst m) -> kind_of s0 i = Some KWire ->
  wire_clone1 (s, m) i = ((s', m'), i') -> PK s0 sk s' m' /\ m' = (i, i') :: m /\ i' = next s.
Proof.
  intros P Hi Hn Hk E. unfold wire_clone1 in E. destruct (clone_alloc s KWire) as [s1 x] eqn:Ea.
  destruct (clone_alloc_fields _ _ _ _ Ea) as [Hx [N1 [K1 [Kd1 [W1 [P1 [I1 R1]]]]]]]. injection E as <- <- <-. subst x.
  split; [|split; reflexivity].
  apply (pk_leaf s0 sk s m i KWire); try assumption; cbn; rewrite ?W1, ?P1, ?I1, ?R1; try reflexivity.
  - intros y Hy. unfold upd. apply Nat.eqb_neq in Hy. rewrite Hy. repeat split.
  - apply upd_same.
Qed.

Lemma pk_inst_clone1 s0 sk s m i s' m' i' :
  PK s0 sk s m -> i < next s0 -> ~ In i (map fst m) -> kind_of s0 i = Some KInstance ->
  inst_clone1 (s, m) i = ((s', m'), i') -> PK s0 sk s' m' /\ m' = (i, i') :: m /\ i' = next s.
Proof.
  intros P Hi Hn Hk E. unfold inst_clone1 in E. destruct (clone_alloc s KInstance) as [s1 x] eqn:Ea.
  destruct (clone_alloc_fields _ _ _ _ Ea) as [Hx [N1 [K1 [Kd1 [W1 [P1 [I1 R1]]]]]]]. injection E as <- <- <-. subst x.
  split; [|split; reflexivity].
  apply (pk_leaf s0 sk s m i KInstance); try assumption; cbn; rewrite ?W1, ?P1, ?I1, ?R1; try reflexivity.
  - intros y Hy. unfold upd. apply Nat.eqb_neq in Hy. rewrite Hy. repeat split.
  - apply upd_same.
  - apply upd_same.
Qed.

Section Steps.
  Variables s0 sk : state.

  Definition StepOKk (f : SM -> id -> SM * id) (Kf : id -> list id) (Pre : id -> Prop) (Post : id -> id -> state -> memo -> Prop) : Prop :=
    forall s m x s' m' x', PK s0 sk s m -> Pre x -> NoDup (Kf x) -> (forall y, In y (Kf x) -> ~ In y (map fst m)) ->
      f (s, m) x = ((s', m'), x') ->
      PK s0 sk s' m' /\ keys_ext m m' (Kf x) /\ msub m m' /\ In (x, x') m' /\ kstable s s' /\ Post x x' s' m'.

  Lemma pk_clone_each f Kf Pre Post : StepOKk f Kf Pre Post -> Stable Post -> forall l s m s' m' l',
    PK s0 sk s m -> (forall x, In x l -> Pre x) -> NoDup (flat_map Kf l) -> (forall y, In y (flat_map Kf l) -> ~ In y (map fst m)) ->
    clone_each f l (s, m) = ((s', m'), l') ->
    PK s0 sk s' m' /\ keys_ext m m' (flat_map Kf l) /\ msub m m' /\ kstable s s' /\
    Forall2 (fun x x' => In (x, x') m' /\ Post x x' s' m') l l'.
  Proof.
    intros Hf Hst. induction l as [|x l IH]; intros s m s' m' l' P Hpre Hnd Hnk E; cbn [clone_each] in E.
    - injection E as <- <- <-. split; [exact P|]. split; [intro y; cbn; tauto|]. split; [intros e H; exact H|]. split; [apply kstable_refl|constructor].
    - destruct (f (s, m) x) as [[s1 m1] x'] eqn:E1. cbn [flat_map] in Hnd, Hnk.
      destruct (Hf s m x s1 m1 x' P (Hpre x (or_introl eq_refl)) (nodup_app_l _ _ Hnd)
                  (fun y Hy => Hnk y (in_or_app _ _ _ (or_introl Hy))) E1) as [P1 [K1 [S1 [I1 [KS1 Q1]]]]].
      destruct (clone_each f l (s1, m1)) as [[s2 m2] l2] eqn:E2.
      assert (Hnk1 : forall y, In y (flat_map Kf l) -> ~ In y (map fst m1)).
      { intros y Hy Hin. apply K1 in Hin as [Hin|Hin]; [apply (nodup_app_disj _ _ y Hnd Hin Hy)|].
        apply (Hnk y (in_or_app _ _ _ (or_intror Hy)) Hin). }
      destruct (IH s1 m1 s2 m2 l2 P1 (fun z Hz => Hpre z (or_intror Hz)) (nodup_app_r _ _ Hnd) Hnk1 E2) as [P2 [K2 [S2 [KS2 F2]]]].
      injection E as <- <- <-. split; [exact P2|]. split; [|split; [|split]].
      + intro y. cbn [flat_map]. split.
        * intro H. apply K2 in H as [H|H]; [left; apply in_or_app; right; exact H|].
          apply K1 in H as [H|H]; [left; apply in_or_app; left; exact H|right; exact H].
        * intros [H|H]; apply K2; [apply in_app_or in H as [H|H]; [right; apply K1; left; exact H|left; exact H]|right; apply K1; right; exact H].
      + intros e He. apply S2, S1, He.
      + eapply kstable_trans; eassumption.
      + constructor; [|exact F2]. split; [apply S2; exact I1|].
        apply (Hst x x' s1 m1 s2 m2 Q1); [destruct (pk_rng _ _ _ _ P1 x x' I1); lia|exact S2|exact KS2].
  Qed.

  Lemma step_pin : StepOKk pin_clone1 (fun i => [i]) (PreLeaf s0 KPin) NoPost.
  Proof.
    intros s m x s' m' x' P [Hx Hk] _ Hn E.
    destruct (pin_clone1_leaf _ _ _ _ _ _ E) as [_ [N' [K' _]]].
    destruct (pk_pin_clone1 s0 sk s m x s' m' x' P Hx (Hn x (or_introl eq_refl)) Hk E) as [P' [-> _]].
    split; [exact P'|]. split; [intro y; cbn; tauto|]. split; [intros e H; right; exact H|]. split; [left; reflexivity|].
    split; [split; [lia|intros r y _; rewrite K'; reflexivity]|exact I].
  Qed.
  Lemma step_wire : StepOKk wire_clone1 (fun i => [i]) (PreLeaf s0 KWire) NoPost.
  Proof.
    intros s m x s' m' x' P [Hx Hk] _ Hn E.
    destruct (wire_clone1_leaf _ _ _ _ _ _ E) as [_ [N' [K' _]]].
    destruct (pk_wire_clone1 s0 sk s m x s' m' x' P Hx (Hn x (or_introl eq_refl)) Hk E) as [P' [-> _]].
    split; [exact P'|]. split; [intro y; cbn; tauto|]. split; [intros e H; right; exact H|]. split; [left; reflexivity|].
    split; [split; [lia|intros r y _; rewrite K'; reflexivity]|exact I].
  Qed.
  Lemma step_inst : StepOKk inst_clone1 (fun i => [i]) (PreLeaf s0 KInstance) NoPost.
  Proof.
    intros s m x s' m' x' P [Hx Hk] _ Hn E.
    destruct (inst_clone1_leaf _ _ _ _ _ _ E) as [_ [N' [K' _]]].
    destruct (pk_inst_clone1 s0 sk s m x s' m' x' P Hx (Hn x (or_introl eq_refl)) Hk E) as [P' [-> _]].
    split; [exact P'|]. split; [intro y; cbn; tauto|]. split; [intros e H; right; exact H|]. split; [left; reflexivity|].
    split; [split; [lia|intros r y _; rewrite K'; reflexivity]|exact I].
  Qed.

  Lemma pk_bundle (kd lk : kind) (rl : rel) (leaf : SM -> id -> SM * id) :
    StepOKk leaf (fun i => [i]) (PreLeaf s0 lk) NoPost -> LeafSpec leaf ->
    kind_eqb kd KPin = false -> kind_eqb kd KWire = false -> kind_eqb kd KInstance = false ->
    forall s m p s' m' p',
    PK s0 sk s m -> PreBundle s0 kd lk rl p -> NoDup (p :: kids s0 rl p) -> (forall y, In y (p :: kids s0 rl p) -> ~ In y (map fst m)) ->
    (let '(s1, x) := clone_alloc s kd in
     let '((s2, m2), items') := clone_each leaf (kids s1 rl p) (s1, (p, x) :: m) in
     let s3 := set_kids s2 rl x items' in
     let s4 := fold_ids (fun s i' => set_par s rl i' (Some x)) items' s3 in
     ((copy_data (copy_bundle s4 p x) p x, m2), x)) = ((s', m'), p') ->
    PK s0 sk s' m' /\ keys_ext m m' (p :: kids s0 rl p) /\ msub m m' /\ In (p, p') m' /\ kstable s s' /\ ImgOK s0 rl p p' s' m'.
  Proof.
    intros Hleaf Hls Hk1 Hk2 Hk3 s m p s' m' p' P [Hp [Hkp Hitems]] Hnd Hnk E.
    destruct (clone_alloc s kd) as [s1 x] eqn:Ea.
    destruct (clone_alloc_fields _ _ _ _ Ea) as [Hx [N1 [K1 [Kd1 [W1 [P1 [I1 R1]]]]]]]. subst x.
    assert (PA : PK s0 sk s1 ((p, next s) :: m)).
    { apply (pk_leaf s0 sk s m p kd); try assumption; rewrite ?W1, ?P1, ?I1, ?R1, ?Hk1, ?Hk2, ?Hk3; try reflexivity.
      - apply Hnk. left. reflexivity.
      - intros y _. repeat split. }
    rewrite (pk_kids _ _ _ _ PA rl p Hp) in E.
    match type of E with context [clone_each leaf ?l ?sm] => destruct (clone_each leaf l sm) as [[s2 m2] items'] eqn:Ee end.
    inversion Hnd as [|? ? Hpn HndL]; subst.
    destruct (clone_each_leaf leaf Hls _ _ _ _ _ _ Ee) as [_ [Hn2 [Hk2' _]]].
    destruct (pk_clone_each leaf (fun i => [i]) (PreLeaf s0 lk) NoPost Hleaf nopost_stable (kids s0 rl p) s1 ((p, next s) :: m) s2 m2 items' PA Hitems) as [P2 [K2 [S2 [KS2 F2]]]].
    - rewrite flat_map_single. exact HndL.
    - intros y Hy. rewrite flat_map_single in Hy. cbn [map fst]. intros [<-|Hin]; [apply Hpn; exact Hy|].
      apply (Hnk y (or_intror Hy) Hin).
    - exact Ee.
    - injection E as <- <- <-.
      destruct (fold_set_par_spec rl (next s) items' (set_kids s2 rl (next s) items')) as [Hk4 [Hn4 _]].
      destruct (fields_fold_set_par rl (Some (next s)) items' (set_kids s2 rl (next s) items')) as [F1 [F2' [F3 F4]]].
      assert (HkF : forall r y, kids (copy_data (copy_bundle (fold_ids (fun sq i' => set_par sq rl i' (Some (next s))) items' (set_kids s2 rl (next s) items')) p (next s)) p (next s)) r y =
                                if rel_eqb r rl && Nat.eqb y (next s) then items' else kids s r y).
      { intros r y. cbn. etransitivity; [exact (f_equal (fun f => f r y) Hk4)|]. cbn. rewrite kids_upd2_ns, Hk2', Kd1. reflexivity. }
      split; [|split; [|split; [|split; [|split]]]].
      + apply (pk_same s0 sk s2); [exact P2| | | | | | |].
        * exact Hn4.
        * exact (kind_fold_set_par rl (Some (next s)) items' (set_kids s2 rl (next s) items')).
        * exact F1.
        * exact F2'.
        * exact F3.
        * exact F4.
        * intros r y Hy. rewrite HkF. pose proof (pk_le _ _ _ _ P). pose proof (pk_0k _ _ _ _ P).
          replace (Nat.eqb y (next s)) with false by (symmetry; apply Nat.eqb_neq; lia). rewrite andb_false_r.
          rewrite <- Kd1, <- Hk2'. reflexivity.
      + intro y. split.
        * intro H. apply K2 in H as [H|H]; [rewrite flat_map_single in H; left; right; exact H|].
          cbn [map fst] in H. destruct H as [<-|H]; [left; left; reflexivity|right; exact H].
        * intros [[<-|H]|H]; apply K2; [right; left; reflexivity|left; rewrite flat_map_single; exact H|right; right; exact H].
      + intros e He. apply S2. right. exact He.
      + apply S2. left. reflexivity.
      + split; [match goal with |- next s <= next ?sf => assert (HnF : next sf = next s2) by exact Hn4; rewrite HnF end; lia|].
        intros r y Hy. rewrite HkF. replace (Nat.eqb y (next s)) with false by (symmetry; apply Nat.eqb_neq; lia). rewrite andb_false_r. reflexivity.
      + split; [|split].
        * intros i Hi. destruct (forall2_in_r _ _ _ F2 i Hi) as [i' [Hi' [Hm _]]]. exists i'. split; [exact Hm|].
          rewrite HkF, rel_eqb_refl, Nat.eqb_refl. exact Hi'.
        * intros i' Hi'. rewrite HkF, rel_eqb_refl, Nat.eqb_refl in Hi'. destruct (forall2_in_l _ _ _ F2 i' Hi') as [i [Hi [Hm _]]].
          exists i. split; [exact Hm|exact Hi].
        * rewrite HkF, rel_eqb_refl, Nat.eqb_refl. revert F2. apply forall2_mono. intros a0 b0 [H _]. exact H.
  Qed.
End Steps.

