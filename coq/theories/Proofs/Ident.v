(* C10 / C17: the identifier check of the EDIF naming policy accepts exactly the legal EDIF
   identifiers (declarative statement), and the table operations of one namespace behave like a
   finite map (lookup after update / remove). *)
From Coq Require Import List Arith NArith ZArith Bool Lia.
From SV Require Import Base.Base IR.State IR.NS.
Import ListNotations.

(* EDIF 2 0 0: identifier = letter or '&' followed by letters, digits, '_' ; at most 255 characters
   after the optional '&', at least one *)
Definition legal_identifier (s : str) : Prop :=
  match s with
  | [] => False
  | c :: rest =>
      if N.eqb c 38 then rest <> [] /\ length rest <= 255 /\ Forall (fun x => is_idchar x = true) rest
      else is_alpha c = true /\ length s <= 255 /\ Forall (fun x => is_idchar x = true) s
  end.

Lemma forallb_Forall {A} (f : A -> bool) l : forallb f l = true <-> Forall (fun x => f x = true) l.
Proof.
  induction l as [|x l IH]; cbn; [split; [constructor|reflexivity]|].
  rewrite andb_true_iff, IH. split; [intros []; constructor; assumption|inversion 1; auto].
Qed.

Lemma all_idchars_nonempty_spec s :
  all_idchars_nonempty s = true <-> s <> [] /\ Forall (fun x => is_idchar x = true) s.
Proof.
  unfold all_idchars_nonempty. destruct s as [|c s]; [split; [discriminate|intros [H _]; congruence]|].
  rewrite forallb_Forall. split; [intro H; split; [discriminate|assumption]|tauto].
Qed.

Theorem check_edif_identifier_spec s : check_edif_identifier s = true <-> legal_identifier s.
Proof.
  unfold check_edif_identifier, legal_identifier. destruct s as [|c rest]; [split; [discriminate|tauto]|].
  destruct (N.eqb c 38) eqn:Ec.
  - cbn [length].
    destruct ((S (length rest) <? 2) || (256 <? S (length rest))) eqn:El.
    + split; [discriminate|]. intros [H1 [H2 _]]. exfalso.
      apply orb_true_iff in El as [El|El]; [apply Nat.ltb_lt in El|apply Nat.ltb_lt in El].
      * destruct rest; [congruence|cbn in El; lia].
      * lia.
    + apply orb_false_iff in El as [E1 E2]. apply Nat.ltb_ge in E1, E2.
      rewrite all_idchars_nonempty_spec. split; [intros [H1 H2]; repeat split; [assumption|lia|assumption]|tauto].
  - destruct (255 <? length (c :: rest)) eqn:El.
    + apply Nat.ltb_lt in El. split; [discriminate|]. intros [_ [H _]]. lia.
    + apply Nat.ltb_ge in El. destruct (is_alpha c); cbn [negb].
      * rewrite all_idchars_nonempty_spec. split; [intros [_ H]; auto|intros [_ [_ H]]; split; [discriminate|assumption]].
      * split; [discriminate|intros [H _]; discriminate].
Qed.

From Coq Require Import String.
Local Open Scope string_scope.
Example legal_examples :
  check_edif_identifier (s2l "a_1") = true /\ check_edif_identifier (s2l "&1x") = true /\
  check_edif_identifier (s2l "1a") = false /\ check_edif_identifier (s2l "a-b") = false /\
  check_edif_identifier (s2l "&") = false /\ check_edif_identifier (97%N :: 10%N :: nil) = false.
Proof. vm_compute. repeat split. Qed.
Local Close Scope string_scope.

(* one table of a namespace object behaves like a finite map keyed by name *)
Lemma tab_replace_lookup_same tab old new e : sassoc new (tab_replace tab old new e) = Some e.
Proof. unfold tab_replace. apply sassoc_set_same. Qed.

Lemma tab_replace_lookup_other tab old new e k :
  k <> new -> Some k <> old -> sassoc k (tab_replace tab old new e) = sassoc k tab.
Proof.
  intros H1 H2. unfold tab_replace. rewrite sassoc_set_other by assumption.
  destruct old as [o|]; [|reflexivity]. apply sassoc_del_other. congruence.
Qed.

Lemma tab_replace_lookup_old tab o new e :
  o <> new -> sassoc o (tab_replace tab (Some o) new e) = None.
Proof. intro H. unfold tab_replace. rewrite sassoc_set_other by assumption. apply sassoc_del_same. Qed.

(* after a rename accepted by the manager, exact lookup finds the element under the new name
   and no longer under the old one; identifiers are found under any letter case *)
Theorem lookup_after_update_name t ek e old v :
  ns_lookup (ns_update t ek e str_NAME old v) ek str_NAME v = Some e.
Proof.
  unfold ns_lookup, ns_update. rewrite str_eqb_refl. cbn. unfold updk.
  replace (kind_eqb ek ek) with true by (destruct ek; reflexivity). apply tab_replace_lookup_same.
Qed.

Theorem lookup_after_update_ident t ek e old v v' :
  ns_pol t = PolEdif -> lower v' = lower v ->
  ns_lookup (ns_update t ek e str_IDENT old v) ek str_IDENT v' = Some e.
Proof.
  intros Hp Hl. unfold ns_lookup, ns_update.
  assert (Hn : str_eqb str_IDENT str_NAME = false) by reflexivity.
  rewrite Hn, Hp, str_eqb_refl. cbn. rewrite ?Hn, ?Hp, ?str_eqb_refl. cbn. unfold updk.
  replace (kind_eqb ek ek) with true by (destruct ek; reflexivity). rewrite Hl. apply tab_replace_lookup_same.
Qed.

Theorem lookup_after_remove_name t ek o :
  ns_lookup (ns_remove t ek str_NAME (Some o)) ek str_NAME o = None.
Proof.
  unfold ns_lookup, ns_remove. rewrite str_eqb_refl. cbn. unfold updk.
  replace (kind_eqb ek ek) with true by (destruct ek; reflexivity). apply sassoc_del_same.
Qed.

(* the repaired defect: removal of a mixed-case identifier leaves no ghost *)
Theorem lookup_after_remove_ident t ek o v' :
  ns_pol t = PolEdif -> lower v' = lower o ->
  ns_lookup (ns_remove t ek str_IDENT (Some o)) ek str_IDENT v' = None.
Proof.
  intros Hp Hl. unfold ns_lookup, ns_remove.
  assert (Hn : str_eqb str_IDENT str_NAME = false) by reflexivity.
  rewrite Hn, Hp, str_eqb_refl. cbn. rewrite ?Hn, ?Hp, ?str_eqb_refl. cbn. unfold updk.
  replace (kind_eqb ek ek) with true by (destruct ek; reflexivity). rewrite Hl. apply sassoc_del_same.
Qed.

(* a conflict is reported exactly when another element owns the (case-folded) key *)
Theorem no_conflict_iff_name t ek e v :
  ns_no_conflict t ek e str_NAME v = false <->
  exists x, sassoc v (ns_names t ek) = Some x /\ x <> e.
Proof.
  unfold ns_no_conflict, tab_conflict. rewrite str_eqb_refl.
  destruct (sassoc v (ns_names t ek)) as [x|]; cbn.
  - rewrite negb_false_iff, negb_true_iff, Nat.eqb_neq. split; [intro H; exists x; auto|intros [y [Hy Hne]]; congruence].
  - split; [discriminate|intros [y [Hy _]]; discriminate].
Qed.
