(* EBLIF engine, write-then-read: the instances clause.  For a netlist the reader returned whose
   written file is accepted and is a supported document, every written model comes back with the same
   instances by name: kind, definition, .attr/.param, truth table; the old name is the new .cname. *)
From Coq Require Import List Arith NArith Bool Lia.
From SV Require Import Base.Base Fmt.Blif Fmt.BlifRead Fmt.BlifWrite Fmt.BlifSpec
  Proofs.BlifBase Proofs.BlifWF Proofs.BlifExec Proofs.BlifSound Proofs.BlifNetsBase Proofs.BlifNetsSpec
  Proofs.BlifNetsFull Proofs.BlifRoundSeg Proofs.BlifRoundCn.
Import ListNotations.

(* ---------- sections ---------- *)
Definition vis_stmt (x : stmt) : Prop := match x with SModel _ | SEnd | SComment _ => False | _ => True end.

Lemma body_of_vis nm c body : Forall vis_stmt body -> forall r,
  body_of nm c (body ++ r) = (if str_eqb c nm then body else []) ++ body_of nm c r.
Proof.
  induction 1 as [|x body Hx _ IH]; intro r; cbn [app].
  - destruct (str_eqb c nm); reflexivity.
  - rewrite body_of_cons, IH. destruct x; try contradiction; destruct (str_eqb c nm); reflexivity.
Qed.

Lemma body_of_section nm cur c body r : Forall vis_stmt body ->
  body_of nm cur ((SModel c :: body ++ [SEnd]) ++ r) = (if str_eqb c nm then body else []) ++ body_of nm c r.
Proof.
  intro H. cbn [app]. rewrite body_of_cons. rewrite <- app_assoc. rewrite (body_of_vis nm c body H). cbn [app].
  rewrite body_of_cons. reflexivity.
Qed.

Lemma body_of_comments nm cur cs r : body_of nm cur (map SComment cs ++ r) = body_of nm cur r.
Proof. induction cs as [|c cs IH]; cbn [map app]; [reflexivity|]. rewrite body_of_cons. exact IH. Qed.

(* a section: its name and its visible statements *)
Record section := mkSec { sec_name : str; sec_body : list stmt }.
Definition sec_stmts (s : section) : list stmt := SModel (sec_name s) :: sec_body s ++ [SEnd].

Lemma body_of_sections nm l : forall cur,
  (forall s, In s l -> Forall vis_stmt (sec_body s)) ->
  body_of nm cur (flat_map sec_stmts l) = flat_map (fun s => if str_eqb (sec_name s) nm then sec_body s else []) l.
Proof.
  induction l as [|s l IH]; intros cur H; cbn [flat_map]; [reflexivity|].
  unfold sec_stmts at 1. rewrite body_of_section by (apply H; left; reflexivity).
  rewrite IH by (intros x Hx; apply H; right; exact Hx). reflexivity.
Qed.

Lemma model_names_app a b : model_names (a ++ b) = model_names a ++ model_names b.
Proof. induction a as [|x a IH]; cbn [app]; [reflexivity|]. destruct x; cbn [model_names app]; rewrite IH; reflexivity. Qed.

Lemma model_names_vis b : Forall vis_stmt b -> model_names b = [].
Proof. induction 1 as [|x b Hx _ IH]; [reflexivity|]. destruct x; try contradiction; exact IH. Qed.

Lemma model_names_sections l :
  (forall s, In s l -> Forall vis_stmt (sec_body s)) -> model_names (flat_map sec_stmts l) = map sec_name l.
Proof.
  induction l as [|s l IH]; intro H; cbn [flat_map map]; [reflexivity|]. unfold sec_stmts at 1.
  cbn [app model_names]. rewrite <- app_assoc, model_names_app, (model_names_vis (sec_body s)) by (apply H; left; reflexivity).
  cbn [app model_names]. rewrite IH by (intros x Hx; apply H; right; exact Hx). reflexivity.
Qed.

Lemma pick_section l s nm :
  NoDup (map sec_name l) -> In s l -> sec_name s = nm ->
  flat_map (fun x => if str_eqb (sec_name x) nm then sec_body x else []) l = sec_body s.
Proof.
  intros Hnd Hin <-. revert Hnd Hin.
  induction l as [|x l IH]; intros Hnd Hin; [destruct Hin|]. cbn [map flat_map] in *. inversion Hnd as [|? ? Hn1 Hn2]; subst.
  destruct Hin as [->|Hin].
  - rewrite str_eqb_refl. assert (E : flat_map (fun x => if str_eqb (sec_name x) (sec_name s) then sec_body x else []) l = []).
    { clear -Hn1. induction l as [|y l IH]; [reflexivity|]. cbn [flat_map map] in *.
      rewrite (proj2 (str_eqb_false (sec_name y) (sec_name s))) by (intro E; apply Hn1; left; exact E).
      apply IH. intro H. apply Hn1. right. exact H. }
    rewrite E. apply app_nil_r.
  - rewrite (proj2 (str_eqb_false (sec_name x) (sec_name s))).
    + apply IH; assumption.
    + intro E. apply Hn1. rewrite E. apply in_map. exact Hin.
Qed.

(* ---------- the written file as sections ---------- *)
Definition mbody (ms : list model) (m : model) : list stmt :=
  [SInputs (flat_map (fun q => if is_in (p_dir q) then port_toks q else []) (m_ports m));
   SOutputs (flat_map (fun q => if is_out (p_dir q) then port_toks q else []) (m_ports m))]
  ++ match m_clock m with Some c => [SClock c] | None => [] end
  ++ flat_map (inst_stmts ms m) (written_insts m).

Definition msec (ms : list model) (m : model) : section := mkSec (m_name m) (mbody ms m).
Definition bsec (m : model) : section :=
  mkSec (m_name m) [SInputs (map p_name (filter (fun q => dir_eqb (p_dir q) DIn) (m_ports m)));
                    SOutputs (map p_name (filter (fun q => dir_eqb (p_dir q) DOut) (m_ports m))); SBlackbox].

Lemma model_stmts_sec ms m : m_lib m <> LPrim -> model_stmts ms m = sec_stmts (msec ms m).
Proof.
  intro H. unfold model_stmts, sec_stmts, msec, mbody. cbn [sec_name sec_body].
  destruct (m_lib m); try contradiction; cbn [app]; rewrite <- !app_assoc; reflexivity.
Qed.

Lemma bb_stmts_sec m : bb_stmts m = sec_stmts (bsec m).
Proof. reflexivity. Qed.

Definition secs (n : bnv) : list section :=
  map (fun nm => msec (b_models n) (get_model nm (b_models n))) (written_names n) ++
  map (fun nm => bsec (get_model nm (b_models n))) (written_bbs n).

Lemma written_names_nonprim n nm : In nm (written_names n) -> m_lib (get_model nm (b_models n)) <> LPrim.
Proof.
  unfold written_names. destruct (b_top n) as [[tn tr]|]; [|intros []]. cbn zeta. intro H. apply filter_In in H as [_ H].
  apply negb_true_iff in H. intro E. rewrite E in H. discriminate.
Qed.

Lemma flat_map_map_in {A B C} (f : A -> list C) (g : B -> list C) (h : A -> B) l :
  (forall x, In x l -> f x = g (h x)) -> flat_map f l = flat_map g (map h l).
Proof.
  induction l as [|x l IH]; intro H; cbn [flat_map map]; [reflexivity|].
  rewrite H by (left; reflexivity). rewrite IH by (intros y Hy; apply H; right; exact Hy). reflexivity.
Qed.

Lemma stmts_of_secs n :
  stmts_of n = map SComment (b_comments n) ++ [SComment (tl generated_by)] ++ flat_map sec_stmts (secs n).
Proof.
  unfold stmts_of, secs. do 2 f_equal. rewrite flat_map_app. f_equal.
  - apply flat_map_map_in. intros nm Hin. apply model_stmts_sec. apply written_names_nonprim. exact Hin.
  - apply flat_map_map_in. intros nm _. apply bb_stmts_sec.
Qed.

Lemma inst_stmts_vis ms m ni : Forall vis_stmt (inst_stmts ms m ni).
Proof.
  destruct ni as [idx i]. unfold inst_stmts, info_stmts.
  assert (A : forall l, Forall vis_stmt (map (fun kv : str * str => SAttr (fst kv) (snd kv)) l)) by (induction l; constructor; [exact I|assumption]).
  assert (P : forall l, Forall vis_stmt (map (fun kv : str * str => SParam (fst kv) (snd kv)) l)) by (induction l; constructor; [exact I|assumption]).
  assert (C : forall l, Forall vis_stmt (map (fun c : str * option str => SCover (fst c) (snd c)) l)) by (induction l; constructor; [exact I|assumption]).
  destruct (i_kind i); repeat (apply Forall_app; split); try (constructor; [exact I|]); auto; try constructor; try exact I; auto.
Qed.

Lemma secs_vis n s : In s (secs n) -> Forall vis_stmt (sec_body s).
Proof.
  unfold secs. intro H. apply in_app_iff in H as [H|H]; apply in_map_iff in H as [nm [<- _]]; cbn [sec_body msec bsec].
  - unfold mbody. repeat (apply Forall_app; split).
    + repeat constructor.
    + destruct (m_clock _); repeat constructor.
    + apply Forall_forall. intros x Hx. apply in_flat_map in Hx as [ni [_ Hx]].
      pose proof (inst_stmts_vis (b_models n) (get_model nm (b_models n)) ni) as Hv. rewrite Forall_forall in Hv. apply Hv. exact Hx.
  - repeat constructor.
Qed.

Lemma body_of_written n nm :
  NoDup (map sec_name (secs n)) -> In nm (written_names n) ->
  body_of nm [] (stmts_of n) = mbody (b_models n) (get_model nm (b_models n)).
Proof.
  intros Hnd Hin. rewrite stmts_of_secs, body_of_comments. cbn [app]. rewrite body_of_cons.
  rewrite body_of_sections by (apply secs_vis).
  set (s := msec (b_models n) (get_model nm (b_models n))).
  assert (Hs : In s (secs n)) by (unfold secs; apply in_app_iff; left; apply in_map_iff; exists nm; auto).
  assert (En : sec_name s = nm).
  { unfold s, msec. cbn [sec_name]. unfold get_model. destruct (find_model nm (b_models n)) eqn:E; [apply find_model_In in E; tauto|reflexivity]. }
  rewrite (pick_section _ s nm Hnd Hs En). reflexivity.
Qed.

(* ---------- the instance statements of a written model, read by the specification ---------- *)
Definition wname (i : inst) : str := match i_name i with Some x => x | None => [] end.
Definition isig_w (i : inst) : isig := mkIsig (i_kind i) (i_ref i) (Some (wname i)) (i_attr i) (i_param i) (i_covers i).

Lemma nodup_keys_NoDup l : nodup_keys l = true -> NoDup (map fst l).
Proof.
  induction l as [|[k v] l IH]; cbn; intro H; [constructor|]. apply andb_true_iff in H as [H1 H2].
  constructor; [|auto]. intro Hin. apply negb_true_iff in H1. apply in_map_iff in Hin as [[k' v'] [E Hin]]. cbn in E. subst k'.
  assert (existsb (fun kv => str_eqb k (fst kv)) l = true); [|congruence].
  apply existsb_exists. exists (k, v'). split; [exact Hin|apply str_eqb_refl].
Qed.

Lemma spec_insts_app l : forall acc r, spec_insts acc (l ++ r) = spec_insts (fold_left (fun a x => step_isig x a) l acc) r.
Proof. induction l as [|x l IH]; intros acc r; cbn [app fold_left]; [reflexivity|]. rewrite spec_insts_step. apply IH. Qed.

Lemma upd_last_snoc {A} (f : A -> A) acc x : upd_last f (acc ++ [x]) = acc ++ [f x].
Proof. unfold upd_last. rewrite rev_app_distr. cbn. rewrite rev_involutive. reflexivity. Qed.

Lemma fold_attrs l : forall acc g,
  fold_left (fun a x => step_isig x a) (map (fun kv : str * str => SAttr (fst kv) (snd kv)) l) (acc ++ [g]) =
  acc ++ [mkIsig (g_kind g) (g_ref g) (g_cname g) (fold_left (fun a kv => sassoc_set (fst kv) (snd kv) a) l (g_attr g)) (g_param g) (g_covers g)].
Proof.
  induction l as [|kv l IH]; intros acc g; cbn [map fold_left]; [destruct g; reflexivity|].
  cbn [step_isig]. rewrite upd_last_snoc, IH. reflexivity.
Qed.

Lemma fold_params l : forall acc g,
  fold_left (fun a x => step_isig x a) (map (fun kv : str * str => SParam (fst kv) (snd kv)) l) (acc ++ [g]) =
  acc ++ [mkIsig (g_kind g) (g_ref g) (g_cname g) (g_attr g) (fold_left (fun a kv => sassoc_set (fst kv) (snd kv) a) l (g_param g)) (g_covers g)].
Proof.
  induction l as [|kv l IH]; intros acc g; cbn [map fold_left]; [destruct g; reflexivity|].
  cbn [step_isig]. rewrite upd_last_snoc, IH. reflexivity.
Qed.

Lemma fold_covers l : forall acc g,
  fold_left (fun a x => step_isig x a) (map (fun c : str * option str => SCover (fst c) (snd c)) l) (acc ++ [g]) =
  acc ++ [mkIsig (g_kind g) (g_ref g) (g_cname g) (g_attr g) (g_param g) (g_covers g ++ l)].
Proof.
  induction l as [|[a b] l IH]; intros acc g; cbn [map fold_left]; [destruct g; cbn; rewrite app_nil_r; reflexivity|].
  cbn [step_isig fst snd]. rewrite upd_last_snoc, IH. cbn. rewrite <- app_assoc. reflexivity.
Qed.

Lemma fold_info i acc g :
  nodup_keys (i_attr i) = true -> nodup_keys (i_param i) = true -> g_attr g = [] -> g_param g = [] ->
  fold_left (fun a x => step_isig x a) (info_stmts i) (acc ++ [g]) =
  acc ++ [mkIsig (g_kind g) (g_ref g) (Some (wname i)) (i_attr i) (i_param i) (g_covers g)].
Proof.
  intros Ha Hp Ga Gp. unfold info_stmts. rewrite !fold_left_app. cbn [fold_left step_isig]. rewrite upd_last_snoc.
  rewrite fold_attrs, fold_params. cbn [g_kind g_ref g_cname g_attr g_param g_covers]. rewrite Ga, Gp.
  rewrite !dict_fold_nodup by (cbn [map app]; apply nodup_keys_NoDup; assumption). reflexivity.
Qed.

Lemma spec_inst ms m ni acc r :
  data_ok ms m ni = true ->
  spec_insts acc (inst_stmts ms m ni ++ r) = spec_insts (acc ++ [isig_w (snd ni)]) r.
Proof.
  destruct ni as [idx i]. unfold data_ok. intro H. apply andb_true_iff in H as [H Hk]. apply andb_true_iff in H as [Ha Hp].
  rewrite spec_insts_app. f_equal. unfold inst_stmts, isig_w. cbn [snd]. destruct (i_kind i) eqn:E.
  - destruct (i_covers i) eqn:Ec; [|discriminate]. cbn [app fold_left step_isig].
    rewrite fold_info; [reflexivity|exact Ha|exact Hp|reflexivity|reflexivity].
  - destruct (i_covers i) eqn:Ec; [|discriminate]. cbn [app fold_left step_isig].
    rewrite fold_info; [reflexivity|exact Ha|exact Hp|reflexivity|reflexivity].
  - apply str_eqb_spec in Hk. cbn [app fold_left step_isig]. rewrite fold_left_app, fold_covers.
    rewrite fold_info; [|exact Ha|exact Hp|reflexivity|reflexivity]. cbn [g_kind g_ref g_covers app]. rewrite <- Hk. reflexivity.
  - apply andb_true_iff in Hk as [Hk Hc]. apply str_eqb_spec in Hk. destruct (i_covers i) eqn:Ec; [|discriminate].
    cbn [app fold_left step_isig]. rewrite fold_info; [|exact Ha|exact Hp|reflexivity|reflexivity]. cbn [g_kind g_ref g_covers]. rewrite <- Hk. reflexivity.
Qed.

Lemma spec_insts_written ms m l : forall acc,
  forallb (data_ok ms m) l = true ->
  spec_insts acc (flat_map (inst_stmts ms m) l) = acc ++ map (fun ni => isig_w (snd ni)) l.
Proof.
  induction l as [|ni l IH]; intros acc H; cbn [flat_map map forallb] in *; [rewrite app_nil_r; reflexivity|].
  apply andb_true_iff in H as [H1 H2]. rewrite spec_inst by exact H1. rewrite IH by exact H2.
  rewrite <- app_assoc. reflexivity.
Qed.

Lemma spec_insts_mbody ms m :
  forallb (data_ok ms m) (written_insts m) = true ->
  spec_insts [] (mbody ms m) = map (fun ni => isig_w (snd ni)) (written_insts m).
Proof.
  intro H. unfold mbody. cbn [app]. rewrite !spec_insts_step. cbn [step_isig].
  destruct (m_clock m); cbn [app]; rewrite ?spec_insts_step; cbn [step_isig]; apply (spec_insts_written ms m _ [] H).
Qed.

(* ---------- the clause ---------- *)
Definition insts_equiv (m m' : model) : Prop :=
  (forall nm i, inst_named m nm i -> exists j, inst_named m' nm j /\ same_data i j) /\
  (forall nm j, inst_named m' nm j -> exists i, inst_named m nm i /\ same_data i j).


Lemma kind_is_self i : kind_is (i_kind i) i = true.
Proof. unfold kind_is. destruct (i_kind i); reflexivity. Qed.

Lemma in_indexed {A} (l : list A) x : In x l -> exists k, In (k, x) (indexed l).
Proof.
  unfold indexed. generalize 0 as s. induction l as [|y l IH]; intros s Hin; [destruct Hin|]. cbn [length seq combine].
  destruct Hin as [->|Hin]; [exists s; left; reflexivity|]. destruct (IH (S s) Hin) as [k Hk]. exists k. right. exact Hk.
Qed.

Lemma in_written m i : In i (m_insts m) -> exists idx, In (idx, i) (written_insts m).
Proof.
  intro H. destruct (in_indexed _ _ H) as [k Hk]. exists k. unfold written_insts. apply in_flat_map.
  exists (i_kind i). split; [destruct (i_kind i); cbn; auto|]. apply filter_In. split; [exact Hk|apply kind_is_self].
Qed.

Lemma model_names_comments cs : model_names (map SComment cs) = [].
Proof. induction cs; [reflexivity|exact IHcs]. Qed.

Lemma model_names_stmts_of n : model_names (stmts_of n) = map sec_name (secs n).
Proof.
  rewrite stmts_of_secs, !model_names_app, model_names_comments. cbn [app model_names].
  apply model_names_sections. apply secs_vis.
Qed.

Theorem rt_instances d n n' :
  elab d = Ok n -> covers_ok n = true -> supported (emit n) = true -> elab (emit n) = Ok n' ->
  forall nm, In nm (written_names n) ->
    let m := get_model nm (b_models n) in
    forallb (data_ok (b_models n) m) (written_insts m) = true -> names_some m = true ->
    exists m', find_model nm (b_models n') = Some m' /\ insts_equiv m m'.
Proof.
  intros Hd Hc Hs He nm Hin m Hdata Hnames.
  destruct (sound_insts (emit n) n' Hs He) as [ss [Hg Hinst]]. rewrite (grammar_emit n Hc) in Hg. inversion Hg; subst ss. clear Hg.
  destruct (supported_inv _ Hs) as [ss [_ [Eg [Hnd _]]]]. rewrite (grammar_emit n Hc) in Eg. inversion Eg; subst ss. clear Eg.
  rewrite model_names_stmts_of in Hnd.
  assert (Hm : In nm (model_names (stmts_of n))).
  { rewrite model_names_stmts_of. unfold secs. rewrite map_app, in_app_iff. left. rewrite map_map. apply in_map_iff.
    exists nm. split; [|exact Hin]. cbn [msec sec_name]. unfold get_model.
    destruct (find_model nm (b_models n)) eqn:E; [apply find_model_In in E; tauto|reflexivity]. }
  destruct (Hinst nm Hm) as [[m' Hm'] [Hsig _]]. specialize (Hsig m' Hm').
  rewrite (body_of_written n nm Hnd Hin) in Hsig. fold m in Hsig. rewrite (spec_insts_mbody _ _ Hdata) in Hsig.
  pose proof (elab_CN _ _ Hd) as CNn. pose proof (elab_CN _ _ He) as CNn'.
  assert (CNm' : CNm m') by (apply CNn'; apply find_model_In in Hm'; tauto).
  assert (Hcn : forall i, In i (m_insts m) -> cn_inst i).
  { intros i Hi. unfold m, get_model in Hi. destruct (find_model nm (b_models n)) as [m0|] eqn:E; [|destruct Hi].
    apply (CNn m0); [apply find_model_In in E; tauto|exact Hi]. }
  assert (Hdata_eq : forall i j, In i (m_insts m) -> isig_of_inst j = isig_w i -> same_data i j).
  { intros i j Hi E. unfold isig_of_inst, isig_w in E. inversion E as [[E1 E2 E3 E4 E5 E6]]. unfold same_data.
    repeat split; auto. intros c Hcc. rewrite E3. f_equal. pose proof (Hcn i Hi c Hcc) as Hn. unfold wname. rewrite Hn. reflexivity. }
  exists m'. split; [exact Hm'|]. split.
  - intros x i [Hi Hx]. destruct (in_written m i Hi) as [idx Hw].
    assert (Hj : In (isig_w i) (map isig_of_inst (m_insts m'))).
    { rewrite Hsig. apply in_map_iff. exists (idx, i). auto. }
    apply in_map_iff in Hj as [j [Ej Hj]]. exists j. split; [split; [exact Hj|]|apply Hdata_eq; assumption].
    apply (CNm' j Hj). unfold isig_of_inst, isig_w in Ej. inversion Ej as [[E1 E2 E3 E4 E5 E6]]. rewrite E3. unfold wname. rewrite Hx. reflexivity.
  - intros x j [Hj Hx].
    assert (Hi : In (isig_of_inst j) (map (fun ni : nat * inst => isig_w (snd ni)) (written_insts m))).
    { rewrite <- Hsig. apply in_map. exact Hj. }
    apply in_map_iff in Hi as [[idx i] [Ei Hw]]. cbn [snd] in Ei. pose proof (in_written_insts _ _ Hw) as Hi. cbn [snd] in Hi.
    exists i. split; [split; [exact Hi|]|apply Hdata_eq; [exact Hi|symmetry; exact Ei]].
    unfold names_some in Hnames. rewrite forallb_forall in Hnames. specialize (Hnames i Hi).
    destruct (i_name i) as [y|] eqn:Ey; [|discriminate]. f_equal.
    assert (Hc' : i_cname j = Some y).
    { pose proof (f_equal g_cname Ei) as E3. cbn in E3. rewrite <- E3. unfold wname. rewrite Ey. reflexivity. }
    pose proof (CNm' j Hj y Hc') as Hn. congruence.
Qed.

(* ---------- under the side condition of BlifSpec ---------- *)
Lemma roundtrippable_inv n :
  roundtrippable n = true ->
  covers_ok n = true /\
  forall nm, In nm (written_names n) ->
    names_some (get_model nm (b_models n)) = true /\
    forallb (data_ok (b_models n) (get_model nm (b_models n))) (written_insts (get_model nm (b_models n))) = true.
Proof.
  unfold roundtrippable. intro H0. apply andb_true_iff in H0 as [H0 _]. revert H0.
  unfold roundtrippable0, covers_ok. destruct (b_top n) as [[tn tr]|] eqn:Et.
  - cbn zeta. intro H. apply andb_true_iff in H as [_ H]. rewrite forallb_forall in H. split.
    + apply forallb_forall. intros nm Hin. specialize (H nm Hin). repeat (apply andb_true_iff in H as [H ?]). assumption.
    + intros nm Hin. specialize (H nm Hin). repeat (apply andb_true_iff in H as [H ?]). split; assumption.
  - intros _. unfold written_names. rewrite Et. split; [reflexivity|intros nm []].
Qed.

Theorem rt_instances_fragment d n n' :
  elab d = Ok n -> roundtrippable n = true -> supported (emit n) = true -> elab (emit n) = Ok n' ->
  forall nm, In nm (written_names n) ->
    exists m', find_model nm (b_models n') = Some m' /\ insts_equiv (get_model nm (b_models n)) m'.
Proof.
  intros Hd Hr Hs He nm Hin. destruct (roundtrippable_inv n Hr) as [Hc Hall]. destruct (Hall nm Hin) as [Hn Hdat].
  exact (rt_instances d n n' Hd Hc Hs He nm Hin Hdat Hn).
Qed.

(* the written file of a roundtrippable netlist is segmented as written *)
Theorem written_file_segmented n :
  roundtrippable n = true -> classify (emit n) = Ok (stmts_of n) /\ grammar (emit n) = Some (stmts_of n).
Proof.
  intro Hr. destruct (roundtrippable_inv n Hr) as [Hc _]. split; [apply classify_emit|apply grammar_emit]; try exact Hc.
  unfold roundtrippable in Hr. apply andb_true_iff in Hr as [_ Ht]. exact Ht.
Qed.
