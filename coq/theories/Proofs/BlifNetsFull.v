(* EBLIF engine: the reader builds what a supported document says - all clauses of BlifSpec.denote
   (instances: Proofs/BlifSound.v; here: connectivity, library, port directions, undeclared models). *)
From Coq Require Import List Arith NArith Bool Lia Permutation.
From SV Require Import Base.Base Fmt.Blif Fmt.BlifRead Fmt.BlifWrite Fmt.BlifSpec
  Proofs.BlifBase Proofs.BlifWF Proofs.BlifExec Proofs.BlifSound Proofs.BlifC18
  Proofs.BlifNetsBase Proofs.BlifNetsView Proofs.BlifNetsRel Proofs.BlifNetsStep Proofs.BlifNetsInst
  Proofs.BlifNetsConn Proofs.BlifNetsExec Proofs.BlifNetsRun Proofs.BlifNetsSpec Proofs.BlifNetsShape
  Proofs.BlifNetsSide.
Import ListNotations.

(* ---------- finish keeps the structure, and the library of declared models ---------- *)
Lemma conv_model_view ms todo : forall m m', conv_model ms todo m = Ok m' ->
  m_name m' = m_name m /\ m_ports m' = m_ports m /\ m_cables m' = m_cables m /\ m_lib m' = m_lib m /\
  m_defined m' = m_defined m /\ length (m_insts m') = length (m_insts m).
Proof.
  induction todo as [|idx todo IH]; intros m m' H; cbn in H.
  - inversion H. repeat split.
  - destruct (nth_error (m_insts m) idx) as [i|]; [|inversion H; repeat split].
    destruct (wants_conv i); [|apply IH; assumption].
    destruct (conv_name ms m idx i) as [nm|]; [|apply IH; assumption].
    apply bind_ok in H as [m1 [H1 H2]]. destruct (IH _ _ H2) as [A1 [A2 [A3 [A4 [A5 A6]]]]].
    unfold set_inst_name in H1. destruct (name_taken _ _ _); [discriminate|]. inversion H1; subst m1.
    cbn in *. rewrite length_upd_nth in A6. repeat split; assumption.
Qed.

Lemma finish_view s n nm m' :
  finish s = Ok n -> find_model nm (b_models n) = Some m' ->
  exists m, find_model nm (st_models s) = Some m /\
    m_ports m' = m_ports m /\ m_cables m' = m_cables m /\ m_defined m' = m_defined m /\
    length (m_insts m') = length (m_insts m) /\
    m_lib m' = (if m_defined m then m_lib m else LPrim).
Proof.
  intros H Hf. unfold finish in H. apply bind_ok in H as [ms [H1 H2]]. inversion H2; subst n. clear H2.
  cbn [b_models] in Hf. unfold st_models. revert ms H1 Hf. generalize (b_models (s_nl s)) at 1 as ms0.
  intro ms0. induction (b_models (s_nl s)) as [|x l IH]; intros ms H1 Hf; cbn in H1.
  - inversion H1; subst. discriminate.
  - apply bind_ok in H1 as [x' [A H1]]. apply bind_ok in H1 as [rest [B C]]. inversion C; subst ms. clear C.
    destruct (conv_model_view _ _ _ _ A) as [V1 [V2 [V3 [V4 [V5 V6]]]]].
    unfold find_model in *. cbn [map find] in *.
    assert (Hn : m_name (if m_defined x' then x' else set_lib x' LPrim) = m_name x) by (destruct (m_defined x'); cbn; exact V1).
    rewrite Hn in Hf. destruct (str_eqb (m_name x) nm).
    + inversion Hf; subst m'. exists x. split; [reflexivity|]. rewrite <- V5.
      destruct (m_defined x') eqn:Ed; cbn [set_lib m_ports m_cables m_defined m_insts m_lib]; rewrite ?Ed; repeat split; auto.
    + apply (IH rest B Hf).
Qed.

(* ---------- counting the instance statements of a section ---------- *)
Definition is_inst_stmt (x : stmt) : bool := match x with SSub _ _ _ | SNames _ | SLatch _ => true | _ => false end.
Definition Fidx (st : nst) (b : list stmt) : nat := n_idx st + length (filter is_inst_stmt b).

Lemma Fidx_step x st b : Fidx (step_n x st) b = Fidx st (x :: b).
Proof.
  unfold Fidx. destruct x; cbn [step_n filter is_inst_stmt length add_inst n_idx]; try reflexivity; try lia.
  - rewrite in_toks_eq. reflexivity.
  - rewrite out_toks_eq. reflexivity.
  - destruct (nb_of a), (nb_of b0); reflexivity.
Qed.

Lemma run_idx nm ss cur st : n_idx (run_g nm cur ss st) = n_idx st + length (filter is_inst_stmt (body_of nm cur ss)).
Proof.
  pose proof (run_transfer Fidx nm Fidx_step) as H. unfold Fidx in H.
  rewrite <- H; try reflexivity. cbn. lia.
Qed.

Lemma run_top_undeclared nm ss : top_ok ss -> ~ In nm (model_names ss) -> run_g nm [] ss st0 = st0.
Proof.
  induction ss as [|x r IH]; intros Ht Hn; [reflexivity|]. destruct x; try contradiction; cbn [run_g step_g next_c].
  - apply IH; [exact Ht|exact Hn].
  - cbn [model_names] in Hn. assert (E : str_eqb nm nm0 = false) by (apply str_eqb_false; intro; apply Hn; left; congruence).
    rewrite E. apply run_undeclared; [intro; apply Hn; right; assumption|apply str_eqb_false; exact E].
Qed.

(* ---------- the booleans of [supported] ---------- *)
Lemma supported_inv d :
  supported d = true ->
  exists ss, classify d = Ok ss /\ grammar d = Some ss /\ NoDup (model_names ss) /\
    (forall nm, In nm (model_names ss) -> body_ok nm (body_of nm [] ss) = true) /\ hdr_sorted 3 ss = true.
Proof.
  unfold supported. destruct (classify d) as [a|] eqn:Ec; [|discriminate].
  destruct (grammar d) as [b|] eqn:Eg; [|discriminate]. intro Hs.
  apply andb_true_iff in Hs as [Hs Hsorted]. apply andb_true_iff in Hs as [Hs Hb]. apply andb_true_iff in Hs as [Hs Hnd]. apply andb_true_iff in Hs as [Heq _].
  apply stmts_eqb_eq in Heq. subst b. exists a. repeat split; auto.
  - apply nodup_strs_NoDup. exact Hnd.
  - intros nm Hn. rewrite forallb_forall in Hb. apply Hb. exact Hn.
Qed.

Lemma body_ok_inv nm body :
  body_ok nm body = true ->
  bb_shape body = true /\
  reserved nm = false /\ nm <> [] /\
  forall g r p, In (SSub g r p) body -> reserved r = false.
Proof.
  unfold body_ok. intro H. apply andb_true_iff in H as [H _]. repeat (apply andb_true_iff in H as [H ?]).
  repeat split; auto.
  - apply negb_true_iff. assumption.
  - intro E. subst. discriminate.
  - intros g r p Hin. rewrite forallb_forall in H0. specialize (H0 _ Hin). apply negb_true_iff in H0. exact H0.
Qed.

Lemma mem_In nm l : mem nm l = true <-> In nm l.
Proof.
  unfold mem. rewrite existsb_exists. split; [intros [y [H1 H2]]; apply str_eqb_spec in H2; subst; exact H1|].
  intro H. exists nm. split; [exact H|apply str_eqb_refl].
Qed.

(* ====================================================================== the theorem *)
Theorem sound_full d n : supported d = true -> elab d = Ok n -> denote d n.
Proof.
  intros Hs He. destruct (sound_insts d n Hs He) as [ss0 [Hg0 Hinst]].
  destruct (supported_inv d Hs) as [ss [Ec [Eg [Hnd [Hbody Hsorted]]]]].
  assert (ss0 = ss) by congruence. subst ss0. clear Hg0.
  exists ss. split; [exact Eg|].
  pose proof (elab_inv d n He) as [Hndn HWF].
  unfold elab, elab_stmts in He. rewrite Ec in He. cbn [bind] in He. apply bind_ok in He as [s [Hx Hfin]].
  pose proof (classify_top_ok d ss (classify_ok _ _ Ec)) as Htop.
  pose proof (grammar_closed d GTop ss Eg) as Hclosed. cbn [g_inside] in Hclosed.
  pose proof (hdr_sorted_ss ss 3 Hsorted) as Hhdr.
  assert (Hne : ~ In [] (model_names ss)).
  { intro Hin. destruct (body_ok_inv _ _ (Hbody _ Hin)) as [_ [_ [H _]]]. apply H. reflexivity. }
  assert (Hok : Forall okstmt ss).
  { apply Forall_forall. intros x Hin. destruct x; cbn [okstmt]; auto.
    - assert (Hm : In nm (model_names ss)).
      { clear -Hin. induction ss as [|y r IH]; [destruct Hin|]. destruct Hin as [->|Hin]; [left; reflexivity|].
        destruct y; cbn; auto. }
      destruct (body_ok_inv _ _ (Hbody _ Hm)) as [_ [H _]]. exact H.
    - destruct (in_some_body _ ss false [] Hclosed Hin I) as [[A _]|[nm [A B]]]; [discriminate|].
      destruct (body_ok_inv _ _ (Hbody _ A)) as [_ [_ [_ H]]]. eapply H. exact B. }
  assert (Hside : forall nm, sideOK nm [] ss st0).
  { intro nm. apply sideOK_of; [exact Hnd| | |].
    - intros ->. exact Hne.
    - intros ->. exists 0. rewrite (body_closed_nil [] ss false [] Hclosed Hne) by discriminate.
      apply pre_start; try reflexivity; try exact I.
    - intro Hin. split; [|repeat split; reflexivity].
      destruct (body_ok_inv _ _ (Hbody _ Hin)) as [B4 [B5 [B6 B7]]].
      apply pre_start; auto.
      pose proof (hdr_body_of nm ss 3 [] Hhdr Hnd) as Hh.
      rewrite (proj2 (str_eqb_false [] nm)) in Hh by (intro E; apply B6; symmetry; exact E).
      apply Hh. intro E. exfalso. apply B6. symmetry. exact E. }
  assert (HR : forall nm, R nm (get_model nm (st_models s)) (run_g nm [] ss st0)).
  { intro nm. apply (run_start ss init_st s Htop eq_refl eq_refl Hok Hx nm (Hside nm)). }
  split.
  - (* declared models *)
    intros nm Hn. destruct (Hinst nm Hn) as [I1 [I2 I3]].
    destruct (body_ok_inv _ _ (Hbody _ Hn)) as [B4 [B5 [B6 B7]]].
    set (body := body_of nm [] ss) in *. set (fin := run_g nm [] ss st0).
    pose proof (HR nm) as Rn. fold fin in Rn.
    assert (Ebb : n_bb fin = has_blackbox body) by (unfold fin; rewrite run_bb; reflexivity).
    assert (Eatt : n_att fin = spec_attach 0 [] body) by (unfold fin; rewrite run_att; reflexivity).
    assert (Econn : n_conns fin = spec_conns body) by (unfold fin; rewrite run_conns; reflexivity).
    assert (Edef : n_def fin = true) by (apply run_def; exact Hn).
    assert (Elib : n_lib fin = lib_of (has_blackbox body)).
    { unfold fin. rewrite (run_lib nm ss false [] st0 Hclosed Hnd); [|intros ->; exact Hne|reflexivity].
      rewrite (proj2 (mem_In nm (model_names ss)) Hn). reflexivity. }
    assert (Hview : forall m, find_model nm (b_models n) = Some m ->
              m_ports m = m_ports (get_model nm (st_models s)) /\ m_cables m = m_cables (get_model nm (st_models s)) /\
              length (m_insts m) = length (m_insts (get_model nm (st_models s))) /\
              m_lib m = m_lib (get_model nm (st_models s))).
    { intros m Hm. destruct (finish_view _ _ _ _ Hfin Hm) as [m0 [F1 [F2 [F3 [F4 [F5 F6]]]]]].
      rewrite (get_model_find _ _ _ F1). pose proof (r_def _ _ _ Rn Edef) as Hd. rewrite (get_model_find _ _ _ F1) in Hd.
      rewrite Hd in F6. auto. }
    split.
    + constructor; auto.
      * (* connectivity *)
        intros Hnb m Hm a b. destruct (Hview m Hm) as [_ [Vc _]].
        change (same_wire m a b) with (same_wire_c (m_cables m) a b). rewrite Vc.
        fold body in Hnb. rewrite Hnb in Ebb.
        assert (B2f : B2 (m_cables (get_model nm (st_models s))) (n_att fin) (n_conns fin)).
        { destruct (r_net _ _ _ Rn Ebb) as [al Hni]. apply (NI_B2 _ _ _ al); [|exact Hni].
          rewrite <- Vc. apply find_model_In in Hm as [Hm _]. apply (c_cables _ _ (HWF _ Hm)). }
        rewrite Eatt, Econn in B2f. apply B2f.
      * (* library *)
        intros m Hm. destruct (Hview m Hm) as [_ [Vc [Vl Vb]]]. fold body.
        rewrite Vb, (r_lib _ _ _ Rn), Elib. destruct (has_blackbox body) eqn:Eb; [|reflexivity].
        split; [reflexivity|]. split.
        -- rewrite Vc. apply (r_bb _ _ _ Rn). rewrite Ebb. reflexivity.
        -- assert (El : length (m_insts m) = 0).
           { rewrite Vl, (r_idx _ _ _ Rn). unfold fin. rewrite run_idx. cbn [st0 n_idx]. fold body.
             unfold bb_shape in B4. rewrite Eb in B4. cbn in B4.
             clear -B4. induction body as [|x r IH]; [reflexivity|]. cbn in B4. apply andb_true_iff in B4 as [B4a B4b].
             destruct x; try discriminate; cbn; apply IH; exact B4b. }
           destruct (m_insts m); [reflexivity|discriminate].
    + (* directions *)
      intros m q Hm Hq. destruct (Hview m Hm) as [Vp _]. fold body.
      pose proof (r_dir _ _ _ Rn B5 (p_name q)) as Hd.
      unfold fin in Hd. rewrite run_inn, run_outn in Hd. cbn [st0 n_inn n_outn mem existsb orb] in Hd. fold body in Hd.
      rewrite spec_dir_dirf, <- Hd. unfold port_dir. rewrite <- Vp.
      apply find_model_In in Hm as [Hm _]. rewrite (find_port_unique _ _ (c_ports _ _ (HWF _ Hm)) Hq). reflexivity.
  - (* models that are instanced but never declared *)
    intros m Hm Hd. pose proof (find_model_unique _ _ Hndn Hm) as Hf. set (nm := m_name m) in *.
    destruct (finish_view _ _ _ _ Hfin Hf) as [m0 [F1 [F2 [F3 [F4 [F5 F6]]]]]].
    pose proof (HR nm) as Rn. rewrite (get_model_find _ _ _ F1) in Rn.
    assert (Hnn : ~ In nm (model_names ss)).
    { intro Hin. pose proof (r_def _ _ _ Rn (run_def nm ss [] st0 Hin)) as Hd0. congruence. }
    rewrite (run_top_undeclared nm ss Htop Hnn) in Rn.
    rewrite <- F4, Hd in F6. split; [exact F6|]. split.
    + rewrite F3. apply (r_cab0 _ _ _ Rn); reflexivity.
    + pose proof (r_idx _ _ _ Rn) as Hi. cbn in Hi. rewrite <- F5 in Hi. destruct (m_insts m); [reflexivity|discriminate].
Qed.

(* the connectivity clause on its own *)
Theorem sound_nets d n :
  supported d = true -> elab d = Ok n ->
  exists ss, grammar d = Some ss /\
    forall nm m, In nm (model_names ss) -> has_blackbox (body_of nm [] ss) = false ->
      find_model nm (b_models n) = Some m ->
      forall a b, same_wire m a b <->
        exists x y, In (a, x) (spec_attach 0 [] (body_of nm [] ss)) /\
                    In (b, y) (spec_attach 0 [] (body_of nm [] ss)) /\
                    same_bit (spec_conns (body_of nm [] ss)) x y.
Proof.
  intros Hs He. destruct (sound_full d n Hs He) as [ss [Hg [Hm _]]]. exists ss. split; [exact Hg|].
  intros nm m Hn Hb Hf. destruct (Hm nm Hn) as [[_ _ _ Hnets _] _]. exact (Hnets Hb m Hf).
Qed.

Lemma sound_full_example : supported doc_hier = true /\ exists n, elab doc_hier = Ok n /\ denote doc_hier n.
Proof.
  split; [exact doc_hier_supported|]. pose proof doc_hier_reads as H. destruct (elab doc_hier) as [n|] eqn:E; [|discriminate].
  exists n. split; [reflexivity|]. exact (sound_full _ _ doc_hier_supported E).
Qed.

(* the document on which the unrepaired reader let the second .conn capture the merged net of the first
   is a supported document now, and the reader builds what it says *)
Lemma conn_capture_faithful :
  supported doc_conn_capture = true /\ exists n, elab doc_conn_capture = Ok n /\ denote doc_conn_capture n.
Proof.
  destruct conn_capture_repaired as [Hs [n [m [E _]]]]. split; [exact Hs|].
  exists n. split; [exact E|]. exact (sound_full _ _ Hs E).
Qed.

(* .conn ahead of the statements that use its nets, chains of .conn, a .conn between two names of one net:
   the document is supported and the reader builds what it says *)
Lemma conn_chain_faithful :
  supported doc_conn_chain = true /\ exists n, elab doc_conn_chain = Ok n /\ denote doc_conn_chain n.
Proof.
  destruct conn_chain_reads as [Hs [n [m [E _]]]]. split; [exact Hs|].
  exists n. split; [exact E|]. exact (sound_full _ _ Hs E).
Qed.

(* REPAIRED (finding names-unconn-substring): a net whose name merely contains the text unconn is an
   ordinary net of a .names statement.  The document is supported and read as it stands; the .names driving
   __vpr__unconn3 is called by that net (the unrepaired reader gave it the default name), the operand
   rx_unconnected sits on pin in_1 of the first .names, the net __vpr__unconn3 joins the port, the output
   of the second .names and pin I of the gate; only the exact word unconn leaves a pin open (recorded on
   the gate and on the last .names, which keeps a default name); four cables, none for unconn *)
Lemma names_unconn_substring_repaired :
  supported doc_names_unconn = true /\
  exists n m, elab doc_names_unconn = Ok n /\ find_model nm_top (b_models n) = Some m /\
    denote doc_names_unconn n /\
    map i_name (m_insts m) = names_unconn_inst_names /\
    map i_unconn (m_insts m) = names_unconn_open /\
    same_wire m pin_rx pin_i0_in1 /\ same_wire m pin_vpr pin_i1_out /\ same_wire m pin_vpr pin_i2_I /\
    length (m_cables m) = 4.
Proof.
  assert (Hs : supported doc_names_unconn = true) by (vm_compute; reflexivity).
  split; [exact Hs|].
  remember (elab doc_names_unconn) as r eqn:Er. pose proof Er as Er0. vm_compute in Er. subst r.
  eexists. eexists. split; [reflexivity|]. split; [vm_compute; reflexivity|].
  split; [apply (sound_full _ _ Hs); symmetry; exact Er0|].
  split; [vm_compute; reflexivity|]. split; [vm_compute; reflexivity|]. split; [|split; [|split]].
  - eexists. eexists. split; [right; left; reflexivity|]. split; [left; reflexivity|]. cbn. split; [left; reflexivity|].
    right. left. reflexivity.
  - eexists. eexists. split; [right; right; right; left; reflexivity|]. split; [left; reflexivity|]. cbn. split; [left; reflexivity|].
    right. left. reflexivity.
  - eexists. eexists. split; [right; right; right; left; reflexivity|]. split; [left; reflexivity|]. cbn. split; [left; reflexivity|].
    right. right. left. reflexivity.
  - vm_compute. reflexivity.
Qed.

(* REPAIRED (findings header-gap, comment-splits-instance-info, missing-final-end; parse_model_ports /
   parse_instance_info / parse_name now look at the next statement through peek_statement, which reads comment
   lines, skips blank lines and answers None at the end of the file).  The former refutation witnesses are
   supported documents and are read as they stand *)
Lemma header_gap_repaired :
  supported doc_header_gap = true /\
  exists n m, elab doc_header_gap = Ok n /\ denote doc_header_gap n /\ find_model nm_top (b_models n) = Some m /\
    map (fun q => (p_name q, p_dir q)) (m_ports m) = gap_ports /\
    same_wire m pin_a pin_i0.
Proof.
  assert (Hs : supported doc_header_gap = true) by (vm_compute; reflexivity).
  split; [exact Hs|].
  remember (elab doc_header_gap) as r eqn:Er. pose proof Er as Er0. vm_compute in Er. subst r.
  eexists. eexists. split; [reflexivity|]. split; [apply (sound_full _ _ Hs); symmetry; exact Er0|].
  split; [vm_compute; reflexivity|]. split; [vm_compute; reflexivity|].
  eexists. eexists. split; [left; reflexivity|]. split; [left; reflexivity|]. cbn. split; [left; reflexivity|].
  right. left. reflexivity.
Qed.

Lemma comment_in_info_repaired :
  supported doc_comment_in_info = true /\
  exists n m, elab doc_comment_in_info = Ok n /\ denote doc_comment_in_info n /\ find_model nm_top (b_models n) = Some m /\
    map i_cname (m_insts m) = u1_names /\ map i_name (m_insts m) = u1_names /\
    b_comments n = info_comment.
Proof.
  assert (Hs : supported doc_comment_in_info = true) by (vm_compute; reflexivity).
  split; [exact Hs|].
  remember (elab doc_comment_in_info) as r eqn:Er. pose proof Er as Er0. vm_compute in Er. subst r.
  eexists. eexists. split; [reflexivity|]. split; [apply (sound_full _ _ Hs); symmetry; exact Er0|].
  split; [vm_compute; reflexivity|]. repeat split; vm_compute; reflexivity.
Qed.

(* comments and blank lines at every line boundary, no final .end: supported, read faithfully; both
   instances keep their data, the truth table keeps both rows, all six comments are recorded *)
Lemma gaps_faithful :
  supported doc_gaps = true /\
  exists n m, elab doc_gaps = Ok n /\ denote doc_gaps n /\ find_model nm_top (b_models n) = Some m /\
    map i_cname (m_insts m) = gaps_cnames /\
    map (fun i => length (i_covers i)) (m_insts m) = [2; 0] /\
    map (fun i => (length (i_attr i), length (i_param i))) (m_insts m) = [(0, 0); (1, 1)] /\
    length (m_ports m) = 4 /\ m_clock m = clock_a /\ m_lib m = LWork /\ length (b_comments n) = 7.
Proof.
  assert (Hs : supported doc_gaps = true) by (vm_compute; reflexivity).
  split; [exact Hs|].
  remember (elab doc_gaps) as r eqn:Er. pose proof Er as Er0. vm_compute in Er. subst r.
  eexists. eexists. split; [reflexivity|]. split; [apply (sound_full _ _ Hs); symmetry; exact Er0|].
  split; [vm_compute; reflexivity|]. repeat split; vm_compute; reflexivity.
Qed.

(* the end of the file closes the model wherever it comes (before the repair: StopIteration) *)
Lemma no_final_end_faithful :
  forall d, In d [doc_no_end_inst; doc_no_end_rows; doc_no_end_hdr] ->
  supported d = true /\ exists n, elab d = Ok n /\ denote d n /\ b_work n = [nm_top].
Proof.
  intros d Hd. cbn [In] in Hd. destruct Hd as [<-|[<-|[<-|[]]]].
  - assert (Hs : supported doc_no_end_inst = true) by (vm_compute; reflexivity). split; [exact Hs|].
    remember (elab doc_no_end_inst) as r eqn:Er. pose proof Er as Er0. vm_compute in Er. subst r.
    eexists. split; [reflexivity|]. split; [apply (sound_full _ _ Hs); symmetry; exact Er0|vm_compute; reflexivity].
  - assert (Hs : supported doc_no_end_rows = true) by (vm_compute; reflexivity). split; [exact Hs|].
    remember (elab doc_no_end_rows) as r eqn:Er. pose proof Er as Er0. vm_compute in Er. subst r.
    eexists. split; [reflexivity|]. split; [apply (sound_full _ _ Hs); symmetry; exact Er0|vm_compute; reflexivity].
  - assert (Hs : supported doc_no_end_hdr = true) by (vm_compute; reflexivity). split; [exact Hs|].
    remember (elab doc_no_end_hdr) as r eqn:Er. pose proof Er as Er0. vm_compute in Er. subst r.
    eexists. split; [reflexivity|]. split; [apply (sound_full _ _ Hs); symmetry; exact Er0|vm_compute; reflexivity].
Qed.

(* port lines in another order are read (before the repair the .inputs line was dropped): both ports are
   there with their directions and the input is on the gate's pin.  The document is outside [supported]
   (conjunct hdr_sorted): the connectivity theorem is proved for inputs-first sections only *)
Lemma outputs_first_reads :
  supported doc_outputs_first = false /\
  exists n m, elab doc_outputs_first = Ok n /\ find_model nm_top (b_models n) = Some m /\
    map (fun q => (p_name q, p_dir q)) (m_ports m) = of_ports /\
    m_clock m = clock_c /\ same_wire m pin_a pin_i0.
Proof.
  split; [vm_compute; reflexivity|].
  remember (elab doc_outputs_first) as r eqn:Er. vm_compute in Er. subst r.
  eexists. eexists. split; [reflexivity|]. split; [vm_compute; reflexivity|].
  split; [vm_compute; reflexivity|]. split; [vm_compute; reflexivity|].
  eexists. eexists. split; [right; left; reflexivity|]. split; [left; reflexivity|]. cbn. split; [left; reflexivity|].
  right. left. reflexivity.
Qed.

(* reading a written file: when it is a supported document, the re-read netlist is what it says *)
Theorem reread_faithful n n' : supported (emit n) = true -> elab (emit n) = Ok n' -> denote (emit n) n'.
Proof. apply sound_full. Qed.
