(* HRef.is_valid decides the hierarchical-reference relation (C11).

   1  is_valid_iff_up            in ANY heap, is_valid decides the reference relation read through
                                 the back pointers (is_href_up): no hypothesis on the state.
   2  up_iff_down                when containers and back pointers agree (Inv1a, Inv2a: the C01/C02
                                 invariants) and ids are well-kinded (WFk), the upward relation is
                                 the downward path relation is_href.
   3  is_valid_iff               hence, under those invariants, is_valid decides is_href.
   4  is_valid_after_any_history after any edit history that never gets stuck the two invariants
                                 hold, so only WFk of the reached state remains as a hypothesis.
   5  is_valid_example           the hypotheses of 3 are satisfiable together with a valid
                                 reference of length 3 (a port of a leaf cell below the top).

   References are [list id], LEAF FIRST (item :: parent chain, top instance last). *)
From Coq Require Import List Arith Bool Lia.
From SV Require Import Base.Base IR.State IR.NS IR.Ops Proofs.Inv1a Proofs.Inv2a Proofs.C01_lemmas Hier.Paths Hier.Enum.
Import ListNotations.

(* ------------------------------------------------------------------------------------------ *)
(* 1. is_valid <-> is_href_up, in any heap                                                     *)

Lemma root_ok_iff s x : root_ok s x = true <-> is_root s x.
Proof.
  unfold root_ok, is_root. split.
  - destruct (root_netlist s x) as [n|]; [|discriminate].
    destruct (top s n) as [t|] eqn:Et; [|discriminate].
    intro H. apply Nat.eqb_eq in H. subst t. exists n. split; [reflexivity|exact Et].
  - intros [n [Hr Ht]]. rewrite Hr, Ht. apply Nat.eqb_refl.
Qed.

(* one unfolding of is_valid on a reference with at least two levels *)
Lemma is_valid_step s x hp rest :
  is_valid s (x :: hp :: rest) =
  match kind_of s x with
  | Some KInstance => match par s RChildren x with
                      | Some d => memb hp (drefs s d) && is_valid s (hp :: rest)
                      | None => false
                      end
  | Some KPort => match par s RPorts x with
                  | Some d => memb hp (drefs s d) && is_valid s (hp :: rest)
                  | None => false
                  end
  | Some KCable => match par s RCables x with
                   | Some d => memb hp (drefs s d) && is_valid s (hp :: rest)
                   | None => false
                   end
  | Some KWire => match par s RWires x with
                  | Some c => Nat.eqb hp c && is_valid s (hp :: rest)
                  | None => false
                  end
  | Some KPin => match par s RPins x with
                 | Some q => Nat.eqb hp q && is_valid s (hp :: rest)
                 | None => false
                 end
  | _ => false
  end.
Proof. reflexivity. Qed.

Lemma is_valid_single s x :
  is_valid s [x] = match kind_of s x with Some KInstance => root_ok s x | _ => false end.
Proof. cbn. destruct (kind_of s x) as [[]|]; reflexivity. Qed.

Lemma is_valid_up s h : is_valid s h = true -> is_href_up s h.
Proof.
  induction h as [|x rest IH]; [discriminate|].
  destruct rest as [|hp rest].
  - rewrite is_valid_single. destruct (kind_of s x) as [[]|] eqn:K; try discriminate.
    intro H. apply up_root; [exact K|apply root_ok_iff; exact H].
  - rewrite is_valid_step.
    destruct (kind_of s x) as [[]|] eqn:K; try discriminate.
    + destruct (par s RPorts x) as [d|] eqn:P; [|discriminate]. intro H.
      apply andb_true_iff in H as [H1 H2]. apply memb_In in H1.
      eapply up_port; eauto.
    + destruct (par s RCables x) as [d|] eqn:P; [|discriminate]. intro H.
      apply andb_true_iff in H as [H1 H2]. apply memb_In in H1.
      eapply up_cable; eauto.
    + destruct (par s RWires x) as [c|] eqn:P; [|discriminate]. intro H.
      apply andb_true_iff in H as [H1 H2]. apply Nat.eqb_eq in H1. subst hp.
      apply up_wire; auto.
    + destruct (par s RPins x) as [q|] eqn:P; [|discriminate]. intro H.
      apply andb_true_iff in H as [H1 H2]. apply Nat.eqb_eq in H1. subst hp.
      apply up_pin; auto.
    + destruct (par s RChildren x) as [d|] eqn:P; [|discriminate]. intro H.
      apply andb_true_iff in H as [H1 H2]. apply memb_In in H1.
      eapply up_child; eauto.
Qed.

Lemma up_is_valid s h : is_href_up s h -> is_valid s h = true.
Proof.
  induction 1 as [t K R|c x p d K P I U IH|q x p d K P I U IH|c x p d K P I U IH
                  |i q p K P U IH|w c p K P U IH].
  - rewrite is_valid_single, K. apply root_ok_iff. exact R.
  - rewrite is_valid_step, K, P, IH. apply memb_In in I. rewrite I. reflexivity.
  - rewrite is_valid_step, K, P, IH. apply memb_In in I. rewrite I. reflexivity.
  - rewrite is_valid_step, K, P, IH. apply memb_In in I. rewrite I. reflexivity.
  - rewrite is_valid_step, K, P, IH, Nat.eqb_refl. reflexivity.
  - rewrite is_valid_step, K, P, IH, Nat.eqb_refl. reflexivity.
Qed.

(* in ANY heap, is_valid decides the reference relation read through the back pointers *)
Theorem is_valid_iff_up : forall s h, is_valid s h = true <-> is_href_up s h.
Proof. intros s h. split; [apply is_valid_up|apply up_is_valid]. Qed.

(* ------------------------------------------------------------------------------------------ *)
(* 2. upward = downward under Inv1a, Inv2a, WFk                                                *)

Section UpDown.
Variable s : state.
Hypothesis H1 : Inv1a s.
Hypothesis H2 : Inv2a s.
Hypothesis HW : WFk s.

Lemma root_kind t : is_root s t -> kind_of s t = Some KInstance.
Proof.
  intros [n [Hr _]]. unfold root_netlist in Hr.
  destruct (iref s t) as [d|] eqn:E; [|discriminate]. eapply wk_iref; eauto.
Qed.

Lemma child_iff c x : child s c x <-> exists d, iref s x = Some d /\ In c (kids s RChildren d).
Proof.
  unfold child, sub. destruct (iref s x) as [d|].
  - split; [intro H; exists d; auto|intros [d' [E H]]; inversion E; subst; exact H].
  - split; [intros []|intros [d' [E _]]; discriminate].
Qed.

Lemma ports_of_iff q x : In q (ports_of s x) <-> exists d, iref s x = Some d /\ In q (kids s RPorts d).
Proof.
  unfold ports_of. destruct (iref s x) as [d|].
  - split; [intro H; exists d; auto|intros [d' [E H]]; inversion E; subst; exact H].
  - split; [intros []|intros [d' [E _]]; discriminate].
Qed.

Lemma cables_of_iff c x : In c (cables_of s x) <-> exists d, iref s x = Some d /\ In c (kids s RCables d).
Proof.
  unfold cables_of. destruct (iref s x) as [d|].
  - split; [intro H; exists d; auto|intros [d' [E H]]; inversion E; subst; exact H].
  - split; [intros []|intros [d' [E _]]; discriminate].
Qed.

Lemma port_kind q x : In q (ports_of s x) -> kind_of s q = Some KPort.
Proof. intro H. apply ports_of_iff in H as [d [_ H]]. exact (wk_kids s HW RPorts d q H). Qed.

Lemma cable_kind c x : In c (cables_of s x) -> kind_of s c = Some KCable.
Proof. intro H. apply cables_of_iff in H as [d [_ H]]. exact (wk_kids s HW RCables d c H). Qed.

Lemma pin_kind i q : In i (kids s RPins q) -> kind_of s i = Some KPin.
Proof. exact (wk_kids s HW RPins q i). Qed.

Lemma wire_kind w c : In w (kids s RWires c) -> kind_of s w = Some KWire.
Proof. exact (wk_kids s HW RWires c w). Qed.

(* every instance path is headed by an instance *)
Lemma path_head_kind t x p : is_path s t (x :: p) -> kind_of s x = Some KInstance.
Proof.
  intros [Hr Hp]. inversion Hp; subst.
  - apply root_kind. exact Hr.
  - match goal with Hx : child s _ _ |- _ => apply child_iff in Hx as [d [_ Hd]] end.
    exact (wk_kids s HW RChildren d x Hd).
Qed.

(* a reference headed by an instance is an instance path; headed by a port (cable), it is a port
   (cable) of the last instance of an instance path *)
Lemma href_inst_inv x p :
  is_href s (x :: p) -> kind_of s x = Some KInstance -> exists t, is_path s t (x :: p).
Proof.
  intros H K. inversion H; subst.
  - eauto.
  - match goal with Hx : In x (ports_of s _) |- _ => apply port_kind in Hx end. congruence.
  - match goal with Hx : In x (kids s RPins _) |- _ => apply pin_kind in Hx end. congruence.
  - match goal with Hx : In x (cables_of s _) |- _ => apply cable_kind in Hx end. congruence.
  - match goal with Hx : In x (kids s RWires _) |- _ => apply wire_kind in Hx end. congruence.
Qed.

Lemma href_port_inv q p :
  is_href s (q :: p) -> kind_of s q = Some KPort ->
  exists t x p', p = x :: p' /\ is_path s t (x :: p') /\ In q (ports_of s x).
Proof.
  intros H K. inversion H; subst.
  - match goal with Hx : is_path s _ _ |- _ => apply path_head_kind in Hx end. congruence.
  - eauto 7.
  - match goal with Hx : In q (kids s RPins _) |- _ => apply pin_kind in Hx end. congruence.
  - match goal with Hx : In q (cables_of s _) |- _ => apply cable_kind in Hx end. congruence.
  - match goal with Hx : In q (kids s RWires _) |- _ => apply wire_kind in Hx end. congruence.
Qed.

Lemma href_cable_inv c p :
  is_href s (c :: p) -> kind_of s c = Some KCable ->
  exists t x p', p = x :: p' /\ is_path s t (x :: p') /\ In c (cables_of s x).
Proof.
  intros H K. inversion H; subst.
  - match goal with Hx : is_path s _ _ |- _ => apply path_head_kind in Hx end. congruence.
  - match goal with Hx : In c (ports_of s _) |- _ => apply port_kind in Hx end. congruence.
  - match goal with Hx : In c (kids s RPins _) |- _ => apply pin_kind in Hx end. congruence.
  - eauto 7.
  - match goal with Hx : In c (kids s RWires _) |- _ => apply wire_kind in Hx end. congruence.
Qed.

(* an element of drefs d heads, when it heads a reference at all, an instance path, and it
   references d *)
Lemma dref_path x p d :
  In x (drefs s d) -> is_href s (x :: p) -> iref s x = Some d /\ exists t, is_path s t (x :: p).
Proof.
  intros I H. apply (i2_ref s H2) in I. split; [exact I|].
  apply href_inst_inv; [exact H|]. eapply wk_iref; eauto.
Qed.

Lemma up_down h : is_href_up s h -> is_href s h.
Proof.
  induction 1 as [t K R|c x p d K P I U IH|q x p d K P I U IH|c x p d K P I U IH
                  |i q p K P U IH|w c p K P U IH].
  - apply (hr_inst s t). split; [exact R|constructor].
  - destruct (dref_path x p d I IH) as [E [t [Hr Hp]]].
    apply (hr_inst s t). split; [exact Hr|]. constructor; [exact Hp|].
    apply child_iff. exists d. split; [exact E|]. apply (i1_kids s H1). exact P.
  - destruct (dref_path x p d I IH) as [E [t Hp]].
    apply (hr_port s t); [exact Hp|].
    apply ports_of_iff. exists d. split; [exact E|]. apply (i1_kids s H1). exact P.
  - destruct (dref_path x p d I IH) as [E [t Hp]].
    apply (hr_cable s t); [exact Hp|].
    apply cables_of_iff. exists d. split; [exact E|]. apply (i1_kids s H1). exact P.
  - apply (i1_kids s H1) in P.
    pose proof (wk_parent s HW RPins q i P) as Kq. cbn in Kq.
    destruct (href_port_inv q p IH Kq) as [t [x [p' [E [Hp Hq]]]]]. subst p.
    apply (hr_pin s t); assumption.
  - apply (i1_kids s H1) in P.
    pose proof (wk_parent s HW RWires c w P) as Kc. cbn in Kc.
    destruct (href_cable_inv c p IH Kc) as [t [x [p' [E [Hp Hc]]]]]. subst p.
    apply (hr_wire s t); assumption.
Qed.

Lemma rpath_up t p : is_root s t -> is_rpath s t p -> is_href_up s p.
Proof.
  intros Hr. induction 1 as [|c x p Hp IH Hc].
  - apply up_root; [apply root_kind; exact Hr|exact Hr].
  - apply child_iff in Hc as [d [E Hc]].
    apply (up_child s c x p d).
    + exact (wk_kids s HW RChildren d c Hc).
    + apply (i1_kids s H1). exact Hc.
    + apply (i2_ref s H2). exact E.
    + exact IH.
Qed.

Lemma path_up t p : is_path s t p -> is_href_up s p.
Proof. intros [Hr Hp]. eapply rpath_up; eauto. Qed.

Lemma port_up t x p q : is_path s t (x :: p) -> In q (ports_of s x) -> is_href_up s (q :: x :: p).
Proof.
  intros Hp Hq. pose proof (port_kind q x Hq) as K. apply ports_of_iff in Hq as [d [E Hq]].
  apply (up_port s q x p d); [exact K|apply (i1_kids s H1); exact Hq|apply (i2_ref s H2); exact E|].
  eapply path_up; eauto.
Qed.

Lemma cable_up t x p c : is_path s t (x :: p) -> In c (cables_of s x) -> is_href_up s (c :: x :: p).
Proof.
  intros Hp Hc. pose proof (cable_kind c x Hc) as K. apply cables_of_iff in Hc as [d [E Hc]].
  apply (up_cable s c x p d); [exact K|apply (i1_kids s H1); exact Hc|apply (i2_ref s H2); exact E|].
  eapply path_up; eauto.
Qed.

Lemma down_up h : is_href s h -> is_href_up s h.
Proof.
  intros H. destruct H as [t p Hp|t x p q Hp Hq|t x p q i Hp Hq Hi|t x p c Hp Hc|t x p c w Hp Hc Hw].
  - eapply path_up; eauto.
  - eapply port_up; eauto.
  - apply up_pin; [apply (pin_kind i q); exact Hi|apply (i1_kids s H1); exact Hi|].
    eapply port_up; eauto.
  - eapply cable_up; eauto.
  - apply up_wire; [apply (wire_kind w c); exact Hw|apply (i1_kids s H1); exact Hw|].
    eapply cable_up; eauto.
Qed.

End UpDown.

(* when containers and back pointers agree, reading upwards = walking downwards *)
Theorem up_iff_down : forall s h, Inv1a s -> Inv2a s -> WFk s -> (is_href_up s h <-> is_href s h).
Proof. intros s h A B C. split; [apply up_down|apply down_up]; assumption. Qed.

(* ------------------------------------------------------------------------------------------ *)
(* 3. under the C01/C02 invariants is_valid decides the downward path relation                 *)

Theorem is_valid_iff : forall s h, Inv1a s -> Inv2a s -> WFk s -> (is_valid s h = true <-> is_href s h).
Proof.
  intros s h A B C. rewrite is_valid_iff_up. apply up_iff_down; assumption.
Qed.

(* ------------------------------------------------------------------------------------------ *)
(* 4. after any edit history                                                                   *)

Lemma run_inv2a ops : forall s, Inv2a s -> never_stuck ops s -> Inv2a (run ops s).
Proof.
  induction ops as [|o ops IH]; intros s Hi Hn; cbn; [exact Hi|].
  destruct Hn as [Ha Hb]. apply IH; [apply step_inv2a; assumption|exact Hb].
Qed.

Theorem is_valid_after_any_history : forall ops h,
  never_stuck ops init -> WFk (run ops init) ->
  (is_valid (run ops init) h = true <-> is_href (run ops init) h).
Proof.
  intros ops h Hn Hw. apply is_valid_iff.
  - apply run_inv1a; [apply inv1a_init|exact Hn].
  - apply run_inv2a; [apply inv2a_init|exact Hn].
  - exact Hw.
Qed.

(* ------------------------------------------------------------------------------------------ *)
(* 5. the hypotheses are satisfiable: netlist 0, library 1, leaf definition 2 with port 4 (pin 5),
      top definition 3 with child 6 (an instance of 2), top instance 7 created from 3.
      The reference  port 4 :: instance 6 :: top 7  is valid.                                  *)

Definition ex_ops : list op :=
  [ ONew KNetlist None [];
    OCreate RLibs 0 None [] 0 None;
    OCreate RDefs 1 None [] 0 None;
    OCreate RDefs 1 None [] 0 None;
    OCreate RPorts 2 None [] 1 None;
    OCreate RChildren 3 None [] 0 (Some 2);
    OSetTop 0 (TopDef 3) ].

Definition ex_state : state := run ex_ops init.

Lemma ex_never_stuck : never_stuck ex_ops init.
Proof. vm_compute. repeat split; discriminate. Qed.

Ltac ex_split_id p := do 9 (try destruct p as [|p]).

Lemma ex_wfk : WFk ex_state.
Proof.
  constructor.
  - intros r p c H. destruct r; ex_split_id p; vm_compute in H; try contradiction;
      repeat (destruct H as [H|H]; [subst c; vm_compute; reflexivity|]); contradiction.
  - intros r p c H. destruct r; ex_split_id p; vm_compute in H; try contradiction;
      vm_compute; reflexivity.
  - intros x d H. ex_split_id x; vm_compute in H; try discriminate; vm_compute; reflexivity.
  - intros r p c H. destruct r; ex_split_id p; vm_compute in H; try contradiction;
      repeat (destruct H as [H|H]; [subst c; vm_compute; lia|]); contradiction.
  - intros x d H. ex_split_id x; vm_compute in H; try discriminate; vm_compute; lia.
Qed.

Example is_valid_example :
  exists s h, Inv1a s /\ Inv2a s /\ WFk s /\ is_valid s h = true /\ length h = 3.
Proof.
  exists ex_state, [4; 6; 7].
  split; [apply run_inv1a; [apply inv1a_init|apply ex_never_stuck]|].
  split; [apply run_inv2a; [apply inv2a_init|apply ex_never_stuck]|].
  split; [apply ex_wfk|].
  split; [vm_compute; reflexivity|reflexivity].
Qed.

Print Assumptions is_valid_iff_up.
Print Assumptions up_iff_down.
Print Assumptions is_valid_iff.
Print Assumptions is_valid_after_any_history.
Print Assumptions is_valid_example.
