(* get_wires: no wire is yielded twice, for every collection of roots, every selection (INSIDE,
   OUTSIDE, BOTH, ALL) and recursive setting; the callback is applied on top. *)
From Coq Require Import List Arith Bool Lia.
From SV Require Import Base.Base IR.State Hier.Paths Hier.Trace Query.Enum Proofs.QueryFilterA Proofs.QueryEnumWL Proofs.QueryEnumBase.
Import ListNotations.

Section Wires.
Variable s : state.
Variable x : sel.
Variable y1 : list id.       (* what the first loop yielded *)

(* in_yield contains everything yielded; the second loop yields only what is not in in_yield *)
Definition winv (iny ys : list id) : Prop :=
  NoDup ys /\ incl ys iny /\ incl y1 iny /\ forall w, In w ys -> ~ In w y1.

Lemma look_inv ws : forall iny ys news iny' ys' news',
  look s x ws (iny, ys, news) = (iny', ys', news') -> winv iny ys -> winv iny' ys'.
Proof.
  induction ws as [|w ws IH]; intros iny ys news iny' ys' news' H Hi; cbn [look] in H.
  - injection H as <- <- _. exact Hi.
  - destruct (memb w iny) eqn:Em; [apply (IH _ _ _ _ _ _ H Hi)|].
    apply memb_false in Em. apply (IH _ _ _ _ _ _ H). destruct Hi as (H1 & H2 & H3 & H4). repeat split.
    + constructor; [intro Hin; apply Em, H2, Hin|exact H1].
    + intros z [<-|Hz]; [left; reflexivity|right; apply H2, Hz].
    + intros z Hz. right. apply H3, Hz.
    + intros z [<-|Hz]; [intro Hy; apply Em, H3, Hy|apply H4, Hz].
Qed.

Lemma fold_look_inv pins : forall st st', fold_left (fun st p => look s x (pin_cands s x p) st) pins st = st' ->
  winv (fst (fst st)) (snd (fst st)) -> winv (fst (fst st')) (snd (fst st')).
Proof.
  induction pins as [|p pins IH]; intros st st' H Hi; cbn [fold_left] in H; [subst; exact Hi|].
  apply (IH _ _ H). destruct st as [[iny ys] news]. destruct (look s x (pin_cands s x p) (iny, ys, news)) as [[iny1 ys1] news1] eqn:E.
  cbn [fst snd] in *. apply (look_inv _ _ _ _ _ _ _ E Hi).
Qed.

Lemma rounds_inv fuel : forall pins iny ys res,
  rounds s x fuel pins iny ys = WOk res -> winv iny ys -> NoDup res /\ forall w, In w res -> ~ In w y1.
Proof.
  induction fuel as [|f IH]; intros pins iny ys res H Hi; destruct pins as [|p pins]; cbn [rounds] in H; try discriminate H.
  - injection H as <-. destruct Hi as (H1 & _ & _ & H4). split; [apply NoDup_rev, H1|]. intros w Hw. apply H4, in_rev, Hw.
  - injection H as <-. destruct Hi as (H1 & _ & _ & H4). split; [apply NoDup_rev, H1|]. intros w Hw. apply H4, in_rev, Hw.
  - destruct (existsb (bad_search s x) (p :: pins)); [discriminate H|].
    destruct (fold_left (fun st p0 => look s x (pin_cands s x p0) st) (p :: pins) (iny, ys, [])) as [[iny' ys'] news] eqn:E.
    apply (IH _ _ _ _ H). pose proof (fold_look_inv (p :: pins) _ _ E) as Hf. cbn [fst snd] in Hf. apply Hf, Hi.
Qed.
End Wires.

Theorem query_wires_NoDup s cb fuel roots rec x res :
  query_wires s cb fuel roots rec x = WOk res -> NoDup res.
Proof.
  unfold query_wires. destruct (wl_run (acts_wires s rec x) (bad_wires s x) fuel roots) as [l| |]; try discriminate.
  set (y1 := dedup (yielded l)). destruct (rounds s x fuel (dedup_pins_acc [] (searched l)) y1 []) as [y2| |] eqn:E; try discriminate.
  cbn [wmap]. intro H. injection H as <-. apply NoDup_filter.
  destruct (rounds_inv s x y1 fuel _ _ _ _ E) as [H2 H3].
  - repeat split; [constructor|intros z []|apply incl_refl|intros z []].
  - apply NoDup_app_iff. split; [apply dedup_NoDup|]. split; [exact H2|]. intros w Hw Hw2. apply (H3 w Hw2 Hw).
Qed.

(* the callback is applied on top of the result without a callback *)
Theorem query_wires_callback s cb fuel roots rec x res :
  query_wires s cb fuel roots rec x = WOk res ->
  exists all, query_wires s (fun _ => true) fuel roots rec x = WOk all /\ res = filter cb all.
Proof.
  unfold query_wires. destruct (wl_run (acts_wires s rec x) (bad_wires s x) fuel roots) as [l| |]; try discriminate.
  destruct (rounds s x fuel (dedup_pins_acc [] (searched l)) (dedup (yielded l)) []) as [y2| |]; try discriminate.
  cbn [wmap]. intro H. injection H as <-. exists (dedup (yielded l) ++ y2). split; [|reflexivity].
  f_equal. induction (dedup (yielded l) ++ y2) as [|a m IH]; cbn; [reflexivity|f_equal; exact IH].
Qed.
