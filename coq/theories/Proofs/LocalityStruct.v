(* C07 independence: locality of the container calls (add / remove / remove_from / reorder) with
   their implicit outer-pin maintenance on the instances of the edited definition. *)
From Coq Require Import List Arith NArith ZArith Bool Lia.
From RecordUpdate Require Import RecordSet.
From SV Require Import Base.Base IR.State IR.NS IR.Ops Proofs.AssocX Proofs.Frame Proofs.Locality Proofs.LocalityNs.
Import ListNotations RecordSetNotations.

(* ---- list facts ---- *)
Lemma assoc_In {B} i (l : list (id * B)) v : assoc i l = Some v -> In (i, v) l.
Proof.
  induction l as [|[k w] l IH]; cbn; [discriminate|].
  destruct (Nat.eqb_spec i k); [intro H; injection H as <-; subst; left; reflexivity|intro H; right; apply IH; exact H].
Qed.

Lemma In_assoc_set {B} k (v : B) l x : In x (assoc_set k v l) -> x = (k, v) \/ In x l.
Proof.
  induction l as [|[j w] l IH]; cbn; [intros [H|[]]; left; symmetry; exact H|].
  destruct (Nat.eqb k j); cbn; intros [H|H]; auto. destruct (IH H); auto.
Qed.

Lemma In_assoc_del {B} k (l : list (id * B)) x : In x (assoc_del k l) -> In x l.
Proof.
  induction l as [|[j w] l IH]; cbn; [tauto|].
  destruct (Nat.eqb k j); cbn; [auto|]. intros [H|H]; auto.
Qed.

Lemma pin_remove_first_sub p q l : In q (pin_remove_first p l) -> In q l.
Proof.
  induction l as [|x l IH]; cbn; [tauto|]. destruct (pin_eqb p x); cbn; [auto|]. intros [H|H]; auto.
Qed.

Lemma dedup_sub x l : In x (dedup l) -> In x l.
Proof.
  induction l as [|y l IH]; cbn; [tauto|]. destruct (memb y l); cbn; [auto|]. intros [H|H]; auto.
Qed.

Lemma loc_bind_from P s s2 r f :
  Loc P s s2 -> Loc P s2 (fst r) -> (forall s1, Loc P s1 (fst (f s1))) -> Loc P s (fst (r >>= f)).
Proof. intros H1 H2 H3. apply loc_bind; [eapply loc_trans; eassumption|exact H3]. Qed.

Section StructLoc.
Variable P : id -> Prop.

Lemma loc_new_outer s n i : P n -> Loc P s (new_outer s n i).
Proof.
  intro Hn. unfold new_outer. apply loc_set_ipins; [exact Hn|].
  intros C j w H. apply In_assoc_set in H as [H|H]; [discriminate|]. apply (rc_ipins _ _ C n j w Hn H).
Qed.

Lemma loc_drop_outer s n i : P n -> Loc P s (fst (drop_outer s n i)).
Proof.
  intro Hn. apply loc_use. intro C. unfold drop_outer.
  destruct (assoc i (ipins s n)) as [ow|] eqn:E; [|apply loc_refl]. cbn [fst ret].
  assert (Hd : forall s1, Loc P s1 (set_ipins s1 n (assoc_del i (ipins s1 n)))).
  { intro s1. apply loc_set_ipins; [exact Hn|]. intros C1 j w H. apply In_assoc_del in H. apply (rc_ipins _ _ C1 n j w Hn H). }
  destruct ow as [w|]; [|apply Hd].
  pose proof (rc_ipins _ _ C n i w Hn (assoc_In _ _ _ E)) as Hw.
  eapply loc_trans; [|apply Hd].
  eapply loc_trans; [eapply loc_trans; [apply loc_emit|]|apply loc_emit].
  apply loc_set_wpins; [exact Hw|]. intros C1 p Hp. apply pin_remove_first_sub in Hp. apply (rc_wpins _ _ C1 w p Hw Hp).
Qed.

Lemma loc_new_outers n l : P n -> forall s, Loc P s (fold_ids (fun s i => new_outer s n i) l s).
Proof. intros Hn s. apply loc_fold_ids. intros; apply loc_new_outer; exact Hn. Qed.

Lemma loc_drop_outers n l : P n -> forall s, Loc P s (fst (fold_idsR (fun s i => drop_outer s n i) l s)).
Proof. intros Hn s. apply loc_fold_idsR. intros; apply loc_drop_outer; exact Hn. Qed.

Lemma loc_add_post s r p c : P p -> P c -> Loc P s (add_post s r p c).
Proof.
  intros Hp Hc. apply loc_use. intro C. unfold add_post. destruct r; try apply loc_refl.
  - apply loc_fold_ids. intros s0 n Hn. apply loc_new_outers. apply (rc_drefs _ _ C p n Hp Hn).
  - destruct (par s RPorts p) as [d|] eqn:Ed; [|apply loc_refl].
    pose proof (rc_par _ _ C RPorts p d Hp Ed) as Hd.
    apply loc_fold_ids. intros s0 n Hn. apply loc_new_outer. apply (rc_drefs _ _ C d n Hd Hn).
Qed.

Lemma loc_op_add s r p c pos : P p -> P c -> Loc P s (fst (op_add s r p c pos)).
Proof.
  intros Hp Hc. unfold op_add, guard.
  destruct (_ && _); [|apply loc_refl]. destruct (add_guard1 s r p c); [|apply loc_refl].
  destruct (par s r c); [apply loc_refl|].
  apply loc_bind; [destruct (ns_rel r); [apply loc_ns_add; assumption|apply loc_refl]|].
  intro s1. cbn zeta. cbn [fst ret].
  eapply loc_trans; [apply loc_emit|]. eapply loc_trans; [|apply loc_add_post; assumption].
  eapply loc_trans; [apply loc_set_kids; [exact Hp|]|apply loc_set_par; [exact Hc|intros _ q Hq; injection Hq as <-; exact Hp]].
  intros C x Hx. apply py_insert_In in Hx as [->|Hx]; [exact Hc|apply (rc_kids _ _ C r p x Hp Hx)].
Qed.

Lemma loc_remove_core s r p c : P p -> P c -> Loc P s (fst (remove_core s r p c)).
Proof.
  intros Hp Hc. unfold remove_core. cbn zeta.
  match goal with |- Loc P s (fst (?m >>= _)) => set (M := m) end.
  set (s1 := if ns_rel r then ns_remove_child s p c (rel_child r) else s) in *.
  set (s2 := emit s1 (ERemove r p c)) in *.
  assert (H2 : Loc P s s2).
  { eapply loc_trans; [|apply loc_emit]. unfold s1. destruct (ns_rel r); [apply loc_ns_remove_child; exact Hp|apply loc_refl]. }
  apply (loc_bind_from P s s2); [exact H2| |intro s3; cbn; apply loc_set_par; [exact Hc|intros; discriminate]].
  apply loc_use. intro C. unfold M. destruct r; try apply loc_refl.
  - apply loc_fold_idsR. intros s0 n Hn. apply loc_fold_idsR. intros s4 i _. apply loc_drop_outer. apply (rc_drefs _ _ C p n Hp Hn).
  - destruct (par s2 RPorts p) as [d|] eqn:Ed; [|apply loc_refl].
    pose proof (rc_par _ _ C RPorts p d Hp Ed) as Hd.
    apply loc_fold_idsR. intros s0 n Hn. apply loc_drop_outer. apply (rc_drefs _ _ C d n Hd Hn).
Qed.

Lemma loc_op_remove s r p c : P p -> P c -> Loc P s (fst (op_remove s r p c)).
Proof.
  intros Hp Hc. unfold op_remove, guard.
  destruct (_ && _); [|apply loc_refl]. destruct (par_is s r c p); [|apply loc_refl].
  apply loc_bind; [apply loc_remove_core; assumption|]. intro s1. cbn.
  apply loc_set_kids; [exact Hp|]. intros C x Hx. apply remove_first_In_sub in Hx. apply (rc_kids _ _ C r p x Hp Hx).
Qed.

Lemma loc_op_remove_from s r p cs : P p -> (forall c, In c cs -> P c) -> Loc P s (fst (op_remove_from s r p cs)).
Proof.
  intros Hp Hc. unfold op_remove_from, guard.
  destruct (_ && _); [|apply loc_refl]. destruct (forallb _ cs); [|apply loc_refl].
  apply loc_bind.
  - apply loc_fold_idsR. intros s0 c Hin. apply loc_remove_core; [exact Hp|]. apply Hc.
    destruct (walks_container r); [apply filter_In in Hin as [_ Hin]; apply memb_In in Hin; exact Hin|apply dedup_sub; exact Hin].
  - intro s1. cbn. apply loc_set_kids; [exact Hp|]. intros C x Hx. apply remove_all_in_In in Hx as [Hx _]. apply (rc_kids _ _ C r p x Hp Hx).
Qed.

Lemma loc_op_reorder s r p l : P p -> Loc P s (fst (op_reorder s r p l)).
Proof.
  intros Hp. unfold op_reorder, guard.
  destruct (is_kind _ _ _); [|apply loc_refl]. destruct (nodupb l && seteqb (kids s r p) l) eqn:E; [|apply loc_refl].
  cbn. apply loc_set_kids; [exact Hp|]. intros C x Hx.
  apply andb_true_iff in E as [_ E]. apply (rc_kids _ _ C r p x Hp). apply (proj1 (seteqb_spec _ _) E x). exact Hx.
Qed.
End StructLoc.
