(* C11, HRef.is_unique (Hier/Enum.v: is_unique, climbs_into, unique_starts, chain_instances).

   On a valid reference, is_unique answers with the fuel it is given, and answers true exactly
   when the instance path of the reference is the ONLY instance path from its own top instance to
   its deepest instance (unique_spec). "Occurs once in the elaborated design" (any top instance)
   is equivalent only when every occurrence hangs below that one top (unique_occ); without it the
   statement of Props/C11.v, C11_unique_full, is refuted by a computed witness with a second
   netlist instantiating a definition of the first (unique_full_refuted).

   A. chains: splitting, instance paths as chains ending in the top, divergence of two lists
   B. climbs_into: fuel, and what it decides
   C. unique_starts / chain_instances on a valid reference
   D. is_unique *)
From Coq Require Import List Arith Bool Lia Relations Wellfounded.
From SV Require Import Base.Base IR.State IR.NS IR.Ops Proofs.Inv1a Proofs.Inv2a Proofs.C01_lemmas
  Hier.Paths Hier.Enum Proofs.HierValid Proofs.HierEnum Proofs.HierC11 Proofs.HierOcc Proofs.HierOccItem.
Import ListNotations.

(* ------------------------------------------------------------------------------------------ *)
(* A. chains                                                                                   *)

Lemma chain_app s a x b : is_chain s (a ++ x :: b) <-> is_chain s (a ++ [x]) /\ is_chain s (x :: b).
Proof.
  induction a as [|a0 a IH].
  - cbn [app]. split; [intro H; split; [exact I|exact H]|intros [_ H]; exact H].
  - destruct a as [|a1 a].
    + cbn [app]. rewrite !chain_cons2. cbn [is_chain]. tauto.
    + cbn [app] in *. rewrite !chain_cons2. rewrite IH. tauto.
Qed.

Lemma rpath_chain s t p : is_rpath s t p -> is_chain s p.
Proof. induction 1 as [|c x p _ IH Hc]; [exact I|]. apply chain_cons2. split; assumption. Qed.

Lemma chain_rpath s t q : is_chain s (q ++ [t]) -> is_rpath s t (q ++ [t]).
Proof.
  induction q as [|a q IH]; intro H; [apply rp_top|].
  destruct q as [|b q]; cbn [app] in *.
  - apply chain_cons2 in H as [Hc _]. apply rp_child; [apply rp_top|exact Hc].
  - apply chain_cons2 in H as [Hc H]. apply rp_child; [apply IH; exact H|exact Hc].
Qed.

Lemma rpath_iff_chain s t p : is_rpath s t p <-> (exists q, p = q ++ [t]) /\ is_chain s p.
Proof.
  split.
  - intro H. split; [eapply rpath_last; eassumption|eapply rpath_chain; eassumption].
  - intros [[q ->] H]. apply chain_rpath. exact H.
Qed.

(* two different lists with the same head: the common prefix, and what follows it *)
Lemma lists_diverge : forall (l1 l2 : list id) c,
  c :: l1 <> c :: l2 ->
  exists q c',
    (c :: l1 = q ++ [c'] /\ exists y r2, c :: l2 = q ++ c' :: y :: r2) \/
    (c :: l2 = q ++ [c'] /\ exists x r, c :: l1 = q ++ c' :: x :: r) \/
    (exists x r y r2, c :: l1 = q ++ c' :: x :: r /\ c :: l2 = q ++ c' :: y :: r2 /\ x <> y).
Proof.
  induction l1 as [|x r IH]; intros l2 c Hne.
  - destruct l2 as [|y r2]; [congruence|]. exists [], c. left. split; [reflexivity|]. exists y, r2. reflexivity.
  - destruct l2 as [|y r2].
    + exists [], c. right. left. split; [reflexivity|]. exists x, r. reflexivity.
    + destruct (Nat.eq_dec x y) as [<-|Hxy].
      * destruct (IH r2 x) as (q & c' & H); [congruence|]. exists (c :: q), c'.
        destruct H as [[E (y' & r' & E')]|[[E (x' & r' & E')]|(x' & r' & y' & r2' & E & E' & D)]].
        -- left. cbn [app]. rewrite E, E'. split; [reflexivity|]. eauto.
        -- right. left. cbn [app]. rewrite E, E'. split; [reflexivity|]. eauto.
        -- right. right. exists x', r', y', r2'. cbn [app]. rewrite E, E'. auto.
      * exists [], c. right. right. exists x, r, y, r2. auto.
Qed.

(* in a chain that ends in t, some element just below t is reached from the head *)
Lemma chain_below_last s : forall r x t, is_chain s (x :: r ++ [t]) ->
  exists z, child s z t /\ (z = x \/ clos_trans id (child s) x z).
Proof.
  induction r as [|a r IH]; intros x t H; cbn [app] in H.
  - apply chain_cons2 in H as [Hc _]. exists x. split; [exact Hc|left; reflexivity].
  - apply chain_cons2 in H as [Hc H]. destruct (IH a t H) as (z & Hz & Hr). exists z. split; [exact Hz|].
    right. destruct Hr as [->|Hr]; [apply t_step; exact Hc|].
    eapply t_trans; [apply t_step; exact Hc|exact Hr].
Qed.

(* ------------------------------------------------------------------------------------------ *)
(* B. climbs_into                                                                              *)

Definition climbf (s : state) (f : nat) (targets : list id) : option bool -> id -> option bool :=
  fun acc p => match acc with
               | Some false => if memb p targets then Some true else climbs_into s f targets p
               | _ => acc
               end.

Lemma climbs_S s f targets y :
  climbs_into s (S f) targets y =
  match par s RChildren y with
  | None => Some false
  | Some d => fold_left (climbf s f targets) (drefs s d) (Some false)
  end.
Proof. reflexivity. Qed.

Lemma climbf_sticky s f targets l acc : acc <> Some false -> fold_left (climbf s f targets) l acc = acc.
Proof.
  induction l as [|p l IH]; intro H; [reflexivity|]. cbn [fold_left].
  assert (E : climbf s f targets acc p = acc) by (destruct acc as [[]|]; congruence || reflexivity).
  rewrite E. apply IH. exact H.
Qed.

Lemma climb_fold_true s f targets l :
  fold_left (climbf s f targets) l (Some false) = Some true ->
  exists p, In p l /\ (memb p targets = true \/ climbs_into s f targets p = Some true).
Proof.
  induction l as [|p l IH]; [discriminate|]. cbn [fold_left]. cbn [climbf].
  destruct (memb p targets) eqn:M.
  - intros _. exists p. split; [left; reflexivity|left; exact M].
  - destruct (climbs_into s f targets p) as [[]|] eqn:C.
    + intros _. exists p. split; [left; reflexivity|right; exact C].
    + intro H. destruct (IH H) as (p' & Hp & Hq). exists p'. split; [right; exact Hp|exact Hq].
    + rewrite climbf_sticky by discriminate. discriminate.
Qed.

Lemma climb_fold_false s f targets l :
  fold_left (climbf s f targets) l (Some false) = Some false ->
  forall p, In p l -> memb p targets = false /\ climbs_into s f targets p = Some false.
Proof.
  induction l as [|p l IH]; [intros _ p []|]. cbn [fold_left]. cbn [climbf].
  destruct (memb p targets) eqn:M.
  - rewrite climbf_sticky by discriminate. discriminate.
  - destruct (climbs_into s f targets p) as [[]|] eqn:C.
    + rewrite climbf_sticky by discriminate. discriminate.
    + intros H p' [<-|Hp]; [split; assumption|apply IH; assumption].
    + rewrite climbf_sticky by discriminate. discriminate.
Qed.

Lemma climb_fold_some s f targets l :
  (forall p, In p l -> climbs_into s f targets p <> None) ->
  fold_left (climbf s f targets) l (Some false) <> None.
Proof.
  induction l as [|p l IH]; intro H; [discriminate|]. cbn [fold_left]. cbn [climbf].
  destruct (memb p targets).
  - rewrite climbf_sticky by discriminate. discriminate.
  - destruct (climbs_into s f targets p) as [[]|] eqn:C.
    + rewrite climbf_sticky by discriminate. discriminate.
    + apply IH. intros p' Hp. apply H. right. exact Hp.
    + exfalso. apply (H p); [left; reflexivity|exact C].
Qed.

(* what a finished climb decides: some strict ancestor of y is a target *)
Lemma climbs_spec s targets : forall fuel y b,
  climbs_into s fuel targets y = Some b ->
  (b = true <-> exists z, clos_trans id (upst s) y z /\ In z targets).
Proof.
  induction fuel as [|f IH]; intros y b H; [discriminate|]. rewrite climbs_S in H.
  destruct (par s RChildren y) as [d|] eqn:P.
  - destruct b.
    + split; [intros _|reflexivity]. apply climb_fold_true in H as (p & Hp & [M|C]).
      * exists p. split; [apply t_step; exists d; split; assumption|apply memb_In; exact M].
      * pose proof (IH p true C) as [Hz _]. destruct (Hz eq_refl) as (z & Hpz & Hzt).
        exists z. split; [|exact Hzt]. eapply t_trans; [apply t_step; exists d; split; eassumption|exact Hpz].
    + split; [discriminate|]. intros (z & Hyz & Hzt). exfalso.
      pose proof (climb_fold_false _ _ _ _ H) as Hall.
      apply clos_trans_t1n in Hyz. inversion Hyz as [? (d' & P' & Hp)|p ? (d' & P' & Hp) Hpz]; subst;
        rewrite P in P'; inversion P'; subst d'.
      * destruct (Hall z Hp) as [M _]. apply memb_false in M. exact (M Hzt).
      * destruct (Hall p Hp) as [_ C]. pose proof (IH p false C) as [_ Hz]. discriminate Hz. exists z. split; [|exact Hzt].
        apply clos_t1n_trans. exact Hpz.
  - inversion H; subst b. split; [discriminate|]. intros (z & Hyz & _). exfalso.
    apply clos_trans_t1n in Hyz. inversion Hyz as [? (d' & P' & _)|? ? (d' & P' & _) _]; congruence.
Qed.

(* fuel: the climbed instances form a chain, which is shorter than the number of allocated ids *)
Lemma climbs_fuel_gen s targets : Inv1a s -> Inv2a s -> WFk s -> acyclic s ->
  forall fuel c y, is_chain s (c ++ [y]) -> next s + 2 <= fuel + length (c ++ [y]) ->
                   climbs_into s fuel targets y <> None.
Proof.
  intros I1 I2 W A. induction fuel as [|f IH]; intros c y Hc Hl.
  - exfalso. cbn [Nat.add] in Hl. assert (H2 : 2 <= length (c ++ [y])) by lia.
    pose proof (chain_length s (c ++ [y]) W A Hc H2). unfold id in *. lia.
  - rewrite climbs_S. destruct (par s RChildren y) as [d|] eqn:P; [|discriminate].
    apply climb_fold_some. intros p Hp. apply (IH (c ++ [y]) p).
    + rewrite <- app_assoc. cbn [app]. apply chain_app. split; [exact Hc|]. apply chain_cons2. split; [|exact I].
      apply (upst_child s y p I1 I2). exists d. split; assumption.
    + rewrite !app_length in *. cbn [length] in *. unfold id in *. lia.
Qed.

Lemma climbs_fuel s targets y : Inv1a s -> Inv2a s -> WFk s -> acyclic s ->
  climbs_into s (depth_fuel s) targets y <> None.
Proof.
  intros I1 I2 W A. apply (climbs_fuel_gen s targets I1 I2 W A (depth_fuel s) [] y); [exact I|].
  unfold depth_fuel. cbn. lia.
Qed.

(* ------------------------------------------------------------------------------------------ *)
(* D'. the outer loop of is_unique                                                             *)

Definition uniqf (s : state) (fuel : nat) (targets : list id) : option bool -> id -> option bool :=
  fun acc y => match acc with
               | Some true => match climbs_into s fuel targets y with
                              | Some b => Some (negb b)
                              | None => None
                              end
               | _ => acc
               end.

Lemma is_unique_unfold s fuel h :
  is_unique s fuel h =
  if negb (is_valid s h) then Some false
  else fold_left (uniqf s fuel (chain_instances s h)) (unique_starts s h) (Some true).
Proof. reflexivity. Qed.

Lemma uniqf_fold s fuel targets l acc :
  fold_left (uniqf s fuel targets) l acc = Some true <->
  acc = Some true /\ forall y, In y l -> climbs_into s fuel targets y = Some false.
Proof.
  revert acc. induction l as [|y l IH]; intro acc; cbn [fold_left].
  - split; [intro H; split; [exact H|intros y []]|intros [H _]; exact H].
  - rewrite IH. split.
    + intros [H Hall]. destruct acc as [[]|]; cbn [uniqf] in H; try discriminate. split; [reflexivity|].
      intros y' [<-|Hy]; [|apply Hall; exact Hy].
      destruct (climbs_into s fuel targets y) as [[]|]; cbn in H; congruence.
    + intros [-> Hall]. split; [|intros y' Hy; apply Hall; right; exact Hy].
      cbn [uniqf]. rewrite (Hall y (or_introl eq_refl)). reflexivity.
Qed.

Lemma uniqf_fold_some s fuel targets l :
  (forall y, In y l -> climbs_into s fuel targets y <> None) ->
  forall acc, acc <> None -> fold_left (uniqf s fuel targets) l acc <> None.
Proof.
  intro H. induction l as [|y l IH]; intros acc Ha; [exact Ha|]. cbn [fold_left]. apply IH.
  - intros y' Hy. apply H. right. exact Hy.
  - destruct acc as [[]|]; cbn [uniqf]; try congruence.
    destruct (climbs_into s fuel targets y) eqn:C; [discriminate|]. exfalso.
    apply (H y); [left; reflexivity|exact C].
Qed.

(* ------------------------------------------------------------------------------------------ *)
(* C. chain_instances and unique_starts on a valid reference                                   *)

Section Uniq.
Variable s : state.
Hypothesis HWF : WF s.
Let I1 : Inv1a s := wf_inv1 s HWF.
Let I2 : Inv2a s := wf_inv2 s HWF.
Let W : WFk s := wf_kinds s HWF.
Let A : acyclic s := wf_acyclic s HWF.

Lemma kind_is_true x k : kind_of s x = Some k -> kind_is s x k = true.
Proof. intro H. unfold kind_is. rewrite H. destruct k; reflexivity. Qed.

Lemma kind_is_other x k k' : kind_of s x = Some k -> k <> k' -> kind_is s x k' = false.
Proof. intros H D. unfold kind_is. rewrite H. destruct k, k'; try reflexivity; congruence. Qed.

Lemma path_kinds t p : is_path s t p -> forall x, In x p -> kind_of s x = Some KInstance.
Proof.
  intros [Hr Hp]. induction Hp as [|c x p Hp IH Hc]; intros y Hy.
  - destruct Hy as [<-|[]]. apply (root_kind s W). exact Hr.
  - destruct Hy as [<-|Hy]; [|apply IH; exact Hy].
    apply (child_iff s) in Hc as [d [_ Hd]]. exact (wk_kids s W RChildren d c Hd).
Qed.

Lemma chain_instances_path p :
  (forall x, In x p -> kind_of s x = Some KInstance) -> chain_instances s p = p.
Proof.
  induction p as [|x p IH]; intro H; [reflexivity|]. cbn [chain_instances].
  rewrite (kind_is_true x KInstance) by (apply H; left; reflexivity). cbn [app].
  rewrite IH; [reflexivity|]. intros y Hy. apply H. right. exact Hy.
Qed.

Lemma chain_instances_skip x h k :
  kind_of s x = Some k -> k <> KInstance -> chain_instances s (x :: h) = chain_instances s h.
Proof. intros K D. cbn [chain_instances]. rewrite (kind_is_other x k KInstance K D). reflexivity. Qed.

Lemma unique_starts_skip x h k :
  kind_of s x = Some k -> k <> KInstance -> unique_starts s (x :: h) = unique_starts s h.
Proof. intros K D. cbn [unique_starts]. rewrite (kind_is_other x k KInstance K D). reflexivity. Qed.

(* a valid reference is a short non-instance prefix on an instance path; only the path matters *)
Lemma href_split h : is_href s h ->
  exists t ip pre, is_path s t ip /\ h = pre ++ ip /\
                   chain_instances s h = ip /\ unique_starts s h = unique_starts s ip.
Proof.
  assert (KP : forall t p, is_path s t p -> chain_instances s p = p).
  { intros t p Hp. apply chain_instances_path. eapply path_kinds; eassumption. }
  intros H. destruct H as [t p Hp|t x p q Hp Hq|t x p q i Hp Hq Hi|t x p c Hp Hc|t x p c w Hp Hc Hw].
  - exists t, p, []. split; [exact Hp|]. split; [reflexivity|]. split; [eapply KP; eassumption|reflexivity].
  - pose proof (port_kind s W q x Hq) as K.
    exists t, (x :: p), [q]. split; [exact Hp|]. split; [reflexivity|].
    rewrite (chain_instances_skip q _ KPort K), (unique_starts_skip q _ KPort K) by discriminate.
    split; [eapply KP; eassumption|reflexivity].
  - pose proof (port_kind s W q x Hq) as K. pose proof (pin_kind s W i q Hi) as K'.
    exists t, (x :: p), [i; q]. split; [exact Hp|]. split; [reflexivity|].
    rewrite (chain_instances_skip i _ KPin K'), (unique_starts_skip i _ KPin K') by discriminate.
    rewrite (chain_instances_skip q _ KPort K), (unique_starts_skip q _ KPort K) by discriminate.
    split; [eapply KP; eassumption|reflexivity].
  - pose proof (cable_kind s W c x Hc) as K.
    exists t, (x :: p), [c]. split; [exact Hp|]. split; [reflexivity|].
    rewrite (chain_instances_skip c _ KCable K), (unique_starts_skip c _ KCable K) by discriminate.
    split; [eapply KP; eassumption|reflexivity].
  - pose proof (cable_kind s W c x Hc) as K. pose proof (wire_kind s W w c Hw) as K'.
    exists t, (x :: p), [w; c]. split; [exact Hp|]. split; [reflexivity|].
    rewrite (chain_instances_skip w _ KWire K'), (unique_starts_skip w _ KWire K') by discriminate.
    rewrite (chain_instances_skip c _ KCable K), (unique_starts_skip c _ KCable K) by discriminate.
    split; [eapply KP; eassumption|reflexivity].
Qed.

(* the starting points of the climbs: the OTHER instances of the definition referenced by a
   non-leaf instance of the path *)
Definition stray (ip : href) (y : id) : Prop :=
  exists q c x r d, ip = q ++ c :: x :: r /\ iref s x = Some d /\ iref s y = Some d /\ y <> x.

Lemma two_members (l : list id) x y : In x l -> In y l -> x <> y -> 1 <? length l = true.
Proof.
  intros Hx Hy D. apply Nat.ltb_lt. destruct l as [|a [|b l]]; cbn in *; try lia; try contradiction.
Qed.

Lemma unique_starts_step c x p d :
  kind_of s c = Some KInstance -> par s RChildren c = Some d -> In x (drefs s d) ->
  forall y, In y (unique_starts s (c :: x :: p)) <->
            (In y (drefs s d) /\ y <> x) \/ In y (unique_starts s (x :: p)).
Proof.
  intros K P Hx y. cbn [unique_starts]. rewrite (kind_is_true c KInstance K), P.
  rewrite in_app_iff. apply or_iff_compat_r.
  destruct (1 <? length (drefs s d)) eqn:L.
  - rewrite filter_In, negb_true_iff, Nat.eqb_neq. tauto.
  - split; [intros []|]. intros [Hy D]. rewrite (two_members _ x y Hx Hy) in L; congruence.
Qed.

Lemma starts_stray t ip : is_path s t ip -> forall y, In y (unique_starts s ip) <-> stray ip y.
Proof.
  intros [Hr Hp]. induction Hp as [|c x p Hp IH Hc]; intro y.
  - cbn [unique_starts]. split.
    + destruct (kind_is s t KInstance); [|intros []]. destruct (par s RChildren t); intros [].
    + intros (q & c & x & r & d & E & _). apply (f_equal (@length id)) in E.
      rewrite app_length in E. cbn in E. lia.
  - apply (child_iff s) in Hc as Hc'. destruct Hc' as [d [Ex Hd]].
    assert (K : kind_of s c = Some KInstance) by exact (wk_kids s W RChildren d c Hd).
    assert (P : par s RChildren c = Some d) by (apply (i1_kids s I1); exact Hd).
    assert (Hx : In x (drefs s d)) by (apply (i2_ref s I2); exact Ex).
    rewrite (unique_starts_step c x p d K P Hx y), IH. split.
    + intros [[Hy D]|(q & c' & x' & r & d' & E & E1 & E2 & D)].
      * exists [], c, x, p, d. repeat split; [exact Ex|apply (i2_ref s I2); exact Hy|exact D].
      * exists (c :: q), c', x', r, d'. cbn [app]. rewrite E. auto.
    + intros (q & c' & x' & r & d' & E & E1 & E2 & D). destruct q as [|a q]; cbn [app] in E.
      * inversion E; subst c' x' r. rewrite Ex in E1. inversion E1; subst d'. left.
        split; [apply (i2_ref s I2); exact E2|exact D].
      * inversion E; subst a. right. exists q, c', x', r, d'. auto.
Qed.

(* ------------------------------------------------------------------------------------------ *)
(* D. is_unique                                                                                *)

Lemma clos_upst_child a b : clos_trans id (upst s) a b <-> clos_trans id (child s) a b.
Proof.
  split; apply clos_trans_iff; intros x y; [|symmetry]; apply upst_child; assumption.
Qed.

(* from an ancestor z on the path, any descendant y reached by climbing gives a path down to y *)
Lemma descend_path t : forall y z, clos_trans id (child s) y z ->
  forall b, is_rpath s t (z :: b) -> exists m, is_rpath s t (y :: m ++ z :: b).
Proof.
  intros y z H. apply clos_trans_t1n in H. induction H as [y z Hc|y y' z Hc _ IH]; intros b Hb.
  - exists []. cbn [app]. apply rp_child; assumption.
  - destruct (IH b Hb) as [m Hm]. exists (y' :: m). cbn [app]. apply rp_child; assumption.
Qed.

Lemma rpath_suffix t a z b : is_rpath s t (a ++ z :: b) -> is_rpath s t (z :: b).
Proof.
  induction a as [|a0 a IH]; intro H; [exact H|]. apply IH. cbn [app] in H.
  remember (a0 :: a ++ z :: b) as l eqn:El. destruct H as [|c x p Hp Hc].
  - injection El as _ E2. destruct a; discriminate.
  - injection El as _ E2. rewrite <- E2. exact Hp.
Qed.

(* a stray that climbs into the path yields a second path from the top to the same leaf *)
Lemma stray_second_path t ip y z :
  is_rpath s t ip -> stray ip y -> clos_trans id (child s) y z -> In z ip ->
  exists p2, is_rpath s t p2 /\ hd_error p2 = hd_error ip /\ p2 <> ip.
Proof.
  intros Hp (q & c & x & r & d & E & Ex & Ey & D) Hyz Hz.
  apply in_split in Hz as (a & b & Ez).
  assert (Hzb : is_rpath s t (z :: b)) by (apply (rpath_suffix t a); rewrite <- Ez; exact Hp).
  destruct (descend_path t y z Hyz b Hzb) as [m Hm].
  exists (q ++ c :: y :: m ++ z :: b). split; [|split].
  - apply rpath_iff_chain. split.
    + apply rpath_last in Hm as [u Hu]. exists (q ++ c :: u). rewrite <- app_assoc. cbn [app]. rewrite Hu. reflexivity.
    + apply chain_app. split.
      * apply rpath_chain in Hp. rewrite E in Hp. apply chain_app in Hp. apply Hp.
      * apply chain_cons2. split; [|eapply rpath_chain; exact Hm].
        apply rpath_chain in Hp. rewrite E in Hp. apply chain_app in Hp as [_ Hp].
        apply chain_cons2 in Hp as [Hc _]. unfold child, sub in *. rewrite Ey. rewrite Ex in Hc. exact Hc.
  - rewrite E. destruct q; reflexivity.
  - rewrite E. intro F. apply app_inv_head in F. inversion F. contradiction.
Qed.

(* conversely, a second path exhibits a stray that climbs to the top instance *)
Lemma second_path_stray t ip p2 :
  is_rpath s t ip -> is_rpath s t p2 -> hd_error p2 = hd_error ip -> p2 <> ip ->
  exists y, stray ip y /\ clos_trans id (child s) y t /\ In t ip.
Proof.
  intros Hp Hp2 Hh Hne.
  assert (Ht : In t ip) by (apply rpath_last in Hp as [u ->]; apply in_or_app; right; left; reflexivity).
  pose proof (chain_nodup s ip A (rpath_chain s t ip Hp)) as N1.
  pose proof (chain_nodup s p2 A (rpath_chain s t p2 Hp2)) as N2.
  destruct ip as [|c l1]; [inversion Hp|]. destruct p2 as [|c2 l2]; [inversion Hp2|].
  cbn in Hh. inversion Hh; subst c2.
  destruct (lists_diverge l1 l2 c) as (q & c' & H); [congruence|].
  destruct H as [[E (y & r2 & E')]|[[E (x & r & E')]|(x & r & y & r2 & E & E' & D)]].
  - (* the path is a proper prefix of the second one: t occurs twice in the second *)
    exfalso. rewrite E in Hp. apply rpath_last in Hp as [u Hu]. apply app_inj_tail in Hu as [_ ->].
    rewrite E' in N2, Hp2. apply NoDup_remove_2 in N2. apply N2. apply in_or_app. right.
    apply rpath_last in Hp2 as [u' Hu'].
    destruct (exists_last (l := y :: r2)) as (v & e & Ev); [discriminate|].
    rewrite Ev in Hu'. change (q ++ t :: v ++ [e]) with (q ++ (t :: v) ++ [e]) in Hu'.
    rewrite app_assoc in Hu'. apply app_inj_tail in Hu' as [_ ->]. rewrite Ev.
    apply in_or_app. right. left. reflexivity.
  - exfalso. rewrite E in Hp2. apply rpath_last in Hp2 as [u Hu]. apply app_inj_tail in Hu as [_ ->].
    rewrite E' in N1, Hp. apply NoDup_remove_2 in N1. apply N1. apply in_or_app. right.
    apply rpath_last in Hp as [u' Hu'].
    destruct (exists_last (l := x :: r)) as (v & e & Ev); [discriminate|].
    rewrite Ev in Hu'. change (q ++ t :: v ++ [e]) with (q ++ (t :: v) ++ [e]) in Hu'.
    rewrite app_assoc in Hu'. apply app_inj_tail in Hu' as [_ ->]. rewrite Ev.
    apply in_or_app. right. left. reflexivity.
  - (* both continue, with different instances x (path) and y (second path) above c' *)
    pose proof (rpath_chain s t _ Hp) as C1. pose proof (rpath_chain s t _ Hp2) as C2.
    rewrite E in C1. rewrite E' in C2.
    apply chain_app in C1 as [_ C1]. apply chain_app in C2 as [_ C2].
    apply chain_cons2 in C1 as [Hcx C1]. apply chain_cons2 in C2 as [Hcy C2].
    apply (child_iff s) in Hcx as [d [Ex Hd]]. apply (child_iff s) in Hcy as [d' [Ey Hd']].
    apply (i1_kids s I1) in Hd, Hd'. rewrite Hd in Hd'. inversion Hd'; subst d'.
    exists y. split; [exists q, c', x, r, d; rewrite E; auto|]. split; [|exact Ht].
    (* y :: r2 ends in t; if r2 is empty then y = t and the path loops *)
    assert (S2 : is_rpath s t (y :: r2)) by (apply (rpath_suffix t (q ++ [c'])); rewrite <- app_assoc; cbn [app]; rewrite <- E'; exact Hp2).
    assert (S1 : is_rpath s t (x :: r)) by (apply (rpath_suffix t (q ++ [c'])); rewrite <- app_assoc; cbn [app]; rewrite <- E; exact Hp).
    destruct r2 as [|y' r2].
    + exfalso. assert (Eyt : y = t) by (inversion S2; reflexivity). subst y.
      (* y = t: x <> t is a strict descendant of t referencing the same definition *)
      destruct r as [|x' r]; [inversion S1; subst; congruence|].
      apply rpath_last in S1 as [u Hu]. destruct (exists_last (l := x' :: r)) as (v & e & Ev); [discriminate|].
      rewrite Ev in Hu. change (x :: v ++ [e]) with ((x :: v) ++ [e]) in Hu. apply app_inj_tail in Hu as [_ ->].
      rewrite Ev in C1. destruct (chain_below_last s v x t C1) as (z & Hz & Hr).
      assert (Hzx : child s z x) by (unfold child, sub in *; rewrite Ex; rewrite Ey in Hz; exact Hz).
      destruct Hr as [->|Hr].
      * exact (acc_irrefl _ _ (A x) Hzx).
      * apply (acc_no_cycle _ x (A x)). eapply t_trans; [exact Hr|apply t_step; exact Hzx].
    + apply rpath_last in S2 as [u Hu]. apply (chain_reach s (y' :: r2) y t C2).
      destruct (exists_last (l := y' :: r2)) as (v & e & Ev); [discriminate|].
      rewrite Ev in Hu. change (y :: v ++ [e]) with ((y :: v) ++ [e]) in Hu. apply app_inj_tail in Hu as [_ ->].
      rewrite Ev. apply in_or_app. right. left. reflexivity.
Qed.

(* is_unique always answers on a well-formed heap *)
Theorem is_unique_total h : is_unique s (depth_fuel s) h <> None.
Proof.
  rewrite is_unique_unfold. destruct (negb (is_valid s h)); [discriminate|].
  apply uniqf_fold_some; [|discriminate]. intros y _. apply climbs_fuel; assumption.
Qed.

Theorem unique_spec h t ip pre :
  is_path s t ip -> h = pre ++ ip -> chain_instances s h = ip ->
  unique_starts s h = unique_starts s ip -> is_href s h ->
  (is_unique s (depth_fuel s) h = Some true <->
   forall p2, is_rpath s t p2 -> hd_error p2 = hd_error ip -> p2 = ip).
Proof.
  intros Hp Eh Ec Eu Hh. rewrite is_unique_unfold.
  assert (V : is_valid s h = true) by (apply (is_valid_iff s h I1 I2 W); exact Hh).
  rewrite V, Ec, Eu. cbn [negb]. rewrite uniqf_fold. split.
  - intros [_ Hall] p2 Hp2 Hhd.
    destruct (list_eq_dec Nat.eq_dec p2 ip) as [E|Hne]; [exact E|exfalso].
    destruct (second_path_stray t ip p2 (proj2 Hp) Hp2 Hhd Hne) as (y & Hy & Hyt & Ht).
    assert (C : climbs_into s (depth_fuel s) ip y = Some false).
    { apply Hall. apply (starts_stray t ip Hp). exact Hy. }
    pose proof (climbs_spec s ip _ y false C) as [_ C']. discriminate C'.
    exists t. split; [apply clos_upst_child; exact Hyt|exact Ht].
  - intro Huniq. split; [reflexivity|]. intros y Hy. apply (starts_stray t ip Hp) in Hy.
    destruct (climbs_into s (depth_fuel s) ip y) as [[]|] eqn:C.
    + exfalso. pose proof (climbs_spec s ip _ y true C) as [C' _].
      destruct (C' eq_refl) as (z & Hyz & Hz). apply clos_upst_child in Hyz.
      destruct (stray_second_path t ip y z (proj2 Hp) Hy Hyz Hz) as (p2 & Hp2 & Hhd & Hne).
      apply Hne. apply Huniq; assumption.
    + reflexivity.
    + exfalso. revert C. apply climbs_fuel; assumption.
Qed.

End Uniq.

(* ------------------------------------------------------------------------------------------ *)
(* the statements used by Props/C11.v                                                          *)

(* on a valid reference whose deepest instance is x and whose top instance is t: unique exactly
   when there is one instance path from t to x *)
Theorem unique_paths : forall s h x rest, WF s -> is_href s h -> chain_instances s h = x :: rest ->
  exists t pre, h = pre ++ [t] /\ is_root s t /\
    (is_unique s (depth_fuel s) h = Some true <->
     forall p1 p2, is_rpath s t p1 -> is_rpath s t p2 ->
                   hd_error p1 = Some x -> hd_error p2 = Some x -> p1 = p2).
Proof.
  intros s h x rest HWF Hh Ec.
  destruct (href_split s HWF h Hh) as (t & ip & pre & Hp & Eh & Ec' & Eu).
  rewrite Ec in Ec'. subst ip.
  destruct (rpath_last s t _ (proj2 Hp)) as [u Hu].
  exists t, (pre ++ u). split; [rewrite Eh, Hu, app_assoc; reflexivity|]. split; [exact (proj1 Hp)|].
  rewrite (unique_spec s HWF h t (x :: rest) pre Hp Eh Ec Eu Hh). split.
  - intros H p1 p2 H1 H2 E1 E2. rewrite (H p1 H1 E1), (H p2 H2 E2). reflexivity.
  - intros H p2 H2 E2. apply H; [exact H2|exact (proj2 Hp)|exact E2|reflexivity].
Qed.

(* ... which is "x occurs once in the elaborated design" when all its occurrences hang below t *)
Theorem unique_occ : forall s h x rest t pre, WF s -> is_href s h -> chain_instances s h = x :: rest ->
  h = pre ++ [t] -> under s t x ->
  (is_unique s (depth_fuel s) h = Some true <->
   forall p1 p2, occ s x p1 -> occ s x p2 -> p1 = p2).
Proof.
  intros s h x rest t pre HWF Hh Ec Eh U.
  destruct (unique_paths s h x rest HWF Hh Ec) as (t' & pre' & Eh' & Hr & Hiff).
  rewrite Eh in Eh'. apply app_inj_tail in Eh' as [_ <-].
  pose proof (wf_kinds s HWF) as W.
  assert (Kx : kind_of s x = Some KInstance).
  { destruct (href_split s HWF h Hh) as (t2 & ip & pre2 & Hp & _ & Ec' & _). rewrite Ec in Ec'. subst ip.
    apply (path_kinds s HWF t2 _ Hp). left. reflexivity. }
  assert (OC : forall p, occ s x p <-> is_rpath s t p /\ hd_error p = Some x).
  { intro p. split.
    - intro Ho. split; [|apply Ho]. destruct (occ_head s x p Ho) as (p' & -> & Hh').
      destruct (href_inst_inv s W x p' Hh' Kx) as [t2 [_ Hp]].
      assert (t2 = t) by (eapply (under_top s t x (x :: p') t2 (x :: p') []); eauto). subst t2. exact Hp.
    - intros [Hp Hx]. split; [|exact Hx]. apply (hr_inst s t). split; assumption. }
  rewrite Hiff. split.
  - intros H p1 p2 H1 H2. apply OC in H1 as [H1 E1]. apply OC in H2 as [H2 E2]. apply H; assumption.
  - intros H p1 p2 H1 H2 E1 E2. apply H; apply OC; split; assumption.
Qed.

(* the reading of the property text: if every instance on the path sits in a definition that is
   instantiated (at most) once, the reference is unique. The converse does not hold, see
   unique_not_only_if below. *)
Theorem unique_when_single : forall s h, WF s -> is_href s h ->
  (forall c d, In c (chain_instances s h) -> par s RChildren c = Some d -> length (drefs s d) <= 1) ->
  is_unique s (depth_fuel s) h = Some true.
Proof.
  intros s h HWF Hh Hs.
  destruct (href_split s HWF h Hh) as (t & ip & pre & Hp & Eh & Ec & Eu).
  rewrite is_unique_unfold.
  assert (V : is_valid s h = true)
    by (apply (is_valid_iff s h (wf_inv1 s HWF) (wf_inv2 s HWF) (wf_kinds s HWF)); exact Hh).
  rewrite V, Ec, Eu. cbn [negb]. apply uniqf_fold. split; [reflexivity|]. intros y Hy. exfalso.
  apply (starts_stray s HWF t ip Hp) in Hy as (q & c & x & r & d & E & Ex & Ey & D).
  pose proof (rpath_chain s t ip (proj2 Hp)) as C. rewrite E in C. apply chain_app in C as [_ C].
  apply chain_cons2 in C as [Hc _]. apply (child_iff s) in Hc as [d' [Ex' Hd]].
  rewrite Ex in Ex'. inversion Ex'; subst d'. apply (i1_kids s (wf_inv1 s HWF)) in Hd.
  assert (Hin : In c (chain_instances s h)).
  { rewrite Ec, E. apply in_or_app. right. left. reflexivity. }
  pose proof (Hs c d Hin Hd) as L.
  assert (L2 : 1 <? length (drefs s d) = true).
  { apply (two_members _ x y); [apply (i2_ref s (wf_inv2 s HWF)); exact Ex
                               |apply (i2_ref s (wf_inv2 s HWF)); exact Ey|congruence]. }
  apply Nat.ltb_lt in L2. lia.
Qed.

(* ------------------------------------------------------------------------------------------ *)
(* C11_unique_full of Props/C11.v is refuted: two netlists.
   Netlist 0, library 1, definitions 2 (A) and 3 (B); child 4 of A referencing B; child 5 of B;
   top instance 6 of A.  Netlist 7, library 8, definition 9 (A'); child 10 of A' referencing B (of
   netlist 0); top instance 11 of A'.  Instance 5 occurs as 5::4::6 and as 5::10::11, both valid,
   yet is_unique (5::4::6) is true: the stray 10 climbs to 11, which is not on the path. *)
Definition u_ops : list op :=
  [ ONew KNetlist None [];
    OCreate RLibs 0 None [] 0 None;
    OCreate RDefs 1 None [] 0 None;
    OCreate RDefs 1 None [] 0 None;
    OCreate RChildren 2 None [] 0 (Some 3);
    OCreate RChildren 3 None [] 0 None;
    OSetTop 0 (TopDef 2);
    ONew KNetlist None [];
    OCreate RLibs 7 None [] 0 None;
    OCreate RDefs 8 None [] 0 None;
    OCreate RChildren 9 None [] 0 (Some 3);
    OSetTop 7 (TopDef 9) ].

Definition u_state : state := run u_ops init.

Lemma u_never_stuck : never_stuck u_ops init.
Proof. vm_compute. repeat split; discriminate. Qed.

Ltac u_split_id p := do 13 (try destruct p as [|p]).

Lemma u_wfk : WFk u_state.
Proof.
  constructor.
  - intros r p c H. destruct r; u_split_id p; vm_compute in H; try contradiction;
      repeat (destruct H as [H|H]; [subst c; vm_compute; reflexivity|]); contradiction.
  - intros r p c H. destruct r; u_split_id p; vm_compute in H; try contradiction;
      vm_compute; reflexivity.
  - intros x d H. u_split_id x; vm_compute in H; try discriminate; vm_compute; reflexivity.
  - intros r p c H. destruct r; u_split_id p; vm_compute in H; try contradiction;
      repeat (destruct H as [H|H]; [subst c; vm_compute; lia|]); contradiction.
  - intros x d H. u_split_id x; vm_compute in H; try discriminate; vm_compute; lia.
Qed.

(* a rank that decreases along "is a child of" *)
Definition u_rank (x : id) : nat :=
  match x with 5 => 0 | 4 => 1 | 10 => 1 | _ => 2 end.

Lemma u_child c x : child u_state c x -> u_rank c < u_rank x.
Proof.
  unfold child. intro H. u_split_id x; vm_compute in H; try contradiction;
    repeat (destruct H as [H|H]; [subst c; cbn; lia|]); contradiction.
Qed.

Lemma u_acyclic : acyclic u_state.
Proof.
  intro x. apply (Acc_incl _ (child u_state) (Wf_nat.ltof id u_rank)).
  - intros c y H. apply u_child. exact H.
  - apply Wf_nat.well_founded_ltof.
Qed.

Lemma u_wf : WF u_state.
Proof.
  constructor.
  - apply run_inv1a; [apply inv1a_init|apply u_never_stuck].
  - apply run_inv2a; [apply inv2a_init|apply u_never_stuck].
  - exact u_wfk.
  - exact u_acyclic.
Qed.

Lemma u_path1 : is_path u_state 6 [5; 4; 6].
Proof.
  split; [exists 0; split; vm_compute; reflexivity|].
  apply rp_child; [apply rp_child; [apply rp_top|]|]; vm_compute; left; reflexivity.
Qed.

Lemma u_path2 : is_path u_state 11 [5; 10; 11].
Proof.
  split; [exists 7; split; vm_compute; reflexivity|].
  apply rp_child; [apply rp_child; [apply rp_top|]|]; vm_compute; left; reflexivity.
Qed.

Theorem unique_full_refuted :
  ~ (forall s h x rest,
       WF s -> is_href s h -> chain_instances s h = x :: rest ->
       is_unique s (depth_fuel s) h = Some true <->
       (forall p1 p2, occ s x p1 -> occ s x p2 -> p1 = p2)).
Proof.
  intro F.
  assert (Ec : chain_instances u_state [5; 4; 6] = 5 :: [4; 6]) by (vm_compute; reflexivity).
  destruct (F u_state [5; 4; 6] 5 [4; 6] u_wf (hr_inst _ _ _ u_path1) Ec) as [F1 _].
  assert (E : [5; 4; 6] = [5; 10; 11]); [|discriminate E].
  apply F1.
  - vm_compute. reflexivity.
  - split; [exact (hr_inst _ _ _ u_path1)|reflexivity].
  - split; [exact (hr_inst _ _ _ u_path2)|reflexivity].
Qed.

(* the converse of unique_when_single fails inside ONE netlist: definition 3 (B) is instantiated by
   child 5 of the top definition 2 and by child 7 of definition 4, which nothing instantiates;
   6 is a child of B, 8 the top instance. is_unique (6::5::8) is true. *)
Definition v_ops : list op :=
  [ ONew KNetlist None [];
    OCreate RLibs 0 None [] 0 None;
    OCreate RDefs 1 None [] 0 None;
    OCreate RDefs 1 None [] 0 None;
    OCreate RDefs 1 None [] 0 None;
    OCreate RChildren 2 None [] 0 (Some 3);
    OCreate RChildren 3 None [] 0 None;
    OCreate RChildren 4 None [] 0 (Some 3);
    OSetTop 0 (TopDef 2) ].

Example unique_not_only_if :
  let s := run v_ops init in
  never_stuck v_ops init /\ is_valid s [6; 5; 8] = true /\
  is_unique s (depth_fuel s) [6; 5; 8] = Some true /\
  par s RChildren 6 = Some 3 /\ length (drefs s 3) = 2.
Proof.
  cbv zeta. split; [vm_compute; repeat split; discriminate|]. repeat split; vm_compute; reflexivity.
Qed.

(* the hypotheses of unique_occ are satisfiable: Proofs/HierValid.ex_state, the port reference
   4 :: 6 :: 7 (deepest instance 6, top instance 7) *)
Example unique_occ_example :
  exists s h x rest t pre, WF s /\ is_href s h /\ chain_instances s h = x :: rest /\ h = pre ++ [t] /\
    under s t x /\ is_unique s (depth_fuel s) h = Some true /\ length h = 3.
Proof.
  exists HierValid.ex_state, [4; 6; 7], 6, [7], 7, [4; 6].
  assert (R : forall t', is_root HierValid.ex_state t' -> t' = 7).
  { intros t' (n & _ & Ht). do 9 (try destruct n as [|n]); vm_compute in Ht; try discriminate.
    inversion Ht. reflexivity. }
  split; [exact ex2_wf|]. split.
  { apply (is_valid_iff _ _ (wf_inv1 _ ex2_wf) (wf_inv2 _ ex2_wf) (wf_kinds _ ex2_wf)). vm_compute. reflexivity. }
  split; [vm_compute; reflexivity|]. split; [reflexivity|]. split.
  { intros h' Ho. destruct (occ_head _ 6 h' Ho) as (p & -> & Hh).
    assert (K6 : kind_of HierValid.ex_state 6 = Some KInstance) by (vm_compute; reflexivity).
    destruct (href_inst_inv _ (wf_kinds _ ex2_wf) 6 p Hh K6) as [t' Hp].
    pose proof (R t' (proj1 Hp)) as ->. exists (6 :: p). split; [exact Hp|]. exists []. reflexivity. }
  split; [vm_compute; reflexivity|reflexivity].
Qed.

Print Assumptions unique_spec.
Print Assumptions is_unique_total.
Print Assumptions unique_paths.
Print Assumptions unique_occ.
Print Assumptions unique_when_single.
Print Assumptions unique_full_refuted.
Print Assumptions unique_not_only_if.
Print Assumptions unique_occ_example.
