(* C07: Netlist.clone of a closed netlist leaves the REFERENCE SETS of the objects that existed before the
   call unchanged as well (the documented exception of the frame theorem does not arise for netlist roots:
   the final filter of Netlist._clone_rip), hence no reference set of an old definition lists an object of
   the copy. *)
From Coq Require Import List Arith Bool Lia.
From RecordUpdate Require Import RecordSet.
From SV Require Import Base.Base IR.State IR.NS IR.Ops Xform.Clone Proofs.AssocX Proofs.Frame Proofs.Inv1a Proofs.Inv2a
  Proofs.InvP Proofs.InvW Proofs.Fresh Proofs.NsInv Proofs.Repoint Proofs.CloneInv Proofs.RefK Proofs.CloneRef Proofs.CloneT Proofs.FieldT
  Proofs.CloneMemo Proofs.CloneRR Proofs.CloneFaith Proofs.CloneInvP Proofs.CloneFull
  Proofs.CloneMemoK Proofs.CloneFaithK Proofs.CloneStage Proofs.CloneStageP Proofs.CloneRun Proofs.CloneEx Proofs.CloneRemap Proofs.CloneComm Proofs.CloneLib
  Proofs.SrcTree Proofs.CloneNet Proofs.CloneTop Proofs.CloneFin Proofs.CloneFrame Proofs.CloneStart Proofs.KindD Proofs.CloneTq Proofs.CloneNetInv.
Import ListNotations RecordSetNotations.

Theorem clone_netlist_old_drefs s0 n :
  UF s0 -> StartOK s0 -> (forall x e, iref s0 x = Some e -> kind_of s0 e = Some KDefinition) ->
  kind_of s0 n = Some KNetlist -> (forall t, top s0 n = Some t -> kind_of s0 t = Some KInstance) -> Closed s0 n ->
  snd (fst (clone_netlist s0 n)) = None ->
  forall y, y < next s0 -> drefs (fst (fst (clone_netlist s0 n))) y = drefs s0 y.
Proof.
  intros U0 HS HRD Hkn Htop Hcl Hok y Hy.
  destruct (clone_netlist_facts s0 n U0 HS HRD Hkn Htop Hcl Hok) as [sQ [M [libs' NF]]].
  pose proof (nf_ry _ _ _ _ _ _ _ NF) as Y. pose proof (ry_rx _ _ _ Y) as X. pose proof (rx_ri _ _ _ X) as R. pose proof (ri_st _ _ _ R) as T.
  assert (Hni : forall d, In (d, y) M -> False) by (intros d H; destruct (st_rng _ _ _ T d y H) as [_ [B _]]; lia).
  rewrite (nf_drefs _ _ _ _ _ _ _ NF y).
  destruct (memb y (flat_map (kids sQ RDefs) libs')) eqn:E.
  - apply memb_In in E. destruct (nf_hd _ _ _ _ _ _ _ NF y E) as [d [Hd _]]. destruct (Hni d Hd).
  - apply (ry_dn _ _ _ Y y). intros d Hd. destruct (Hni d Hd).
Qed.

Theorem clone_netlist_reachable_old_drefs ops n :
  let s := run ops init in
  kind_of s n = Some KNetlist -> Closed s n -> snd (fst (clone_netlist s n)) = None ->
  forall y, y < next s -> drefs (fst (fst (clone_netlist s n))) y = drefs s y.
Proof.
  cbn zeta. intros Hk Hc Hok. destruct (reachable_refd_topk ops) as [HD HT].
  apply clone_netlist_old_drefs; [apply reachable_uf|apply reachable_startok|exact HD|exact Hk|intros t Ht; apply (HT n t Ht)|exact Hc|exact Hok].
Qed.
