(* C07 independence: the REFERENCE SETS. When, in addition, the references of the region stay inside it
   ([RefIn]: the copy made by Netlist.clone; not the copy made by Definition.clone, whose children reference
   outside definitions - the documented exception), an editing call on the region changes no reference set
   outside it either. *)
From Coq Require Import List Arith NArith ZArith Bool Lia.
From RecordUpdate Require Import RecordSet.
From SV Require Import Base.Base IR.State IR.NS IR.Ops Proofs.AssocX Proofs.Frame Proofs.Inv2a Proofs.Locality Proofs.LocalityNs
  Proofs.LocalityStruct Proofs.LocalityStep.
Import ListNotations RecordSetNotations.

Definition RefIn (P : id -> Prop) (s : state) : Prop := forall n d, P n -> iref s n = Some d -> P d.
Definition dr_eq (P : id -> Prop) (s s' : state) : Prop := forall x, ~ P x -> drefs s' x = drefs s x.

Definition Loc2 (P : id -> Prop) (s s' : state) : Prop :=
  RClosed P s -> RefIn P s -> (out_eq P s s' /\ RClosed P s') /\ (dr_eq P s s' /\ RefIn P s').

Section Refs.
Variable P : id -> Prop.

Lemma loc2_refl s : Loc2 P s s.
Proof. intros C R. split; [split; [apply out_eq_refl|exact C]|split; [intros x _; reflexivity|exact R]]. Qed.

Lemma loc2_trans a b c : Loc2 P a b -> Loc2 P b c -> Loc2 P a c.
Proof.
  intros H1 H2 C R. destruct (H1 C R) as [[O1 C1] [D1 R1]]. destruct (H2 C1 R1) as [[O2 C2] [D2 R2]].
  split; [split; [eapply out_eq_trans; eassumption|exact C2]|split; [|exact R2]].
  intros x Hx. rewrite (D2 x Hx). apply (D1 x Hx).
Qed.

Lemma loc2_use s s' : (RClosed P s -> RefIn P s -> Loc2 P s s') -> Loc2 P s s'.
Proof. intros H C R. apply (H C R C R). Qed.

Lemma loc2_bind s r f : Loc2 P s (fst r) -> (forall s1, Loc2 P s1 (fst (f s1))) -> Loc2 P s (fst (r >>= f)).
Proof. destruct r as [s1 [x|]]; cbn; intros H1 H2; [exact H1|]. eapply loc2_trans; [exact H1|apply H2]. Qed.

Lemma loc2_bind_from s s2 r f :
  Loc2 P s s2 -> Loc2 P s2 (fst r) -> (forall s1, Loc2 P s1 (fst (f s1))) -> Loc2 P s (fst (r >>= f)).
Proof. intros H1 H2 H3. apply loc2_bind; [eapply loc2_trans; eassumption|exact H3]. Qed.

Lemma loc2_of s s' : Loc P s s' -> ref_eq s s' -> Loc2 P s s'.
Proof.
  intros L [Ed Er] C R. split; [apply (L C)|]. split; [intros x _; rewrite Ed; reflexivity|].
  intros n d Hn H. rewrite Er in H. apply (R n d Hn H).
Qed.

Lemma loc2_set_drefs s d l : P d -> (RClosed P s -> forall x, In x l -> P x) -> Loc2 P s (set_drefs s d l).
Proof.
  intros Hd Hl C R. split; [apply (loc_set_drefs P s d l (fun C0 _ => Hl C0) C)|]. split; [|exact R].
  intros x Hx. cbn. unfold upd. destruct (Nat.eqb_spec x d); [subst; contradiction|reflexivity].
Qed.

Lemma loc2_set_iref s x v : P x -> (forall d, v = Some d -> P d) -> Loc2 P s (set_iref s x v).
Proof.
  intros Hx Hv C R. split; [apply (loc_set_iref P s x v Hx C)|]. split; [intros y _; reflexivity|].
  intros n d Hn H. cbn in H. unfold upd in H. destruct (Nat.eqb_spec n x); [apply Hv; exact H|apply (R n d Hn H)].
Qed.

Lemma loc2_unref s x d :
  P d -> Loc2 P s (fst (if memb x (drefs s d) then ret (set_drefs s d (remove_first x (drefs s d))) else raise s XStuck)).
Proof.
  intro Hd. destruct (memb x (drefs s d)); [|apply loc2_refl]. cbn. apply loc2_set_drefs; [exact Hd|].
  intros C y Hy. apply remove_first_In_sub in Hy. apply (rc_drefs _ _ C d y Hd Hy).
Qed.

Lemma loc2_emit s ev : Loc2 P s (emit s ev).
Proof. apply loc2_of; [apply loc_emit|split; reflexivity]. Qed.

Lemma loc2_op_set_reference s x v : P x -> (forall d, v = Some d -> P d) -> Loc2 P s (fst (op_set_reference s x v)).
Proof.
  intros Hx Hv. unfold op_set_reference, guard. destruct (_ && _); [|apply loc2_refl].
  destruct (match v, iref s x with Some d', Some d => same_shape s d d' | _, _ => true end); [|apply loc2_refl].
  cbn zeta. destruct v as [d'|].
  - pose proof (Hv d' eq_refl) as Hd'.
    apply (loc2_bind_from s (emit s (EReference x (Some d')))); [apply loc2_emit| |].
    + apply loc2_use. intros C1 R1. destruct (iref _ x) as [d|] eqn:E.
      * pose proof (R1 x d Hx E) as Hd. apply loc2_bind; [apply loc2_unref; exact Hd|]. intro s2.
        apply loc2_of; [apply loc_fold_pairsR; intros; apply loc_rekey; exact Hx|apply re_fold_pairsR; intros; apply rekey_refs].
      * cbn. apply loc2_of; [apply loc_new_outers; exact Hx|apply re_fold_ids; intros; apply re_new_outer].
    + intro s3. cbn. eapply loc2_trans; [|apply loc2_set_iref; [exact Hx|intros d0 H; injection H as <-; exact Hd']].
      apply loc2_set_drefs; [exact Hd'|]. intros C y Hy. apply LocalityStep.set_add_In in Hy as [->|Hy]; [exact Hx|apply (rc_drefs _ _ C d' y Hd' Hy)].
  - apply (loc2_bind_from s (emit s (EReference x None))); [apply loc2_emit| |].
    + apply loc2_of; [apply loc_drop_outers; exact Hx|apply re_fold_idsR; intros; apply re_drop_outer].
    + intro s2. cbn zeta. apply (loc2_bind_from s2 (set_ipins s2 x [])).
      * apply loc2_of; [apply loc_set_ipins; [exact Hx|intros _ i w []]|split; reflexivity].
      * apply loc2_use. intros C3 R3. destruct (iref _ x) as [d|] eqn:E; [apply loc2_unref; apply (R3 x d Hx E)|apply loc2_refl].
      * intro s4. cbn. apply loc2_set_iref; [exact Hx|intros; discriminate].
Qed.

Theorem step_loc2 s o : op_in P o -> Loc2 P s (fst (step s o)).
Proof.
  intro H. destruct o.
  - apply loc2_of; [apply step_loc; exact H|]; cbn [step]. apply re_construct.
  - cbn [op_in step] in *. destruct H as [Hp Hr]. unfold guard. destruct (_ && _); [|apply loc2_refl].
    apply loc2_use. intros C R. destruct (loc_create_and_add P s r p nm props Hp) as [Lc Pc]. specialize (Pc C).
    assert (Hre : ref_eq s (fst (fst (create_and_add s r p nm props)))).
    { unfold create_and_add. pose proof (re_construct s (rel_child r) nm props) as Hc.
      destruct (construct s (rel_child r) nm props) as [res x]. cbn [fst] in *. apply re_bind; [exact Hc|intro; apply re_op_add]. }
    destruct (create_and_add s r p nm props) as [res x]. cbn [fst snd] in *.
    apply loc2_bind; [apply loc2_of; assumption|]. intro s1.
    destruct r; try apply loc2_refl;
      [apply loc2_of; [apply loc_create_items; exact Pc|apply re_create_items]
      |apply loc2_of; [apply loc_create_items; exact Pc|apply re_create_items]
      |apply loc2_op_set_reference; assumption].
  - apply loc2_of; [apply step_loc; exact H|]; cbn [step]. apply re_guard. intro. apply re_create_items.
  - apply loc2_of; [apply step_loc; exact H|]; cbn [step]. apply re_op_add.
  - apply loc2_of; [apply step_loc; exact H|]; cbn [step]. apply re_op_remove.
  - apply loc2_of; [apply step_loc; exact H|]; cbn [step]. apply re_op_remove_from.
  - apply loc2_of; [apply step_loc; exact H|]; cbn [step]. unfold op_reorder. repeat (apply re_guard; intro). triv.
  - apply loc2_of; [apply step_loc; exact H|]; cbn [step]. unfold op_reorder_wire. repeat (apply re_guard; intro). triv.
  - apply loc2_of; [apply step_loc; exact H|]; cbn [step]. unfold op_connect. apply re_guard. intro s1.
    destruct p as [i|n i|]; cbn; try apply ref_eq_refl.
    + destruct (ipwire s1 i); cbn; triv.
    + destruct (assoc i (ipins s1 n)) as [[w0|]|]; cbn; triv.
  - apply loc2_of; [apply step_loc; exact H|]; cbn [step]. unfold op_disconnect. repeat (apply re_guard; intro). destruct p; cbn; triv.
  - apply loc2_of; [apply step_loc; exact H|]; cbn [step]. unfold op_disconnect_from. repeat (apply re_guard; intro).
    cbn [fst ret]. eapply ref_eq_trans; [|triv]. apply re_fold_left. intros sq q. destruct q; triv.
  - cbn [op_in step] in *. destruct H as [H1 H2]. apply loc2_op_set_reference; assumption.
  - cbn [op_in step] in *. destruct H as [Hn Ha]. unfold op_set_top, guard. destruct (_ && _); [|apply loc2_refl]. cbn zeta.
    assert (H0 : forall ev, ref_eq s (clear_old_top (emit s ev) n)) by (intro ev; eapply ref_eq_trans; [|apply re_clear_old_top]; triv).
    assert (L0 : forall ev, Loc P s (clear_old_top (emit s ev) n)) by (intro ev; eapply loc_trans; [apply loc_emit|apply loc_clear_old_top; exact Hn]).
    destruct a as [x|d|].
    + cbn [fst ret]. apply loc2_of; [|eapply ref_eq_trans; [apply H0|]; triv].
      eapply loc_trans; [apply L0|]. eapply loc_trans; [|apply loc_set_istop; exact Ha].
      apply loc_set_top; [exact Hn|intros _ t Ht; injection Ht as <-; exact Ha].
    + eapply loc2_trans; [apply loc2_of; [apply L0|apply H0]|]. apply loc2_use. intros C1 R1.
      match goal with |- context [construct ?s1 KInstance None []] =>
        destruct (loc_construct P s1 KInstance None []) as [Lc Pc]; specialize (Pc C1);
        pose proof (re_construct s1 KInstance None []) as Hc;
        destruct (construct s1 KInstance None []) as [r t] end.
      cbn [fst snd] in *. apply loc2_bind; [apply loc2_of; assumption|]. intro s2.
      apply loc2_bind; [apply loc2_op_set_reference; [exact Pc|intros d0 E; injection E as <-; exact Ha]|].
      intro s3. cbn [fst ret]. apply loc2_of.
      * eapply loc_trans; [apply loc_set_istop; exact Pc|]. eapply loc_trans; [apply loc_emit|].
        eapply loc_trans; [apply loc_clear_old_top; exact Hn|].
        eapply loc_trans; [|apply loc_set_istop; exact Pc]. apply loc_set_top; [exact Hn|intros _ t0 Ht; injection Ht as <-; exact Pc].
      * eapply ref_eq_trans; [|triv]. eapply ref_eq_trans; [|apply re_clear_old_top]. triv.
    + cbn [fst ret]. apply loc2_of; [|eapply ref_eq_trans; [apply H0|]; triv].
      eapply loc_trans; [apply L0|]. apply loc_set_top; [exact Hn|intros; discriminate].
  - apply loc2_of; [apply step_loc; exact H|]; cbn [step]. apply re_guard. intro. apply struct_ref, se_op_set_name.
  - apply loc2_of; [apply step_loc; exact H|]; cbn [step]. apply re_guard. intro. apply struct_ref, se_op_del_name.
  - apply loc2_of; [apply step_loc; exact H|]; cbn [step]. apply re_guard. intro. apply struct_ref, se_dict_set.
  - apply loc2_of; [apply step_loc; exact H|]; cbn [step]. apply re_guard. intro. apply struct_ref, se_dict_del.
  - apply loc2_of; [apply step_loc; exact H|]; cbn [step]. apply re_guard. intro. apply struct_ref, se_dict_pop.
  - apply loc2_of; [apply step_loc; exact H|]; cbn [step]. apply re_guard. intro. triv.
  - apply loc2_of; [apply step_loc; exact H|]; cbn [step]. repeat (apply re_guard; intro). triv.
  - apply loc2_of; [apply step_loc; exact H|]; cbn [step]. apply re_guard. intro. triv.
  - apply loc2_of; [apply step_loc; exact H|]; cbn [step]. apply re_guard. intro. triv.
  - apply loc2_of; [apply step_loc; exact H|]; cbn [step]. triv.
Qed.

Theorem run_loc2 : forall ops s, Forall (op_in P) ops -> Loc2 P s (run ops s).
Proof.
  induction ops as [|o ops IH]; intros s H; cbn; [apply loc2_refl|].
  inversion H as [|? ? Ho Hops]; subst. eapply loc2_trans; [apply step_loc2; exact Ho|apply IH; exact Hops].
Qed.
End Refs.
