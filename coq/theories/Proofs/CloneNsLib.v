(* C10 across Library.clone and Netlist.clone: in every state reachable by editing calls, after a
   completed clone of a library / netlist that carries a naming policy every namespace table is still
   exactly the names (identifiers) of the children of its scope - the tables of the original design
   untouched, the tables of the copy (one per copied netlist / library / definition) rebuilt from the
   copy's children when the policy is re-applied at the end of clone(). *)
From Coq Require Import List Arith Bool Lia.
From RecordUpdate Require Import RecordSet.
From SV Require Import Base.Base IR.State IR.NS IR.Ops Xform.Clone Proofs.AssocX Proofs.Frame Proofs.Inv1a Proofs.Inv2a
  Proofs.InvP Proofs.InvW Proofs.Fresh Proofs.RefusedFull Proofs.NsSlot Proofs.NsInv Proofs.CloneFrame Proofs.CloneStart
  Proofs.CloneInv Proofs.RefK Proofs.CloneRef Proofs.CloneT Proofs.TabK Proofs.FieldT Proofs.CloneFull Proofs.CloneNs Proofs.KindD
  Proofs.CloneNet Proofs.CloneFin Proofs.CloneLibInv Proofs.CloneNetInv Proofs.CloneTq Proofs.CloneAux Proofs.CloneAuxLib.
Import ListNotations RecordSetNotations.

(* ---- writes of the second phase: tables, data, containers, kinds and the counter stay ---- *)
Record tdk (s s' : state) : Prop := mkTdk {
  tk_tab : nstab s' = nstab s; tk_data : data s' = data s; tk_kids : kids s' = kids s; tk_par : par s' = par s;
  tk_next : next s' = next s; tk_kind : kind_of s' = kind_of s
}.
Lemma tdk_refl s : tdk s s. Proof. constructor; reflexivity. Qed.
Lemma tdk_trans a b c : tdk a b -> tdk b c -> tdk a c. Proof. intros [] []. constructor; congruence. Qed.
Lemma tdk_bind (r : R) f s : tdk s (fst r) -> (forall s1, tdk s1 (fst (f s1))) -> tdk s (fst (r >>= f)).
Proof. destruct r as [s1 [x|]]; cbn; intros H1 H2; [exact H1|]. eapply tdk_trans; [exact H1|apply H2]. Qed.
Lemma tdk_fold_idsR f l : (forall s x, tdk s (fst (f s x))) -> forall s, tdk s (fst (fold_idsR f l s)).
Proof. intro H. induction l as [|x l IH]; intro s; cbn; [apply tdk_refl|]. apply tdk_bind; [apply H|apply IH]. Qed.
Lemma tdk_fold_pairsR f l : (forall s x, tdk s (fst (f s x))) -> forall s, tdk s (fst (fold_pairsR f l s)).
Proof. intro H. induction l as [|x l IH]; intro s; cbn; [apply tdk_refl|]. apply tdk_bind; [apply H|apply IH]. Qed.
Lemma tdk_fold_ids f l : (forall s x, tdk s (f s x)) -> forall s, tdk s (fold_ids f l s).
Proof. intro H. induction l as [|x l IH]; intro s; cbn; [apply tdk_refl|]. eapply tdk_trans; [apply H|apply IH]. Qed.
Ltac tdk_triv := constructor; reflexivity.

Lemma tdk_rekey s n cn : tdk s (fst (rekey s n cn)).
Proof. unfold rekey. destruct cn. destruct (assoc _ _) as [[w|]|]; tdk_triv. Qed.
Lemma tdk_rekey_all m s x : tdk s (fst (rekey_all m s x)).
Proof. unfold rekey_all. apply tdk_fold_pairsR. intros s1 kv. destruct (mget m (fst kv)); [apply tdk_rekey|apply tdk_refl]. Qed.
Lemma tdk_def_rr m s d : tdk s (fst (def_rr m s d)).
Proof.
  unfold def_rr. eapply tdk_trans; [|apply tdk_fold_idsR]; [tdk_triv|].
  intros s1 x. destruct (iref s1 x) as [e|]; [|apply tdk_refl]. destruct (mget m e); [|apply tdk_refl].
  eapply tdk_trans; [|apply tdk_rekey_all]. tdk_triv.
Qed.
Lemma tdk_register_child s x : tdk s (fst (register_child s x)).
Proof. unfold register_child. destruct (iref s x); tdk_triv. Qed.
Lemma tdk_lib_rip m s l : tdk s (fst (lib_rip m s l)).
Proof.
  unfold lib_rip. apply tdk_fold_idsR. intros s1 d. apply tdk_bind; [apply tdk_fold_idsR; intros; apply tdk_register_child|].
  intro s2. tdk_triv.
Qed.
Lemma tdk_inst_rr_def m s p : tdk s (fst (inst_rr_def m s p)).
Proof. unfold inst_rr_def. destruct (map_opt _ _); tdk_triv. Qed.

Lemma above_tdk_aux s s' : tdk s s' -> Above s -> Above s'.
Proof. intros [_ _ K P N _] H r y Hy. rewrite K, P. apply H. rewrite <- N. exact Hy. Qed.
Lemma parlt_tdk_aux s s' : tdk s s' -> ParLt s -> ParLt s'.
Proof. intros [_ _ _ P N _] H r x p Hp. rewrite P in Hp. rewrite N. apply (H r x p Hp). Qed.

(* the same without the parent pointers (the redirect folds set the parent of each copy first) *)
Record tdn (s s' : state) : Prop := mkTdn {
  tn_tab : nstab s' = nstab s; tn_data : data s' = data s; tn_kids : kids s' = kids s;
  tn_next : next s' = next s; tn_kind : kind_of s' = kind_of s
}.
Lemma tdn_refl s : tdn s s. Proof. constructor; reflexivity. Qed.
Lemma tdn_trans a b c : tdn a b -> tdn b c -> tdn a c. Proof. intros [] []. constructor; congruence. Qed.
Lemma tdn_of_tdk s s' : tdk s s' -> tdn s s'. Proof. intros []. constructor; assumption. Qed.
Lemma tdn_bind (r : R) f s : tdn s (fst r) -> (forall s1, tdn s1 (fst (f s1))) -> tdn s (fst (r >>= f)).
Proof. destruct r as [s1 [x|]]; cbn; intros H1 H2; [exact H1|]. eapply tdn_trans; [exact H1|apply H2]. Qed.
Lemma tdn_fold_idsR f l : (forall s x, tdn s (fst (f s x))) -> forall s, tdn s (fst (fold_idsR f l s)).
Proof. intro H. induction l as [|x l IH]; intro s; cbn; [apply tdn_refl|]. apply tdn_bind; [apply H|apply IH]. Qed.
Lemma tdn_fold_ids f l : (forall s x, tdn s (f s x)) -> forall s, tdn s (fold_ids f l s).
Proof. intro H. induction l as [|x l IH]; intro s; cbn; [apply tdn_refl|]. eapply tdn_trans; [apply H|apply IH]. Qed.
Lemma tdn_struct s s' : struct_eq s s' -> nstab s' = nstab s -> data s' = data s -> tdn s s'.
Proof. intros H A B. constructor; [exact A|exact B|apply (se_kids _ _ H)|apply (se_next _ _ H)|apply (se_kind _ _ H)]. Qed.

(* the redirect fold of Library._clone / Netlist._clone keeps "nothing above the counter" and "parents are allocated" *)
Lemma rr_fold_ab m2 rl x : forall ds sa, Above sa -> ParLt sa -> x < next sa -> (forall d, In d ds -> d < next sa) ->
  Above (fst (fold_idsR (fun s d' => def_rr m2 (set_par s rl d' (Some x)) d') ds sa)) /\
  ParLt (fst (fold_idsR (fun s d' => def_rr m2 (set_par s rl d' (Some x)) d') ds sa)).
Proof.
  induction ds as [|d0 ds IHd]; intros sa Aa Pa Hxa Hds; cbn [fold_idsR fst ret]; [split; assumption|].
  pose proof (tdk_def_rr m2 (set_par sa rl d0 (Some x)) d0) as Tq.
  assert (A0 : Above (set_par sa rl d0 (Some x))).
  { intros r y Hy. cbn in Hy. cbn. split; [apply Aa; exact Hy|]. unfold upd2. destruct (rel_eqb r rl); [|apply Aa; exact Hy].
    unfold upd. pose proof (Hds d0 (or_introl eq_refl)). destruct (Nat.eqb_spec y d0) as [->|]; [lia|apply Aa; exact Hy]. }
  assert (P0 : ParLt (set_par sa rl d0 (Some x))).
  { intros r y p Hp. cbn in Hp. cbn. unfold upd2 in Hp.
    destruct (rel_eqb r rl); [|apply (Pa r y p Hp)]. unfold upd in Hp. destruct (Nat.eqb y d0); [injection Hp as <-; exact Hxa|apply (Pa r y p Hp)]. }
  pose proof (above_tdk_aux _ _ Tq A0) as A1. pose proof (parlt_tdk_aux _ _ Tq P0) as P1.
  destruct (def_rr m2 (set_par sa rl d0 (Some x)) d0) as [sb [ex|]]; cbn [bindR fst] in *; [split; assumption|].
  apply IHd; [exact A1|exact P1|rewrite (tk_next _ _ Tq); exact Hxa|].
  intros d Hd. rewrite (tk_next _ _ Tq). apply Hds. right. exact Hd.
Qed.

Lemma above_tdk s s' : tdk s s' -> Above s -> Above s'.
Proof. intros [_ _ K P N _] H r y Hy. rewrite K, P. apply H. rewrite <- N. exact Hy. Qed.
Lemma parlt_tdk s s' : tdk s s' -> ParLt s -> ParLt s'.
Proof. intros [_ _ _ P N _] H r x p Hp. rewrite P in Hp. rewrite N. apply (H r x p Hp). Qed.

(* ---- Definition._clone leaves the data of everything below the copy alone ---- *)
Lemma dm_def_clone1 a s m d s' m' d' e : Above s -> a <= next s -> def_clone1 (s, m) d = ((s', m', d'), e) -> DMa a s s'.
Proof.
  intros Hab Ha E. unfold def_clone1 in E. destruct (clone_alloc s KDefinition) as [s1 x] eqn:Ea.
  destruct (clone_alloc_kp s KDefinition s1 x Ea) as [Hx [Hn1 _]].
  assert (D1 : DMa a s s1) by (intros y Hy; apply (clone_alloc_data _ _ _ _ Ea (or_intror Hab)); lia).
  match type of E with context [clone_each port_clone1 ?l ?sm] => destruct (clone_each port_clone1 l sm) as [[s2 m2] ports'] eqn:E2 end.
  match type of E with context [clone_each cable_clone1 ?l ?sm] => destruct (clone_each cable_clone1 l sm) as [[s3 m3] cables'] eqn:E3 end.
  match type of E with context [clone_each inst_clone1 ?l ?sm] => destruct (clone_each inst_clone1 l sm) as [[s4 m4] children'] eqn:E4 end.
  injection E as <- _ _ _.
  match goal with |- DMa a s (fst ?rr) => assert (Hrr : tdsame s4 (fst rr)) end.
  { eapply td_trans; [|apply td_bind; [apply td_fold_idsR; intros s6 p'; eapply td_trans; [|apply td_port_rr]; split; reflexivity|]].
    - split; reflexivity.
    - intro s6. apply td_bind; [apply td_fold_idsR; intros s7 c'; eapply td_trans; [|apply td_cable_rr]; split; reflexivity|].
      intro s7. apply td_fold_idsR. intros s8 x'. eapply td_trans; [|apply td_inst_rr_def]. split; reflexivity. }
  destruct (km_clone_each port_clone1 km_port_clone1 _ _ _ _ _ _ E2) as [N2 _].
  destruct (km_clone_each cable_clone1 km_cable_clone1 _ _ _ _ _ _ E3) as [N3 _].
  assert (Hn1c : next (copy_data s1 d x) = S (next s)) by exact Hn1.
  assert (A2 : a <= next (copy_data s1 d x)) by lia. assert (A3 : a <= next s2) by lia. assert (A4 : a <= next s3) by lia.
  eapply dm_trans; [exact D1|]. eapply dm_trans; [apply (dm_copy_data a s1 d x); lia|].
  eapply dm_trans; [apply (dm_clone_each port_clone1 dm_port_clone1 km_port_clone1 _ a _ _ _ _ _ A2 E2)|].
  eapply dm_trans; [apply (dm_clone_each cable_clone1 dm_cable_clone1 km_cable_clone1 _ a _ _ _ _ _ A3 E3)|].
  eapply dm_trans; [apply (dm_clone_each inst_clone1 dm_inst_clone1 km_inst_clone1 _ a _ _ _ _ _ A4 E4)|].
  apply dm_td. exact Hrr.
Qed.

(* ---- the definitions of a library: tables appear at the copies only, data below the start is kept ---- *)
Lemma defs_clone1_loc : forall l a s m s' m' l', Above s -> ParLt s -> a <= next s ->
  defs_clone1 l (s, m) = ((s', m'), l', None) ->
  (forall y, ~ In y l' -> nstab s' y = nstab s y) /\ DMa a s s' /\ Above s' /\ ParLt s' /\ next s <= next s' /\
  (forall y, In y l' -> next s <= y < next s') /\ (forall r y, y < next s -> kids s' r y = kids s r y).
Proof.
  induction l as [|d l IH]; intros a s m s' m' l' Hab Hpl Ha E; cbn [defs_clone1] in E.
  - injection E as <- <- <-. split; [intros; reflexivity|]. split; [apply dm_refl|]. split; [exact Hab|]. split; [exact Hpl|].
    split; [apply Nat.le_refl|split; [intros y []|intros; reflexivity]].
  - destruct (def_clone1 (s, m) d) as [[[s1 m1] d'] [e1|]] eqn:E1; [discriminate|].
    destruct (def_clone1_kp s m d s1 m1 d' Hab Hpl E1) as [Hd' [Hn [Hkf [_ [_ [Ab1 Pl1]]]]]].
    pose proof (def_clone1_tab s m d s1 m1 d' None Hab E1) as Ht1.
    pose proof (dm_def_clone1 a s m d s1 m1 d' None Hab Ha E1) as D1.
    destruct (defs_clone1 l (s1, m1)) as [[[s2 m2] r] e2] eqn:E2. injection E as <- <- <- ->.
    destruct (IH a s1 m1 s2 m2 r Ab1 Pl1 ltac:(lia) E2) as [Ht2 [D2 [Ab2 [Pl2 [N2 [R2 K2]]]]]].
    split; [|split; [eapply dm_trans; eassumption|split; [exact Ab2|split; [exact Pl2|split; [lia|split]]]]].
    + intros y Hy. rewrite Ht2 by (intro H; apply Hy; right; exact H). apply Ht1. intro H. apply Hy. left. congruence.
    + intros y [<-|Hy]; [lia|]. pose proof (R2 y Hy). lia.
    + intros r0 y Hy. rewrite (K2 r0 y ltac:(lia)). apply (proj1 (Hkf r0 y Hy)).
Qed.

Lemma km_defs_clone1 : forall l s m s' m' l' e, defs_clone1 l (s, m) = ((s', m'), l', e) -> KM s s'.
Proof.
  induction l as [|d l IH]; intros s m s' m' l' e E; cbn [defs_clone1] in E.
  - injection E as <- _ _ _. apply km_refl.
  - destruct (def_clone1 (s, m) d) as [[[s1 m1] d'] e1] eqn:E1. pose proof (km_def_clone1 _ _ _ _ _ _ _ E1) as H1.
    destruct e1 as [x|]; [injection E as <- _ _ _; exact H1|].
    destruct (defs_clone1 l (s1, m1)) as [[[s2 m2] r] e2] eqn:E2. injection E as <- _ _ _.
    eapply km_trans; [exact H1|apply (IH _ _ _ _ _ _ E2)].
Qed.

Lemma above_copy_data s p x : Above s -> Above (copy_data s p x).
Proof. intros H r y Hy. apply H. exact Hy. Qed.

Lemma lib_clone1_loc a s m l s' m' l' : Above s -> ParLt s -> a <= next s ->
  lib_clone1 (s, m) l = ((s', m', l'), None) ->
  l' = next s /\ next s < next s' /\ Above s' /\ ParLt s' /\
  (forall y, y <> l' -> ~ In y (kids s' RDefs l') -> nstab s' y = nstab s y) /\ DMa a s s' /\
  (l < next s -> data s' l' = data s l) /\ kind_of s' l' = Some KLibrary /\ (forall y, In y (kids s' RDefs l') -> next s < y) /\
  (forall r y, y < next s -> kids s' r y = kids s r y).
Proof.
  intros Hab Hpl Ha E. unfold lib_clone1 in E. destruct (clone_alloc s KLibrary) as [s1 x] eqn:Ea.
  destruct (clone_alloc_kp s KLibrary s1 x Ea) as [Hx [Hn1 [Hk1 Hp1]]].
  destruct (above_alloc s KLibrary s1 x Hab Hpl Ea) as [Ab1 Pl1].
  pose proof (clone_alloc_kind _ _ _ _ Ea) as Hkx.
  match type of E with context [defs_clone1 ?a ?b] => destruct (defs_clone1 a b) as [[[s2 m2] defs'] [e2|]] eqn:Ed end; [discriminate|].
  destruct (defs_clone1_loc _ (S (next s)) _ _ _ _ _ (above_copy_data s1 l x Ab1) Pl1 ltac:(cbn; lia) Ed) as [Ht2 [D2 [Ab2 [Pl2 [N2 [R2 K2]]]]]].
  assert (Hnc : next (copy_data s1 l x) = S (next s)) by exact Hn1. rewrite Hnc in N2, R2.
  injection E as <- _ <-.
  set (s3 := set_kids s2 RDefs x defs') in *.
  pose proof (tdn_fold_idsR (fun s d' => def_rr m2 (set_par s RDefs d' (Some x)) d') defs'
                (fun sa y => tdn_trans _ _ _ (mkTdn sa (set_par sa RDefs y (Some x)) eq_refl eq_refl eq_refl eq_refl eq_refl) (tdn_of_tdk _ _ (tdk_def_rr m2 _ y))) s3) as TF.
  assert (A3 : Above s3).
  { intros r y Hy. cbn in Hy. cbn. rewrite kids_upd2_ns.
    destruct (rel_eqb r RDefs && Nat.eqb y x) eqn:Eq; [|apply Ab2; exact Hy].
    apply andb_true_iff in Eq as [_ Eq]. apply Nat.eqb_eq in Eq. lia. }
  assert (Hdl : forall d, In d defs' -> d < next s3) by (intros d Hd; apply (R2 d Hd)).
  destruct (rr_fold_ab m2 RDefs x defs' s3 A3 Pl2 ltac:(cbn; lia) Hdl) as [AbF PlF].
  match goal with |- context [fst ?rr] => set (sF := fst rr) in * end.
  assert (T2F : nstab sF = nstab s2 /\ data sF = data s2 /\ next sF = next s2 /\ kind_of sF = kind_of s2).
  { destruct TF as [A B _ C D]. rewrite A, B, C, D. repeat split. }
  destruct T2F as [TA [TB [TC TD]]].
  assert (KF : kids sF RDefs x = defs').
  { rewrite (tn_kids _ _ TF). unfold s3. cbn. apply upd_same. }
  split; [exact Hx|]. split; [rewrite TC; lia|]. split; [exact AbF|]. split; [exact PlF|].
  split; [|split; [|split; [|split; [|split]]]].
  - intros y Hy1 Hy2. rewrite KF in Hy2. rewrite TA, (Ht2 y Hy2). cbn.
    apply (clone_alloc_tab _ _ _ _ Ea). right. split; [exact Hab|exact Hy1].
  - intros y Hy. rewrite TB. rewrite (D2 y ltac:(lia)). cbn. unfold upd.
    replace (Nat.eqb y x) with false by (symmetry; apply Nat.eqb_neq; lia).
    apply (clone_alloc_data _ _ _ _ Ea (or_intror Hab)). lia.
  - intro Hl. rewrite TB, (D2 x ltac:(lia)). cbn. rewrite upd_same.
    apply (clone_alloc_data _ _ _ _ Ea (or_intror Hab)). lia.
  - rewrite TD. destruct (km_defs_clone1 _ _ _ _ _ _ _ Ed) as [_ Km]. rewrite Km by (cbn; lia). exact Hkx.
  - intros y Hy. rewrite KF in Hy. pose proof (R2 y Hy). lia.
  - intros r0 y Hy. rewrite (tn_kids _ _ TF). unfold s3. cbn. rewrite kids_upd2_ns.
    replace (Nat.eqb y x) with false by (symmetry; apply Nat.eqb_neq; lia). rewrite andb_false_r.
    rewrite (K2 r0 y ltac:(rewrite Hnc; lia)). cbn. rewrite Hk1. reflexivity.
Qed.

(* ---- dropping the policy of the root of an orphan subtree clears every table of the subtree ---- *)
Lemma drop_namespace_sub_none s e x : In x (subtree s e) -> nstab (drop_namespace s e) x = None.
Proof.
  unfold drop_namespace.
  set (f := fun (s0 : state) (x : id) =>
    let s1 := set_nstab s0 x None in
    if negb (Nat.eqb x e) && has_key s1 x str_NS then data_erase (emit s1 (EDictDel x str_NS)) x str_NS else s1).
  assert (Hstep : forall s0 z y, nstab (f s0 z) y = if Nat.eqb y z then None else nstab s0 y).
  { intros s0 z y. unfold f. cbn zeta. destruct (negb (Nat.eqb z e) && _); cbn; unfold upd; destruct (Nat.eqb y z); reflexivity. }
  assert (Hkeep : forall xs s0, nstab s0 x = None -> nstab (fold_left f xs s0) x = None).
  { induction xs as [|z xs IH]; intros s0 H0; cbn [fold_left]; [exact H0|]. apply IH. rewrite Hstep. destruct (Nat.eqb x z); [reflexivity|exact H0]. }
  assert (Hin : forall xs s0, In x xs -> nstab (fold_left f xs s0) x = None).
  { induction xs as [|z xs IH]; intros s0 H; [destruct H|]. destruct H as [<-|H]; cbn [fold_left]; [|apply IH; exact H].
    apply Hkeep. rewrite Hstep, Nat.eqb_refl. reflexivity. }
  apply Hin.
Qed.

Lemma nsinv_after_drop_tree sB e :
  (forall p t, ~ In p (subtree sB e) -> nstab sB p = Some t -> TabOK sB (kmem sB) p t) ->
  ns_parent sB e = None -> has_key sB e str_NS = true ->
  NsInv (fst (dict_del sB e str_NS)) /\ ksame sB (fst (dict_del sB e str_NS)).
Proof.
  intros HX Hpar Hkey. split; [|apply (proj1 (dict_del_ns_facts sB e))].
  unfold dict_del, ns_dictionary_delete. rewrite str_eqb_refl, Hpar, Hkey. cbn [bindR ret fst].
  set (sC := drop_namespace sB e).
  assert (Q : nsq sB (emit sC (EDictDel e str_NS))) by (eapply nsq_trans; [apply nsq_drop_namespace|apply nsq_emit]).
  assert (Hnone : forall x, In x (subtree sB e) -> nstab (emit sC (EDictDel e str_NS)) x = None) by (intros x Hx; cbn; apply drop_namespace_sub_none; exact Hx).
  assert (G : forall sD, nsq sB sD -> (forall x, In x (subtree sB e) -> nstab sD x = None) -> NsInv sD).
  { intros sD [K1 K2 K3 K4 K5 K6] Hn p t Hpt.
    assert (Hpd : ~ In p (subtree sB e)) by (intro Hin; rewrite (Hn p Hin) in Hpt; discriminate).
    assert (Hb : nstab sB p = Some t) by (destruct (K6 p) as [H|H]; rewrite H in Hpt; [exact Hpt|discriminate]).
    apply (tabok_ext sB sD (kmem sB) (kmem sD) p t (HX p t Hpd Hb)).
    - intros r c _. unfold kmem. rewrite K1. tauto.
    - intros r c _ _. split; [apply K4|apply K5]. }
  destruct (has_key (emit sC (EDictDel e str_NS)) e str_NS); cbn [fst ret raise].
  - apply G; [eapply nsq_trans; [exact Q|apply nsq_erase_ns]|exact Hnone].
  - apply G; assumption.
Qed.

(* the tail of clone(): the policy is re-applied to the detached copy c *)
Lemma nsinv_reapply sB c :
  Inv1a sB -> InvT sB ->
  (forall p t, ~ In p (subtree sB c) -> nstab sB p = Some t -> TabOK sB (kmem sB) p t) ->
  ns_parent sB c = None -> has_key sB c str_NS = true ->
  snd (reapply sB c) = None -> NsInv (fst (reapply sB c)).
Proof.
  intros I1B TB HX Hpar Hkey. unfold reapply. pose proof Hkey as Hk2. unfold has_key in Hk2.
  destruct (sassoc str_NS (data sB c)) as [pv|]; [|discriminate].
  destruct (nsinv_after_drop_tree sB c HX Hpar Hkey) as [ND KD].
  destruct (dict_del sB c str_NS) as [sD [e|]]; cbn [bindR fst snd] in *; [discriminate|].
  intros _. apply nsinv_dict_set; [apply (inv1a_ksame _ _ KD I1B)|apply (invt_ksame _ _ KD TB)|exact ND].
Qed.

Lemma reachable_gg ops : GG (run ops init).
Proof.
  split; [apply reachable_uf|]. destruct (reachable_refd_topk ops) as [A B]. destruct (reachable_startok ops) as [_ [C _]].
  split; [exact C|split; assumption].
Qed.

(* ---- Library.clone ---- *)
Theorem clone_library_nsinv ops l :
  let s := run ops init in
  kind_of s l = Some KLibrary -> has_key s l str_NS = true -> snd (fst (clone_library s l)) = None ->
  let s' := fst (fst (clone_library s l)) in NsInv s' /\ InvT s' /\ Inv1a s'.
Proof.
  cbn zeta. set (s := run ops init). intros Hkl Hkey Hok.
  destruct (reachable_nsinv ops) as [HI [HT [F HN]]]. fold s in HI, HT, F, HN.
  pose proof (reachable_tabk ops) as TK. pose proof (reachable_startok ops) as HS. fold s in TK, HS.
  pose proof (reachable_gg ops) as HG. fold s in HG.
  destruct (gg_clone_library s l HG Hkl Hok) as [[IF [TF _]] _]. pose proof (inv_a _ IF) as I1F.
  split; [|split; assumption]. revert Hok TF I1F.
  pose proof (inv_a _ HI) as I1. pose proof (kind_lt s l _ F Hkl) as Hl.
  pose proof (above_of_fresh s F) as Ab. pose proof (parlt_of_inv1a s I1 Ab) as Pl. pose proof HS as [_ [_ HW]].
  unfold clone_library. destruct (lib_clone1 (s, []) l) as [[[s1 m] l'] [e|]] eqn:E; cbn [fst snd]; [discriminate|].
  destruct (lib_clone1_loc (next s) s [] l s1 m l' Ab Pl (Nat.le_refl _) E) as [Hl' [Hn [Ab1 [Pl1 [Htab [_ [Hdat [Hkl' Hdefs]]]]]]]].
  destruct (lib_clone1_spec (next s) s s [] l s1 m l' None HW (ci_start s HS) E) as [C1 [N1 _]].
  pose proof (lib_rip_ci (next s) s m m s1 l' C1 (proj1 N1)) as C2.
  pose proof (tdk_lib_rip m s1 l') as T12. pose proof (ls_lib_clone1 _ _ _ _ _ _ _ E l') as [_ LP].
  destruct (lib_rip m s1 l') as [sB [e|]]; cbn [bindR fst snd] in *; [discriminate|].
  pose proof (ci_os _ _ _ _ C2) as O2. destruct T12 as [Bt Bd Bk Bp Bn Bkd].
  intros Hok TF I1F. pose proof (feq_reapply sB l') as FE.
  assert (TB : InvT sB).
  { intros r p c Hc. rewrite <- (fe_kids _ _ FE) in Hc. rewrite <- (fe_kind _ _ FE). apply TF. exact Hc. }
  assert (I1B : Inv1a sB) by (apply (inv1a_cont _ sB (conj (eq_sym (fe_kids _ _ FE)) (eq_sym (fe_par _ _ FE))) I1F)).
  assert (Hlt : forall r p c, In c (kids s r p) -> c < next s).
  { intros r p c Hc. apply (i1_kids _ I1) in Hc. destruct (Nat.lt_ge_cases c (next s)) as [H|H]; [exact H|].
    rewrite (proj2 (Ab r c H)) in Hc. discriminate. }
  assert (HkB : kind_of sB l' = Some KLibrary) by (rewrite Bkd; exact Hkl').
  apply nsinv_reapply; try assumption.
  - intros p t Hnp Hpt.
    assert (Hp1 : p <> l') by (intros ->; apply Hnp; apply subtree_head).
    assert (Hp2 : ~ In p (kids s1 RDefs l')).
    { intro Hin. apply Hnp. unfold subtree. rewrite HkB. unfold lib_subtree. right. apply in_flat_map. exists p.
      split; [rewrite Bk; exact Hin|left; reflexivity]. }
    rewrite Bt, (Htab p Hp1 Hp2) in Hpt.
    assert (Hp : p < next s).
    { destruct (Nat.lt_ge_cases p (next s)) as [H|H]; [exact H|]. rewrite (tab_none_above s p TK F H) in Hpt. discriminate. }
    apply (tabok_ext s sB (kmem s) (kmem sB) p t (HN p t Hpt)).
    + intros r c _. unfold kmem. rewrite (os_kids _ _ _ O2 r p Hp). tauto.
    + intros r c _ Hc. unfold name_key, ident_key, get_str. rewrite (os_data _ _ _ O2 c (Hlt r p c Hc)). split; reflexivity.
  - unfold ns_parent. rewrite HkB, Bp, LP, Hl'. apply (proj2 (Ab RLibs (next s) (Nat.le_refl _))).
  - unfold has_key in *. rewrite Bd, (Hdat Hl). exact Hkey.
Qed.

(* ---- Netlist.clone ---- *)
Lemma km_lib_clone1 s m l s' m' l' e : lib_clone1 (s, m) l = ((s', m', l'), e) -> KM s s'.
Proof.
  intro E. unfold lib_clone1 in E. pose proof (km_clone_alloc s KLibrary) as H. destruct (clone_alloc s KLibrary) as [s1 x]. cbn [fst] in H.
  match type of E with context [defs_clone1 ?l ?sm] => destruct (defs_clone1 l sm) as [[[s2 m2] defs'] e2] eqn:E2 end.
  apply km_defs_clone1 in E2.
  assert (H2 : KM s s2) by (eapply km_trans; [exact H|]; eapply km_trans; [|exact E2]; apply km_same; reflexivity).
  destruct e2 as [ex|]; [injection E as <- _ _ _; exact H2|]. injection E as <- _ _ _.
  eapply km_trans; [exact H2|]. eapply km_trans; [apply (km_same s2 (set_kids s2 RDefs x defs')); reflexivity|].
  apply km_fold_idsR. intros sa y. pose proof (tdk_def_rr m2 (set_par sa RDefs y (Some x)) y) as T.
  apply km_same; [rewrite (tk_kind _ _ T); reflexivity|rewrite (tk_next _ _ T); reflexivity].
Qed.

Lemma km_libs_clone1 : forall ls s m s' m' l' e, libs_clone1 ls (s, m) = ((s', m'), l', e) -> KM s s'.
Proof.
  induction ls as [|l ls IH]; intros s m s' m' l' e E; cbn [libs_clone1] in E.
  - injection E as <- _ _ _. apply km_refl.
  - destruct (lib_clone1 (s, m) l) as [[[s1 m1] x] e1] eqn:E1. pose proof (km_lib_clone1 _ _ _ _ _ _ _ E1) as H1.
    destruct e1 as [ex|]; [injection E as <- _ _ _; exact H1|].
    destruct (libs_clone1 ls (s1, m1)) as [[[s2 m2] r] e2] eqn:E2. injection E as <- _ _ _.
    eapply km_trans; [exact H1|apply (IH _ _ _ _ _ _ E2)].
Qed.

Lemma libs_clone1_loc : forall ls a s m s' m' libs', Above s -> ParLt s -> a <= next s ->
  libs_clone1 ls (s, m) = ((s', m'), libs', None) ->
  (forall y, ~ In y libs' -> ~ In y (flat_map (kids s' RDefs) libs') -> nstab s' y = nstab s y) /\ DMa a s s' /\
  Above s' /\ ParLt s' /\ next s <= next s' /\
  (forall y, In y libs' -> next s <= y < next s' /\ kind_of s' y = Some KLibrary) /\
  (forall r y, y < next s -> kids s' r y = kids s r y).
Proof.
  induction ls as [|l ls IH]; intros a s m s' m' libs' Hab Hpl Ha E; cbn [libs_clone1] in E.
  - injection E as <- <- <-. split; [intros; reflexivity|]. split; [apply dm_refl|]. split; [exact Hab|]. split; [exact Hpl|].
    split; [apply Nat.le_refl|split; [intros y []|intros; reflexivity]].
  - destruct (lib_clone1 (s, m) l) as [[[s1 m1] l'] [e1|]] eqn:E1; [discriminate|].
    destruct (lib_clone1_loc a s m l s1 m1 l' Hab Hpl Ha E1) as [Hl' [Hn [Ab1 [Pl1 [Ht1 [D1 [_ [Hk1 [_ K1]]]]]]]]].
    destruct (libs_clone1 ls (s1, m1)) as [[[s2 m2] r] e2] eqn:E2. injection E as <- <- <- ->.
    destruct (IH a s1 m1 s2 m2 r Ab1 Pl1 ltac:(lia) E2) as [Ht2 [D2 [Ab2 [Pl2 [N2 [R2 K2]]]]]].
    assert (Ekl : kids s2 RDefs l' = kids s1 RDefs l') by (apply K2; lia).
    split; [|split; [eapply dm_trans; eassumption|split; [exact Ab2|split; [exact Pl2|split; [lia|split]]]]].
    + intros y Hy1 Hy2. cbn [flat_map] in Hy2. rewrite Ekl in Hy2.
      rewrite Ht2; [apply Ht1|intro H; apply Hy1; right; exact H|intro H; apply Hy2; apply in_or_app; right; exact H].
      * intro H. apply Hy1. left. symmetry. exact H.
      * intro H. apply Hy2. apply in_or_app. left. exact H.
    + intros y [<-|Hy]; [|destruct (R2 y Hy) as [A B]; split; [lia|exact B]].
      split; [lia|]. destruct (km_libs_clone1 _ _ _ _ _ _ _ E2) as [_ Km]. rewrite Km by lia. exact Hk1.
    + intros r0 y Hy. rewrite (K2 r0 y ltac:(lia)). apply (K1 r0 y Hy).
Qed.

(* what the writes after the libraries keep *)
Record aft (a : id) (s s' : state) : Prop := mkAft {
  af_tab : forall y, nstab s' y = nstab s y; af_kids : forall r y, kids s' r y = kids s r y; af_data : DMa a s s'; af_km : KM s s'
}.
Lemma aft_refl a s : aft a s s. Proof. constructor; [reflexivity|reflexivity|apply dm_refl|apply km_refl]. Qed.
Lemma aft_trans a x y z : aft a x y -> aft a y z -> aft a x z.
Proof.
  intros [A1 A2 A3 A4] [B1 B2 B3 B4]. constructor; [intro q; rewrite B1; apply A1|intros r q; rewrite B2; apply A2|eapply dm_trans; eassumption|eapply km_trans; eassumption].
Qed.
Lemma aft_of_tdn a s s' : tdn s s' -> aft a s s'.
Proof. intros [A B C D E]. constructor; [intro q; rewrite A; reflexivity|intros r q; rewrite C; reflexivity|apply dm_same; exact B|apply km_same; assumption]. Qed.

Lemma clone_netlist_split (s : state) (n : id) :
  StartOK s -> Above s -> ParLt s -> n < next s -> kind_of s (next s) = None ->
  snd (fst (clone_netlist s n)) = None ->
  exists sB mX libs',
    snd (clone_netlist s n) = next s /\
    fst (clone_netlist s n) = reapply sB (next s) /\
    CI (next s) s sB mX /\
    kind_of sB (next s) = Some KNetlist /\ kids sB RLibs (next s) = libs' /\
    (forall l', In l' libs' -> kind_of sB l' = Some KLibrary) /\
    (forall y, y <> next s -> ~ In y libs' -> ~ In y (flat_map (kids sB RDefs) libs') -> nstab sB y = nstab s y) /\
    data sB (next s) = data s n.
Proof.
  intros HS Hab Hpl Hn Hkf. pose proof HS as [_ [_ HW]]. set (n0 := next s). unfold clone_netlist.
  destruct (clone_alloc s KNetlist) as [s1 n'] eqn:Ea. cbv zeta.
  destruct (clone_alloc_specE n0 s s [] KNetlist s1 n' (ci_start s HS) Ea) as [Hx [Hn1 [Hk [Ht [C1 Nx]]]]].
  pose proof (ci_memo_add n0 s _ [] n n' (ci_copy_data n0 s s1 [] n n' C1 (proj1 Nx)) Nx) as C1'.
  destruct (above_alloc s KNetlist s1 n' Hab Hpl Ea) as [Ab1 Pl1].
  pose proof (clone_alloc_kind _ _ _ _ Ea) as Hkx.
  pose proof (clone_alloc_tab _ _ _ _ Ea) as Htab1. pose proof (clone_alloc_data _ _ _ _ Ea (or_intror Hab)) as Hdat1.
  destruct (libs_clone1 (kids (copy_data s1 n n') RLibs n) (copy_data s1 n n', [(n, n')])) as [[[s2 m2] libs'] e] eqn:E2.
  destruct (libs_clone1_spec n0 s HW _ _ _ _ _ _ _ C1' E2) as [C2 [N2 L2]].
  cbn [next copy_data set_data] in L2.
  assert (Nx2 : nw n0 s2 n') by (apply (nw_mono n0 s1 s2 n'); [cbn in L2; lia|exact Nx]).
  destruct e as [ex|]; cbn [fst snd raise]; [intro HH; discriminate HH|].
  assert (Hnc : next (copy_data s1 n n') = S n0) by exact Hn1.
  destruct (libs_clone1_loc _ (S n0) _ _ _ _ _ (above_copy_data s1 n n' Ab1) Pl1 ltac:(rewrite Hnc; lia) E2) as [Ht2 [D2 [Ab2 [Pl2 [N2' [R2 K2]]]]]].
  rewrite Hnc in N2', R2, K2.
  set (s3 := set_kids s2 RLibs n' libs').
  assert (C3 : CI n0 s s3 m2) by (apply ci_set_kids; assumption).
  assert (Nx3 : nw n0 s3 n') by exact Nx2.
  match goal with |- context [let '(r, m) := ?rt in _] => set (rtop := rt) end.
  assert (Hrt : exists mX, CI n0 s (fst (fst rtop)) mX /\ nw n0 (fst (fst rtop)) n' /\ aft (S n0) s3 (fst (fst rtop))).
  { unfold rtop. destruct (top s3 n) as [t|]; [|exists m2; split; [exact C3|split; [exact Nx3|apply aft_refl]]].
    destruct (mget m2 t) as [t'|] eqn:Em.
    - exists m2. cbn [fst ret]. split; [|split; [exact Nx3|apply aft_of_tdn; constructor; reflexivity]].
      apply ci_set_top_new; [exact C3|exact Nx3|]. apply (ci_memo _ _ _ _ C3 t t'). apply assoc_Some_In_local. exact Em.
    - destruct (inst_clone1 (s3, m2) t) as [[s4 m4] t'] eqn:E4.
      destruct (inst_clone1_spec n0 s s3 m2 t s4 m4 t' C3 E4) as [C4 [N4 L4]].
      assert (A34 : aft (S n0) s3 s4).
      { destruct (inst_clone1_leaf _ _ _ _ _ _ E4) as [_ [_ [Kk _]]].
        constructor; [intro y; apply (ts_inst_clone1 _ _ _ _ _ _ E4 y)|intros r0 y; rewrite Kk; reflexivity| |apply (km_inst_clone1 _ _ _ _ _ _ E4)].
        apply (dm_inst_clone1 (S n0) s3 m2 t s4 m4 t'); [cbn; lia|exact E4]. }
      exists m4. cbn [fst].
      assert (Nx4 : nw n0 s4 n') by (apply (nw_mono n0 s3 s4 n' L4 Nx3)).
      pose proof (inst_rr_def_ci n0 s m4 m4 s4 t' C4 (proj1 N4)) as C5.
      pose proof (tdk_inst_rr_def m4 s4 t') as T45.
      assert (Hn5 : next (fst (inst_rr_def m4 s4 t')) = next s4) by (apply (tk_next _ _ T45)).
      destruct (inst_rr_def m4 s4 t') as [s5 [ex|]]; cbn [bindR fst] in *;
        [split; [exact C5|split; [split; [apply Nx4|rewrite Hn5; apply Nx4]|eapply aft_trans; [exact A34|apply aft_of_tdn, tdn_of_tdk; exact T45]]]|].
      set (s6 := match iref s5 t' with Some e => match mget m4 e with Some e' => set_iref s5 t' (Some e') | None => s5 end | None => s5 end).
      assert (C6 : CI n0 s s6 m4 /\ tdn s5 s6).
      { unfold s6. destruct (iref s5 t') as [e|]; [|split; [exact C5|apply tdn_refl]]. destruct (mget m4 e); [|split; [exact C5|apply tdn_refl]].
        split; [apply ci_set_iref; [exact C5|apply N4]|constructor; reflexivity]. }
      destruct C6 as [C6 T56]. pose proof (tn_next _ _ T56) as Hn6.
      pose proof (rekey_all_ci n0 s m4 m4 s6 t' HW C6 (proj1 N4)) as C7. pose proof (tdk_rekey_all m4 s6 t') as T67. pose proof (tk_next _ _ T67) as Hn7.
      assert (A35 : aft (S n0) s3 s6) by (eapply aft_trans; [exact A34|]; eapply aft_trans; [apply aft_of_tdn, tdn_of_tdk; exact T45|apply aft_of_tdn; exact T56]).
      destruct (rekey_all m4 s6 t') as [s7 [ex|]]; cbn [bindR fst ret] in *.
      + split; [exact C7|split; [split; [apply Nx4|rewrite Hn7, Hn6, Hn5; apply Nx4]|eapply aft_trans; [exact A35|apply aft_of_tdn, tdn_of_tdk; exact T67]]].
      + assert (Nx7 : nw n0 s7 n') by (split; [apply Nx4|rewrite Hn7, Hn6, Hn5; apply Nx4]).
        split; [apply ci_set_top_new; [exact C7|exact Nx7|apply N4]|split; [exact Nx7|]].
        eapply aft_trans; [exact A35|]. eapply aft_trans; [apply aft_of_tdn, tdn_of_tdk; exact T67|apply aft_of_tdn; constructor; reflexivity]. }
  destruct Hrt as [mX [CX [NX AX]]]. destruct rtop as [r m]. cbn [fst] in *.
  destruct r as [s8 [ex|]]; cbn [bindR fst snd] in *; [intro HH; discriminate HH|].
  set (s8' := match top s8 n' with Some t' => s8 <| istop ::= fun f => upd f t' true |> | None => s8 end).
  assert (C8 : CI n0 s s8' mX).
  { unfold s8'. destruct (top s8 n') as [t'|] eqn:Et; [|exact CX]. apply ci_set_istop; [exact CX|apply (ci_top _ _ _ _ CX n' t' (proj1 NX) Et)]. }
  assert (T88 : tdn s8 s8') by (unfold s8'; destruct (top s8 n'); [constructor; reflexivity|apply tdn_refl]).
  assert (Hlibs : forall y, In y libs' -> n0 <= y) by (intros y Hy; apply (N2 y Hy)).
  set (F1 := fun s l' => fold_idsR (def_rr m) (kids s RDefs l') (set_par s RLibs l' (Some n'))).
  assert (C9 : CI n0 s (fst (fold_idsR F1 libs' s8')) mX).
  { apply ci_fold_idsR; [|exact Hlibs|exact C8]. intros sa l' Ca Hl.
    pose proof (ci_set_par n0 s sa mX RLibs l' (Some n') Ca Hl) as Cb.
    apply ci_fold_idsR; [|apply (kids_new n0 s sa mX RDefs l' Ca Hl)|exact Cb].
    intros sb d' Cc Hd. apply def_rr_ci; assumption. }
  assert (T89 : tdn s8' (fst (fold_idsR F1 libs' s8'))).
  { apply tdn_fold_idsR. intros sa l'. unfold F1. eapply tdn_trans; [apply (mkTdn sa (set_par sa RLibs l' (Some n'))); reflexivity|].
    apply tdn_fold_idsR. intros sb d'. apply tdn_of_tdk, tdk_def_rr. }
  fold F1. destruct (fold_idsR F1 libs' s8') as [s9 [ex|]]; cbn [bindR fst snd] in *; [intro HH; discriminate HH|]. intros _.
  set (sB := fold_ids (fun s l' => fold_ids (fun s d' => set_drefs s d' (filter (mval m) (drefs s d'))) (kids s RDefs l') s) libs' s9).
  assert (CB : CI n0 s sB mX).
  { apply ci_fold_ids; [|exact Hlibs|exact C9]. intros sa l' Ca Hl.
    apply ci_fold_ids; [|apply (kids_new n0 s sa mX RDefs l' Ca Hl)|exact Ca].
    intros sb d' Cb _. apply ci_set_drefs. exact Cb. }
  assert (T9B : tdn s9 sB).
  { apply tdn_fold_ids. intros sa l'. apply tdn_fold_ids. intros sb d'. constructor; reflexivity. }
  assert (A3B : aft (S n0) s3 sB).
  { eapply aft_trans; [exact AX|]. apply aft_of_tdn. eapply tdn_trans; [exact T88|]. eapply tdn_trans; [exact T89|exact T9B]. }
  destruct A3B as [Bt Bk Bd [_ Bkm]].
  assert (Hn'2 : n' < next s2) by apply Nx2.
  exists sB, mX, libs'. subst n'. fold n0.
  split; [reflexivity|]. split; [reflexivity|]. split; [exact CB|].
  split; [|split; [|split; [|split]]].
  - rewrite Bkm by exact Hn'2. change (kind_of s3) with (kind_of s2). destruct (km_libs_clone1 _ _ _ _ _ _ _ E2) as [_ Km]. rewrite Km by (rewrite Hnc; lia). exact Hkx.
  - rewrite Bk. unfold s3. cbn. apply upd_same.
  - intros l' Hl'. destruct (R2 l' Hl') as [A B]. rewrite Bkm by (cbn; lia). exact B.
  - intros y Hy1 Hy2 Hy3. rewrite Bt. cbn.
    assert (EkD : forall l', kids sB RDefs l' = kids s2 RDefs l') by (intro l'; rewrite Bk; reflexivity).
    rewrite Ht2; [cbn; apply Htab1; right; split; [exact Hab|exact Hy1]|exact Hy2|].
    intro H. apply Hy3. apply in_flat_map in H as [l' [Hl' H]]. apply in_flat_map. exists l'. split; [exact Hl'|rewrite EkD; exact H].
  - rewrite (Bd n0 ltac:(lia)). cbn. rewrite (D2 n0 ltac:(lia)). cbn. rewrite upd_same. apply Hdat1. unfold n0. lia.
Qed.

Theorem clone_netlist_nsinv ops (n : id) :
  let s := run ops init in
  kind_of s n = Some KNetlist -> Closed s n -> has_key s n str_NS = true -> snd (fst (clone_netlist s n)) = None ->
  let s' := fst (fst (clone_netlist s n)) in NsInv s' /\ InvT s' /\ Inv1a s'.
Proof.
  cbn zeta. set (s := run ops init). intros Hkn Hcl Hkey Hok.
  destruct (reachable_nsinv ops) as [HI [HT [F HN]]]. fold s in HI, HT, F, HN.
  pose proof (reachable_tabk ops) as TK. pose proof (reachable_startok ops) as HS. fold s in TK, HS.
  pose proof (reachable_gg ops) as HG. fold s in HG.
  destruct (gg_clone_netlist s n HG Hkn Hcl Hok) as [[IF [TF _]] _]. pose proof (inv_a _ IF) as I1F.
  split; [|split; assumption].
  pose proof (inv_a _ HI) as I1. pose proof (kind_lt s n _ F Hkn) as Hn.
  pose proof (above_of_fresh s F) as Ab. pose proof (parlt_of_inv1a s I1 Ab) as Pl.
  destruct (clone_netlist_split s n HS Ab Pl Hn (f_kind _ F (next s) (Nat.le_refl _)) Hok)
    as [sB [mX [libs' [En' [Ef [CB [HkB [HkL [HlK [Htab Hdat]]]]]]]]]].
  rewrite Ef in *. set (n' := next s) in *.
  pose proof (ci_os _ _ _ _ CB) as O2. pose proof (feq_reapply sB n') as FE.
  assert (TB : InvT sB).
  { intros r p c Hc. rewrite <- (fe_kids _ _ FE) in Hc. rewrite <- (fe_kind _ _ FE). apply TF. exact Hc. }
  assert (I1B : Inv1a sB) by (apply (inv1a_cont _ sB (conj (eq_sym (fe_kids _ _ FE)) (eq_sym (fe_par _ _ FE))) I1F)).
  assert (Hlt : forall r p c, In c (kids s r p) -> c < next s).
  { intros r p c Hc. apply (i1_kids _ I1) in Hc. destruct (Nat.lt_ge_cases c (next s)) as [H|H]; [exact H|].
    rewrite (proj2 (Ab r c H)) in Hc. discriminate. }
  apply nsinv_reapply; try assumption.
  - intros p t Hnp Hpt.
    assert (Hsub : forall q, In q (flat_map (lib_subtree sB) libs') -> In q (subtree sB n')).
    { intros q Hq. unfold subtree. rewrite HkB. unfold net_subtree. right. rewrite HkL. exact Hq. }
    assert (Hp1 : p <> n') by (intros ->; apply Hnp; apply subtree_head).
    assert (Hp2 : ~ In p libs').
    { intro Hin. apply Hnp, Hsub. apply in_flat_map. exists p. split; [exact Hin|left; reflexivity]. }
    assert (Hp3 : ~ In p (flat_map (kids sB RDefs) libs')).
    { intro Hin. apply in_flat_map in Hin as [l' [Hl' Hin]]. apply Hnp, Hsub. apply in_flat_map. exists l'. split; [exact Hl'|].
      right. apply in_flat_map. exists p. split; [exact Hin|left; reflexivity]. }
    rewrite (Htab p Hp1 Hp2 Hp3) in Hpt.
    assert (Hp : p < next s).
    { destruct (Nat.lt_ge_cases p (next s)) as [H|H]; [exact H|]. rewrite (tab_none_above s p TK F H) in Hpt. discriminate. }
    apply (tabok_ext s sB (kmem s) (kmem sB) p t (HN p t Hpt)).
    + intros r c _. unfold kmem. rewrite (os_kids _ _ _ O2 r p Hp). tauto.
    + intros r c _ Hc. unfold name_key, ident_key, get_str. rewrite (os_data _ _ _ O2 c (Hlt r p c Hc)). split; reflexivity.
  - unfold ns_parent. rewrite HkB. reflexivity.
  - unfold has_key in *. rewrite Hdat. exact Hkey.
Qed.
