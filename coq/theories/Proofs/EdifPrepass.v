(* The reordering pre-pass of the EDIF writer model (Fmt/EdifEmit.prepass) ends in dependency order:
   generic statement [reorder_ordered_gen] about a list of keyed elements whose dependencies are
   looked up by key, then the two instances (libraries by instantiated libraries, cells of a library
   by instantiated cells of the same library). *)
From Coq Require Import List NArith Bool Arith Lia Permutation.
From SV Require Import Base.Base Fmt.EdifTopo Fmt.EdifNets Fmt.EdifFile Fmt.EdifEmit
  Proofs.EdifTopoProofs Proofs.EdifEmitProofs Proofs.EdifEmitLemmas Proofs.EdifEmitCell.
Import ListNotations.

Lemma ident_eqb_lower a b : ident_eqb a b = true <-> lower a = lower b.
Proof. unfold ident_eqb. apply str_eqb_spec. Qed.

Lemma index_ci_some r : forall ids a, index_ci r ids = Some a ->
  exists x, nth_error ids a = Some x /\ lower x = lower r.
Proof.
  induction ids as [|x ids IH]; intros a H; [discriminate|]. cbn [index_ci] in H.
  destruct (ident_eqb x r) eqn:E.
  - inversion H. subst. exists x. split; auto. now apply ident_eqb_lower.
  - destruct (index_ci r ids) as [k|] eqn:Ek; [|discriminate]. inversion H. subst. cbn [nth_error]. eauto.
Qed.

Lemma index_ci_exists r : forall ids b x, nth_error ids b = Some x -> lower x = lower r ->
  exists a, index_ci r ids = Some a.
Proof.
  induction ids as [|y ids IH]; intros b x H E; [destruct b; discriminate|]. cbn [index_ci].
  destruct (ident_eqb y r) eqn:Ey; [eauto|]. destruct b as [|b]; cbn [nth_error] in H.
  - inversion H. subst. apply ident_eqb_lower in E. congruence.
  - destruct (IH b x H E) as [a ->]. cbn. eauto.
Qed.

Lemma index_ci_unique r ids a b x : uniq_ci ids = true -> index_ci r ids = Some a ->
  nth_error ids b = Some x -> lower x = lower r -> a = b.
Proof.
  intros Hu Ha Hb E. apply uniq_ci_NoDup in Hu. destruct (index_ci_some r ids a Ha) as (y & Hy & Ey).
  assert (La : nth_error (map lower ids) a = Some (lower r)) by (rewrite nth_error_map, Hy; cbn; now rewrite Ey).
  assert (Lb : nth_error (map lower ids) b = Some (lower r)) by (rewrite nth_error_map, Hb; cbn; now rewrite E).
  assert (Hlt : a < length (map lower ids)) by (apply nth_error_Some; congruence).
  apply (proj1 (NoDup_nth_error _) Hu a b Hlt). congruence.
Qed.

Lemma pick_nth {X} (l : list X) : forall ks l', pick l ks = Some l' ->
  length l' = length ks /\ forall j k, nth_error ks j = Some k -> nth_error l' j = nth_error l k.
Proof.
  induction ks as [|k ks IH]; intros l' H.
  - inversion H. split; auto. intros j k Hj. destruct j; discriminate.
  - cbn [pick] in H. destruct (nth_error l k) as [x|] eqn:Ex; [|discriminate].
    destruct (pick l ks) as [r|] eqn:Er; [|discriminate]. inversion H. subst.
    destruct (IH r eq_refl) as [Hl Hn]. split; [cbn; now rewrite Hl|].
    intros [|j] k' Hj; cbn [nth_error] in *; [inversion Hj; subst; auto|auto].
Qed.

Lemma precedes_index (l : list nat) i j d o : NoDup l -> nth_error l i = Some d -> nth_error l j = Some o ->
  precedes d o l -> i < j.
Proof.
  intros Hnd Hi Hj (l1 & l2 & l3 & E).
  assert (Hi' : nth_error l (length l1) = Some d) by (rewrite E, nth_error_app2, Nat.sub_diag; auto).
  assert (Hj' : nth_error l (length l1 + S (length l2)) = Some o).
  { rewrite E, nth_error_app2 by lia. replace (length l1 + S (length l2) - length l1) with (S (length l2)) by lia.
    cbn [nth_error]. rewrite nth_error_app2, Nat.sub_diag; auto. }
  assert (i = length l1).
  { apply (proj1 (NoDup_nth_error _) Hnd); [apply nth_error_Some; congruence|congruence]. }
  assert (j = length l1 + S (length l2)).
  { apply (proj1 (NoDup_nth_error _) Hnd); [apply nth_error_Some; congruence|congruence]. }
  lia.
Qed.

Section Gen.
Context {X : Type}.
Variable key : X -> str.
Variable refs : X -> list str.

Definition gdeps (l : list X) (k : nat) : list nat :=
  match nth_error l k with
  | None => []
  | Some x => flat_map (fun r => opt_list (index_ci r (map key l))) (refs x)
  end.

Lemma in_gdeps l k d : In d (gdeps l k) <->
  exists x r, nth_error l k = Some x /\ In r (refs x) /\ index_ci r (map key l) = Some d.
Proof.
  unfold gdeps. split.
  - destruct (nth_error l k) as [x|]; [|intros []]. intros H. apply in_flat_map in H as (r & Hr & Hd).
    exists x, r. repeat split; auto. destruct (index_ci r (map key l)); [destruct Hd as [->|[]]; auto|destruct Hd].
  - intros (x & r & -> & Hr & Hd). apply in_flat_map. exists r. split; auto. rewrite Hd. now left.
Qed.

(* [deps] : any dependency function with the same elements as gdeps l (the order of a dependency
   list does not matter for the statement) *)
Theorem reorder_ordered_gen deps l l' l'' :
  (forall k d, In d (deps k) <-> In d (gdeps l k)) ->
  uniq_ci (map key l) = true ->
  (forall k, ~ In k (gdeps l k)) ->
  reorder deps l = Some l' ->
  Forall2 (fun a b => key a = key b /\ forall r, In r (refs b) -> In r (refs a)) l' l'' ->
  forall k' d', In d' (gdeps l'' k') -> d' < k'.
Proof.
  intros Hdeps Hu Hirr Hre Hf k' d' Hd'.
  unfold reorder in Hre. destruct (topological_sort deps (seq 0 (length l))) as [ks|] eqn:Ets; [|discriminate].
  destruct (pick_nth l ks l' Hre) as [Hlen Hnth].
  assert (Hirr' : irreflexive deps) by (intros o Ho; apply (Hirr o); now apply Hdeps).
  destruct (toposort_sorted_fuel _ deps _ ks Hirr' Ets) as [Hnd Hsorted].
  assert (Hkeys : map key l'' = map key l').
  { clear - Hf. induction Hf as [|a b la lb [Hk _] _ IH]; [reflexivity|]. cbn. now rewrite IH, Hk. }
  apply in_gdeps in Hd' as (b & r & Hb & Hr & Hidx). rewrite Hkeys in Hidx.
  (* the element a of l' at k' *)
  assert (Ha : exists a, nth_error l' k' = Some a /\ In r (refs a)).
  { clear - Hf Hb Hr. revert k' Hb. induction Hf as [|a0 b0 la lb [_ Hrr] _ IH]; intros k' Hb; [destruct k'; discriminate|].
    destruct k' as [|k']; cbn [nth_error] in *; [inversion Hb; subst; eauto|eauto]. }
  destruct Ha as (a & Ha & Hra).
  assert (Hk'lt : k' < length l') by (apply nth_error_Some; congruence). rewrite Hlen in Hk'lt.
  destruct (nth_error ks k') as [o|] eqn:Eo; [|apply nth_error_None in Eo; unfold node in *; lia].
  pose proof (Hnth k' o Eo) as Hao. rewrite Ha in Hao. symmetry in Hao.
  (* the target *)
  destruct (index_ci_some r (map key l') d' Hidx) as (kx & Hkx & Ekx).
  rewrite nth_error_map in Hkx. destruct (nth_error l' d') as [t|] eqn:Et; [|discriminate]. cbn in Hkx. inversion Hkx. subst kx.
  assert (Hd'lt : d' < length l') by (apply nth_error_Some; congruence). rewrite Hlen in Hd'lt.
  destruct (nth_error ks d') as [od|] eqn:Eod; [|apply nth_error_None in Eod; unfold node in *; lia].
  pose proof (Hnth d' od Eod) as Htod. rewrite Et in Htod. symmetry in Htod.
  (* in the old list the lookup of r finds od *)
  assert (Hold : index_ci r (map key l) = Some od).
  { destruct (index_ci_exists r (map key l) od (key t)) as [a0 Ha0]; auto.
    - now rewrite nth_error_map, Htod.
    - rewrite Ha0. f_equal. eapply index_ci_unique; eauto. now rewrite nth_error_map, Htod. }
  assert (Hdep : In od (deps o)).
  { apply Hdeps. apply in_gdeps. exists a, r. auto. }
  assert (Hino : In o ks) by (eapply nth_error_In; eauto).
  exact (precedes_index ks d' k' od o Hnd Eod Eo (Hsorted o od Hino Hdep)).
Qed.
End Gen.

(* ---------------------------------------------------------------------------------------- *)
Lemma ordered_by_intro deps len : (forall o d, In d (deps o) -> d < o) -> ordered_by deps len = true.
Proof.
  intros H. unfold ordered_by. apply forallb_forall. intros o _. apply forallb_forall. intros d Hd.
  apply Nat.ltb_lt. auto.
Qed.

Lemma pick_in {X} (l : list X) ks l' x : pick l ks = Some l' -> In x l' -> In x l.
Proof.
  intros Hp Hin. destruct (pick_nth l ks l' Hp) as [Hlen Hnth].
  apply In_nth_error in Hin as [j Hj].
  assert (Hlt : j < length l') by (apply nth_error_Some; congruence). rewrite Hlen in Hlt.
  destruct (nth_error ks j) as [k|] eqn:Ek; [|apply nth_error_None in Ek; unfold node in *; lia].
  rewrite (Hnth j k Ek) in Hj. eapply nth_error_In; eauto.
Qed.

Lemma reorder_in {X} deps (l l' : list X) x : reorder deps l = Some l' -> In x l' -> In x l.
Proof.
  unfold reorder. destruct (topological_sort deps (seq 0 (length l))); [|discriminate]. apply pick_in.
Qed.

(* cells of one library *)
Definition crefs (lib : str) (c : nvcell) : list str :=
  flat_map (fun i => match in_ref i with
                     | Some (l, cn) => if ident_eqb l lib then [cn] else []
                     | None => []
                     end) (ce_insts c).

Lemma cell_deps_gdeps L k d :
  In d (cell_deps L k) <-> In d (gdeps ce_ident (crefs (li_ident L)) (li_cells L) k).
Proof.
  unfold cell_deps, gdeps. destruct (nth_error (li_cells L) k) as [c|]; [|tauto]. unfold crefs. split; intros H.
  - apply in_flat_map in H as (i & Hi & Hd). apply in_flat_map.
    destruct (in_ref i) as [[l cn]|] eqn:Er; [|destruct Hd].
    destruct (ident_eqb l (li_ident L)) eqn:El; [|destruct Hd].
    exists cn. split; auto. apply in_flat_map. exists i. split; auto. rewrite Er, El. now left.
  - apply in_flat_map in H as (r & Hr & Hd). apply in_flat_map in Hr as (i & Hi & Hr).
    apply in_flat_map. exists i. split; auto.
    destruct (in_ref i) as [[l cn]|]; [|destruct Hr]. destruct (ident_eqb l (li_ident L)); [|destruct Hr].
    destruct Hr as [->|[]]. exact Hd.
Qed.

Lemma Forall2_refl {X} (R : X -> X -> Prop) l : (forall x, R x x) -> Forall2 R l l.
Proof. intros H. induction l; constructor; auto. Qed.

Lemma cells_reorder_ordered L cells' :
  uniq_ci (map ce_ident (li_cells L)) = true -> irreflexive (cell_deps L) ->
  reorder (cell_deps L) (li_cells L) = Some cells' ->
  ordered_by (cell_deps (mklib (li_name L) (li_ident L) cells')) (length cells') = true.
Proof.
  intros Hu Hirr Hre. apply ordered_by_intro. intros o d Hd.
  apply (cell_deps_gdeps (mklib (li_name L) (li_ident L) cells')) in Hd. cbn [li_ident li_cells] in Hd.
  eapply (reorder_ordered_gen ce_ident (crefs (li_ident L)) (cell_deps L) (li_cells L) cells' cells'); eauto.
  - intros k d0. apply cell_deps_gdeps.
  - intros k Hk. apply (Hirr k). now apply cell_deps_gdeps.
  - apply Forall2_refl. auto.
Qed.

(* libraries *)
Definition lrefs (L : nvlib) : list str :=
  flat_map (fun c => flat_map (fun i => match in_ref i with
                                        | Some (l, _) => if ident_eqb l (li_ident L) then [] else [l]
                                        | None => []
                                        end) (ce_insts c)) (li_cells L).

Lemma lib_deps_gdeps libs k d : In d (lib_deps libs k) <-> In d (gdeps li_ident lrefs libs k).
Proof.
  unfold lib_deps, gdeps. destruct (nth_error libs k) as [L|]; [|tauto]. unfold lrefs. split; intros H.
  - apply in_flat_map in H as (c & Hc & H). apply in_flat_map in H as (i & Hi & Hd). apply in_flat_map.
    destruct (in_ref i) as [[l cn]|] eqn:Er; [|destruct Hd].
    destruct (ident_eqb l (li_ident L)) eqn:El; [destruct Hd|].
    exists l. split; auto. apply in_flat_map. exists c. split; auto. apply in_flat_map. exists i. split; auto.
    rewrite Er, El. now left.
  - apply in_flat_map in H as (r & Hr & Hd). apply in_flat_map in Hr as (c & Hc & Hr).
    apply in_flat_map in Hr as (i & Hi & Hr).
    apply in_flat_map. exists c. split; auto. apply in_flat_map. exists i. split; auto.
    destruct (in_ref i) as [[l cn]|]; [|destruct Hr]. destruct (ident_eqb l (li_ident L)); [destruct Hr|].
    destruct Hr as [->|[]]. exact Hd.
Qed.

Lemma lib_gdeps_irreflexive libs k : ~ In k (gdeps li_ident lrefs libs k).
Proof.
  intros H. apply in_gdeps in H as (L & r & HL & Hr & Hidx).
  destruct (index_ci_some r (map li_ident libs) k Hidx) as (x & Hx & Ex).
  rewrite nth_error_map, HL in Hx. cbn in Hx. inversion Hx. subst x.
  unfold lrefs in Hr. apply in_flat_map in Hr as (c & _ & Hr). apply in_flat_map in Hr as (i & _ & Hr).
  destruct (in_ref i) as [[l cn]|]; [|destruct Hr]. destruct (ident_eqb l (li_ident L)) eqn:El; [destruct Hr|].
  destruct Hr as [->|[]]. assert (ident_eqb r (li_ident L) = true) by (apply ident_eqb_lower; auto). congruence.
Qed.

Lemma omap_Forall2 {X Y} (f : X -> option Y) : forall l l', omap f l = Some l' -> Forall2 (fun a b => f a = Some b) l l'.
Proof.
  induction l as [|a l IH]; intros l' H; cbn [omap] in H; [inversion H; constructor|].
  destruct (f a) as [b|] eqn:Ea; [|discriminate]. destruct (omap f l) as [r|] eqn:Er; [|discriminate].
  inversion H. constructor; auto.
Qed.

(* the pre-pass ends in dependency order, for every netlist value whose sibling identifiers are
   pairwise different and in which no cell instantiates itself *)
Theorem prepass_result_ordered n n1 :
  uniq_ci (map li_ident (nf_libs n)) = true ->
  (forall L, In L (nf_libs n) -> uniq_ci (map ce_ident (li_cells L)) = true /\ irreflexive (cell_deps L)) ->
  prepass n = Some n1 -> ordered n1 = true.
Proof.
  intros Hu Hcells Hp. unfold prepass in Hp.
  destruct (reorder (lib_deps (nf_libs n)) (nf_libs n)) as [libs1|] eqn:Er; [|discriminate].
  destruct (omap _ libs1) as [libs'|] eqn:Eo; [|discriminate]. inversion Hp. subst n1. clear Hp.
  apply omap_Forall2 in Eo. unfold ordered. cbn [nf_libs]. apply andb_true_iff. split.
  - apply ordered_by_intro. intros o d Hd. apply lib_deps_gdeps in Hd.
    eapply (reorder_ordered_gen li_ident lrefs (lib_deps (nf_libs n)) (nf_libs n) libs1 libs'); eauto.
    + intros k d0. apply lib_deps_gdeps.
    + apply lib_gdeps_irreflexive.
    + clear - Eo. induction Eo as [|a b la lb Hab _ IH]; constructor; auto.
      destruct (reorder (cell_deps a) (li_cells a)) as [cells'|] eqn:Ec; [|discriminate]. cbn in Hab. inversion Hab. subst b.
      split; [reflexivity|]. intros r Hr. unfold lrefs in *. cbn [li_cells li_ident] in Hr.
      apply in_flat_map in Hr as (c & Hc & Hr). apply in_flat_map. exists c. split; auto.
      eapply reorder_in; eauto.
  - apply forallb_forall. intros L' HL'.
    assert (Hex : exists a, In a libs1 /\ option_map (mklib (li_name a) (li_ident a)) (reorder (cell_deps a) (li_cells a)) = Some L').
    { clear - Eo HL'. induction Eo as [|a b la lb Hab _ IH]; [destruct HL'|].
      destruct HL' as [<-|HL']; [exists a; split; [now left|auto]|].
      destruct (IH HL') as (a' & Ha' & E). exists a'. split; [now right|auto]. }
    destruct Hex as (a & Ha & E).
    destruct (reorder (cell_deps a) (li_cells a)) as [cells'|] eqn:Ec; [|discriminate]. cbn in E. inversion E. subst L'.
    cbn [li_cells]. assert (Hina : In a (nf_libs n)) by (eapply reorder_in; eauto).
    destruct (Hcells a Hina) as [Hua Hia]. now apply cells_reorder_ordered.
Qed.

Theorem prepass_idempotent n n1 :
  uniq_ci (map li_ident (nf_libs n)) = true ->
  (forall L, In L (nf_libs n) -> uniq_ci (map ce_ident (li_cells L)) = true /\ irreflexive (cell_deps L)) ->
  prepass n = Some n1 -> prepass n1 = Some n1.
Proof. intros Hu Hc Hp. apply Proofs.EdifEmitProofs.prepass_ordered. eapply prepass_result_ordered; eauto. Qed.

(* emit_file (prepass (prepass n)) = emit_file (prepass n) *)
Theorem emit_prepass_idempotent ts prog fl n n1 n2 :
  uniq_ci (map li_ident (nf_libs n)) = true ->
  (forall L, In L (nf_libs n) -> uniq_ci (map ce_ident (li_cells L)) = true /\ irreflexive (cell_deps L)) ->
  prepass n = Some n1 -> prepass n1 = Some n2 -> emit_file ts prog fl n2 = emit_file ts prog fl n1.
Proof.
  intros Hu Hc Hp H2. rewrite (prepass_idempotent n n1 Hu Hc Hp) in H2. now inversion H2.
Qed.
