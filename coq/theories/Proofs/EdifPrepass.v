(* The reordering pre-pass of the EDIF writer model (Fmt/EdifEmit.prepass) ends in dependency order:
   generic statement [reorder_ordered_gen] about a list of keyed elements whose dependencies are
   looked up by key, then the two instances (libraries by instantiated libraries, cells of a library
   by instantiated cells of the same library). *)
From Coq Require Import List NArith Bool Arith Lia Permutation.
From SV Require Import Base.Base Fmt.EdifTopo Fmt.EdifNets Fmt.EdifFile Fmt.EdifEmit
  Proofs.EdifTopoProofs Proofs.EdifEmitLemmas Proofs.EdifEmitCell.
Import ListNotations.

Lemma ident_eqb_lower a b : ident_eqb a b = true <-> lower a = lower b.
Proof. unfold ident_eqb. apply str_eqb_spec. Qed.

Lemma index_ci_some r : forall ids a, index_ci r ids = Some a ->
  exists x, nth_error ids a = Some x /\ lower x = lower r.
Proof.
  induction ids as [|x ids IH]; intros a H; [discriminate|]. cbn [index_ci] in H.
  destruct (ident_eqb x r) eqn:E.
  - inversion H. subst. exists x. split; auto. now apply ident_eqb_lower.
  - destruct (index_ci r ids) as [k|] eqn:Ek; [|discriminate]. inversion H. subst. cbn [nth_error]. eauto.
Qed.

Lemma index_ci_exists r : forall ids b x, nth_error ids b = Some x -> lower x = lower r ->
  exists a, index_ci r ids = Some a.
Proof.
  induction ids as [|y ids IH]; intros b x H E; [destruct b; discriminate|]. cbn [index_ci].
  destruct (ident_eqb y r) eqn:Ey; [eauto|]. destruct b as [|b]; cbn [nth_error] in H.
  - inversion H. subst. apply ident_eqb_lower in E. congruence.
  - destruct (IH b x H E) as [a ->]. cbn. eauto.
Qed.

Lemma index_ci_unique r ids a b x : uniq_ci ids = true -> index_ci r ids = Some a ->
  nth_error ids b = Some x -> lower x = lower r -> a = b.
Proof.
  intros Hu Ha Hb E. apply uniq_ci_NoDup in Hu. destruct (index_ci_some r ids a Ha) as (y & Hy & Ey).
  assert (La : nth_error (map lower ids) a = Some (lower r)) by (rewrite nth_error_map, Hy; cbn; now rewrite Ey).
  assert (Lb : nth_error (map lower ids) b = Some (lower r)) by (rewrite nth_error_map, Hb; cbn; now rewrite E).
  assert (Hlt : a < length (map lower ids)) by (apply nth_error_Some; congruence).
  apply (proj1 (NoDup_nth_error _) Hu a b Hlt). congruence.
Qed.

Lemma pick_nth {X} (l : list X) : forall ks l', pick l ks = Some l' ->
  length l' = length ks /\ forall j k, nth_error ks j = Some k -> nth_error l' j = nth_error l k.
Proof.
  induction ks as [|k ks IH]; intros l' H.
  - inversion H. split; auto. intros j k Hj. destruct j; discriminate.
  - cbn [pick] in H. destruct (nth_error l k) as [x|] eqn:Ex; [|discriminate].
    destruct (pick l ks) as [r|] eqn:Er; [|discriminate]. inversion H. subst.
    destruct (IH r eq_refl) as [Hl Hn]. split; [cbn; now rewrite Hl|].
    intros [|j] k' Hj; cbn [nth_error] in *; [inversion Hj; subst; auto|auto].
Qed.

Lemma precedes_index (l : list nat) i j d o : NoDup l -> nth_error l i = Some d -> nth_error l j = Some o ->
  precedes d o l -> i < j.
Proof.
  intros Hnd Hi Hj (l1 & l2 & l3 & E).
  assert (Hi' : nth_error l (length l1) = Some d) by (rewrite E, nth_error_app2, Nat.sub_diag; auto).
  assert (Hj' : nth_error l (length l1 + S (length l2)) = Some o).
  { rewrite E, nth_error_app2 by lia. replace (length l1 + S (length l2) - length l1) with (S (length l2)) by lia.
    cbn [nth_error]. rewrite nth_error_app2, Nat.sub_diag; auto. }
  assert (i = length l1).
  { apply (proj1 (NoDup_nth_error _) Hnd); [apply nth_error_Some; congruence|congruence]. }
  assert (j = length l1 + S (length l2)).
  { apply (proj1 (NoDup_nth_error _) Hnd); [apply nth_error_Some; congruence|congruence]. }
  lia.
Qed.

Section Gen.
Context {X : Type}.
Variable key : X -> str.
Variable refs : X -> list str.

Definition gdeps (l : list X) (k : nat) : list nat :=
  match nth_error l k with
  | None => []
  | Some x => flat_map (fun r => opt_list (index_ci r (map key l))) (refs x)
  end.

Lemma in_gdeps l k d : In d (gdeps l k) <->
  exists x r, nth_error l k = Some x /\ In r (refs x) /\ index_ci r (map key l) = Some d.
Proof.
  unfold gdeps. split.
  - destruct (nth_error l k) as [x|]; [|intros []]. intros H. apply in_flat_map in H as (r & Hr & Hd).
    exists x, r. repeat split; auto. destruct (index_ci r (map key l)); [destruct Hd as [->|[]]; auto|destruct Hd].
  - intros (x & r & -> & Hr & Hd). apply in_flat_map. exists r. split; auto. rewrite Hd. now left.
Qed.

(* [deps] : any dependency function with the same elements as gdeps l (the order of a dependency
   list does not matter for the statement) *)
Theorem reorder_ordered_gen deps l l' l'' :
  (forall k d, In d (deps k) <-> In d (gdeps l k)) ->
  uniq_ci (map key l) = true ->
  (forall k, ~ In k (gdeps l k)) ->
  reorder deps l = Some l' ->
  Forall2 (fun a b => key a = key b /\ forall r, In r (refs b) -> In r (refs a)) l' l'' ->
  forall k' d', In d' (gdeps l'' k') -> d' < k'.
Proof.
  intros Hdeps Hu Hirr Hre Hf k' d' Hd'.
  unfold reorder in Hre. destruct (topological_sort deps (seq 0 (length l))) as [ks|] eqn:Ets; [|discriminate].
  destruct (pick_nth l ks l' Hre) as [Hlen Hnth].
  assert (Hirr' : irreflexive deps) by (intros o Ho; apply (Hirr o); now apply Hdeps).
  destruct (toposort_sorted_fuel _ deps _ ks Hirr' Ets) as [Hnd Hsorted].
  assert (Hkeys : map key l'' = map key l').
  { clear - Hf. induction Hf as [|a b la lb [Hk _] _ IH]; [reflexivity|]. cbn. now rewrite IH, Hk. }
  apply in_gdeps in Hd' as (b & r & Hb & Hr & Hidx). rewrite Hkeys in Hidx.
  (* the element a of l' at k' *)
  assert (Ha : exists a, nth_error l' k' = Some a /\ In r (refs a)).
  { clear - Hf Hb Hr. revert k' Hb. induction Hf as [|a0 b0 la lb [_ Hrr] _ IH]; intros k' Hb; [destruct k'; discriminate|].
    destruct k' as [|k']; cbn [nth_error] in *; [inversion Hb; subst; eauto|eauto]. }
  destruct Ha as (a & Ha & Hra).
  assert (Hk'lt : k' < length l') by (apply nth_error_Some; congruence). rewrite Hlen in Hk'lt.
  destruct (nth_error ks k') as [o|] eqn:Eo; [|apply nth_error_None in Eo; unfold node in *; lia].
  pose proof (Hnth k' o Eo) as Hao. rewrite Ha in Hao. symmetry in Hao.
  (* the target *)
  destruct (index_ci_some r (map key l') d' Hidx) as (kx & Hkx & Ekx).
  rewrite nth_error_map in Hkx. destruct (nth_error l' d') as [t|] eqn:Et; [|discriminate]. cbn in Hkx. inversion Hkx. subst kx.
  assert (Hd'lt : d' < length l') by (apply nth_error_Some; congruence). rewrite Hlen in Hd'lt.
  destruct (nth_error ks d') as [od|] eqn:Eod; [|apply nth_error_None in Eod; unfold node in *; lia].
  pose proof (Hnth d' od Eod) as Htod. rewrite Et in Htod. symmetry in Htod.
  (* in the old list the lookup of r finds od *)
  assert (Hold : index_ci r (map key l) = Some od).
  { destruct (index_ci_exists r (map key l) od (key t)) as [a0 Ha0]; auto.
    - now rewrite nth_error_map, Htod.
    - rewrite Ha0. f_equal. eapply index_ci_unique; eauto. now rewrite nth_error_map, Htod. }
  assert (Hdep : In od (deps o)).
  { apply Hdeps. apply in_gdeps. exists a, r. auto. }
  assert (Hino : In o ks) by (eapply nth_error_In; eauto).
  exact (precedes_index ks d' k' od o Hnd Eod Eo (Hsorted o od Hino Hdep)).
Qed.
End Gen.
