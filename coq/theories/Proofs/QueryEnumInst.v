(* get_instances: the candidates enumerated by the loop of Query/Enum.v are exactly the elements the
   declarative specification Query/EnumSpec.v names, for every kind of root object, both
   selections and both settings of recursive (cands_instances_spec). *)
From Coq Require Import List Arith Bool Lia Relations.
From SV Require Import Base.Base IR.State IR.NS IR.Ops Proofs.Inv1a Proofs.Inv2a Proofs.InvW
  Hier.Paths Hier.Enum Hier.Trace Proofs.KindD Query.Filter Query.Enum Query.EnumSpec
  Proofs.QueryEnumWL Proofs.QueryEnumBase Proofs.QueryEnumView.
Import ListNotations.

Lemma plain_instances s rec inside x : Forall plain (acts_instances s rec inside x).
Proof.
  destruct x as [x|n i| |h]; cbn [acts_instances].
  - destruct (kind_of s x) as [[]|]; try apply plain_push_ids; try apply plain_push_opt; try constructor.
    + apply plain_flat_map. intro l. apply plain_push_ids.
    + destruct inside.
      * constructor; [exact I|]. destruct rec; [|constructor]. apply plain_flat_map. intro c.
        destruct (iref s c); [|constructor]. destruct (is_leaf s i); repeat constructor.
      * apply Forall_app. split; [apply plain_oth_ids|]. destruct rec; [|constructor].
        apply plain_flat_map. intro c. destruct (par s RChildren c); repeat constructor.
    + destruct (par s RPorts x); [apply plain_oth_ids|constructor].
    + destruct (par s RCables x); [apply plain_oth_ids|constructor].
    + destruct inside.
      * destruct (iref s x); [|constructor]. apply Forall_app. split; [apply plain_oth_ids|]. destruct rec; [apply plain_push_ids|constructor].
      * destruct (par s RChildren x); [|constructor]. apply Forall_app. split; [apply plain_oth_ids|]. destruct rec; [apply plain_push_ids|constructor].
  - repeat constructor.
  - constructor.
  - destruct (href_item s h); [|constructor]. destruct (kind_of s i) as [[]|]; repeat constructor.
Qed.

Section Inst.
Variable s : state.
Hypothesis W : QWF s.
Variables rec inside : bool.
Notation A := (acts_instances s rec inside).

(* ---- one step, per kind of item ---- *)
Lemma i_def_in_emits d : kind_of s d = Some KDefinition -> inside = true -> emits A (IE d) = [OPar d].
Proof.
  intros Hk Hi. unfold emits. cbn [acts_instances]. rewrite Hk, Hi. cbn [flat_map emit_of app]. f_equal.
  destruct rec; [|reflexivity]. rewrite flat_map_flat_map. apply flat_map_nil. intros c _.
  destruct (iref s c); [|reflexivity]. destruct (is_leaf s i); reflexivity.
Qed.

Lemma i_def_in_succs d y : kind_of s d = Some KDefinition -> inside = true ->
  (In y (succs A (IE d)) <->
   rec = true /\ exists c r, In c (kids s RChildren d) /\ iref s c = Some r /\ is_leaf s r = false /\ y = IE r).
Proof.
  intros Hk Hi. unfold succs. cbn [acts_instances]. rewrite Hk, Hi. cbn [flat_map succ_of app].
  destruct rec; cbn [flat_map].
  - rewrite flat_map_flat_map, in_flat_map. split.
    + intros (c & Hc & Hy). split; [reflexivity|]. destruct (iref s c) as [r|] eqn:Er; [|destruct Hy].
      destruct (is_leaf s r) eqn:El; [destruct Hy|]. cbn in Hy. destruct Hy as [<-|[]]. exists c, r. auto.
    + intros (_ & c & r & Hc & Er & El & ->). exists c. split; [exact Hc|]. rewrite Er, El. left. reflexivity.
  - split; [intros []|intros [E _]; discriminate].
Qed.

Lemma i_def_out_emits d e : kind_of s d = Some KDefinition -> inside = false ->
  (In (OOth e) (emits A (IE d)) <-> iref s e = Some d) /\ (forall p, ~ In (OPar p) (emits A (IE d))).
Proof.
  intros Hk Hi. unfold emits. cbn [acts_instances]. rewrite Hk, Hi. rewrite flat_map_app, emit_oth_ids. split.
  - rewrite in_app_iff, in_map_iff. split.
    + intros [(x & E & Hx)|H].
      * injection E as ->. apply (drefs_iref s W). exact Hx.
      * destruct rec; [|destruct H]. rewrite flat_map_flat_map in H. apply in_flat_map in H as (i & Hi' & H).
        destruct (par s RChildren i); cbn in H; [destruct H|]. destruct H as [E|[]]. injection E as ->.
        apply (drefs_iref s W). exact Hi'.
    + intro H. left. exists e. split; [reflexivity|apply (drefs_iref s W); exact H].
  - intros p H. apply in_app_or in H as [H|H].
    + apply in_map_iff in H as (x & E & _). discriminate.
    + destruct rec; [|destruct H]. rewrite flat_map_flat_map in H. apply in_flat_map in H as (i & _ & H).
      destruct (par s RChildren i); cbn in H; [destruct H|]. destruct H as [E|[]]. discriminate.
Qed.

Lemma i_def_out_succs d y : kind_of s d = Some KDefinition -> inside = false ->
  (In y (succs A (IE d)) <-> rec = true /\ exists i p, iref s i = Some d /\ par s RChildren i = Some p /\ y = IE p).
Proof.
  intros Hk Hi. unfold succs. cbn [acts_instances]. rewrite Hk, Hi. rewrite flat_map_app, succ_oth_ids. cbn [app].
  destruct rec.
  - rewrite flat_map_flat_map, in_flat_map. split.
    + intros (i & Hi' & H). split; [reflexivity|]. destruct (par s RChildren i) as [p|] eqn:Ep; cbn in H; [|destruct H].
      destruct H as [<-|[]]. exists i, p. split; [apply (drefs_iref s W); exact Hi'|auto].
    + intros (_ & i & p & Hr & Hp & ->). exists i. split; [apply (drefs_iref s W); exact Hr|]. rewrite Hp. left. reflexivity.
  - cbn. split; [intros []|intros [E _]; discriminate].
Qed.

Lemma i_lib l : kind_of s l = Some KLibrary ->
  emits A (IE l) = [] /\ succs A (IE l) = map IE (kids s RDefs l).
Proof.
  intro Hk. unfold emits, succs. cbn [acts_instances]. rewrite Hk. split; [apply emit_push_ids|apply succ_push_ids].
Qed.

Lemma i_net n : kind_of s n = Some KNetlist ->
  emits A (IE n) = [] /\ succs A (IE n) = map IE (flat_map (fun l => kids s RDefs l) (kids s RLibs n)).
Proof.
  intro Hk. unfold emits, succs. cbn [acts_instances]. rewrite Hk. rewrite !flat_map_flat_map. split.
  - apply flat_map_nil. intros l _. apply emit_push_ids.
  - induction (kids s RLibs n) as [|l ls IH]; cbn; [reflexivity|]. rewrite map_app, succ_push_ids, IH. reflexivity.
Qed.

Lemma i_inst_in x : kind_of s x = Some KInstance -> inside = true ->
  emits A (IE x) = map OOth (sub s x) /\ succs A (IE x) = if rec then map IE (sub s x) else [].
Proof.
  intros Hk Hi. unfold emits, succs, sub. cbn [acts_instances]. rewrite Hk, Hi. destruct (iref s x) as [r|]; [|split; [reflexivity|destruct rec; reflexivity]].
  rewrite !flat_map_app, emit_oth_ids, succ_oth_ids. cbn [app]. destruct rec.
  - rewrite emit_push_ids, succ_push_ids, app_nil_r. split; reflexivity.
  - cbn. rewrite app_nil_r. split; reflexivity.
Qed.

Lemma i_inst_out x : kind_of s x = Some KInstance -> inside = false ->
  let ups := match par s RChildren x with Some p => drefs s p | None => [] end in
  emits A (IE x) = map OOth ups /\ succs A (IE x) = if rec then map IE ups else [].
Proof.
  intros Hk Hi. unfold emits, succs. cbn [acts_instances]. rewrite Hk, Hi. cbn zeta.
  destruct (par s RChildren x) as [p|]; [|split; [reflexivity|destruct rec; reflexivity]].
  rewrite !flat_map_app, emit_oth_ids, succ_oth_ids. cbn [app]. destruct rec.
  - rewrite emit_push_ids, succ_push_ids, app_nil_r. split; reflexivity.
  - cbn. rewrite app_nil_r. split; reflexivity.
Qed.

Lemma i_port x : kind_of s x = Some KPort ->
  emits A (IE x) = map OOth (match par s RPorts x with Some d => drefs s d | None => [] end) /\ succs A (IE x) = [].
Proof.
  intro Hk. unfold emits, succs. cbn [acts_instances]. rewrite Hk. destruct (par s RPorts x); [|split; reflexivity].
  rewrite emit_oth_ids, succ_oth_ids. split; reflexivity.
Qed.
Lemma i_cable x : kind_of s x = Some KCable ->
  emits A (IE x) = map OOth (match par s RCables x with Some d => drefs s d | None => [] end) /\ succs A (IE x) = [].
Proof.
  intro Hk. unfold emits, succs. cbn [acts_instances]. rewrite Hk. destruct (par s RCables x); [|split; reflexivity].
  rewrite emit_oth_ids, succ_oth_ids. split; reflexivity.
Qed.
Lemma i_pin x : kind_of s x = Some KPin ->
  emits A (IE x) = [] /\ succs A (IE x) = match par s RPins x with Some p => [IE p] | None => [] end.
Proof. intro Hk. unfold emits, succs. cbn [acts_instances]. rewrite Hk, emit_push_opt, succ_push_opt. split; reflexivity. Qed.
Lemma i_wire x : kind_of s x = Some KWire ->
  emits A (IE x) = [] /\ succs A (IE x) = match par s RWires x with Some p => [IE p] | None => [] end.
Proof. intro Hk. unfold emits, succs. cbn [acts_instances]. rewrite Hk, emit_push_opt, succ_push_opt. split; reflexivity. Qed.
End Inst.

Section Inst2.
Variable s : state.
Hypothesis W : QWF s.
Variables rec inside : bool.
Notation A := (acts_instances s rec inside).
Notation Em := (Emits A).
Notation Rc := (Reach A).

Definition uses_nl (d r : id) : Prop := uses s d r /\ is_leaf s r = false.

Lemma uses_kids d r : uses s d r <-> exists c, In c (kids s RChildren d) /\ iref s c = Some r.
Proof. unfold uses. split; intros (c & H1 & H2); exists c; (split; [apply (kids_par s W); exact H1|exact H2]). Qed.

(* ---- from a definition, INSIDE ---- *)
Lemma def_in_reach d y : kind_of s d = Some KDefinition -> inside = true ->
  (Rc (IE d) y <-> exists p, y = IE p /\ star uses_nl rec d p).
Proof.
  intros Hk Hi. split.
  - intro Hr. apply (reach_invariant A (fun y => exists p, y = IE p /\ kind_of s p = Some KDefinition /\ star uses_nl rec d p) (IE d)) in Hr.
    + destruct Hr as (p & -> & _ & H). exists p. auto.
    + exists d. split; [reflexivity|split; [exact Hk|apply star_refl]].
    + intros a b (p & -> & Hp & Hs) Hb. apply (i_def_in_succs s rec inside p b Hp Hi) in Hb as (Er & c & r & Hc & Hr' & Hl & ->).
      exists r. split; [reflexivity|]. split; [apply (iref_def_kind s W c r Hr')|].
      eapply star_snoc; [exact Er|exact Hs|]. split; [apply uses_kids; exists c; auto|exact Hl].
  - intros (p & -> & Hs). apply star_cases in Hs as [[Er Hs]|[_ <-]]; [|apply reach_refl].
    apply (reach_of_rt A IE uses_nl (fun a => kind_of s a = Some KDefinition)); [|exact Hk|exact Hs].
    intros a b Ha [Hu Hl]. apply uses_kids in Hu as (c & Hc & Hr'). split; [|apply (iref_def_kind s W c b Hr')].
    apply (i_def_in_succs s rec inside a (IE b) Ha Hi). split; [exact Er|]. exists c, b. auto.
Qed.

Lemma star_nl_kind d p : kind_of s d = Some KDefinition -> star uses_nl rec d p -> kind_of s p = Some KDefinition.
Proof.
  intros Hk Hs. apply star_cases in Hs as [[_ Hs]|[_ <-]]; [|exact Hk].
  apply clos_rt_rtn1 in Hs. destruct Hs as [|b c [Hu _] _]; [exact Hk|].
  destruct Hu as (x & _ & Hx). apply (iref_def_kind s W x c Hx).
Qed.

Lemma def_in_emits d o : kind_of s d = Some KDefinition -> inside = true ->
  (Em (IE d) o <-> exists p, o = OPar p /\ star uses_nl rec d p).
Proof.
  intros Hk Hi. split.
  - intro H. apply emits_inv in H as (y & Hr & Ho). apply (def_in_reach d y Hk Hi) in Hr as (p & -> & Hs).
    pose proof (star_nl_kind d p Hk Hs) as Hp.
    rewrite (i_def_in_emits s rec inside p Hp Hi) in Ho. destruct Ho as [<-|[]]. exists p. auto.
  - intros (p & -> & Hs). assert (Hr : Rc (IE d) (IE p)) by (apply (def_in_reach d _ Hk Hi); exists p; auto).
    eapply emits_at; [exact Hr|].
    pose proof (star_nl_kind d p Hk Hs) as Hp.
    rewrite (i_def_in_emits s rec inside p Hp Hi). left. reflexivity.
Qed.

(* leaf definitions contribute no candidates: the children found below d are those of every
   definition d (transitively) instantiates *)
Lemma nl_star d e :
  (exists p, star uses_nl rec d p /\ In e (kids s RChildren p)) <->
  (exists d', star (uses s) rec d d' /\ par s RChildren e = Some d').
Proof.
  split.
  - intros (p & Hs & He). exists p. split; [|apply (kids_par s W); exact He].
    eapply star_mono; [|exact Hs]. intros x y [H _]. exact H.
  - intros (d' & Hs & He). exists d'. split; [|apply (kids_par s W); exact He].
    apply star_cases in Hs as [[Er Hs]|[_ <-]]; [|apply star_refl]. apply (star_rt _ _ _ _ Er).
    assert (Hc : forall b, clos_refl_trans id (uses s) b d' -> kids s RChildren b <> []).
    { intros b Hb. apply clos_rt_rt1n in Hb. destruct Hb as [|b1 b2 (c & Hc & _) _].
      - apply (kids_par s W) in He. intro E. rewrite E in He. destruct He.
      - apply (kids_par s W) in Hc. intro E. rewrite E in Hc. destruct Hc. }
    apply clos_rt_rt1n in Hs. induction Hs as [|a b c Hab Hbc IH]; [apply rt_refl|].
    eapply rt_trans; [apply rt_step|apply IH; [exact He|exact Hc]].
    split; [exact Hab|]. unfold is_leaf. specialize (Hc b (clos_rt1n_rt _ _ _ _ Hbc)).
    destruct (kids s RChildren b); [contradiction|reflexivity].
Qed.

(* ---- from a definition, OUTSIDE ---- *)
Lemma def_out_reach d y : kind_of s d = Some KDefinition -> inside = false ->
  (Rc (IE d) y <-> exists p, y = IE p /\ kind_of s p = Some KDefinition /\ star (used_by s) rec d p).
Proof.
  intros Hk Hi. split.
  - intro Hr. apply (reach_invariant A (fun y => exists p, y = IE p /\ kind_of s p = Some KDefinition /\ star (used_by s) rec d p) (IE d)) in Hr.
    + exact Hr.
    + exists d. split; [reflexivity|split; [exact Hk|apply star_refl]].
    + intros a b (p & -> & Hp & Hs) Hb. apply (i_def_out_succs s W rec inside p b Hp Hi) in Hb as (Er & i & q & Hr' & Hq & ->).
      exists q. split; [reflexivity|]. split; [apply (par_parent_kind s W _ _ _ Hq)|].
      eapply star_snoc; [exact Er|exact Hs|]. exists i. auto.
  - intros (p & -> & _ & Hs). apply star_cases in Hs as [[Er Hs]|[_ <-]]; [|apply reach_refl].
    apply (reach_of_rt A IE (used_by s) (fun a => kind_of s a = Some KDefinition)); [|exact Hk|exact Hs].
    intros a b Ha (c & Hc & Hr'). split; [|apply (par_parent_kind s W _ _ _ Hc)].
    apply (i_def_out_succs s W rec inside a (IE b) Ha Hi). split; [exact Er|]. exists c, b. auto.
Qed.

Lemma def_out_emits d o : kind_of s d = Some KDefinition -> inside = false ->
  (Em (IE d) o <-> exists e d', o = OOth e /\ star (used_by s) rec d d' /\ iref s e = Some d').
Proof.
  intros Hk Hi. split.
  - intro H. apply emits_inv in H as (y & Hr & Ho). apply (def_out_reach d y Hk Hi) in Hr as (p & -> & Hp & Hs).
    destruct o as [q|e].
    + exfalso. apply (proj2 (i_def_out_emits s W rec inside p q Hp Hi) q Ho).
    + exists e, p. split; [reflexivity|split; [exact Hs|]]. apply (i_def_out_emits s W rec inside p e Hp Hi). exact Ho.
  - intros (e & d' & -> & Hs & He).
    assert (Hr : Rc (IE d) (IE d')).
    { apply (def_out_reach d _ Hk Hi). exists d'. split; [reflexivity|split; [|exact Hs]]. apply (iref_def_kind s W e d' He). }
    eapply emits_at; [exact Hr|]. apply (i_def_out_emits s W rec inside d' e (iref_def_kind s W e d' He) Hi). exact He.
Qed.
End Inst2.

Section Inst3.
Variable s : state.
Hypothesis W : QWF s.
Variables rec inside : bool.
Notation A := (acts_instances s rec inside).
Notation Em := (Emits A).
Notation Rc := (Reach A).

(* items that record the members of a list and (when recursive) append them *)
Lemma chain_emits (L : id -> list id) (Q : id -> Prop) x :
  (forall c, Q c -> emits A (IE c) = map OOth (L c) /\ succs A (IE c) = if rec then map IE (L c) else []) ->
  (forall c e, Q c -> In e (L c) -> Q e) -> Q x ->
  forall o, Em (IE x) o <-> exists e, o = OOth e /\ plus (fun a b => In b (L a)) rec x e.
Proof.
  intros HL HQ Hx o. set (R := fun a b => In b (L a)).
  assert (Hreach : forall y, Rc (IE x) y <-> exists c, y = IE c /\ Q c /\ star R rec x c).
  { intro y. split.
    - intro Hr. apply (reach_invariant A (fun y => exists c, y = IE c /\ Q c /\ star R rec x c) (IE x)) in Hr; [exact Hr| |].
      + exists x. split; [reflexivity|split; [exact Hx|apply star_refl]].
      + intros a b (c & -> & Hc & Hs) Hb. rewrite (proj2 (HL c Hc)) in Hb. destruct rec eqn:Er; [|destruct Hb].
        apply in_map_iff in Hb as (e & <- & He). exists e. split; [reflexivity|split; [eapply HQ; eassumption|]].
        eapply (star_snoc R true); [reflexivity|exact Hs|exact He].
    - intros (c & -> & _ & Hs). apply star_cases in Hs as [[Er Hs]|[_ <-]]; [|apply reach_refl].
      apply (reach_of_rt A IE R Q); [|exact Hx|exact Hs].
      intros a b Ha Hab. split; [|eapply HQ; eassumption]. rewrite (proj2 (HL a Ha)), Er. apply in_map. exact Hab. }
  split.
  - intro H. apply emits_inv in H as (y & Hr & Ho). apply Hreach in Hr as (c & -> & Hc & Hs).
    rewrite (proj1 (HL c Hc)) in Ho. apply in_map_iff in Ho as (e & <- & He). exists e. split; [reflexivity|].
    apply star_cases in Hs as [[Er Hs]|[Er <-]]; unfold plus; rewrite Er; [|exact He].
    apply t_split_r. exists c. split; [exact Hs|exact He].
  - intros (e & -> & Hp). apply plus_cases in Hp as [[Er Hp]|[Er Hp]].
    + apply t_split_r in Hp as (c & Hs & He).
      assert (Hr : Rc (IE x) (IE c)).
      { apply (reach_of_rt A IE R Q); [|exact Hx|exact Hs].
        intros a b Ha Hab. split; [|eapply HQ; eassumption]. rewrite (proj2 (HL a Ha)), Er. apply in_map. exact Hab. }
      pose proof (proj1 (Hreach _) Hr) as (c' & E & Hc & _). injection E as <-.
      eapply emits_at; [exact Hr|]. rewrite (proj1 (HL c Hc)). apply in_map. exact He.
    + eapply emits_at; [apply reach_refl|]. rewrite (proj1 (HL x Hx)). apply in_map. exact Hp.
Qed.

Lemma sub_inside e c : In e (sub s c) <-> inside_of s e c.
Proof.
  unfold sub, inside_of. destruct (iref s c) as [r|].
  - rewrite (kids_par s W). split; [intro H; exists r; auto|intros (d & E & H); injection E as <-; exact H].
  - split; [intros []|intros (d & E & _); discriminate].
Qed.

Definition ups (x : id) : list id := match par s RChildren x with Some p => drefs s p | None => [] end.
Lemma ups_inside e c : In e (ups c) <-> inside_of s c e.
Proof.
  unfold ups, inside_of. destruct (par s RChildren c) as [p|].
  - rewrite (drefs_iref s W). split; [intro H; exists p; auto|intros (d & H & E); injection E as <-; exact H].
  - split; [intros []|intros (d & _ & E); discriminate].
Qed.

Lemma inst_in_emits x o : kind_of s x = Some KInstance -> inside = true ->
  (Em (IE x) o <-> exists e, o = OOth e /\ plus (inside_of s) rec e x).
Proof.
  intros Hk Hi. rewrite (chain_emits (sub s) (fun c => kind_of s c = Some KInstance) x).
  - assert (Hext : forall e, plus (fun a b => In b (sub s a)) rec x e <-> plus (inside_of s) rec e x).
    { intro e. rewrite <- plus_flip. apply plus_ext. intros a b. apply sub_inside. }
    split; intros (e & -> & H); exists e; (split; [reflexivity|apply Hext; exact H]).
  - intros c Hc. apply (i_inst_in s rec inside c Hc Hi).
  - intros c e _ He. apply sub_inside in He as (d & _ & He). apply (par_kind s W _ _ _ He).
  - exact Hk.
Qed.

Lemma inst_out_emits x o : kind_of s x = Some KInstance -> inside = false ->
  (Em (IE x) o <-> exists e, o = OOth e /\ plus (inside_of s) rec x e).
Proof.
  intros Hk Hi. rewrite (chain_emits ups (fun c => kind_of s c = Some KInstance) x).
  - assert (Hext : forall e, plus (fun a b => In b (ups a)) rec x e <-> plus (inside_of s) rec x e).
    { intro e. apply plus_ext. intros a b. apply ups_inside. }
    split; intros (e & -> & H); exists e; (split; [reflexivity|apply Hext; exact H]).
  - intros c Hc. apply (i_inst_out s rec inside c Hc Hi).
  - intros c e _ He. apply ups_inside in He as (d & He & _). apply (iref_kind s W _ _ He).
  - exact Hk.
Qed.

(* ---- scope roots ---- *)
Lemma scope_emits x o :
  kind_of s x = Some KDefinition \/ kind_of s x = Some KLibrary \/ kind_of s x = Some KNetlist ->
  (Em (IE x) o <-> exists d, scope_defs s x d /\ kind_of s d = Some KDefinition /\ Em (IE d) o).
Proof.
  intros [Hk|[Hk|Hk]]; unfold scope_defs; rewrite Hk.
  - split; [intro H; exists x; auto|intros (d & -> & _ & H); exact H].
  - destruct (i_lib s rec inside x Hk) as [E1 E2]. rewrite (emits_through A _ _ E1), E2. split.
    + intros (y & Hy & H). apply in_map_iff in Hy as (d & <- & Hd). exists d.
      split; [apply (kids_par s W); exact Hd|split; [apply (kid_kind s W _ _ _ Hd)|exact H]].
    + intros (d & Hd & _ & H). exists (IE d). split; [apply in_map, (kids_par s W); exact Hd|exact H].
  - destruct (i_net s rec inside x Hk) as [E1 E2]. rewrite (emits_through A _ _ E1), E2. split.
    + intros (y & Hy & H). apply in_map_iff in Hy as (d & <- & Hd). apply in_flat_map in Hd as (l & Hl & Hd). exists d.
      split; [exists l; split; apply (kids_par s W); assumption|split; [apply (kid_kind s W _ _ _ Hd)|exact H]].
    + intros (d & (l & Hd & Hl) & _ & H). exists (IE d). split; [|exact H]. apply in_map, in_flat_map. exists l.
      split; apply (kids_par s W); assumption.
Qed.

(* ---- ports, cables, inner pins, wires ---- *)
Lemma port_emits x o : kind_of s x = Some KPort ->
  (Em (IE x) o <-> exists e d, o = OOth e /\ par s RPorts x = Some d /\ iref s e = Some d).
Proof.
  intro Hk. destruct (i_port s rec inside x Hk) as [E1 E2]. rewrite (emits_leaf A _ _ E2), E1.
  destruct (par s RPorts x) as [d|].
  - rewrite in_map_iff. split.
    + intros (e & <- & He). exists e, d. split; [reflexivity|split; [reflexivity|apply (drefs_iref s W); exact He]].
    + intros (e & d' & -> & E & He). injection E as <-. exists e. split; [reflexivity|apply (drefs_iref s W); exact He].
  - split; [intros []|intros (e & d' & _ & E & _); discriminate].
Qed.
Lemma cable_emits x o : kind_of s x = Some KCable ->
  (Em (IE x) o <-> exists e d, o = OOth e /\ par s RCables x = Some d /\ iref s e = Some d).
Proof.
  intro Hk. destruct (i_cable s rec inside x Hk) as [E1 E2]. rewrite (emits_leaf A _ _ E2), E1.
  destruct (par s RCables x) as [d|].
  - rewrite in_map_iff. split.
    + intros (e & <- & He). exists e, d. split; [reflexivity|split; [reflexivity|apply (drefs_iref s W); exact He]].
    + intros (e & d' & -> & E & He). injection E as <-. exists e. split; [reflexivity|apply (drefs_iref s W); exact He].
  - split; [intros []|intros (e & d' & _ & E & _); discriminate].
Qed.

Lemma home_emits x o :
  kind_of s x = Some KPort \/ kind_of s x = Some KCable \/ kind_of s x = Some KPin \/ kind_of s x = Some KWire ->
  (Em (IE x) o <-> exists e d, o = OOth e /\ home s x d /\ iref s e = Some d).
Proof.
  intros [Hk|[Hk|[Hk|Hk]]]; unfold home; rewrite Hk.
  - apply port_emits, Hk.
  - apply cable_emits, Hk.
  - destruct (i_pin s rec inside x Hk) as [E1 E2]. rewrite (emits_through A _ _ E1), E2.
    destruct (par s RPins x) as [p|] eqn:Ep.
    + pose proof (par_parent_kind s W _ _ _ Ep) as Hp. cbn [rel_parent] in Hp. split.
      * intros (y & [<-|[]] & H). apply (port_emits p o Hp) in H as (e & d & -> & Hd & He).
        exists e, d. split; [reflexivity|split; [exists p; auto|exact He]].
      * intros (e & d & -> & (p' & E & Hd) & He). injection E as <-. exists (IE p). split; [left; reflexivity|].
        apply (port_emits p _ Hp). exists e, d. auto.
    + split; [intros (y & [] & _)|intros (e & d & _ & (p' & E & _) & _); discriminate].
  - destruct (i_wire s rec inside x Hk) as [E1 E2]. rewrite (emits_through A _ _ E1), E2.
    destruct (par s RWires x) as [p|] eqn:Ep.
    + pose proof (par_parent_kind s W _ _ _ Ep) as Hp. cbn [rel_parent] in Hp. split.
      * intros (y & [<-|[]] & H). apply (cable_emits p o Hp) in H as (e & d & -> & Hd & He).
        exists e, d. split; [reflexivity|split; [exists p; auto|exact He]].
      * intros (e & d & -> & (p' & E & Hd) & He). injection E as <-. exists (IE p). split; [left; reflexivity|].
        apply (cable_emits p _ Hp). exists e, d. auto.
    + split; [intros (y & [] & _)|intros (e & d & _ & (p' & E & _) & _); discriminate].
Qed.
End Inst3.

Section Inst4.
Variable s : state.
Hypothesis W : QWF s.
Variables rec inside : bool.
Notation A := (acts_instances s rec inside).
Notation Em := (Emits A).

Lemma scope_kind x d : scope_defs s x d -> kind_of s d = Some KDefinition.
Proof.
  unfold scope_defs. destruct (kind_of s x) as [[]|] eqn:Hk; try contradiction.
  - intros (l & H & _). apply (par_kind s W _ _ _ H).
  - intro H. apply (par_kind s W _ _ _ H).
  - intros ->. exact Hk.
Qed.
Lemma scope_root_kind x d : scope_defs s x d ->
  kind_of s x = Some KDefinition \/ kind_of s x = Some KLibrary \/ kind_of s x = Some KNetlist.
Proof. unfold scope_defs. destruct (kind_of s x) as [[]|]; try contradiction; auto. Qed.

Lemma none_emits x o : kind_of s x = None -> ~ Em (IE x) o.
Proof.
  intros Hk H. apply emits_iff in H. unfold emits, succs in H. cbn [acts_instances] in H. rewrite Hk in H.
  destruct H as [[]|(y & [] & _)].
Qed.

(* the first-stage parents reached from an element: only definitions / libraries / netlists, INSIDE *)
Lemma elem_A x e :
  (exists p, Em (IE x) (OPar p) /\ In e (kids s RChildren p)) <-> instA_elem s rec inside x e.
Proof.
  unfold instA_elem. split.
  - intros (p & H & He).
    destruct (kind_of s x) as [[]|] eqn:Hk.
    1-3: apply scope_emits in H; [|exact W|tauto]; destruct H as (d & Hd & Hkd & H);
      destruct (bool_cases inside) as [Hi|Hi];
      [ apply (def_in_emits s W rec inside d _ Hkd Hi) in H as (p' & E & Hs); injection E as <-;
        split; [exact Hi|]; destruct (proj1 (nl_star s W rec d e)) as (d' & Hs' & Hp); [exists p; auto|]; exists d, d'; auto
      | apply (def_out_emits s W rec inside d _ Hkd Hi) in H as (e' & d' & E & _); discriminate E ].
    1-4: apply home_emits in H; [|exact W|tauto]; destruct H as (e' & d & E & _); discriminate E.
    + destruct (bool_cases inside) as [Hi|Hi]; [apply (inst_in_emits s W rec inside x _ Hk Hi) in H|apply (inst_out_emits s W rec inside x _ Hk Hi) in H];
        destruct H as (e' & E & _); discriminate E.
    + exfalso. apply (none_emits x _ Hk H).
  - intros (Hi & d & d' & Hd & Hs & Hp).
    destruct (proj2 (nl_star s W rec d e)) as (p & Hs' & He); [exists d'; auto|]. exists p. split; [|exact He].
    apply scope_emits; [exact W|apply (scope_root_kind x d Hd)|]. exists d. split; [exact Hd|]. split; [apply (scope_kind x d Hd)|].
    apply (def_in_emits s W rec inside d _ (scope_kind x d Hd) Hi). exists p. auto.
Qed.

Lemma elem_B x e : Em (IE x) (OOth e) <-> instB_elem s rec inside x e.
Proof.
  unfold instB_elem. destruct (kind_of s x) as [[]|] eqn:Hk.
  1-3: rewrite scope_emits by (try exact W; tauto); split;
    [ intros (d & Hd & Hkd & H); destruct (bool_cases inside) as [Hi|Hi];
      [ apply (def_in_emits s W rec inside d _ Hkd Hi) in H as (p' & E & _); discriminate E
      | apply (def_out_emits s W rec inside d _ Hkd Hi) in H as (e' & d' & E & Hs & He); injection E as <-;
        split; [exact Hi|]; exists d, d'; auto ]
    | intros (Hi & d & d' & Hd & Hs & He); exists d; split; [exact Hd|]; split; [apply (scope_kind x d Hd)|];
      apply (def_out_emits s W rec inside d _ (scope_kind x d Hd) Hi); exists e, d'; auto ].
  1-4: rewrite home_emits by (try exact W; tauto); split;
    [ intros (e' & d & E & Hh & He); injection E as <-; exists d; auto
    | intros (d & Hh & He); exists e, d; auto ].
  - destruct (bool_cases inside) as [Hi|Hi].
    + rewrite (inst_in_emits s W rec inside x _ Hk Hi). rewrite Hi. split; [intros (e' & E & H); injection E as <-; exact H|intro H; exists e; auto].
    + rewrite (inst_out_emits s W rec inside x _ Hk Hi). rewrite Hi. split; [intros (e' & E & H); injection E as <-; exact H|intro H; exists e; auto].
  - split; [intro H; apply (none_emits x _ Hk H)|intros []].
Qed.

Lemma elem_no_par x p :
  (forall d, ~ scope_defs s x d) -> ~ Em (IE x) (OPar p).
Proof.
  intros Hn H. destruct (kind_of s x) as [[]|] eqn:Hk.
  1-3: apply scope_emits in H; [|exact W|tauto]; destruct H as (d & Hd & _); apply (Hn d Hd).
  1-4: apply home_emits in H; [|exact W|tauto]; destruct H as (e' & d & E & _); discriminate E.
  - destruct (bool_cases inside) as [Hi|Hi]; [apply (inst_in_emits s W rec inside x _ Hk Hi) in H|apply (inst_out_emits s W rec inside x _ Hk Hi) in H];
      destruct H as (e' & E & _); discriminate E.
  - apply (none_emits x _ Hk H).
Qed.

(* ---- every kind of root ---- *)
Lemma root_A it e :
  (exists p, Em it (OPar p) /\ In e (kids s RChildren p)) <-> reachA_instances s rec inside it e.
Proof.
  destruct it as [x|n i| |h]; cbn [reachA_instances].
  - apply elem_A.
  - split; [|intros []]. intros (p & H & _). apply emits_iff in H. cbn in H. destruct H as [[E|[]]|(y & [] & _)]. discriminate E.
  - split; [|intros []]. intros (p & H & _). apply emits_iff in H. cbn in H. destruct H as [[]|(y & [] & _)].
  - split; [|intros []]. intros (p & H & _). apply emits_iff in H. unfold emits, succs in H. cbn [acts_instances] in H.
    destruct (href_item s h) as [x|] eqn:Ex; [|destruct H as [[]|(y & [] & _)]].
    apply (href_item_iff s W) in Ex. pose proof (href_item_kind s W h x Ex) as Hkx.
    assert (Hns : forall d, ~ scope_defs s x d).
    { intros d Hd. apply scope_root_kind in Hd. destruct Hkx as [E|[E|[E|[E|E]]]]; rewrite E in Hd; destruct Hd as [?|[?|?]]; discriminate. }
    destruct (kind_of s x) as [[]|] eqn:Hk; cbn in H;
      try (destruct H as [[]|(y & [<-|[]] & H)]; apply (elem_no_par x p Hns H)).
    destruct H as [[E|[]]|(y & [] & _)]. discriminate E.
Qed.

Lemma root_B it e : Em it (OOth e) <-> reachB_instances s rec inside it e.
Proof.
  destruct it as [x|n i| |h]; cbn [reachB_instances].
  - apply elem_B.
  - rewrite emits_iff. cbn. split; [intros [[E|[]]|(y & [] & _)]; injection E as <-; reflexivity|intros ->; left; left; reflexivity].
  - rewrite emits_iff. cbn. split; [intros [[]|(y & [] & _)]|intros []].
  - rewrite emits_iff. unfold emits, succs. cbn [acts_instances].
    destruct (href_item s h) as [x|] eqn:Ex.
    + apply (href_item_iff s W) in Ex. unfold kind_is.
      assert (Hu : forall x', href_to s h x' -> x' = x).
      { intros x' [_ E']. destruct Ex as [_ E]. congruence. }
      destruct (kind_of s x) as [[]|] eqn:Hk; cbn.
      all: split;
        [ intros [H|(y & Hy & H)]; try (destruct H; fail);
          try (destruct Hy as [<-|[]]; exists x; split; [exact Ex|]; rewrite Hk; cbn; apply elem_B; exact H);
          try (destruct H as [E|[]]; injection E as <-; exists x; split; [exact Ex|]; rewrite Hk; reflexivity);
          try (destruct Hy)
        | intros (x' & Hx' & H); rewrite (Hu x' Hx') in H; rewrite Hk in H; cbn in H;
          try (right; exists (IE x); split; [left; reflexivity|apply elem_B; exact H]);
          try (left; left; rewrite H; reflexivity) ].
    + cbn. split; [intros [[]|(y & [] & _)]|]. intros (x & Hx & _). apply (href_item_iff s W) in Hx. congruence.
Qed.

Theorem cands_instances_spec fuel it ps os :
  cands_instances s fuel [it] rec inside = WOk (ps, os) ->
  (forall e, (exists p, In p ps /\ In e (kids s RChildren p)) <-> reachA_instances s rec inside it e) /\
  (forall e, In e os <-> reachB_instances s rec inside it e).
Proof.
  unfold cands_instances. intro H.
  destruct (wl_run A no_bad fuel [it]) as [l| |] eqn:E; try discriminate H. cbn in H. injection H as <- <-.
  pose proof (wl_run_exact A no_bad fuel [it] l (plain_no_marks A (plain_instances s rec inside)) E) as Hx.
  assert (Hem : forall o, In o l <-> Em it o).
  { intro o. rewrite Hx. split; [intros (x & [<-|[]] & H); exact H|intro H; exists it; split; [left; reflexivity|exact H]]. }
  split; intro e.
  - rewrite <- root_A. split; intros (p & Hp & He); exists p; (split; [|exact He]).
    + apply Hem, in_pars, Hp.
    + apply in_pars, Hem, Hp.
  - rewrite <- root_B, <- Hem. apply in_oths.
Qed.
End Inst4.
