#!/venv/bin/python
"""tools/coverage_report.py <dir> <prop>...: combine the coverage data of each check's run and report, per property, the
executable lines of its anchored Python files that no case of the quick tier reached."""
import glob, json, os, sys
import coverage
ROOT = os.path.dirname(os.path.dirname(os.path.abspath(__file__)))
REPO = '/repo'
anchors = {}
for l in open(os.path.join(ROOT, 'properties.jsonl')):
    r = json.loads(l)
    anchors[r['id']] = [f for f in r['anchors'].get('files', []) if f.endswith('.py')]


def ranges(lines):
    out, start, prev = [], None, None
    for x in sorted(lines):
        if start is None:
            start = prev = x
        elif x == prev + 1:
            prev = x
        else:
            out.append((start, prev)); start = prev = x
    if start is not None:
        out.append((start, prev))
    return ['%d' % a if a == b else '%d-%d' % (a, b) for a, b in out]


d = sys.argv[1]
JSON = os.path.join(ROOT, 'docs', 'coverage_quick.json')
# a partial run (a list of properties) MERGES into the existing report: the other properties keep their last measurement
try:
    report = json.load(open(JSON))['properties']
except Exception:  # noqa
    report = {}
for prop in sys.argv[2:]:
    files = glob.glob(os.path.join(d, prop, 'cov.*'))
    if not files:
        report[prop] = {'error': 'no coverage data'}
        continue
    cov = coverage.Coverage(data_file=os.path.join(d, prop, 'combined'), include=[REPO + '/spydrnet/*'])
    cov.combine(files, keep=True)
    cov.load()
    per = {}
    tot_s = tot_m = 0
    for f in anchors[prop]:
        path = os.path.join(REPO, f)
        try:
            _, stmts, _, missing, _ = cov.analysis2(path)
        except Exception as e:  # noqa
            per[f] = {'error': str(e)[:100]}
            continue
        tot_s += len(stmts); tot_m += len(missing)
        per[f] = {'statements': len(stmts), 'reached': len(stmts) - len(missing), 'not_reached': ranges(missing)}
    report[prop] = {'measured_at_repo_head': os.popen('git -C /repo rev-parse --short HEAD').read().strip(), 'statements': tot_s, 'reached': tot_s - tot_m, 'percent': round(100.0 * (tot_s - tot_m) / max(1, tot_s), 1), 'files': per}
head = os.popen('git -C /repo rev-parse --short HEAD').read().strip()
report = {p: report[p] for p in sorted(report)}
json.dump({'repo_head': head, 'tier': 'quick', 'what': 'statements of the anchored files reached by one run of the quick tier of the check (harness process only; forked pool workers of C13 and the extracted model are not measured)', 'properties': report},
          open(JSON, 'w'), indent=1)
with open(os.path.join(ROOT, 'docs', 'COVERAGE.md'), 'w') as o:
    o.write('# Statements of the anchored source files reached by the quick tier of each check (/repo %s)\n\n' % head)
    o.write('Measured by `tools/coverage_run.sh` (line coverage inside the harness process). A statement no generated case reaches\ncannot disagree with its model: the list is the to-do list of the generators, not a verdict.\n\n')
    o.write('| property | statements | reached | % |\n|---|---|---|---|\n')
    for p, r in report.items():
        if 'error' in r:
            o.write('| %s | - | - | %s |\n' % (p, r['error']))
        else:
            o.write('| %s | %d | %d | %.1f |\n' % (p, r['statements'], r['reached'], r['percent']))
    o.write('\n')
    for p, r in report.items():
        if 'files' not in r:
            continue
        o.write('## %s\n\n' % p)
        for f, v in r['files'].items():
            if 'error' in v:
                o.write('* `%s`: %s\n' % (f, v['error']))
            else:
                o.write('* `%s`: %d/%d; not reached: %s\n' % (f, v['reached'], v['statements'], ', '.join(v['not_reached']) or '-'))
        o.write('\n')
    # hand-written classification of what stays unreached (docs/COVERAGE_NOTES.md, never overwritten by this script)
    notes = os.path.join(ROOT, 'docs', 'COVERAGE_NOTES.md')
    if os.path.exists(notes):
        o.write(open(notes).read())
print(json.dumps({p: r.get('percent', r.get('error')) for p, r in report.items() if p in sys.argv[2:]}))
