#!/usr/bin/env python3
"""Regenerate MANIFEST.json from the table below (kept in one place so it always validates)."""
import json, os
ROOT = os.path.dirname(os.path.dirname(os.path.abspath(__file__)))
props = [json.loads(l) for l in open(os.path.join(ROOT, 'properties.jsonl'))]

IR_NOTE = ('Trusted: Coq 8.16.1 kernel; extraction (ExtrOcamlBasic only); ocaml/driver_ir.ml; the Python harness '
           '(harness/ir_*.py); the hand-written model coq/theories/IR/{State,NS,Ops}.v is tied to /repo only through the '
           'correspondence run. Out of the model: arguments of the wrong Python class, non-string/non-ASCII names, '
           'vetoing third-party listeners. All theorems: Print Assumptions = Closed under the global context.')

CHECKS = {
 'C01': dict(engine='ir', technique='Coq proof (invariant by induction over op histories) + model/implementation correspondence',
   text='proof (full statement on the model): in every state reachable by any history of public editing calls (any arguments, accepted or refused) every container lists exactly the elements that name it as their parent, each once; a pin is on a wire\'s list exactly when it reports that wire, each once; reorder only permutes (Props/C01.v: C01_step - the invariant Inv is preserved by every op, every argument, every outcome and the model never gets stuck -, C01_reachable, C01_containers, C01_pins_and_wires, C01_reorder, C01_nonvacuous); and over histories that mix editing calls with completed Definition.clone, uniquify and flatten runs (C01_mixed_histories, Proofs/XHistory.v over the faithfulness theorem of Definition._clone). The model of all IR mutators is tied to the code by running the same random histories on spydrnet and on the extracted model and comparing full structural dumps after every call, plus the Inv1 oracle on the implementation.',
   design='DESIGN.md 5/C01, 10'),
 'C02': dict(engine='ir', technique='Coq proof (invariant by induction over op histories) + model/implementation correspondence',
   text='proof (full statement on the model): in every state reachable by any history of public editing calls (any arguments, accepted or refused) an instance referencing d is a member of d.references and of no other set, carries exactly one outer pin per inner pin its definition currently has (no duplicates), and no wire lists an outer pin the instance does not carry (Props/C02.v: C02_reachable, C02_step, C02_reference_sets, C02_outer_pins, C02_no_dropped_pin_on_wire; invariant Inv by induction over histories; C02_mixed_histories: also over histories with completed Definition.clone, uniquify and flatten runs). Re-pointing to a shape-compatible definition keeps every connection on the corresponding pin: C02_repoint_full (pin side) and C02_repoint_wires (every wire keeps its pins at the same positions with each outer pin replaced by its counterpart), Proofs/Repoint.v. Tied to the code by the correspondence run (instance pin maps and wires compared after every call) and the Inv2/MirrorPins oracles on the implementation.',
   design='DESIGN.md 5/C02, 10'),
 'C10': dict(engine='ir', technique='Coq proof (invariant by induction over op histories: namespace tables = children names; finite-map laws; identifier legality iff) + model/implementation correspondence of the namespace manager',
   text='proof (history invariant on the model): in every state reachable by any sequence of public editing calls (create/add/remove/re-add, rename, identifier set/delete/pop, name deletion, policy changes that rebuild or drop whole subtrees, accepted or refused), every table of the namespace manager is exactly the names - and under the EDIF policy the case-folded identifiers - of the children of its scope (Props/C10.v: C10_tables_exact by induction over histories with Inv, InvT (typing of containment), Fresh; C10_step). Corollaries for every reachable state: names unique per scope (C10_names_unique), identifiers unique up to letter case (C10_identifiers_unique), exact lookup = linear scan (C10_lookup_is_scan), a rename is refused for a conflict exactly when another present sibling carries the name (C10_refused_exactly). Legal form: the legality test = declarative EDIF identifier syntax (iff), and after any history an element carrying the EDIF policy stores only a legal identifier (C10_stored_identifiers_legal, Proofs/NsLegal.v). Clone, which writes private fields directly and re-applies the policy at the end: after a completed Definition.clone in any reachable state, for a definition carrying a policy, every table - old ones and the copy\'s - is again exact, with typing and containment kept so that the step invariant continues (C10_clone_definition_tables_exact; Proofs/CloneNs.v over CloneInv/CloneT/TabK: only the copy can have received a table, the copy carries the original\'s data, dropping then re-assigning the policy rebuilds its table from its children); clones of the other kinds of root are decided by the NsInv oracle on the implementation and the table correspondence (model tables compared with the manager\'s after every call).',
   design='DESIGN.md 5/C10, 10'),
 'C14': dict(engine='ir', technique='Coq proof (refused call returns the identical state) + model/implementation correspondence + frame oracle',
   text='proof (full statement on the model): in every state reachable from the empty world, any public editing call that is refused (precondition or naming rule; constructors, compound constructors create_*(name, pins/wires/reference), top_instance = definition and data deletions included) leaves every field of every object allocated before the call unchanged, and the naming policy (Props/C14.v: C14_full, by induction over histories with the invariants Inv, Fresh, FreshD; C14_full_inv from the invariants; C14_refused_changes_nothing: for non-allocating calls the state is identical, log included). Tied to the code by the correspondence run (refused-call variants of every op) and by the Frame oracle on the implementation (snapshot of all objects + lookup answers before/after each refused call, nothing refers to half-built objects).',
   design='DESIGN.md 5/C14, 10'),
 'C19': dict(engine='ir', technique='Coq proof (mirror theorem over all histories; no announcement for refused calls) + event-multiset correspondence + shadow-mirror oracle on the implementation',
   text='proof (mirror and no-phantom clauses on the model): for every history from the empty world, a listener (coq/theories/IR/Shadow.v: feed) that replays exactly the announcements of each call holds an exact mirror of containment, wire membership, instance references, top instances and element data (Props/C19.v: C19_mirror by induction over histories, C19_mirror_step for one call from the invariants Inv and Fresh - every public call, accepted or refused, including implicit disconnections of port/pin removal and reference = None and the re-keying of re-pointing); a refused non-allocating call appends nothing to the log (C19_no_phantom). Announcements carry no positions: containers and wires are mirrored as sets. Tied to the code by comparing the multiset of real announcements of every call with the model log and by a shadow listener on the implementation (with random partial listeners registered/removed). "Registering or removing listeners never changes what the API does" is checked on the implementation only.',
   design='DESIGN.md 5/C19, 10'),
}

XF_NOTE = ('Trusted: Coq 8.16.1 kernel; extraction (ExtrOcamlBasic only); ocaml/driver_xform.ml; harness/xform_check.py, elab.py, netgen.py, ir_world.py; '
           'the hand-written models coq/theories/Xform/{Clone,Xform}.v (+ IR/*.v) are tied to /repo only through the correspondence run. '
           'Netlists are the well-formed ones netgen builds; the module-level counters of uniquify.py/flatten.py are reset per case on both sides. '
           'All theorems: Closed under the global context.')
CHECKS.update({
 'C07': dict(engine='xform', note=XF_NOTE, technique='Coq proof (frame + closure of the three-phase clone of all eight kinds, for all reachable states) + correspondence of the clone model + identity/structure/independence oracle',
   text='proof (frame and closure clauses on the model, every kind of root): in every state reachable by editing calls, clone() of a netlist, library, definition, port, cable, wire, pin or instance changes no field of any object that existed before the call (kind, all containers and their order, parents, wire pins, pin wires, references, outer-pin tables, top, bundle attributes, data, namespace tables; reference sets are the documented exception) and every containment link of an object created by the call leads to an object created by the call (Props/C07.v: C07_frame_and_closure, C07_full; Proofs/CloneFrame.v carries an invariant CI through the three phases _clone / _clone_rip_and_replace / _clone_rip of all eight kinds; Proofs/CloneStart.v shows every reachable state is a legitimate start); and the copy made by Definition.clone is a well-formed structure: in every reachable state a completed Definition.clone keeps the containment invariant of C01 and the reference-set invariant of C02 for the whole store, old and new (C07_definition_clone_well_formed; Proofs/CloneInv.v, CloneRef.v, RefK.v), and in fact the whole structural invariant of C01/C02 - every wire of the copy lists exactly the copied pins that report it, the outer-pin table of every copied instance mirrors its definition - for the whole store (C07_definition_clone_keeps_invariant), through the faithfulness theorem of Definition._clone (C07_definition_clone_faithful: the memo is injective, each copied pin / wire / instance carries the image of the wire pointer / pin list / outer-pin table of its source, nothing else changes; Proofs/CloneMemo, CloneRR, CloneFaith, CloneInvP, CloneFull, with FieldT: fields are typed in every reachable state). Faithfulness of names, data and ordering, the other kinds of root, of the copy (same structure, names, connectivity) and independence under later edits are decided by the correspondence run (the Gallina clone model vs the real clone() on every element of random hierarchical netlists, full-state dumps) and by the Clone oracle on the implementation.',
   design='DESIGN.md 5/C07, 10'),
 'C08': dict(engine='xform', note=XF_NOTE, technique='Coq proof (every walked instance unique afterwards; whole structural invariant kept; idempotence) + correspondence of the uniquify model + union-find elaboration oracle',
   text='proof (uniqueness, well-formedness and idempotence clauses on the model; same-elaborated-design clause by oracle): in every reachable state whose top definition is referenced by the parentless top instance only, after a completed uniquify the walk finds every instance it meets unique - its definition a leaf or referenced by it alone - and a second run returns the state unchanged (C08_makes_unique, C08_idempotent; Proofs/UniqFull.v); in every state reachable by editing calls, with any counters and fuel, a uniquify run that completes keeps the containment invariant of C01 and the reference-set invariant of C02 through every Definition.clone, rename, add_definition and reference change (C08_keeps_well_formed; Proofs/UniqInv.v over CloneInv/CloneRef/RefK) - and the whole structural invariant Inv of C01/C02 incl. pin-wire links and outer-pin tables (C08_keeps_full_invariant; Proofs/CloneFull.v over the faithfulness of Definition._clone) - and on a design whose walked instances are all unique or leaves, uniquify returns the state unchanged (C08_unique_is_fixpoint). The full statement C08_full is kept as a Definition; on every run the model of uniquify (BFS, Definition.clone, add_definition at index+1, rename with the module counter, reference change) is compared with the implementation (full-state dumps incl. announcements) and an independent elaboration (instance tree, leaf types, endpoint partition by union-find) is compared before/after, plus uniqueness, well-formedness, fresh names, idempotence.',
   design='DESIGN.md 5/C08, 10'),
 'C09': dict(engine='xform', note=XF_NOTE, technique='Coq proof (no hierarchical instance remains; flatten preserves the C01/C02 invariants) + correspondence of the flatten model + elaboration oracle',
   text='proof (partial): flatten, modelled literally as a composition of the public IR calls, preserves the containment invariant and the reference-set invariant for any netlist, fuel and outcome except the stuck one, in fact the whole invariant Inv (C09_wellformed_preserved); and in every reachable state, after a completed flatten every instance left in the top definition references a leaf definition - no hierarchical instance remains (C09_no_hierarchy_left; Proofs/FlatLeaf.v: along the walk every child of the top definition is queued, leaf-referencing or scheduled for removal, and containers other than the top only lose members). The one-leaf-per-path, naming and connectivity clauses are decided by the oracle: on every run the flatten model is compared with the implementation (full-state dumps) and the independent elaboration before flatten is compared with a direct reading of the flattened top (leaf per leaf path, names, endpoint partition iff).',
   design='DESIGN.md 5/C09, 10'),
})

CHECKS.update({
 'C13': dict(engine='query', note='Trusted: Coq 8.16.1 kernel; extraction (ExtrOcamlBasic only); ocaml/driver_query.ml; harness/query_*.py. Candidate enumeration per function and root kind is NOT modelled and is covered only by the metamorphic oracle on the real query functions; regex model restricted to a fragment (literals, ., classes, concatenation, alternation, star, escapes), outside it only the oracle applies; values under a key are ASCII strings or absent. 6 open known findings (C13-K1..K6). All theorems: Closed under the global context.',
   technique='Coq proof over a Gallina model of the fnmatch fragment, a Brzozowski regex matcher with parser and the two filter-stage shapes + matcher-level and stage-level correspondence of the extracted model (multisets) + metamorphic oracle on the 13 real query functions',
   text='proof (refuted at full strength): for the model: matcher = declarative wildcard/regex semantics (sound and complete), absolute pattern => equality (justifies the fast lookup), case-insensitive match = match of lower-cased sides, re.escape(s) matches exactly s; filter stages = set-filter of the candidates, pattern-order invariant, fast lookup = scan under C10\'s invariant; NoDup for get_ports/get_cables/get_netlists, the hierarchical name stage and stage A. C13_full (incl. no element twice) is REFUTED (C13_refuted: duplicate yields in the name-map stage of get_instances/get_libraries/get_definitions), the witness is replayed on the implementation on every run and listed as open known finding with 5 more.',
   design='DESIGN.md 5/C13, 10'),
 'C17': dict(engine='names', note='Trusted: Coq 8.16.1 kernel; extraction (ExtrOcamlBasic only); ocaml/driver_names.ml; harness/names_*.py. ASCII names only (str.isalpha/isalnum are Unicode-aware); the per-wire net identifiers of multi-wire cables, _topological_sort and the output routines are covered by the end-to-end oracle (compose, independent s-expression reading, sdn.parse) only. 8 open known finding classes. All theorems: Closed under the global context.',
   technique='Coq proof over a Gallina model of EdififyNames and _add_rename_property + differential correspondence of the extracted model (exhaustive short names, random 1..300-character names) + end-to-end compose/parse oracle',
   text='proof (refuted at full strength by length only: C17_refuted, a 256-character identifier is produced; proved for every scope of sibling names: C17_all_but_length = termination with fuel 2*siblings+2 (pigeonhole), completion, legal characters, rename flag iff identifier differs, pairwise distinctness after lower-casing and distinctness from sibling names; full conclusion when nothing is truncated: C17_partial; legality iff "not _-initial and short enough": C17_legal_iff).',
   design='DESIGN.md 5/C17, 10'),
})
ENGINES_EXTRA = [
 {'name': 'query', 'path': 'coq/theories/Query + ocaml/driver_query.ml + harness/query_*.py', 'serves_properties': ['C13'],
  'kind_free_text': 'Gallina model of the pattern matcher (fnmatch fragment, regex fragment) and of the filter stages shared by the get_* functions; matcher- and stage-level differential runs; metamorphic oracle on the real functions'},
 {'name': 'names', 'path': 'coq/theories/Names + ocaml/driver_names.ml + harness/names_*.py', 'serves_properties': ['C17'],
  'kind_free_text': 'Gallina model of EDIF identifier assignment (make_valid and the per-scope sequential assignment); differential run; end-to-end compose/parse oracle'},
]

CHECKS.update({
 'C15': dict(engine='policy', note='Trusted: Coq 8.16.1 kernel; the model Fmt/Policy.v covers ONLY the policy save/restore wrapper of the three readers (bodies are arbitrary computations in the theorems). Termination of the real recursive-descent loops and "nothing half-built is handed back" are runtime residue: checked on the implementation by harness/policy_check.py (all single truncations/deletions/duplications and dangling references of small files of the three formats + random corruptions of bundled examples, SIGALRM timeout, well-formedness checks), not proved. All theorems: Closed under the global context.',
   technique='Coq proof (policy restored by the parse wrappers for any body and outcome, any session) + corruption stream on the real readers with timeout, policy and well-formedness oracles',
   text='proof (partial, by nature): the naming policy after a parse call equals the policy before it for every reader body, input and outcome, hence after any session of parses; an EDIF/Verilog parse behaves independently of the policy earlier calls left (Props/C15.v). The remaining clauses (every reader terminates, returns a well-formed netlist or raises, undeclared EDIF references are rejected, a probe script behaves as in a fresh process) are decided on the implementation by exhaustive single-token corruption of small files and random corruption of bundled examples; the model\'s answer "policy restored" is compared with namespace_manager.default after every call.',
   design='DESIGN.md 5/C15, 10'),
})
ENGINES_EXTRA.append({'name': 'policy', 'path': 'coq/theories/Fmt/Policy.v + harness/policy_check.py', 'serves_properties': ['C15'],
  'kind_free_text': 'model of the readers\' policy save/restore wrapper; corruption stream against the three real readers'})

CHECKS.update({
 'C04': dict(engine='verilog', note='Trusted: Coq 8.16.1 kernel; extraction (ExtrOcamlBasic only); ocaml/driver_verilog.ml; harness/verilog_*.py (independent generator and writer, canonical dump, WF checker). Tokenisation and the document level (module table, header aliases, parameters, attributes, options) are NOT modelled: the whole-pipeline statement C04_full is a Definition decided by the oracle on the implementation only. Open known findings V04-*. All theorems: Closed under the global context.',
   technique='Coq proof about Gallina models of the reader/writer index mechanisms, run against the real helper methods (extracted model) + round-trip oracle on the implementation (independent generator/writer, bundled files, uniquify/flatten/clone, composer options)',
   text='proof (mechanisms; refuted clause): for all ranges and wire lists: slice written/read inverse, [msb:lsb] declaration inverse, _write_concatenation pieces expand back to the original wire list, low-end alignment, one instance port incl. the slice-or-concatenation decision, single-bit assign (Props/C04.v). The multi-bit assign clause is REFUTED in the faithful model (C04_assign_clause_refuted: the writer raises) and replayed on the implementation as open known finding. C04_full (whole pipeline) is not proved; it is checked by the bit-level round-trip oracle.',
   design='DESIGN.md 5/C04, 10'),
 'C06': dict(engine='verilog', note='Trusted: as C04. The reader picks references[0] from a Python set (modelled as nondeterminism). Bundled files are checked for acceptance, well-formedness and top = unique root only. Open known findings V06-*.',
   technique='Coq proof about Gallina models of the reader mechanisms (expression denotation, port map alignment, bundle growth/re-basing, top election) run against the real helper methods + oracle: abstract designs rendered by an independent writer vs the parsed netlist',
   text='proof (mechanisms; refuted clauses): the connection clause for every expression shape and port width (C06_expr_denote, C06_port_map_denote: bit k of the expression joins pin k and nothing else), bundle growth and re-basing laws for all ranges and call sequences (C06_grow_rebase_correct, C06_rebase_shift). The top-election and assign-pin clauses are REFUTED in the faithful model (C06_top_clause_refuted, C06_assign_clause_refuted), witnesses replayed on the implementation as open known findings. C06_full is not proved; it is checked by the oracle.',
   design='DESIGN.md 5/C06, 10'),
 'C11': dict(engine='hier', note='Trusted: Coq 8.16.1 kernel; extraction; ocaml/driver_hier.ml (memoises the state maps); harness/hier_*.py. hrefs_of_item, is_unique, name and non-netlist roots are covered by correspondence and the independent path-enumeration oracle only (C11_*_full Definitions). Flyweight identity (same path => same object, equal hash) is runtime behaviour, checked on the implementation with `is` and hash. One open known finding (instance without reference).',
   technique='Coq proof about a Gallina model of the HRef kernels (paths as id lists over the IR heap model) + extracted-model correspondence + independent recursive path-enumeration oracle',
   text='proof: for every well-formed acyclic heap the recursive/non-recursive netlist enumerations of instances, ports, pins, cables and wires return exactly the occurrences, each once, and terminate with fuel next s + 1 (pigeonhole); is_valid decides the reference relation in ANY heap and equals the path relation after any edit history (C11_is_valid_after_any_history, using the C01/C02 invariants).',
   design='DESIGN.md 5/C11, 10'),
 'C12': dict(engine='hier', note='Trusted: as C11. Port and cable starts and get_hcables are by correspondence and the union-find oracle only (C12_full is a Definition). The hypotheses (C01/C02 invariants, local pin-wire links, acyclicity) are evaluated as booleans on every generated netlist on both sides.',
   technique='Coq proof (generic work-list closure theorem instantiated to the tracing kernels) + extracted-model correspondence + independent union-find elaboration oracle',
   text='proof: get_hwires(selection=ALL) from any wire or pin occurrence returns exactly its class under the connectivity relation conn (least equivalence over port-boundary crossings), hence members of a net agree (C12_all, C12_symmetric, C12_all_from_pin); INSIDE/OUTSIDE from a pin return exactly the wire on that side (a pin of the top has none outside); get_hpins(hwire) returns exactly the attached pin occurrences; the generic closure is correct for fuel >= start size + pin slots of the universe.',
   design='DESIGN.md 5/C12, 10'),
 'C20': dict(engine='cmp', note='Trusted: Coq 8.16.1 kernel; extraction; ocaml/driver_cmp.ml; harness/cmp_*.py. Names are str or None, property values str/int/bool/None; netlists are assumed to satisfy the C01/C02 invariants and name lookup = scan (C10). Domain hypotheses wf_named and no_asg are explicit and shown necessary by refutation lemmas. 9 open known findings.',
   technique='Coq proof on a Gallina model of Comparer (statement by statement) + differential run of the extracted model vs the real Comparer on (netlist, copy, single mutation) pairs + model-independent oracle + kernel re-evaluation of the witnesses',
   text='proof (refuted at full strength): accepts every well-formed named netlist against itself (C20_accepts); rejects with AssertionError each of 19 single-difference classes (direction, width, array-ness, cable width, connection moved to another instance/port/bit, reference, property, add/drop of library/definition/port/cable/instance) for named netlists without assignment-style instance names (C20_rejects_*); C20_full is REFUTED (extra properties on the copy, assignment instances, unnamed elements) with witnesses replayed on the implementation as open known findings.',
   design='DESIGN.md 5/C20, 10'),
})
ENGINES_EXTRA += [
 {'name': 'verilog', 'path': 'coq/theories/Fmt/V*.v + ocaml/driver_verilog.ml + harness/verilog_*.py', 'serves_properties': ['C04', 'C06'], 'kind_free_text': 'index/expression/growth/top-election mechanisms of the Verilog reader and writer; mechanism-level differential run; design-level oracles'},
 {'name': 'hier', 'path': 'coq/theories/Hier + ocaml/driver_hier.ml + harness/hier_*.py', 'serves_properties': ['C11', 'C12'], 'kind_free_text': 'hierarchical references and tracing kernels over the IR heap model; differential run on netgen netlists; path-enumeration and union-find oracles'},
 {'name': 'cmp', 'path': 'coq/theories/Cmp + ocaml/driver_cmp.ml + harness/cmp_*.py', 'serves_properties': ['C20'], 'kind_free_text': 'model of compare_netlists.Comparer on pure netlist values; differential run on (netlist, copy, mutation) pairs'},
]

CHECKS.update({
 'C03': dict(engine='edif', note='Trusted: Coq 8.16.1 kernel; extraction; ocaml/driver_edif.ml; harness/edif_*.py (independent EDIF writer, s-expression reader and elaborator). The models cover six mechanisms, the one-cable pipeline and the net loop of one cell; library/cell/instance/port parsing, reference resolution, EdififyNames and rename bookkeeping are tied to the code only by the whole-file oracle (C03_full is a Definition). 8 open known findings. Names containing * or ? are outside the net-loop model.',
   technique='Coq proof of the write/read mechanisms and of the one-cable / one-cell-nets pipeline + correspondence of the extracted models with the real functions called directly + whole-file round-trip oracle on generated netlists and all bundled files',
   text='proof (mechanisms; refuted clauses): toposort (permutation, dependencies first, termination on acyclic input, fixpoint), decimal and bit-name inverse with exact side conditions, multibit assembly for any order and any subset of bits, member-index inverse, print/tokenize/read inverse, one-cable and one-cell net round trip (Props/C03.v, 28 obligations). REFUTED inside the quantifier with witnesses replayed on the implementation: buses whose identifier starts with &_ and scalars named like a bus bit. The whole-file statement C03_full is decided by the oracle only.',
   design='DESIGN.md 5/C03, 10'),
 'C05': dict(engine='edif', note='Trusted: as C03. 12 open known-finding entries (4 of them bundled example files).',
   technique='Coq proof of the reader mechanisms + correspondence of the extracted models with the real reader functions + oracle: abstract designs rendered by an independent writer, elaborated independently, vs the parsed netlist',
   text='proof (mechanisms; refuted clause): tokenizer/reader inverse and non-empty tokens, exact recognition of bit names, multibit assembly for any order/subset, bus read = assemble, member read (Props/C05.v, 19 obligations). REFUTED: a second net for the bit equal to the current lower index is prepended (C05_refuted_duplicate_lower_bit; bundled float_demo.edf). C05_full is decided by the oracle only.',
   design='DESIGN.md 5/C05, 10'),
 'C16': dict(engine='purity', note='Trusted: Coq 8.16.1 kernel; harness/purity_check.py (identity-level snapshots through the read API + _data/_pins). The theorems cover the EDIF pre-pass only (reorder + identifier recording); for Verilog/EBLIF there is no pre-pass to model, and "the netlist is unchanged / output repeatable / file complete and closed" are decided on the implementation (runtime residue for the file handle).',
   technique='Coq proof (EDIF pre-pass: sorted permutation, fixpoint, identifier pass idempotent and never touching existing identifiers) + identity-level before/after snapshots and byte comparison of repeated outputs on the implementation, all formats and options',
   text='proof (partial): the EDIF writer\'s reorder is a dependency-respecting permutation and the identity on an ordered list; identifier recording keeps names, never touches an element that has an identifier and is idempotent (Props/C16.v). On the implementation: every reachable object is snapshotted before and after compose in each format/option setting, only the documented EDIF side effects are accepted, repeated composition (immediately and after queries) must give the same bytes modulo timestamp, and a directly used Verilog Composer must have closed its file.',
   design='DESIGN.md 5/C16, 10'),
})
ENGINES_EXTRA += [
 {'name': 'edif', 'path': 'coq/theories/Fmt/Edif*.v + ocaml/driver_edif.ml + harness/edif_*.py', 'serves_properties': ['C03', 'C05'], 'kind_free_text': 'EDIF writer/reader mechanisms (toposort, bit names, multibit assembly, member index, tokenizer/printer, net loop of one cell); mechanism-level differential run; whole-file oracles'},
 {'name': 'purity', 'path': 'coq/theories/Proofs/PurityProofs.v + harness/purity_check.py', 'serves_properties': ['C16'], 'kind_free_text': 'idempotence of the EDIF pre-pass; before/after snapshots of compose in the three formats'},
]

CHECKS.update({
 'C18': dict(engine='eblif', note='Trusted: Coq 8.16.1 kernel; extraction (ExtrOcamlBasic only); ocaml/driver_eblif.ml; harness/eblif_*.py (tokeniser mimic, independent writer/expectation, three oracles). Modelled by hand: the EBLIF line reader (classify/mode machine/exec/finish) and the composer on ASCII texts, names without * or ?, bit indices of 1-3 digits; statements that make the reader resynchronise mid-line give model outcome "outside" and are not compared. Connectivity, library and direction clauses and the round trip are decided by correspondence and the design/round-trip oracles only. 13 open known findings.',
   technique='Coq proof over a hand-written model of the EBLIF reader and writer (well-formedness of every accepted document; instance clause for the supported subset; round-trip statement refuted by computed witness) + correspondence of the extracted model with the real parser/composer on generated, damaged and bundled files + independent design and round-trip oracles',
   text='proof (partial; one clause refuted): every netlist the EBLIF reader model returns is well-formed and self-contained, for all documents (C18_wf); for the supported subset the instances, definitions and instance data are exactly the statements, in order (C18_sound_instances); the unrestricted round-trip statement is refuted by a computed witness replayed on the implementation (C18_roundtrip_refuted). Connectivity/.conn, library and direction clauses: correspondence + oracles only.',
   design='DESIGN.md 5/C18, 10'),
})
ENGINES_EXTRA += [
 {'name': 'eblif', 'path': 'coq/theories/Fmt/Blif*.v + coq/theories/Proofs/Blif*.v + ocaml/driver_eblif.ml + harness/eblif_*.py', 'serves_properties': ['C18'], 'kind_free_text': 'Gallina model of the EBLIF line reader and composer; differential run on generated/damaged/bundled texts; design, well-formedness and round-trip oracles'},
]

ENGINES = [
 {'name': 'ir', 'path': 'coq/theories/IR + ocaml/driver_ir.ml + harness/ir_*.py', 'serves_properties': ['C01', 'C02', 'C10', 'C14', 'C19'],
  'kind_free_text': 'Gallina model of all public IR mutators and of the namespace manager, extracted to OCaml; differential run against the real spydrnet with canonical dumps after every call'},
 {'name': 'xform', 'path': 'coq/theories/Xform + ocaml/driver_xform.ml + harness/xform_check.py', 'serves_properties': ['C07', 'C08', 'C09'],
  'kind_free_text': 'Gallina model of clone (all kinds), uniquify and flatten on top of the IR model; differential run on hierarchical netlists; identity/structure/elaboration oracles'},
]
ENGINES += ENGINES_EXTRA

checks = []
for p in props:
    pid = p['id']
    if pid not in CHECKS:
        continue
    c = CHECKS[pid]
    checks.append({
        'property_id': pid,
        'quick_cmd': 'checks/run %s --tier quick' % pid,
        'thorough_cmd': 'checks/run %s --tier thorough' % pid,
        'evidence_file': '/verif/evidence/%s.json' % pid,
        'replay_cmd_template': 'checks/run %s --replay {path}' % pid,
        'engine': c['engine'],
        'level_claimed': {'category': 'proof', 'text': c['text'], 'design_ref': c['design']},
        'level_note': c.get('note', IR_NOTE),
        'technique': c['technique'],
    })

m = {
 'version': 1,
 'setup_cmd': 'tools/build.sh --clean',
 'hooks': {'guard': 'SPYDRNET_VERIF',
           'enable': 'no source hooks are needed: the harness observes the implementation from outside (constructors wrapped inside the harness process); the guard is unused',
           'baseline_off_cmd': 'python3 /verif/tools/baseline_check.py', 'source_commits': [], 'add_only': True},
 'engines': ENGINES,
 'checks': checks,
 'notes': 'Machine-checked proof in Coq 8.16.1 + correspondence check; see DESIGN.md. Fix commits in /repo are listed in known_findings.json.',
 'not_applicable': [{'property_id': p['id'], 'reason': 'check not built yet in this round (work in progress; DESIGN.md section 9 gives the order of work)'}
                    for p in props if p['id'] not in CHECKS],
}
json.dump(m, open(os.path.join(ROOT, 'MANIFEST.json'), 'w'), indent=1)
print('checks:', [c['property_id'] for c in checks])
