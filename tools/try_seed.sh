#!/bin/bash
# tools/try_seed.sh <worktree> <patch.diff> <prop> [<prop>...] : apply a seeded change in a scratch
# worktree, run the named checks against that tree (VERIF_REPO), undo the change.
wt=$1; patch=$2; shift 2
git -C "$wt" checkout -q -- . || exit 2
git -C "$wt" apply "$patch" || { echo "patch does not apply"; exit 2; }
for p in "$@"; do
  out=$(VERIF_REPO="$wt" /verif/checks/run "$p" 2>&1)
  rc=$?
  echo "== $p exit=$rc $(echo "$out" | grep -c '^VIOLATION') violation lines; $(echo "$out" | tail -1)"
  echo "$out" | grep '^VIOLATION' | head -2
done
git -C "$wt" checkout -q -- .
