#!/bin/bash
# tools/coverage_run.sh [prop...]: which lines of the files a property is anchored in does the quick tier of its check
# reach?  Runs each check once with line coverage of /repo/spydrnet switched on inside the harness process
# (VERIF_COVERAGE_DIR, harness/common.py), then writes docs/coverage_quick.json and docs/COVERAGE.md. A measuring aid for
# the generators (an anchored function no case reaches cannot disagree with its model); not part of any registered command.
cd "$(dirname "$0")/.."
props=${@:-C01 C02 C03 C04 C05 C06 C07 C08 C09 C10 C11 C12 C13 C14 C15 C16 C17 C18 C19 C20}
out=/tmp/verif_cov; rm -rf $out; mkdir -p $out
printf '%s\n' $props | xargs -P 5 -I{} sh -c "VERIF_COVERAGE_DIR=$out/{} checks/run {} --tier quick > $out/{}.log 2>&1; echo {} exit=\$? \$(tail -1 $out/{}.log | cut -c1-120)"
/venv/bin/python tools/coverage_report.py $out $props
rm -rf $out
