#!/bin/bash
# tools/run_all.sh [tier]: every registered check once on /repo; prints exit code and last line of each
tier=${1:-quick}
cd "$(dirname "$0")/.."
for p in C01 C02 C03 C04 C05 C06 C07 C08 C09 C10 C11 C12 C13 C14 C15 C16 C17 C18 C19 C20; do
  out=$(checks/run $p --tier $tier 2>&1); rc=$?
  echo "$p exit=$rc viol=$(echo "$out" | grep -c '^VIOLATION') known=$(echo "$out" | grep -c '^KNOWN-FINDING') | $(echo "$out" | tail -1 | cut -c1-200)"
done
