#!/usr/bin/env python3
"""tools/confirm_seeds.py <prop> [...]: for every /tmp/seed/<prop>/out/<k>: confirm in the scratch worktree
that the patch applies, the pinned suite still passes (BASELINE stable_pass), demo.py exits 1 with and 0 without
the change; run the named check(s) against the patched tree; store under /verif/seeded/<prop>-<k>/."""
import json, os, shutil, subprocess, sys, tempfile, xml.etree.ElementTree as ET
BASE = json.load(open('/root/.vp/BASELINE.json'))
EXTRA = {'C01': ['C14'], 'C02': ['C01'], 'C10': ['C14'], 'C14': ['C01', 'C02', 'C10'], 'C19': ['C14'], 'C07': [], 'C08': ['C02'], 'C09': [], 'C03': ['C17'], 'C18': ['C15']}


def suite(wt):
    out = tempfile.mktemp(suffix='.xml')
    env = dict(os.environ, PYTHONPATH=wt, EXAMPLE_NETLISTS_PATH=wt + '/example_netlists')
    cmd = 'cd %s && /venv/bin/python -m pytest -ra -q -p no:cacheprovider --timeout=900 --continue-on-collection-errors --junitxml=%s' % (wt, out)
    subprocess.run(cmd, shell=True, env=env, stdout=subprocess.DEVNULL, stderr=subprocess.DEVNULL)
    passed = set()
    for tc in ET.parse(out).getroot().iter('testcase'):
        if not any(ch.tag in ('failure', 'error', 'skipped') for ch in tc):
            passed.add(tc.get('classname') + '::' + tc.get('name'))
    os.remove(out)
    return [t for t in BASE['stable_pass'] if t not in passed]


def demo(wt, path):
    env = dict(os.environ, PYTHONPATH=wt, EXAMPLE_NETLISTS_PATH=wt + '/example_netlists')
    r = subprocess.run(['/venv/bin/python', path], env=env, capture_output=True, text=True, cwd=tempfile.gettempdir())
    return r.returncode, (r.stdout + r.stderr)[-300:]


def check(wt, prop):
    r = subprocess.run([os.environ.get('VERIF_ROOT', '/verif') + '/checks/run', prop], env=dict(os.environ, VERIF_REPO=wt), capture_output=True, text=True)
    lines = [l for l in r.stdout.split('\n') if l.startswith('VIOLATION')]
    return r.returncode, len(lines), sum(1 for l in lines if l.endswith('no-failing-input-found')), r.stdout.strip().split('\n')[-1]


for prop in sys.argv[1:]:
    wt = os.environ.get('SEED_BASE', '/tmp/seed') + '/' + prop
    head = subprocess.run(['git', '-C', '/repo', 'rev-parse', 'HEAD'], capture_output=True, text=True).stdout.strip()
    subprocess.run(['git', '-C', wt, 'checkout', '-q', '--', '.'])
    subprocess.run(['git', '-C', wt, 'checkout', '-q', '--detach', head])
    for k in sorted(os.listdir(wt + '/out')):
        d = '%s/out/%s' % (wt, k)
        if not os.path.exists(d + '/patch.diff'):
            continue
        rec = {'property': prop, 'seed': k, 'repo_head': head}
        rec['demo_without'] = demo(wt, d + '/demo.py')[0]
        ap = subprocess.run(['git', '-C', wt, 'apply', d + '/patch.diff'], capture_output=True, text=True)
        rec['applies'] = ap.returncode == 0
        if not rec['applies']:
            print(prop, k, 'PATCH DOES NOT APPLY', ap.stderr[:200]); continue
        rec['demo_with'] = demo(wt, d + '/demo.py')[0]
        rec['suite_not_passing'] = suite(wt)
        rec['checks'] = {}
        for p in [prop] + EXTRA.get(prop, []):
            rc, nv, nnf, last = check(wt, p)
            rec['checks'][p] = {'exit': rc, 'violation_lines': nv, 'no_failing_input_found': nnf, 'summary': last}
        subprocess.run(['git', '-C', wt, 'checkout', '-q', '--', '.'])
        ok = rec['demo_without'] == 0 and rec['demo_with'] == 1 and not rec['suite_not_passing']
        rec['confirmed'] = ok
        rec['caught_by'] = [p for p, v in rec['checks'].items() if v['exit'] == 1]
        dst = '/verif/seeded/%s-%s%s' % (prop, os.environ.get('SEED_TAG', ''), k)
        os.makedirs(dst, exist_ok=True)
        shutil.copy(d + '/patch.diff', dst + '/patch.diff')
        shutil.copy(d + '/demo.py', dst + '/demo.py')
        meta = {}
        if os.path.exists(d + '/meta.json'):
            try:
                meta = json.load(open(d + '/meta.json'))
            except Exception:
                meta = {'raw': open(d + '/meta.json').read()}
        meta['verification'] = rec
        meta['what_i_ran'] = ['git apply in a scratch worktree of /repo at %s' % head[:7], 'pinned suite (BASELINE.json cmd) with PYTHONPATH=<worktree>',
                              'demo.py with and without the change', 'VERIF_REPO=<worktree> checks/run <prop> for: ' + ', '.join(rec['checks'])]
        json.dump(meta, open(dst + '/meta.json', 'w'), indent=1)
        print(prop, k, 'confirmed' if ok else 'NOT CONFIRMED', 'demo', rec['demo_without'], rec['demo_with'], 'suite-missing', len(rec['suite_not_passing']), 'caught_by', rec['caught_by'])
