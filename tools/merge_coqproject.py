#!/usr/bin/env python3
"""tools/merge_coqproject.py <worker _CoqProject>: insert the lines a worker copy added into /verif/coq/_CoqProject,
each after the nearest preceding line (in the worker's order) that the target already has."""
import sys
src = [l.rstrip('\n') for l in open(sys.argv[1])]
dstp = '/verif/coq/_CoqProject'
dst = [l.rstrip('\n') for l in open(dstp)]
added = []
for i, l in enumerate(src):
    if l and l not in dst:
        j = i - 1
        while j >= 0 and src[j] not in dst:
            j -= 1
        pos = dst.index(src[j]) + 1 if j >= 0 else 0
        dst.insert(pos, l)
        added.append(l)
open(dstp, 'w').write('\n'.join(dst) + '\n')
print('added', added)
