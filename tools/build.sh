#!/bin/bash
# Build everything from files on disk: full .vo build of the Coq development (checks every proof),
# extraction, OCaml drivers. Usage: tools/build.sh [--clean]
set -e
cd "$(dirname "$0")/.."
ROOT=$(pwd)
if [ "$1" = "--clean" ]; then
  (cd coq && [ -f Makefile ] && make clean >/dev/null 2>&1 || true)
  rm -rf coq/Makefile coq/Makefile.conf coq/.*.aux coq/*.ml coq/*.mli ocaml/_build
fi
cd "$ROOT/coq"
# one build at a time: checks started in parallel after a source change would otherwise run make in the same directory
exec 9>"$ROOT/coq/.build.lock"; flock 9
# fail closed on forbidden constructs anywhere in the development
if grep -rnE '\b(Admitted|admit|Axiom|Parameter|Conjecture|Unset Guard|bypass_check|Admit Obligations|native_compute)\b' theories --include=*.v | grep -v '^\S*:\s*[0-9]*:\s*(\*' ; then
  echo "forbidden construct in Coq sources" >&2; exit 2
fi
coq_makefile -f _CoqProject -o Makefile >/dev/null
mk=0; timeout 3000 make -j16 > .build.log 2>&1 || mk=$?
grep -v '^COQ\|^make\[' .build.log || true
[ $mk -eq 0 ] || { echo "BUILD FAILED: make exited $mk" >&2; exit 2; }
# belt and braces: all .vo exist and are newer than their source
for v in $(grep '\.v$' _CoqProject); do
  [ -f "${v}o" ] || { echo "BUILD FAILED: ${v}o missing" >&2; exit 2; }
  [ "${v}o" -nt "$v" ] || { echo "BUILD FAILED: ${v}o stale" >&2; exit 2; }
done
mkdir -p "$ROOT/ocaml/_build"
cd "$ROOT/ocaml/_build"
for f in "$ROOT"/coq/*.ml "$ROOT"/coq/*.mli; do
  [ -f "$f" ] && { cmp -s "$f" "$(basename "$f")" || cp "$f" .; }
done
# each driver names the extracted module it drives in its first line:  (* MODEL: <name> *)
for d in "$ROOT"/ocaml/driver_*.ml; do
  name=$(basename "$d" .ml)
  model=$(head -1 "$d" | sed -n 's/.*MODEL: *\([A-Za-z0-9_]*\).*/\1/p')
  [ -n "$model" ] || model=model
  # drivers of engines that are not integrated yet (their extraction is not in _CoqProject) are skipped
  [ -f "$model.ml" ] || { echo "skip $name (no $model.ml)"; continue; }
  if [ ! -x "$name" ] || [ "$d" -nt "$name" ] || [ "$model.ml" -nt "$name" ]; then
    cp "$d" .
    ocamlfind ocamlopt -O2 -w -a "$model.mli" "$model.ml" "$name.ml" -o "$name" 2>/dev/null \
      || ocamlfind ocamlopt -w -a "$model.mli" "$model.ml" "$name.ml" -o "$name" \
      || { echo "BUILD FAILED: $name" >&2; exit 2; }
  fi
done
echo "build ok"
