#!/usr/bin/env python3
"""Run the repository's pinned suite (guard off) and compare with /root/.vp/BASELINE.json stable_pass."""
import json, os, subprocess, sys, tempfile, xml.etree.ElementTree as ET
base = json.load(open('/root/.vp/BASELINE.json'))
out = tempfile.mktemp(suffix='.xml')
env = dict(os.environ); env.pop('SPYDRNET_VERIF', None)
cmd = base['cmd'].replace('<file>', out)
subprocess.run(cmd, shell=True, env=env, stdout=subprocess.DEVNULL, stderr=subprocess.DEVNULL)
passed = set()
for tc in ET.parse(out).getroot().iter('testcase'):
    bad = any(ch.tag in ('failure', 'error', 'skipped') for ch in tc)
    if not bad:
        passed.add(tc.get('classname') + '::' + tc.get('name'))
os.remove(out)
missing = [t for t in base['stable_pass'] if t not in passed]
print('stable_pass expected', len(base['stable_pass']), 'passing now', len(base['stable_pass']) - len(missing))
for t in missing: print('NOT PASSING:', t)
sys.exit(1 if missing else 0)
