#!/bin/bash
# tools/run_some.sh <tier> <prop>...: the named checks once on /repo; prints exit code and last line of each
tier=$1; shift
cd "$(dirname "$0")/.."
for p in "$@"; do
  out=$(checks/run $p --tier $tier 2>&1); rc=$?
  echo "$p exit=$rc viol=$(echo "$out" | grep -c '^VIOLATION') known=$(echo "$out" | grep -c '^KNOWN-FINDING') | $(echo "$out" | tail -1 | cut -c1-200)"
  echo "$out" | grep '^VIOLATION' | head -3
done
