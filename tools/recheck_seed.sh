#!/bin/bash
# tools/recheck_seed.sh <seed dir name under /verif/seeded> <prop> [<prop>...]: apply a stored seeded change in a fresh
# scratch worktree of /repo, run the named checks against it (VERIF_REPO), remove the worktree.
name=$1; shift
wt=/tmp/verif_recheck_$$
git -C /repo worktree add --detach -q "$wt" HEAD || exit 2
git -C "$wt" apply "/verif/seeded/$name/patch.diff" || { echo "patch does not apply"; git -C /repo worktree remove --force "$wt"; exit 2; }
for p in "$@"; do
  out=$(VERIF_REPO="$wt" "$(dirname "$0")/../checks/run" "$p" 2>&1); rc=$?
  echo "== $name $p exit=$rc violations=$(echo "$out" | grep -c '^VIOLATION') | $(echo "$out" | tail -1 | cut -c1-160)"
done
git -C /repo worktree remove --force "$wt"
