#!/usr/bin/env python3
"""tools/merge_findings.py: resolve a merge conflict in known_findings.json entry by entry (git stages 1/2/3):
open findings = ours minus what theirs closed plus what theirs opened (theirs' text where theirs changed an entry);
fixed = ours plus what theirs added."""
import json, subprocess
def stage(k):
    return json.loads(subprocess.run(['git', 'show', ':%d:known_findings.json' % k], capture_output=True, text=True, check=True).stdout)
base, ours, theirs = stage(1), stage(2), stage(3)
def key(e):
    return e.get('id') or json.dumps(e, sort_keys=True)
def fkey(e):
    return e if isinstance(e, str) else json.dumps(e, sort_keys=True)
b = {key(e): e for e in base['findings']}
t = {key(e): e for e in theirs['findings']}
out = []
for e in ours['findings']:
    k = key(e)
    if k in b and k not in t:
        continue                       # closed by theirs
    if k in t and k in b and t[k] != b[k]:
        e = t[k]                       # changed by theirs
    out.append(e)
have = {key(e) for e in out}
for k, e in t.items():
    if k not in b and k not in have:
        out.append(e)                  # opened by theirs
fixed = list(ours['fixed'])
seen = {fkey(e) for e in fixed}
bf = {fkey(e) for e in base['fixed']}
for e in theirs['fixed']:
    if fkey(e) not in bf and fkey(e) not in seen:
        fixed.append(e)
res = dict(ours); res['findings'] = out; res['fixed'] = fixed
json.dump(res, open('known_findings.json', 'w'), indent=1, ensure_ascii=False)
open('known_findings.json', 'a').write('\n')
print('open', len(out), 'fixed', len(fixed))
