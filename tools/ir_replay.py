#!/usr/bin/env python3
"""tools/ir_replay.py <file.ops> : run an op history on implementation and model, print outcomes"""
import os, sys
sys.path.insert(0, os.path.join(os.path.dirname(os.path.dirname(os.path.abspath(__file__))), 'harness'))
import common
common.ensure_impl_python()
import ir_run, ir_oracles
ops = [l.split(' ') for l in open(sys.argv[1]).read().split('\n') if l.strip() and not l.startswith('#')]
d, f = ir_run.run_history_impl(ops, [('inv1', ir_oracles.inv1), ('inv2', ir_oracles.inv2), ('ns', ir_oracles.ns_inv)])
m = ir_run.run_model([ops])[0]
for j, (a, b) in enumerate(zip(d, m)):
    print(j, ' '.join(ops[j])[:60], '| impl', a.split(' | ')[0], '| model', b.split(' | ')[0], '| same' if a == b else '| DIFF ' + str(ir_run.first_diff(a, b)))
print('oracle failures:', f)
