"""Stand-alone reproducers of the spydrnet EDIF defects found by the edif engine (C03/C05).
Run: cd /tmp && PYTHONPATH=/repo /venv/bin/python /verif/corpus/edif/repro_edif_defects.py"""
import os, tempfile, spydrnet as sdn
def rt(n):
    d = tempfile.mkdtemp(); p = os.path.join(d, 'o.edf'); sdn.compose(n, p); return sdn.parse(p)
def base(**kw):
    n = sdn.Netlist(name='n'); lib = n.create_library(name='work'); leaf = lib.create_definition(name='leaf')
    lp = leaf.create_port(name='d', direction=kw.get('direction', sdn.OUT)); lp.create_pins(kw.get('pw', 2))
    if kw.get('parray'): lp.is_array = True
    top = lib.create_definition(name='t'); u = top.create_child(name='u', reference=leaf)
    c = top.create_cable(name=kw.get('cname', 'x')); c.create_wires(kw.get('cw', 2))
    for w, pin in zip(c.wires, lp.pins): w.connect_pin(u.pins[pin])
    n.top_instance = sdn.Instance(name='top'); n.top_instance.reference = top
    return n, u, top
def show(n): return [(c.name, c.lower_index, len(c.wires), c.is_array) for c in n.libraries[0].definitions[-1].cables]
for label, f in [
  ('K1 undefined direction (REPAIRED: no exception, the port comes back UNDEFINED)', lambda: rt(base(direction=sdn.UNDEFINED)[0])),
  ('K2 one-pin array port (REPAIRED: prints [True])', lambda: [p.is_array for p in rt(base(pw=1, cw=1, parray=True)[0]).libraries[0].definitions[0].ports]),
  ('K3 float property (REPAIRED: no exception, written (number (e 1 3)))', lambda: (lambda b: (b[1].__setitem__('EDIF.properties', [{'identifier': 'D', 'value': 1000.0}]), rt(b[0])))(base())),
  ('K4 bus named _x', lambda: show(rt(base(cname='_x')[0]))),
  ('K5 scalar named x[1]', lambda: show(rt(base(cname='x[1]', cw=1, pw=1)[0]))),
  ('K6 quote in string property (REPAIRED: no exception, written %34%)', lambda: (lambda b: (b[1].__setitem__('EDIF.properties', [{'identifier': 'M', 'value': 'say "hi"'}]), rt(b[0])))(base())),
  ('K7 nets ab (bus) and a* (bus)', lambda: (lambda b: (b[2].create_cable(name='a*').create_wires(2), show(rt(b[0])))[1])(base(cname='ab'))),
]:
    try: print(label, '->', f())
    except Exception as e: print(label, '-> raises', type(e).__name__, str(e)[:90])
T = '''(edif n (edifVersion 2 0 0) (edifLevel 0) (keywordMap (keywordLevel 0)) (library work (edifLevel 0) (technology (numberDefinition))
 (cell leaf (cellType GENERIC) (view netlist (viewType NETLIST) (interface (port a (direction INPUT)) (port (array (rename d "d[4:1]") 4) (direction OUTPUT)))))
 (cell t (cellType GENERIC) (view netlist (viewType NETLIST) (interface) (contents (instance u (viewRef netlist (cellRef leaf (libraryRef work))))
   %s)))) (design top (cellRef t (libraryRef work))))'''
def rd(nets):
    d = tempfile.mkdtemp(); p = os.path.join(d, 'i.edf'); open(p, 'w').write(T % nets); n = sdn.parse(p)
    leaf = n.libraries[0].definitions[0]
    return [(c.name, c['EDIF.identifier'], c.lower_index, [[(q.inner_pin.port.name, q.inner_pin.port.pins.index(q.inner_pin)) for q in w.pins] for w in c.wires]) for c in n.libraries[0].definitions[1].cables], \
           (leaf.ports[1].name, leaf.ports[1].lower_index, 'metadata_prefix' in leaf.ports[1].data)
B0 = '(net (rename x_0_ "x[0]") (joined (portRef (member d 3) (instanceRef u))))'
B1 = '(net (rename x_1_ "x[1]") (joined (portRef (member d 2) (instanceRef u))))'
for label, nets in [
  ('K11 duplicate bit 0 (lower) arrives again', B0 + B1 + '(net (rename x_0_ "x[0]") (joined (portRef a (instanceRef u))))'),
  ('K13 scalar x after bus x', B0 + B1 + '(net x (joined (portRef a (instanceRef u))))'),
  ('K10 other net owns identifier x', '(net (rename x "[1:0]x") (joined))' + B0 + B1),
  ('K4 &_ bits', '(net (rename &_x_0_ "_x[0]") (joined (portRef (member d 3) (instanceRef u))))(net (rename &_x_1_ "_x[1]") (joined (portRef (member d 2) (instanceRef u))))'),
  ('K9 backslash bits', '(net (rename x_0_ "\\x[0]") (joined))(net (rename x_1_ "\\x[1]") (joined))'),
  ('C15 name ending in [', '(net (rename y "y[") (joined))'),
  ('C15 empty name', '(net (rename y "") (joined))'),
]:
    try: print(label, '->', rd(nets))
    except Exception as e: print(label, '-> raises', type(e).__name__, str(e)[:90])
# ---- found by the whole-file reader model (Fmt/EdifFile.v) and its tie (harness/edif_file.py); REPAIRED:
# on the repaired reader K14, K15 and the second K16 line raise, the first K16 line prints ['work', 'later'] ----
def rdfile(text):
    d = tempfile.mkdtemp(); p = os.path.join(d, 'i.edf'); open(p, 'w').write(text); return sdn.parse(p)
W = '''(edif n (edifVersion 2 0 0) (edifLevel 0) (keywordMap (keywordLevel 0)) (library work (edifLevel 0) (technology (numberDefinition))
 (cell leaf (cellType GENERIC) (view netlist (viewType NETLIST) (interface (port a (direction INPUT)))))
 (cell t (cellType GENERIC) (view netlist (viewType NETLIST) (interface %s) (contents %s)))) (design t (cellRef t (libraryRef work)))%s'''
for label, f in [
  ('K14 (instance u1) without viewRef is accepted, reference stays None (C15: half-built netlist returned)',
   lambda: [(c.name, c.reference) for c in rdfile(W % ('(port x (direction INPUT))', '(instance u1)', ')')).libraries[0].definitions[1].children]),
  ('K15 (array y -2) accepted: array port without pins',
   lambda: [(p.name, len(p.pins), p.is_array) for p in rdfile(W % ('(port (array y -2) (direction OUTPUT))', '', ')')).libraries[0].definitions[1].ports]),
  ('K16 a library declared AFTER the design construct is silently dropped',
   lambda: [l.name for l in rdfile((W % ('(port x (direction INPUT))', '', '')) + ' (library later (edifLevel 0) (technology (numberDefinition))))').libraries]),
  ('K16 nothing after (design n (cellRef c (libraryRef l is read: a file missing its last two ")" and carrying garbage is accepted',
   lambda: rdfile((W % ('(port x (direction INPUT))', '', '')).replace('(libraryRef work)))', '(libraryRef work)) garbage ( ( "unterminated')).top_instance.reference.name),
]:
    try: print(label, '->', f())
    except Exception as e: print(label, '-> raises', type(e).__name__, str(e)[:90])
