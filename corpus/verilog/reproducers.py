"""Minimal reproducers of the suspected spydrnet defects found by the `verilog` engine (C04, C06).
Run:  PYTHONPATH=/repo /venv/bin/python /verif/corpus/verilog/reproducers.py
Each case prints what the property clause demands and what spydrnet does. Nothing here is used by the checks
(they replay the corpus/verilog/*.json witnesses); this file is for the maintainers.
Repaired since: V06-top-election, V06-ansi-inherit-dir, V06-shared-range, V06-cell-empty-body (and with them V04-top-after-rewrite,
V04-portless-primitive-rejected): see corpus/py/c06-verilog-reader-repaired-shapes.py."""
import os, tempfile, traceback
import spydrnet as sdn
from spydrnet.flatten import flatten
from spydrnet.uniquify import uniquify


def parse(text):
    with tempfile.TemporaryDirectory() as td:
        p = os.path.join(td, 'x.v')
        open(p, 'w').write(text)
        return sdn.parse(p)


def roundtrip(n, **kw):
    with tempfile.TemporaryDirectory() as td:
        p = os.path.join(td, 'o.v')
        sdn.compose(n, p, **kw)
        return sdn.parse(p)


def case(title, f):
    print('---', title)
    try:
        f()
    except Exception as e:  # noqa
        print('   raised %s: %s' % (type(e).__name__, str(e)[:150]))


def d(n, name):
    return next(x for lib in n.libraries for x in lib.definitions if x.name == name)


def c06_assign():
    n = parse('module top(a,b); input [15:0] a; output [15:0] b; assign b[15:6] = a[15:6]; endmodule')
    i = d(n, 'top').children[0]
    o = next(p for p in i.reference.ports if p.name == 'o')
    w = i.pins[o.pins[0]].wire
    print('   C06 assign: pin o[0] should carry b[6]; carries b[%d]' % (w.cable.lower_index + w.cable.wires.index(w)))
    roundtrip(n)   # C04: raised AssertionError "multiple cables appear to be connected to a single assignment input" before 0d1ef27


def c06_port_order():
    n = parse('module top(a,b); input a; output b; M m1(.y(b), .x(a)); M m2(a, b); endmodule '
              'module M(x,y); input x; output y; endmodule')
    print('   C06 ports: M declares (x, y); built', [p.name for p in d(n, 'M').ports])
    m2 = next(c for c in d(n, 'top').children if c.name == 'm2')
    a = d(n, 'top').cables[0].wires[0]
    print('   positional "M m2(a, b)": a should meet x; meets',
          [p.inner_pin.port.name for p in a.pins if isinstance(p, sdn.OuterPin) and p.instance is m2])


def c06_rejected(text):
    def f():
        parse(text)
        print('   accepted')
    return f


def c06_port_attr():
    n = parse('module top(a); (* mark_debug = "true" *) input a; endmodule')
    p = d(n, 'top').ports[0]
    print('   C06 attributes: port a should carry mark_debug; VERILOG.InlineConstraints =',
          p['VERILOG.InlineConstraints'] if 'VERILOG.InlineConstraints' in p else None)


def c04_primitive():
    n = parse('module top(a,b); input a; output b; INV u(.I(a), .O(b)); endmodule')
    n2 = roundtrip(n)
    print('   C04 primitive INV: directions before', [p.direction.name for p in d(n, 'INV').ports],
          'after', [p.direction.name for p in d(n2, 'INV').ports], '; cables before', len(d(n, 'INV').cables), 'after', len(d(n2, 'INV').cables))


def c04_unnamed():
    roundtrip(parse('module top(a); input [3:0] a; P p1(x, a[1:0]); endmodule'))


def c04_flatten():
    n = parse('module top(a,b); input a; output b; M u(.x(a), .y(b)); endmodule '
              'module M(x,y); input x; output y; wire w; INV g1(.I(x), .O(w)); INV g2(.I(w), .O(y)); endmodule')
    uniquify(n)
    flatten(n)
    roundtrip(n)


def c04_reg():
    n = parse('`celldefine\nmodule RB(DI, DO); input DI; output reg [3:0] DO; endmodule\n`endcelldefine\n'
              'module top(a,b); input a; output [3:0] b; RB u(.DI(a), .DO(b)); endmodule')
    n2 = roundtrip(n)
    f = lambda nn: next(c for c in d(nn, 'RB').cables if c.name == 'DO')
    print('   C04 cable type of RB.DO before', f(n)['VERILOG.CableType'] if 'VERILOG.CableType' in f(n) else 'wire',
          'after', f(n2)['VERILOG.CableType'] if 'VERILOG.CableType' in f(n2) else 'wire')


if __name__ == '__main__':
    case('fixed 0d1ef27 (was V06-assign-msb-first / V04-assign-compose-assert; bundled lc3.v, 8051.v)', c06_assign)
    case('V06-port-order-forward-named', c06_port_order)
    case('fixed 39dcf2d (was V06-positional-empty)', c06_rejected('module M(x,z,y); input x; input z; output y; endmodule module top(a,b); input a; output b; M m(a, , b); endmodule'))
    case('V06-port-attrs-dropped', c06_port_attr)
    case('V06-glob-identifier', c06_rejected('module top(a); input a; wire \\xy ; wire \\x* ; P p(.q(\\x* ), .r(\\xy )); endmodule'))
    case('V06-positional-undeclared-no-growth', c06_rejected('module top(a,c); input [3:0] a; output [1:0] c; P p1(x, a[1:0]); P p2(c, a); endmodule'))
    case('V06-ansi-net-type', c06_rejected('module top(input wire a, output c); endmodule'))
    case('V04-primitive-inout', c04_primitive)
    case('V04-unnamed-ports-unwritable', c04_unnamed)
    case('V04-unescaped-hierarchical-names (after flatten)', c04_flatten)
    case('V04-primitive-reg-type-lost (bundled bram.v, zpu4.v)', c04_reg)
