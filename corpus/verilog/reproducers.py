"""Minimal reproducers of the suspected spydrnet defects found by the `verilog` engine (C04, C06).
Run:  PYTHONPATH=/repo /venv/bin/python /verif/corpus/verilog/reproducers.py
Each case prints what the property clause demands and what spydrnet does. Nothing here is used by the checks
(they replay the corpus/verilog/*.json witnesses); this file is for the maintainers."""
import os, tempfile, traceback
import spydrnet as sdn
from spydrnet.flatten import flatten
from spydrnet.uniquify import uniquify


def parse(text):
    with tempfile.TemporaryDirectory() as td:
        p = os.path.join(td, 'x.v')
        open(p, 'w').write(text)
        return sdn.parse(p)


def roundtrip(n, **kw):
    with tempfile.TemporaryDirectory() as td:
        p = os.path.join(td, 'o.v')
        sdn.compose(n, p, **kw)
        return sdn.parse(p)


def case(title, f):
    print('---', title)
    try:
        f()
    except Exception as e:  # noqa
        print('   raised %s: %s' % (type(e).__name__, str(e)[:150]))


def d(n, name):
    return next(x for lib in n.libraries for x in lib.definitions if x.name == name)


def c06_assign():
    n = parse('module top(a,b); input [15:0] a; output [15:0] b; assign b[15:6] = a[15:6]; endmodule')
    i = d(n, 'top').children[0]
    o = next(p for p in i.reference.ports if p.name == 'o')
    w = i.pins[o.pins[0]].wire
    print('   C06 assign: pin o[0] should carry b[6]; carries b[%d]' % (w.cable.lower_index + w.cable.wires.index(w)))
    roundtrip(n)   # C04: AssertionError "multiple cables appear to be connected to a single assignment input"


def c06_top():
    n = parse('module A(i); input i; endmodule module R(i); input i; M1 u1(.i(i)); endmodule '
              'module M1(i); input i; M2 u2(.i(i)); endmodule module M2(i); input i; A u3(.i(i)); endmodule')
    print('   C06 top: root module is R; elected top is', n.top_instance.reference.name)
    print('   C04 top: after one write/read cycle the top is', roundtrip(n).top_instance.reference.name)


def c06_port_order():
    n = parse('module top(a,b); input a; output b; M m1(.y(b), .x(a)); M m2(a, b); endmodule '
              'module M(x,y); input x; output y; endmodule')
    print('   C06 ports: M declares (x, y); built', [p.name for p in d(n, 'M').ports])
    m2 = next(c for c in d(n, 'top').children if c.name == 'm2')
    a = d(n, 'top').cables[0].wires[0]
    print('   positional "M m2(a, b)": a should meet x; meets',
          [p.inner_pin.port.name for p in a.pins if isinstance(p, sdn.OuterPin) and p.instance is m2])


def c06_rejected(text):
    def f():
        parse(text)
        print('   accepted')
    return f


def c06_ansi_dir():
    n = parse('module top(input a, b, output c); endmodule')
    print('   C06 ports: "input a, b": b should be IN; is', d(n, 'top').ports[1].direction)


def c06_port_attr():
    n = parse('module top(a); (* mark_debug = "true" *) input a; endmodule')
    p = d(n, 'top').ports[0]
    print('   C06 attributes: port a should carry mark_debug; VERILOG.InlineConstraints =',
          p['VERILOG.InlineConstraints'] if 'VERILOG.InlineConstraints' in p else None)


def c06_shared_range():
    n = parse('module top(a); input a; wire [3:2] x, y; endmodule')
    print('   C06 nets: y should be [3:2]; has %d wire(s) at base %d' % (len(d(n, 'top').cables[-1].wires), d(n, 'top').cables[-1].lower_index))


def c04_primitive():
    n = parse('module top(a,b); input a; output b; INV u(.I(a), .O(b)); endmodule')
    n2 = roundtrip(n)
    print('   C04 primitive INV: directions before', [p.direction.name for p in d(n, 'INV').ports],
          'after', [p.direction.name for p in d(n2, 'INV').ports], '; cables before', len(d(n, 'INV').cables), 'after', len(d(n2, 'INV').cables))


def c04_portless():
    roundtrip(parse('module top(a); input a; GND g(); endmodule'))


def c04_unnamed():
    roundtrip(parse('module top(a); input [3:0] a; P p1(x, a[1:0]); endmodule'))


def c04_flatten():
    n = parse('module top(a,b); input a; output b; M u(.x(a), .y(b)); endmodule '
              'module M(x,y); input x; output y; wire w; INV g1(.I(x), .O(w)); INV g2(.I(w), .O(y)); endmodule')
    uniquify(n)
    flatten(n)
    roundtrip(n)


def c04_reg():
    n = parse('`celldefine\nmodule RB(DI, DO); input DI; output reg [3:0] DO; endmodule\n`endcelldefine\n'
              'module top(a,b); input a; output [3:0] b; RB u(.DI(a), .DO(b)); endmodule')
    n2 = roundtrip(n)
    f = lambda nn: next(c for c in d(nn, 'RB').cables if c.name == 'DO')
    print('   C04 cable type of RB.DO before', f(n)['VERILOG.CableType'] if 'VERILOG.CableType' in f(n) else 'wire',
          'after', f(n2)['VERILOG.CableType'] if 'VERILOG.CableType' in f(n2) else 'wire')


if __name__ == '__main__':
    case('V06-assign-msb-first / V04-assign-compose-assert (bundled lc3.v, 8051.v)', c06_assign)
    case('V06-top-election / V04-top-after-rewrite (bundled synth_th1_slaac.v)', c06_top)
    case('V06-port-order-forward-named', c06_port_order)
    case('V06-positional-empty', c06_rejected('module M(x,z,y); input x; input z; output y; endmodule module top(a,b); input a; output b; M m(a, , b); endmodule'))
    case('V06-ansi-inherit-dir', c06_ansi_dir)
    case('V06-port-attrs-dropped', c06_port_attr)
    case('V06-glob-identifier', c06_rejected('module top(a); input a; wire \\xy ; wire \\x* ; P p(.q(\\x* ), .r(\\xy )); endmodule'))
    case('V06-positional-undeclared-no-growth', c06_rejected('module top(a,c); input [3:0] a; output [1:0] c; P p1(x, a[1:0]); P p2(c, a); endmodule'))
    case('V06-ansi-net-type', c06_rejected('module top(input wire a, output c); endmodule'))
    case('V06-cell-empty-body', c06_rejected('`celldefine\nmodule BUF(input I, output O);\nendmodule\n`endcelldefine\nmodule top(a,b); input a; output b; BUF u(.I(a), .O(b)); endmodule'))
    case('V06-shared-range', c06_shared_range)
    case('V04-primitive-inout', c04_primitive)
    case('V04-portless-primitive-rejected', c04_portless)
    case('V04-unnamed-ports-unwritable', c04_unnamed)
    case('V04-unescaped-hierarchical-names (after flatten)', c04_flatten)
    case('V04-primitive-reg-type-lost (bundled bram.v, zpu4.v)', c04_reg)
