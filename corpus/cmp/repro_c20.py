"""Reproducers of the C20 findings (open: 3, 3b, 6; the others are repaired in /repo and print "returns (accepted)" / AssertionError now) on the real spydrnet Comparer (run: PYTHONPATH=/repo /venv/bin/python corpus/cmp/repro_c20.py)."""
import spydrnet as sdn, io, contextlib
from spydrnet.compare.compare_netlists import Comparer
def build(extra=None):
    n = sdn.Netlist(name='n'); lib = n.create_library(name='work')
    leaf = lib.create_definition(name='LEAF'); a = leaf.create_port(name='a', pins=1); a.direction = sdn.IN
    leaf2 = lib.create_definition(name='LEAF2'); a2 = leaf2.create_port(name='a', pins=1); a2.direction = sdn.IN
    top = lib.create_definition(name='top')
    u0 = top.create_child(name='u0', reference=leaf); u1 = top.create_child(name='u1', reference=leaf)
    c = top.create_cable(name='c', wires=1); c.wires[0].connect_pin(u0.pins[a.pins[0]])
    u0['EDIF.properties'] = [{'identifier': 'INIT', 'value': 'abc'}]
    n.top_instance = top; n.top_instance.name = 'top'
    if extra: extra(n, lib, leaf, leaf2, top, u0, u1, c)
    return n
def cmp(a, b):
    try:
        with contextlib.redirect_stdout(io.StringIO()): Comparer(a, b).compare()
        return 'returns (accepted)'
    except Exception as e: return 'raises %s: %s' % (type(e).__name__, e)
def T(n): return n.libraries[0].definitions[2]
# 1 extra property on the copy is not seen
a, b = build(), build(); T(b).children[1]['EDIF.properties'] = [{'identifier': 'NEW', 'value': 1}]
print('1 extra EDIF.properties on copy      :', cmp(a, b))
a, b = build(), build(); T(b).children[0]['EDIF.properties'] = [{'identifier': 'INIT', 'value': 'abc', 'owner': 'x'}, {'identifier': 'E', 'value': 2}]
print('1b extra key and extra entry on copy :', cmp(a, b))
# 2 missing property -> KeyError / IndexError
a, b = build(), build(); T(b).children[0]['EDIF.properties'] = [{'identifier': 'INIT'}]
print('2 key missing on copy                :', cmp(a, b))
a, b = build(), build(); T(b).children[0]['EDIF.properties'] = []
print('2b entry missing on copy             :', cmp(a, b))
# 3 assignment-named instances
x = lambda n, lib, leaf, leaf2, top, u0, u1, c: top.create_child(name='SDN_Assignment_0_1', reference=leaf)
a, b = build(x), build(x); T(b).children[2].reference = b.libraries[0].definitions[1]
print('3 SDN_Assignment_0_1 re-pointed      :', cmp(a, b))
def y(n, lib, leaf, leaf2, top, u0, u1, c):
    s0 = top.create_child(name='SDN_Assignment_0_1', reference=leaf); s1 = top.create_child(name='SDN_Assignment_1_1', reference=leaf)
    z = top.create_cable(name='z', wires=1); z.wires[0].connect_pin(s0.pins[leaf.ports[0].pins[0]])
a, b = build(y), build(y); w = T(b).cables[1].wires[0]; w.disconnect_pin(w.pins[0]); w.connect_pin(T(b).children[3].pins[b.libraries[0].definitions[0].ports[0].pins[0]])
print('3b net moved between two assignments :', cmp(a, b))
# 4 renamed element -> StopIteration
a, b = build(), build(); b.libraries[0].definitions[0].ports[0].name = 'zz'
print('4 port renamed on copy               :', cmp(a, b))
# 5 identical copies that were not accepted (repaired: 57b99ec, 4f7bd74, f4be0be)
x = lambda n, lib, leaf, leaf2, top, u0, u1, c: (top.create_port(name='ab', pins=1), top.create_port(name='a*', pins=1))
print('5 siblings ab and a* (self)          :', cmp(build(x), build(x)))
x = lambda n, lib, leaf, leaf2, top, u0, u1, c: top.create_child(name='SDN_Assignment_7', reference=leaf)
print('5b instance SDN_Assignment_7 (self)  :', cmp(build(x), build(x)))
def x(n, lib, leaf, leaf2, top, u0, u1, c): del u0.name
print('5c connected unnamed instance (self) :', cmp(build(x), build(x)))
x = lambda n, lib, leaf, leaf2, top, u0, u1, c: top.create_port(name='z0')
print('5d named port without pins (self)    :', cmp(build(x), build(x)))
# 6 unnamed elements skipped
def x(n, lib, leaf, leaf2, top, u0, u1, c): del leaf.ports[0].name
a, b = build(x), build(x); b.libraries[0].definitions[0].ports[0].direction = sdn.OUT
print('6 direction of unnamed port changed  :', cmp(a, b))
# 7 instance on the copy loses its name -> TypeError while building the assert message
a, b = build(), build(); del T(b).children[0].name
print('7 connected instance unnamed on copy :', cmp(a, b))
