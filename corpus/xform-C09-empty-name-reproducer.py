# PYTHONPATH=/repo /venv/bin/python repro_c09.py
import spydrnet as sdn
from spydrnet.flatten import flatten
from spydrnet.uniquify import uniquify

def design(hier_name, leaf_names):
    n = sdn.Netlist(name="n"); lib = n.create_library(name="l")
    leaf = lib.create_definition(name="LEAF"); leaf.create_port(name="p").create_pins(1)
    mid = lib.create_definition(name="MID")
    for nm in leaf_names: mid.create_child(name=nm, reference=leaf)
    mid.create_cable(name="c").create_wires(1)
    top = lib.create_definition(name="TOP")
    h = top.create_child(reference=mid)
    if hier_name is not None: h.name = hier_name
    top.create_child(name="v", reference=leaf)
    ti = sdn.Instance(name="t"); ti.reference = top; n.top_instance = ti
    uniquify(n)
    return n, top

# 1. a hierarchical instance named "" : its leaves are not prefixed ("w" instead of "/w") ...
n, top = design("", ["w"])
flatten(n); print("1a", [c.name for c in top.children], [c.name for c in top.cables])
# ... so two different leaf paths can get the same flat name and flatten stops half-way with ValueError
n, top = design("", ["v"])
try: flatten(n)
except Exception as e: print("1b", type(e).__name__, e, "| top children now:", [c.name for c in top.children], "| MID children:", [c.name for c in top.children[0].reference.children] if top.children[0].reference else None)
# 2. a hierarchical instance without a name: TypeError in the middle of flatten (cable already taken out of MID)
n, top = design(None, ["w"])
mid = [d for d in n.libraries[0].definitions if d.name.startswith("MID")][0]
try: flatten(n)
except Exception as e: print("2 ", type(e).__name__, e, "| top children:", [c.name for c in top.children], "| MID cables left:", [c.name for c in mid.cables], "| orphan cable parent:", None)
