"""C20 (fixed): three defects of Comparer repaired together.
 * compare_instances walked only the original's EDIF.properties: a property entry, a key or a whole
   EDIF.properties list that only the second netlist has was accepted (C20-extra-properties);
 * a property entry or key that the second netlist lacks raised IndexError / KeyError instead of
   AssertionError (C20-missing-property-not-assertion);
 * a library, definition, port, cable or instance of the first netlist whose name does not exist
   in the second made next(sdn.get_xxx(...)) raise StopIteration (C20-renamed-element-stopiteration).
Every such difference must be rejected by AssertionError, in both directions; equal netlists (equal
property lists included, True == 1 like Python's ==) are still accepted."""
import io, contextlib, sys
import spydrnet as sdn
from spydrnet.compare.compare_netlists import Comparer


def build(props0='base', props1=None, rename=None, top_props=None):
    names = {'lib': 'work', 'def': 'LEAF', 'port': 'a', 'cable': 'c', 'inst': 'u1'}
    if rename:
        names[rename] = 'zz'
    n = sdn.Netlist(name='n')
    lib = n.create_library(name=names['lib'])
    n.create_library(name='aux')
    leaf = lib.create_definition(name=names['def'])
    a = leaf.create_port(name=names['port'], pins=1); a.direction = sdn.IN
    b = leaf.create_port(name='b', pins=2); b.direction = sdn.OUT
    top = lib.create_definition(name='top')
    i = top.create_port(name='i', pins=1); i.direction = sdn.IN
    u0 = top.create_child(name='u0', reference=leaf)
    u1 = top.create_child(name=names['inst'], reference=leaf)
    c = top.create_cable(name=names['cable'], wires=1)
    c.wires[0].connect_pin(i.pins[0]); c.wires[0].connect_pin(u0.pins[a.pins[0]])
    k = top.create_cable(name='k', wires=1)
    k.wires[0].connect_pin(u0.pins[b.pins[0]]); k.wires[0].connect_pin(u1.pins[a.pins[0]])
    if props0 == 'base':
        props0 = [{'identifier': 'INIT', 'value': 'abc'}, {'identifier': 'W', 'value': 1}]
    if props0 is not None:
        u0['EDIF.properties'] = props0
    if props1 is not None:
        u1['EDIF.properties'] = props1
    n.top_instance = sdn.Instance(name='top'); n.top_instance.reference = top
    if top_props is not None:
        n.top_instance['EDIF.properties'] = top_props
    return n


def outcome(x, y):
    try:
        with contextlib.redirect_stdout(io.StringIO()):
            Comparer(x, y).compare()
        return 'accept'
    except AssertionError:
        return 'reject'
    except Exception as e:  # noqa
        return 'raises ' + type(e).__name__


bad = []


def expect(want, what, x, y, both=True):
    for r, d in ((outcome(x, y), ''),) + (((outcome(y, x), ' (reverse)'),) if both else ()):
        if r != want:
            bad.append('%s%s: %s, expected %s' % (what, d, r, want))


base = [{'identifier': 'INIT', 'value': 'abc'}, {'identifier': 'W', 'value': 1}]
# equal netlists
expect('accept', 'equal netlists', build(), build())
expect('accept', 'equal properties, True == 1', build(), build(props0=[dict(base[0]), {'identifier': 'W', 'value': True}]))
expect('accept', 'equal properties, keys in another order', build(), build(props0=[{'value': 'abc', 'identifier': 'INIT'}, dict(base[1])]))
expect('accept', 'empty property lists on both sides', build(props1=[]), build(props1=[]))
expect('accept', 'equal properties on the top instance', build(top_props=[{'identifier': 'T', 'value': 0}]),
       build(top_props=[{'identifier': 'T', 'value': 0}]))
# properties on one side only / in excess / lacking (both directions = extra and missing)
expect('reject', 'EDIF.properties on one instance of one netlist only', build(), build(props1=[{'identifier': 'NEW', 'value': 1}]))
expect('reject', 'empty EDIF.properties list on one side only', build(), build(props1=[]))
expect('reject', 'one more property entry', build(), build(props0=base + [{'identifier': 'EXTRA', 'value': 5}]))
expect('reject', 'one more (empty) property entry', build(), build(props0=base + [{}]))
expect('reject', 'one more key in an entry', build(), build(props0=[dict(base[0], owner='x'), dict(base[1])]))
expect('reject', 'a key replaced by another key', build(), build(props0=[{'identifier': 'INIT', 'val': 'abc'}, dict(base[1])]))
expect('reject', 'whole EDIF.properties list lacking', build(), build(props0=None))
expect('reject', 'a property value differs', build(), build(props0=[{'identifier': 'INIT', 'value': 'abd'}, dict(base[1])]))
expect('reject', 'EDIF.properties on the top instance of one netlist only', build(), build(top_props=[{'identifier': 'T', 'value': 0}]))
# a named element of one netlist has another name in the other one
for kind in ('lib', 'def', 'port', 'cable', 'inst'):
    expect('reject', 'renamed %s' % kind, build(), build(rename=kind))
if bad:
    print('VIOLATION: ' + '; '.join(bad[:4]) + (' (+%d more)' % (len(bad) - 4) if len(bad) > 4 else ''))
    sys.exit(1)
print('OK')
