"""C08 (fixed): "new definitions get fresh, non-colliding names". uniquify used to name each copy
<cell>_sdn_unique_<k> from a module-level counter that restarts at 0 in every process without looking at the
library; when the library already held that name (a netlist uniquified in an earlier process, written out and
read back) add_definition refused with ValueError half-way: the copy made and renamed but outside every
library, its children registered with the cells they instantiate, the instance still on the shared cell.
Regression witness (Props/C08.v: C08_name_clash_repaired_sample, C08_edif_identifier_sample,
C08_add_never_refused_by_name). Exit 0 = uniquify completes with distinct names and the same design.
Run: PYTHONPATH=/repo /venv/bin/python corpus/py/c08-uniquify-name-clash.py"""
import sys
import spydrnet as sdn
import spydrnet.uniquify as U
from spydrnet.uniquify import uniquify

bad = []


def design(edif):
    sdn.namespace_manager.default = 'EDIF' if edif else 'DEFAULT'
    ident = (lambda s: {'EDIF.identifier': s}) if edif else (lambda s: None)
    n = sdn.Netlist(name='n', properties=ident('n'))
    lib = n.create_library(name='work', properties=ident('work'))
    inv = lib.create_definition(name='INV', properties=ident('INV'))
    a = inv.create_port(name='A', properties=ident('A'))
    a.create_pin()
    mid = lib.create_definition(name='mid', properties=ident('Mid'))
    u = mid.create_child(name='u', reference=inv, properties=ident('u'))
    c = mid.create_cable(name='n', properties=ident('n'))
    w = c.create_wire()
    w.connect_pin(u.pins[a.pins[0]])
    p = mid.create_port(name='P', properties=ident('P'))
    w.connect_pin(p.create_pin())
    top = lib.create_definition(name='top', properties=ident('top'))
    m = [top.create_child(name='m%d' % i, reference=mid, properties=ident('m%d' % i)) for i in range(3)]
    n.top_instance = top
    return n, lib, inv, mid, m


def shape(n):
    """instance tree below the top with leaf cell names: what uniquify must not change"""
    def walk(inst):
        d = inst.reference
        if d.is_leaf():
            return (inst.name, 'leaf', d.name)
        return (inst.name, tuple(sorted((pt.name, len(pt.pins)) for pt in d.ports)),
                tuple(walk(c) for c in d.children))
    return walk(n.top_instance)


def check(tag, n, lib, inv, mid, m, before):
    n_before = len(lib.definitions)
    try:
        uniquify(n)
    except Exception as e:  # noqa
        bad.append('%s: uniquify raised %s: %s' % (tag, type(e).__name__, e))
    names = [d.name for d in lib.definitions]
    if len(names) != len(set(names)):
        bad.append('%s: duplicate definition names %r' % (tag, names))
    idents = [d['EDIF.identifier'].lower() for d in lib.definitions if 'EDIF.identifier' in d]
    if len(idents) != len(set(idents)):
        bad.append('%s: definition identifiers collide without case %r' % (tag, idents))
    if len(lib.definitions) != n_before + len(m) - 1:
        bad.append('%s: %d definitions in the library, expected %d' % (tag, len(lib.definitions), n_before + len(m) - 1))
    refs = [x.reference for x in m]
    if len(set(id(r) for r in refs)) != len(m) or any(len(r.references) != 1 or r.library is not lib for r in refs):
        bad.append('%s: the instances of mid are not unique afterwards: %r' % (tag, [(r.name, len(r.references), r.library is lib) for r in refs]))
    # every instance registered with the leaf cell sits in a cell of the library (no orphan copy)
    stray = [x for x in inv.references if x.parent is None or x.parent.library is not lib]
    if stray:
        bad.append('%s: %d instance(s) of INV belong to a cell outside the library' % (tag, len(stray)))
    if shape(n) != before:
        bad.append('%s: the design below the top changed' % tag)
    return names


try:
    # 1. the library already holds the first name a fresh process would hand out
    U.MOD_NAME_UID = 0
    n, lib, inv, mid, m = design(False)
    lib.create_definition(name='mid_sdn_unique_0')
    names = check('pre-seeded name', n, lib, inv, mid, m, shape(n))
    if not bad and sorted(names) != sorted(['INV', 'mid', 'top', 'mid_sdn_unique_0', 'mid_sdn_unique_1', 'mid_sdn_unique_2']):
        bad.append('pre-seeded name: expected the next free names mid_sdn_unique_1, mid_sdn_unique_2, got %r' % names)

    # 2. the round trip of the finding: uniquify, then more instances of the cell, then a "new process"
    #    (the module counter back at 0) and uniquify again: the copies of mid are called mid_sdn_unique_0.. again
    U.MOD_NAME_UID = 0
    n, lib, inv, mid, m = design(False)
    uniquify(n)
    top = n.top_instance.reference
    shared = m[-1].reference        # the original cell 'mid': the last instance keeps it
    m2 = [m[-1]] + [top.create_child(name='again%d' % i, reference=shared) for i in range(2)]
    U.MOD_NAME_UID = 0
    check('second process', n, lib, inv, shared, m2, shape(n))

    # 3. EDIF policy: identifiers count too, without case
    U.MOD_NAME_UID = 0
    n, lib, inv, mid, m = design(True)
    lib.create_definition(name='other', properties={'EDIF.identifier': 'MID_SDN_unique_0'})
    lib.create_definition(name='mid_sdn_unique_1', properties={'EDIF.identifier': 'x'})
    names = check('EDIF identifiers', n, lib, inv, mid, m, shape(n))
    if not bad and not {'mid_sdn_unique_2', 'mid_sdn_unique_3'} <= set(names):
        bad.append('EDIF identifiers: expected mid_sdn_unique_2 and mid_sdn_unique_3, got %r' % names)
finally:
    sdn.namespace_manager.default = 'DEFAULT'

if bad:
    for b in bad:
        print('VIOLATION: ' + b)
    sys.exit(1)
print('OK')
