"""C05 (fixed): the EDIF reader builds what the file says - everything after the design construct used to be
ignored (parse_design read six raw tokens and left parse_body on a ")"), an (instance n) without viewRef was
accepted with reference None, an (array p 0) gave a port without pins."""
import os, sys, tempfile
import spydrnet as sdn
W = '''(edif n (edifVersion 2 0 0) (edifLevel 0) (keywordMap (keywordLevel 0)) (library work (edifLevel 0) (technology (numberDefinition))
 (cell leaf (cellType GENERIC) (view netlist (viewType NETLIST) (interface (port a (direction INPUT)))))
 (cell t (cellType GENERIC) (view netlist (viewType NETLIST) (interface %s) (contents %s))))
 (design t (cellRef t (libraryRef work)) (property part (string "xc7a35t")))%s)'''
def rd(text):
    d = tempfile.mkdtemp(); p = os.path.join(d, 'i.edf'); open(p, 'w').write(text); return sdn.parse(p)
bad = []
n = rd(W % ('(port x (direction INPUT))', '(instance u (viewRef netlist (cellRef leaf)))',
            ' (library later (edifLevel 0) (technology (numberDefinition)) (cell c2 (cellType GENERIC) (view netlist (viewType NETLIST) (interface))))'))
libs = [(l.name, [c.name for c in l.definitions]) for l in n.libraries]
if libs != [('work', ['leaf', 't']), ('later', ['c2'])]:
    bad.append('the library declared after the design construct is not in the netlist: %r' % (libs,))
if n.top_instance is None or n.top_instance.reference is not n.libraries[0].definitions[1]:
    bad.append('top instance does not reference work.t')
for what, itf, cont in [('(instance u1) without viewRef', '(port x (direction INPUT))', '(instance u1)'),
                        ('(array y 0)', '(port (array y 0) (direction OUTPUT))', ''),
                        ('(array y -2)', '(port (array y -2) (direction OUTPUT))', '')]:
    try:
        m = rd(W % (itf, cont, ''))
        t = m.libraries[0].definitions[1]
        bad.append('%s accepted: children %r, ports %r' % (what, [(c.name, c.reference) for c in t.children], [(p.name, len(p.pins)) for p in t.ports]))
    except Exception:
        pass
if bad:
    print('VIOLATION: ' + '; '.join(bad)); sys.exit(1)
print('OK')
