"""C20 (fixed): Comparer.compare_cables compared the pins of two wires position by position, so two
netlists with the same connectivity whose wires list their pins in another order (order of the
connect_pin calls, Wire.pins reorder setter) were rejected.  The pins of a wire are a set: the
same connectivity must be accepted in both directions, a moved connection must still be rejected
by AssertionError, whatever the order in which the pins are listed."""
import io, contextlib, sys
import spydrnet as sdn
from spydrnet.compare.compare_netlists import Comparer


def build(order, moved=False):
    n = sdn.Netlist(name='n')
    lib = n.create_library(name='work')
    leaf = lib.create_definition(name='LEAF')
    a = leaf.create_port(name='a', pins=1); a.direction = sdn.IN
    b = leaf.create_port(name='b', pins=2); b.direction = sdn.OUT
    top = lib.create_definition(name='top')
    i = top.create_port(name='i', pins=1); i.direction = sdn.IN
    u = [top.create_child(name='u%d' % k, reference=leaf) for k in range(3)]
    k = top.create_cable(name='k', wires=1)
    pins = [i.pins[0], u[0].pins[b.pins[0]], u[1].pins[a.pins[0]], u[2].pins[a.pins[0]]]
    if moved:
        pins[1] = u[0].pins[b.pins[1]]          # the net leaves bit 0 of u0.b for bit 1
    for x in order:
        k.wires[0].connect_pin(pins[x])
    n.top_instance = sdn.Instance(name='top'); n.top_instance.reference = top
    return n


def outcome(x, y):
    try:
        with contextlib.redirect_stdout(io.StringIO()):
            Comparer(x, y).compare()
        return 'accept'
    except AssertionError:
        return 'reject'
    except Exception as e:  # noqa
        return 'raises ' + type(e).__name__


bad = []
orders = [[0, 1, 2, 3], [3, 2, 1, 0], [1, 3, 0, 2], [2, 0, 3, 1]]
for o1 in orders:
    for o2 in orders:
        r = outcome(build(o1), build(o2))
        if r != 'accept':
            bad.append('same connectivity, pins connected in order %s / %s: %s' % (o1, o2, r))
        r = outcome(build(o1), build(o2, moved=True))
        if r != 'reject':
            bad.append('connection moved to another bit, orders %s / %s: %s' % (o1, o2, r))
        r = outcome(build(o1, moved=True), build(o2))
        if r != 'reject':
            bad.append('connection moved to another bit (reverse), orders %s / %s: %s' % (o1, o2, r))
# the public reorder setter of Wire.pins
x, y = build(orders[0]), build(orders[0])
w = y.libraries[0].definitions[1].cables[0].wires[0]
w.pins = list(reversed(list(w.pins)))
for r, what in ((outcome(x, y), 'Wire.pins reordered on the copy'), (outcome(y, x), 'Wire.pins reordered on the original')):
    if r != 'accept':
        bad.append('%s: %s' % (what, r))
if bad:
    print('VIOLATION: ' + '; '.join(bad[:4]) + (' (+%d more)' % (len(bad) - 4) if len(bad) > 4 else ''))
    sys.exit(1)
print('OK')
