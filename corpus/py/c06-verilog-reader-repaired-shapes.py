"""C06 (fixed): the Verilog reader builds what the source says. Four shapes used to break it in
spydrnet/parsers/verilog/parser.py:
 * V06-top-election: the single root module was not the top when the chain of instancing modules above the
   candidate found while parsing was longer than one level (file order A, R, M1, M2 with R -> M1 -> M2 -> A);
 * V06-ansi-inherit-dir: in an ANSI header "input [3:0] a, b" the port b got direction UNDEFINED and no range;
 * V06-shared-range: in "wire [3:2] x, y;" only x got the range;
 * V06-cell-empty-body: a `celldefine module with nothing between header and endmodule was rejected.
Also: files whose modules instantiate each other in a circle still come back (no unique root: the candidate found
while parsing stays)."""
import itertools, os, sys, tempfile
import spydrnet as sdn

bad = []


def parse(text):
    with tempfile.TemporaryDirectory() as td:
        p = os.path.join(td, 'x.v')
        open(p, 'w').write(text)
        return sdn.parse(p)


def d(n, name):
    return next(x for lib in n.libraries for x in lib.definitions if x.name == name)


def expect(what, got, want):
    if got != want:
        bad.append('%s: got %r, want %r' % (what, got, want))


# --- top: a chain R -> M1 -> M2 -> M3 -> A, in every file order
mods = {'A': 'module A(i); input i; endmodule', 'R': 'module R(i); input i; M1 u1(.i(i)); endmodule',
        'M1': 'module M1(i); input i; M2 u2(.i(i)); M3 u9(.i(i)); endmodule', 'M2': 'module M2(i); input i; M3 u3(.i(i)); endmodule',
        'M3': 'module M3(i); input i; A u4(.i(i)); endmodule'}
for order in itertools.permutations(sorted(mods)):
    n = parse('\n'.join(mods[k] for k in order))
    expect('top, file order %s' % ' '.join(order), (n.top_instance.reference.name, n.top_instance.name, n.name,
                                                     [i.parent for i in d(n, 'R').references]),
           ('R', 'R_top', 'SDN_VERILOG_NETLIST_R', [None]))
# the root also instantiates a `celldefine module and an undeclared one; cells elect nothing
n = parse('`celldefine\nmodule C(input i); endmodule\n`endcelldefine\n' + mods['A'] + '\n' + mods['M3'] + '\n' + mods['M2'] +
          '\nmodule M1(i); input i; M2 u2(.i(i)); endmodule module R(i); input i; M1 u1(.i(i)); C c(.i(i)); P p(.x(i)); endmodule')
expect('top with cells', n.top_instance.reference.name, 'R')
# no unique root: two roots / a circle / a module instantiating itself next to a root - the reader comes back
n = parse(mods['A'] + '\nmodule R1(i); input i; A a(.i(i)); endmodule module R2(i); input i; A a(.i(i)); endmodule')
expect('two roots keep the candidate found while parsing', n.top_instance.reference.name, 'R1')
n = parse('module A(); B b(); endmodule module B(); A a(); endmodule')
expect('circle comes back', n.top_instance.reference.name in ('A', 'B'), True)
n = parse('module A(); B b(); endmodule module B(); A a(); endmodule module R(); endmodule')
expect('circle next to a root', n.top_instance.reference.name, 'R')
n = parse('module L(); endmodule module S(); S s(); L l(); endmodule')
expect('module instantiating itself is instantiated by no OTHER module', n.top_instance.reference.name, 'S')

# --- ANSI header
n = parse('module top(input a, b, output [3:1] c, d, inout e, [1:0] f, g, input h); endmodule')
expect('ansi header ports', [(p.name, p.direction.name, len(p.pins), p.lower_index) for p in d(n, 'top').ports],
       [('a', 'IN', 1, 0), ('b', 'IN', 1, 0), ('c', 'OUT', 3, 1), ('d', 'OUT', 3, 1), ('e', 'INOUT', 1, 0), ('f', 'INOUT', 2, 0),
        ('g', 'INOUT', 2, 0), ('h', 'IN', 1, 0)])
expect('ansi header cables', [(c.name, len(c.wires), c.lower_index) for c in d(n, 'top').cables],
       [('a', 1, 0), ('b', 1, 0), ('c', 3, 1), ('d', 3, 1), ('e', 1, 0), ('f', 2, 0), ('g', 2, 0), ('h', 1, 0)])
expect('ansi header: every pin on the wire of its bit', all(pin.wire is c.wires[k] for p, c in zip(d(n, 'top').ports, d(n, 'top').cables)
                                                             for k, pin in enumerate(p.pins)), True)
n = parse('module top(a, [3:0] b, c); input a; input [3:0] b; output c; endmodule')     # plain header: nothing is inherited
expect('plain header', [(p.name, p.direction.name, len(p.pins)) for p in d(n, 'top').ports], [('a', 'IN', 1), ('b', 'IN', 4), ('c', 'OUT', 1)])

# --- a range shared by several names
n = parse('module top(a); input a; wire [3:2] x, y; reg z, [1:0] w, v; wire s, t; endmodule')
expect('shared range', [(c.name, len(c.wires), c.lower_index) for c in d(n, 'top').cables],
       [('a', 1, 0), ('x', 2, 2), ('y', 2, 2), ('z', 1, 0), ('w', 2, 0), ('v', 2, 0), ('s', 1, 0), ('t', 1, 0)])

# --- `celldefine modules with an empty body
n = parse('`celldefine\nmodule BUF(input I, output O);\nendmodule\nmodule E();endmodule\nmodule F(a); input a; endmodule\n`endcelldefine\n'
          'module top(a,b); input a; output b; BUF u(.I(a), .O(b)); E e(); endmodule')
expect('empty cell bodies', ([(x.name, [(p.name, p.direction.name) for p in x.ports]) for x in n.libraries[1].definitions], n.top_instance.reference.name),
       ([('BUF', [('I', 'IN'), ('O', 'OUT')]), ('E', []), ('F', [('a', 'IN')])], 'top'))

for b in bad:
    print('FAIL', b)
print('c06 repaired shapes: %d failure(s)' % len(bad))
sys.exit(1 if bad else 0)
