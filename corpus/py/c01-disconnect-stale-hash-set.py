"""C01 (fixed): disconnect_pins_from with a set of pins built before their instance was re-pointed
(the OuterPin hash follows its inner pin): the pins lost their wire but stayed on the wire's list."""
import sys
import spydrnet as sdn
def mk(name):
    d = sdn.Definition(name=name); p = d.create_port(name='p'); p.create_pins(2); return d
a, b = mk('a'), mk('b')
top = sdn.Definition(name='top')
i = top.create_child(name='i', reference=a)
c = top.create_cable(name='c'); w = c.create_wire()
op = i.pins[a.ports[0].pins[0]]
w.connect_pin(op)
s = {op}
i.reference = b      # re-keys the stored outer pin: its hash changes
w.disconnect_pins_from(s)
bad = [p for p in w.pins if p.wire is not w]
if bad:
    print('VIOLATION: wire lists %d pin(s) that report another wire (%s)' % (len(bad), op.wire)); sys.exit(1)
print('OK')
