"""C17 (fixed): names containing a double quote or a percent sign are written as EDIF strings with %34% / %37%
inside (rename id "name") and decoded by the reader (C17-quote-in-name: the rename string used to be written
raw, so the file was malformed or the name cut at the first quote); a net whose name ends in '[' is an ordinary
net (C17-reader-open-bracket: separate_name_and_index raised IndexError on it)."""
import os, sys, tempfile
import spydrnet as sdn

NAMES = ['a"b', 'q"r"s', '"', '""', '%34%', '100%', '% 34 %', 'x%34 37%y', '%"%', '%', 'plain', 'sp ace']
CABLES = ['a[', '[', 'b[[', 'c"[', 'k"', 'n%']


def build():
    n = sdn.Netlist(name='n"l %')
    lib = n.create_library(name='li"b')
    leaf = lib.create_definition(name='le"af')
    a = leaf.create_port(name='p"in', direction=sdn.IN); a.create_pins(1)
    top = lib.create_definition(name='t%34%p')
    for k, nm in enumerate(NAMES):
        top.create_child(name=nm, reference=leaf)
        p = top.create_port(name=nm, direction=sdn.IN); p.create_pins(1)
    for k, nm in enumerate(CABLES):
        c = top.create_cable(name=nm); w = c.create_wire()
        w.connect_pin(top.children[k].pins[a.pins[0]])
    n.top_instance = sdn.Instance(name='to"p')
    n.top_instance.reference = top
    return n


def names(n):
    return (n.name, [(lib.name, [(d.name, sorted(p.name for p in d.ports), sorted(c.name for c in d.cables),
                                  sorted(i.name for i in d.children),
                                  sorted((c.name, tuple(sorted(pin.instance.name for w in c.wires for pin in w.pins))) for c in d.cables))
                                 for d in lib.definitions]) for lib in n.libraries])


def main():
    n = build()
    want = names(n)
    td = tempfile.mkdtemp(prefix='verif-c17-')
    path = os.path.join(td, 'o.edf')
    sdn.compose(n, path)
    text = open(path).read()
    bad = []
    if text.count('"') % 2:
        bad.append('odd number of double quotes in the written file')
    try:
        n2 = sdn.parse(path)
    except Exception as e:  # noqa
        print('FAIL: the written file cannot be read back: %s: %s' % (type(e).__name__, str(e)[:200]))
        return 1
    got = names(n2)
    if got != want:
        bad.append('names after the round trip differ:\n  want %r\n  got  %r' % (want, got))
    path2 = os.path.join(td, 'o2.edf')
    sdn.compose(n2, path2)
    if names(sdn.parse(path2)) != want:
        bad.append('names after the second round trip differ')
    for b in bad:
        print('FAIL: ' + b)
    if not bad:
        print('ok: %d names with quotes / percent signs and %d cables (open brackets) survive two round trips' % (len(NAMES), len(CABLES)))
    return 1 if bad else 0


if __name__ == '__main__':
    sys.exit(main())
