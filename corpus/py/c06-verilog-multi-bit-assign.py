"""C04 / C06 (fixed): multi-bit assign statements. spydrnet/parsers/verilog/parser.py connect_wires_for_assign wired
the wire lists (most significant bit first) onto the pins of the SDN_VERILOG_ASSIGNMENT_<w> instance (least
significant first) in list order:
 * V06-assign-msb-first: pin k of o / i carried bit w-1-k of the two sides instead of bit k;
 * V04-assign-compose-assert: the composer (_write_assignment / _is_pinset_concatenated) then saw descending indices
   and raised AssertionError - no netlist with a multi-bit assign could be written (bundled lc3.v).
Now: bit k, counted from the low end of each side, is on pin k (also when the sides differ in width: the low
min(widths) bits are joined), the netlist is written as "assign a[h:l] = b[h':l'];" and read back the same."""
import os, sys, tempfile
import spydrnet as sdn

bad = []


def parse(text):
    with tempfile.TemporaryDirectory() as td:
        p = os.path.join(td, 'x.v')
        open(p, 'w').write(text)
        return sdn.parse(p)


def roundtrip(n):
    with tempfile.TemporaryDirectory() as td:
        p = os.path.join(td, 'o.v')
        sdn.compose(n, p)
        return open(p).read(), sdn.parse(p)


def assigns(n, name='top'):
    """per assignment instance of the module: width, [(lhs bit, rhs bit) per pin k]"""
    top = next(x for lib in n.libraries for x in lib.definitions if x.name == name)
    out = []
    for inst in top.children:
        if inst.reference.library.name != 'SDN_VERILOG_ASSIGNMENT':
            continue
        o = next(p for p in inst.reference.ports if p.name == 'o')
        i = next(p for p in inst.reference.ports if p.name == 'i')

        def bit(pin):
            w = inst.pins[pin].wire
            return None if w is None else (w.cable.name, w.cable.lower_index + w.cable.wires.index(w))
        out.append((inst.reference.name, [(bit(a), bit(b)) for a, b in zip(o.pins, i.pins)]))
    return out


def expect(what, got, want):
    if got != want:
        bad.append('%s: got %r, want %r' % (what, got, want))


CASES = [
    # (declarations, assign, width, lhs name, lhs low, rhs name, rhs low)
    ('output [3:0] a; input [2:0] b;', 'assign a[3:1] = b[2:0];', 3, 'a', 1, 'b', 0),
    ('output [15:0] a; input [15:0] b;', 'assign a[15:6] = b[15:6];', 10, 'a', 6, 'b', 6),
    ('output [1:0] a; input [1:0] b;', 'assign a = b;', 2, 'a', 0, 'b', 0),
    ('output [1:0] a; input [1:0] b; wire [7:4] x; wire [-1:-4] y;', 'assign x[6:5] = y[-3:-4];', 2, 'x', 5, 'y', -4),
    ('output [1:0] a; input [1:0] b; wire [7:4] x;', 'assign x[5:4] = b;', 2, 'x', 4, 'b', 0),
    ('output [1:0] a; input [1:0] b;', 'assign a[1] = b[0];', 1, 'a', 1, 'b', 0),
    # sides of different width: the low bits are joined
    ('output [3:0] a; input [1:0] b;', 'assign a = b;', 2, 'a', 0, 'b', 0),
    ('output [1:0] a; input [3:0] b;', 'assign a = b[3:1];', 2, 'a', 0, 'b', 1),
]
for decl, stmt, w, ln, ll, rn, rl in CASES:
    src = 'module top(a, b); %s %s endmodule' % (decl, stmt)
    want = [('SDN_VERILOG_ASSIGNMENT_%d' % w, [((ln, ll + k), (rn, rl + k)) for k in range(w)])]
    n = parse(src)
    expect('read %s' % stmt, assigns(n), want)
    try:
        text, n2 = roundtrip(n)
    except Exception as e:  # noqa
        bad.append('write/re-read %s: %s %s' % (stmt, type(e).__name__, str(e)[:120]))
        continue
    expect('re-read %s (written: %s)' % (stmt, [l for l in text.splitlines() if l.startswith('assign')]), assigns(n2), want)

# several assigns in one module keep their order and counter
n = parse('module top(a, b); output [3:0] a; input [3:0] b; assign a[1:0] = b[3:2]; assign a[3:2] = b[1:0]; endmodule')
want = [('SDN_VERILOG_ASSIGNMENT_2', [(('a', 0), ('b', 2)), (('a', 1), ('b', 3))]),
        ('SDN_VERILOG_ASSIGNMENT_2', [(('a', 2), ('b', 0)), (('a', 3), ('b', 1))])]
expect('two assigns', assigns(n), want)
try:
    expect('two assigns, re-read', assigns(roundtrip(n)[1]), want)
except Exception as e:  # noqa
    bad.append('two assigns, write/re-read: %s %s' % (type(e).__name__, str(e)[:120]))

# the bundled example that could not be written
ex = os.path.join(os.environ.get('EXAMPLE_NETLISTS_PATH') or os.path.join(os.path.dirname(os.path.dirname(sdn.__file__)), 'example_netlists'),
                  'verilog_netlists', 'lc3.v.zip')
if os.path.exists(ex):
    n = sdn.parse(ex)
    try:
        text, n2 = roundtrip(n)
        def everywhere(nn):
            return sorted((x.name, str(a)) for lib in nn.libraries if lib.name != 'SDN_VERILOG_ASSIGNMENT' for x in lib.definitions
                          for a in assigns(nn, x.name))
        expect('lc3.v assigns after the round trip', everywhere(n2), everywhere(n))
        expect('lc3.v has multi-bit assigns', any('ASSIGNMENT_1\'' not in a for _, a in everywhere(n)), True)
    except Exception as e:  # noqa
        bad.append('lc3.v write/re-read: %s %s' % (type(e).__name__, str(e)[:120]))

for b in bad:
    print('FAIL', b)
print('c04 multi-bit assign: %d failure(s)' % len(bad))
sys.exit(1 if bad else 0)
