"""C11 (fixed): HRef.get_all_hrefs_of_instances looked the netlist up through reference.library.netlist of the first
instance handed in. An instance without a reference, and every element of a cell that is instantiated below the top
but was never added to a library, then had NO occurrences via get_all_hrefs_of_item / get_hinstances(element),
although get_h*(netlist) enumerates valid references to them (former findings C11-instance-without-reference,
C11-definition-outside-library). The property: asking for all occurrences of an element returns all and only the
valid paths ending at it."""
import sys
import spydrnet as sdn
from spydrnet.util.hierarchical_reference import HRef

bad = []


def names(hrefs):
    out = []
    for h in hrefs:
        seq = []
        while h is not None:
            seq.append(h.item)
            h = h.parent
        out.append(tuple(id(x) for x in reversed(seq)))
    return sorted(out)


def expect(what, got, want_seqs):
    got = list(got)
    want = sorted(tuple(id(x) for x in s) for s in want_seqs)
    if names(got) != want:
        bad.append('%s: %d reference(s), expected %d' % (what, len(got), len(want)))
    for h in got:
        if not h.is_valid:
            bad.append('%s: returns a reference that reports invalid' % what)


nl = sdn.Netlist(name='n')
lib = nl.create_library(name='work')
leaf = lib.create_definition(name='LEAF')
lp = leaf.create_port(name='a'); lpin = lp.create_pin()
top_def = lib.create_definition(name='TOP')
orphan = sdn.Definition(name='ORPHAN')            # never added to a library
port = orphan.create_port(name='p'); pin = port.create_pin()
cable = orphan.create_cable(name='c'); wire = cable.create_wire()
deep = orphan.create_child(name='deep', reference=leaf)   # an in-library cell below the orphan cell
u = top_def.create_child(name='u', reference=orphan)
v = top_def.create_child(name='v', reference=orphan)
hole = top_def.create_child(name='hole')          # an instance without a reference
nl.top_instance = top_def
top = nl.top_instance

# what the netlist-rooted enumeration says (valid references, by definition of the elaborated design)
hinst = names(sdn.get_hinstances(nl, recursive=True))
for seq in ([top, u], [top, v], [top, hole], [top, u, deep], [top, v, deep]):
    if tuple(id(x) for x in seq) not in hinst:
        bad.append('get_hinstances(netlist) misses a path (test set-up)')

expect('get_all_hrefs_of_item(instance without reference)', HRef.get_all_hrefs_of_item(hole), [[top, hole]])
expect('get_hinstances(instance without reference)', sdn.get_hinstances(hole), [[top, hole]])
expect('get_all_hrefs_of_item(instance of a cell outside every library)', HRef.get_all_hrefs_of_item(u), [[top, u]])
expect('get_all_hrefs_of_item(cell outside every library)', HRef.get_all_hrefs_of_item(orphan), [[top, u], [top, v]])
expect('get_hinstances(cell outside every library)', sdn.get_hinstances(orphan), [[top, u], [top, v]])
expect('get_all_hrefs_of_item(port of it)', HRef.get_all_hrefs_of_item(port), [[top, u, port], [top, v, port]])
expect('get_all_hrefs_of_item(pin of it)', HRef.get_all_hrefs_of_item(pin), [[top, u, port, pin], [top, v, port, pin]])
expect('get_all_hrefs_of_item(cable of it)', HRef.get_all_hrefs_of_item(cable), [[top, u, cable], [top, v, cable]])
expect('get_all_hrefs_of_item(wire of it)', HRef.get_all_hrefs_of_item(wire), [[top, u, cable, wire], [top, v, cable, wire]])
expect('get_hports(cell outside every library)', sdn.get_hports(orphan), [[top, u, port], [top, v, port]])
expect('get_all_hrefs_of_item(instance inside it)', HRef.get_all_hrefs_of_item(deep), [[top, u, deep], [top, v, deep]])
expect('get_all_hrefs_of_item(port of the cell below it)', HRef.get_all_hrefs_of_item(lp), [[top, u, deep, lp], [top, v, deep, lp]])
expect('get_all_hrefs_of_item(outer pin of its instance)', HRef.get_all_hrefs_of_item(u.pins[pin]), [[top, u, port, pin]])
expect('get_all_hrefs_of_item(top instance)', HRef.get_all_hrefs_of_item(top), [[top]])
# an explicitly named netlist still restricts the search to that netlist's top instance
expect('get_all_hrefs_of_instances(.., netlist)', HRef.get_all_hrefs_of_instances([hole, u], nl), [[top, hole], [top, u]])
# a cell nobody instantiates below a top instance has no occurrence
lonely = lib.create_definition(name='LONELY'); lonely_child = lonely.create_child(name='x', reference=leaf)
expect('get_all_hrefs_of_item(instance in a cell that is not instantiated)', HRef.get_all_hrefs_of_item(lonely_child), [])

# a second netlist instantiating a cell of the first: the occurrences below both top instances are valid
nl2 = sdn.Netlist(name='m')
lib2 = nl2.create_library(name='work2')
top2_def = lib2.create_definition(name='TOP2')
w2 = top2_def.create_child(name='w', reference=leaf)
nl2.top_instance = top2_def
top2 = nl2.top_instance
expect('get_all_hrefs_of_item(port of a cell instantiated from two netlists)', HRef.get_all_hrefs_of_item(lp),
       [[top, u, deep, lp], [top, v, deep, lp], [top2, w2, lp]])
expect('.. restricted to the second netlist', HRef.get_all_hrefs_of_instances(leaf.references, nl2), [[top2, w2]])

# the library that holds the top cell leaves the netlist: no reference rooted at the old top instance is valid any more
nl2.remove_library(lib2)
expect('get_all_hrefs_of_item(instance below a top instance whose cell left the netlist)', HRef.get_all_hrefs_of_item(w2), [])

if bad:
    for b in bad:
        print('VIOLATION:', b)
    sys.exit(1)
print('OK')
