"""C13 (fixed): findings C13-K1, K2, K5, K3 on the public query API.
K1  the name-map stage of get_instances / get_libraries / get_definitions yielded an element again
    when an absolute pattern and another (or the same) pattern selected it;
K2  with a collection of roots the second stage of get_instances / get_libraries yielded again what the
    first stage had yielded;
K5  for a key without a registered lookup an exact pattern returned only the first child carrying it;
K3  under the DEFAULT policy an exact pattern on key EDIF.identifier returned nothing.
Every query must return each selected element once, and the exact form must agree with the wildcard
form that selects the same values."""
import sys
import spydrnet as sdn

bad = []


def once(tag, result, expect=None):
    r = list(result)
    names = sorted(x.name for x in r)
    if len(r) != len(set(r)) or (expect is not None and names != sorted(expect)):
        bad.append('%s -> %s' % (tag, [x.name for x in r]))


n = sdn.Netlist(name='n')
lib = n.create_library(name='l')
leaf = lib.create_definition(name='leaf')
d = lib.create_definition(name='d')
top = lib.create_definition(name='top')
a = d.create_child(name='a', reference=leaf)
ab = d.create_child(name='ab', reference=leaf)
i = top.create_child(name='i', reference=d)

for pats in (['a', 'a*'], ['a*', 'a'], ['a', 'a'], ['a', 'ab', '?b']):
    once('K1 get_instances(instance, %s)' % pats, sdn.get_instances(i, pats), ['a', 'ab'] if pats != ['a', 'a'] else ['a'])
    once('K1+K2 get_instances([definition, instance], %s)' % pats, sdn.get_instances([d, i], pats))
once('K2 get_instances([definition, instance])', sdn.get_instances([d, i]), ['a', 'ab'])
once('K2 get_instances([definition, instance], a*)', sdn.get_instances([d, i], 'a*'), ['a', 'ab'])
for pats in (['l', 'l*'], ['l*', 'l'], ['l', 'l']):
    once('K1 get_libraries(instance, %s)' % pats, sdn.get_libraries(i, pats), ['l'])
    once('K2 get_libraries([netlist, instance], %s)' % pats, sdn.get_libraries([n, i], pats), ['l'])
for pats in (['d', 'd*'], ['d*', 'd'], ['d', 'd']):
    once('K1 get_definitions(instance, %s)' % pats, sdn.get_definitions(i, pats), ['d'])

# K5: a user key shared by siblings
p = d.create_port(name='p'); q = d.create_port(name='q')
c = d.create_cable(name='c'); e = d.create_cable(name='e')
lib2 = n.create_library(name='l2')
for x in (a, ab, p, q, c, e, d, leaf, top, lib, lib2):
    x['USER.k'] = 'v'
for f, root, exp in ((sdn.get_instances, d, ['a', 'ab']), (sdn.get_ports, d, ['p', 'q']), (sdn.get_cables, d, ['c', 'e']),
                     (sdn.get_definitions, lib, ['leaf', 'd', 'top']), (sdn.get_libraries, n, ['l', 'l2'])):
    once('K5 %s(exact v, key=USER.k)' % f.__name__, f(root, 'v', key='USER.k'), exp)
    once('K5 %s(v*, key=USER.k)' % f.__name__, f(root, 'v*', key='USER.k'), exp)
    once('K5 %s(absent value)' % f.__name__, f(root, 'w', key='USER.k'), [])

# K3: DEFAULT policy, identifiers
assert n['.NS'] == 'DEFAULT'
for x in (a, p, c, d, lib):
    x['EDIF.identifier'] = 'x'
for f, root, exp in ((sdn.get_instances, d, ['a']), (sdn.get_ports, d, ['p']), (sdn.get_cables, d, ['c']),
                     (sdn.get_definitions, lib, ['d']), (sdn.get_libraries, n, ['l'])):
    once('K3 %s(exact x, key=EDIF.identifier)' % f.__name__, f(root, 'x', key='EDIF.identifier'), exp)
    once('K3 %s(x*, key=EDIF.identifier)' % f.__name__, f(root, 'x*', key='EDIF.identifier'), exp)
    once('K3 %s(X: the DEFAULT policy does not fold case)' % f.__name__, f(root, 'X', key='EDIF.identifier'), [])

for b in bad:
    print('FAIL', b)
sys.exit(1 if bad else 0)
