"""C13 (fixed): get_libraries(instance, selection=OUTSIDE, recursive=True) ignored `recursive`
("object_collection += parent" iterated the keys of the parent definition's dictionary instead of
appending the definition), so the libraries above the enclosing definition were missed.
OUTSIDE from an instance = the library of the definition it sits in and, recursive, of every
definition above it - the same answer as from the enclosing definition's instances upwards."""
import sys
import spydrnet as sdn
from spydrnet.util.selection import Selection

bad = []

n = sdn.Netlist(name='n')
L = n.create_library(name='L')
W = n.create_library(name='W')
V = n.create_library(name='V')
leaf = L.create_definition(name='leaf')
mid = L.create_definition(name='mid')
top = W.create_definition(name='top')
root = V.create_definition(name='root')
a = mid.create_child(name='a', reference=leaf)
u = top.create_child(name='u', reference=mid)
t = root.create_child(name='t', reference=top)


def names(r):
    r = list(r)
    if len(r) != len(set(r)):
        bad.append('duplicates %s' % [x.name for x in r])
    return sorted(x.name for x in r)


for obj, tag in ((a, 'instance'), (next(iter(a.pins)) if a.pins else a, 'outer pin or instance')):
    got = names(sdn.get_libraries(obj, selection=Selection.OUTSIDE, recursive=True))
    if got != ['L', 'V', 'W']:
        bad.append('get_libraries(%s a, OUTSIDE, recursive=True) -> %s, expected L V W' % (tag, got))
    got = names(sdn.get_libraries(obj, selection=Selection.OUTSIDE, recursive=False))
    if got != ['L']:
        bad.append('get_libraries(%s a, OUTSIDE, recursive=False) -> %s, expected L' % (tag, got))
got = names(sdn.get_libraries(a, 'W', selection=Selection.OUTSIDE, recursive=True))
if got != ['W']:
    bad.append('get_libraries(a, "W", OUTSIDE, recursive=True) -> %s' % got)
got = names(sdn.get_libraries(u, selection=Selection.OUTSIDE, recursive=True))
if got != ['V', 'W']:
    bad.append('get_libraries(u, OUTSIDE, recursive=True) -> %s, expected V W' % got)

if bad:
    print('\n'.join(bad))
    sys.exit(1)
print('ok')
