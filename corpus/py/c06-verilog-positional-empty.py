"""C06 (fixed): V06-positional-empty - a positional port map with an empty position ("M m(a, , b);") was rejected
by spydrnet/parsers/verilog/parser.py connect_implicitly_mapped_ports (parse_variable_instantiation met the comma).
Now the port at that position stays unconnected and the positions after it keep their index; on a never-declared
module an unnamed one-bit port takes the empty position."""
import os, sys, tempfile
import spydrnet as sdn

bad = []


def parse(text):
    with tempfile.TemporaryDirectory() as td:
        p = os.path.join(td, 'x.v')
        open(p, 'w').write(text)
        return sdn.parse(p)


def conns(n, iname):
    top = n.top_instance.reference
    i = next(c for c in top.children if c.name == iname)
    out = []
    for p in i.reference.ports:
        out.append((p.name, [None if i.pins[q].wire is None else
                             (i.pins[q].wire.cable.name, i.pins[q].wire.cable.lower_index + i.pins[q].wire.cable.wires.index(i.pins[q].wire))
                             for q in p.pins]))
    return out


def expect(what, got, want):
    if got != want:
        bad.append('%s: got %r, want %r' % (what, got, want))


M = 'module M(x, z, y); input x; input [1:0] z; output y; endmodule '
for order in (M + '%s', '%s ' + M):
    try:
        n = parse(order % 'module top(a, b, c); input a; output b; input [1:0] c; M m(a, , b); M m2( , c, ); M m3(a, c[1], ); M m4( , , ); endmodule')
    except Exception as e:  # noqa
        bad.append('declared module: %s %s' % (type(e).__name__, str(e)[:120]))
        continue
    expect('m(a, , b)', conns(n, 'm'), [('x', [('a', 0)]), ('z', [None, None]), ('y', [('b', 0)])])
    expect('m2( , c, )', conns(n, 'm2'), [('x', [None]), ('z', [('c', 0), ('c', 1)]), ('y', [None])])
    expect('m3(a, c[1], )', conns(n, 'm3'), [('x', [('a', 0)]), ('z', [('c', 1), None]), ('y', [None])])
    expect('m4( , , )', conns(n, 'm4'), [('x', [None]), ('z', [None, None]), ('y', [None])])
    expect('top', n.top_instance.reference.name, 'top')
try:
    n = parse('module top(a, b); input a; output b; P p(a, , b); P q( , a, ); endmodule')
    expect('never-declared P: p', conns(n, 'p'), [(None, [('a', 0)]), (None, [None]), (None, [('b', 0)])])
    expect('never-declared P: q', conns(n, 'q'), [(None, [None]), (None, [('a', 0)]), (None, [None])])
except Exception as e:  # noqa
    bad.append('never-declared module: %s %s' % (type(e).__name__, str(e)[:120]))

for b in bad:
    print('FAIL', b)
print('c06 positional empty: %d failure(s)' % len(bad))
sys.exit(1 if bad else 0)
