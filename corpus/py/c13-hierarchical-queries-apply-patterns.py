"""C13 (fixed, finding C13-K6): get_hinstances / get_hports / get_hpins / get_hcables / get_hwires
ignored the patterns (and is_case / is_re) for every root other than a netlist or a reference to an
instance, and get_hcables / get_hwires also for selections other than INSIDE: the whole unfiltered
result came back. The result for a pattern must be the unfiltered result restricted to the
references whose hierarchical name matches."""
import sys
import spydrnet as sdn
from spydrnet.util.selection import Selection

bad = []
n = sdn.Netlist(name='n')
l = n.create_library(name='l')
leaf = l.create_definition(name='leaf')
p = leaf.create_port(name='p')
pin = p.create_pin()
c = leaf.create_cable(name='c')
wire = c.create_wire()
wire.connect_pin(pin)
top = l.create_definition(name='top')
a = top.create_child(name='a', reference=leaf)
b = top.create_child(name='Ab', reference=leaf)
tc = top.create_cable(name='tc')
tw = tc.create_wire()
tw.connect_pin(a.pins[pin])
tw.connect_pin(b.pins[pin])
n.top_instance = sdn.Instance(name='t')
n.top_instance.reference = top

FUNCS = (sdn.get_hinstances, sdn.get_hports, sdn.get_hpins, sdn.get_hcables, sdn.get_hwires)
ROOTS = (('definition', leaf), ('library', l), ('instance', a), ('port', p), ('cable', c), ('inner pin', pin),
         ('wire', wire), ('outer pin', a.pins[pin]), ('netlist', n))
for f in FUNCS:
    for tag, root in ROOTS:
        sels = (None,) if f in FUNCS[:3] else (None, Selection.OUTSIDE, Selection.BOTH, Selection.ALL)
        for sel in sels:
            kw = {} if sel is None else {'selection': sel}
            everything = list(f(root, recursive=True, **kw))
            for pats, opts, want in ((('a*',), {}, lambda s: s.startswith('a')),
                                     (('zz_nomatch',), {}, lambda s: False),
                                     (('AB*',), {'is_case': False}, lambda s: s.lower().startswith('ab')),
                                     (('a/.*',), {'is_re': True}, lambda s: s.startswith('a/'))):
                got = list(f(root, *pats, recursive=True, **dict(kw, **opts)))
                exp = [h for h in everything if want(h.name)]
                if len(got) != len(set(got)) or set(got) != set(exp):
                    bad.append('%s(%s, %r, %s %s) -> %s, expected %s' % (f.__name__, tag, pats, opts, kw,
                                                                        sorted(h.name for h in got), sorted(h.name for h in exp)))
for x in bad[:20]:
    print('FAIL', x)
sys.exit(1 if bad else 0)
