"""C08 (fixed): "new definitions get fresh, non-colliding names". _make_instance_unique used to rename the copy
(name and EDIF.identifier) only `if instance.reference.name is not None`. A cell that carries an EDIF.identifier
but NO name, under the EDIF naming policy, instantiated more than once below the top, therefore got a copy with
the SAME identifier; add_definition refused it with ValueError half-way: the copy outside every library, its
children registered with the cells they instantiate, the instance still on the shared cell.
Regression witness (Props/C08.v: C08_unnamed_cell_with_identifier_sample, C08_add_never_refused_by_name,
C08_round_fresh_name). Exit 0 = uniquify completes, the identifiers in the library are distinct up to case,
the design is the same, cells with names get exactly the names they got before the repair.
Run: PYTHONPATH=/repo /venv/bin/python corpus/py/c08-uniquify-unnamed-cell.py"""
import sys
import spydrnet as sdn
import spydrnet.uniquify as U
from spydrnet.uniquify import uniquify

bad = []


def design(mid_name, mid_ident, copies=3):
    n = sdn.Netlist(name='n')
    lib = n.create_library(name='work')
    leaf = lib.create_definition(name='LEAF')
    a = leaf.create_port(name='A')
    a.create_pin()
    mid = lib.create_definition(name=mid_name, properties={'EDIF.identifier': mid_ident} if mid_ident is not None else None)
    u = mid.create_child(name='u', reference=leaf)
    c = mid.create_cable(name='n')
    w = c.create_wire()
    w.connect_pin(u.pins[a.pins[0]])
    p = mid.create_port(name='P')
    w.connect_pin(p.create_pin())
    top = lib.create_definition(name='top')
    m = [top.create_child(name='m%d' % i, reference=mid) for i in range(copies)]
    n.top_instance = top
    return n, lib, leaf, mid, m


def shape(n):
    """instance tree below the top with leaf cell names: what uniquify must not change"""
    def walk(inst):
        d = inst.reference
        if d.is_leaf():
            return (inst.name, 'leaf', d.name)
        return (inst.name, tuple(sorted((pt.name, len(pt.pins)) for pt in d.ports)),
                tuple(walk(c) for c in d.children))
    return walk(n.top_instance)


def check(tag, n, lib, leaf, m):
    before = shape(n)
    n_before = len(lib.definitions)
    try:
        uniquify(n)
    except Exception as e:  # noqa
        bad.append('%s: uniquify raised %s: %s' % (tag, type(e).__name__, e))
    names = [d.name for d in lib.definitions if d.name is not None]
    if len(names) != len(set(names)):
        bad.append('%s: duplicate definition names %r' % (tag, names))
    idents = [d['EDIF.identifier'] for d in lib.definitions if 'EDIF.identifier' in d]
    if len(idents) != len(set(i.lower() for i in idents)):
        bad.append('%s: definition identifiers collide without case %r' % (tag, idents))
    if len(lib.definitions) != n_before + len(m) - 1:
        bad.append('%s: %d definitions in the library, expected %d' % (tag, len(lib.definitions), n_before + len(m) - 1))
    refs = [x.reference for x in m]
    if len(set(id(r) for r in refs)) != len(m) or any(len(r.references) != 1 or r.library is not lib for r in refs):
        bad.append('%s: the instances of the cell are not unique afterwards: %r' % (
            tag, [(r.name, r['EDIF.identifier'] if 'EDIF.identifier' in r else None, len(r.references), r.library is lib) for r in refs]))
    stray = [x for x in leaf.references if x.parent is None or x.parent.library is not lib]
    if stray:
        bad.append('%s: %d instance(s) of LEAF belong to a cell outside the library' % (tag, len(stray)))
    if shape(n) != before:
        bad.append('%s: the design below the top changed' % tag)
    return [(d.name, d['EDIF.identifier'] if 'EDIF.identifier' in d else None) for d in lib.definitions]


try:
    sdn.namespace_manager.default = 'EDIF'
    # 1. the finding: identifier, no name
    U.MOD_NAME_UID = 0
    n, lib, leaf, mid, m = design(None, 'mid')
    got = check('identifier without name', n, lib, leaf, m)
    want = [('LEAF', None), (None, 'mid'), (None, 'mid_sdn_unique_1'), (None, 'mid_sdn_unique_0'), ('top', None)]
    if not bad and got != want:
        bad.append('identifier without name: library is %r, expected %r' % (got, want))
    if not bad and U.MOD_NAME_UID != 2:
        bad.append('identifier without name: the suffix counter is %d after two copies' % U.MOD_NAME_UID)

    # 2. ... with the first candidates already in use (by identifier, in another case)
    U.MOD_NAME_UID = 0
    n, lib, leaf, mid, m = design(None, 'Mid')
    lib.create_definition(name='other', properties={'EDIF.identifier': 'MID_SDN_unique_0'})
    lib.create_definition(name=None, properties={'EDIF.identifier': 'mid_sdn_UNIQUE_2'})
    got = check('identifier without name, pre-seeded', n, lib, leaf, m)
    if not bad and not {(None, 'Mid_sdn_unique_1'), (None, 'Mid_sdn_unique_3')} <= set(got):
        bad.append('identifier without name, pre-seeded: expected the free identifiers Mid_sdn_unique_1 and Mid_sdn_unique_3, got %r' % got)

    # 3. a cell with a name and an identifier is renamed exactly as before the repair
    U.MOD_NAME_UID = 0
    n, lib, leaf, mid, m = design('mid', 'Mid')
    got = check('name and identifier', n, lib, leaf, m)
    want = [('LEAF', None), ('mid', 'Mid'), ('mid_sdn_unique_1', 'Mid_sdn_unique_1'), ('mid_sdn_unique_0', 'Mid_sdn_unique_0'), ('top', None)]
    if not bad and got != want:
        bad.append('name and identifier: library is %r, expected %r' % (got, want))

    # 4. a cell with neither: nothing to rename, nothing to collide, the counter is not used
    U.MOD_NAME_UID = 0
    n, lib, leaf, mid, m = design(None, None)
    got = check('neither name nor identifier', n, lib, leaf, m)
    if not bad and U.MOD_NAME_UID != 0:
        bad.append('neither name nor identifier: the suffix counter moved to %d' % U.MOD_NAME_UID)

    # 5. the default policy: the identifier is plain data, but the copies still get distinct ones
    sdn.namespace_manager.default = 'DEFAULT'
    U.MOD_NAME_UID = 0
    n, lib, leaf, mid, m = design(None, 'mid')
    check('default policy', n, lib, leaf, m)
finally:
    sdn.namespace_manager.default = 'DEFAULT'

if bad:
    for b in bad:
        print('VIOLATION: ' + b)
    sys.exit(1)
print('OK')
