"""C09 (fixed): flatten used to decide "has an enclosing instance" by `add_to_name != ""`, so
(1) below a hierarchical instance named "" a leaf kept its own name ("v" instead of "/v") and, when that name met a
    sibling of the top, the run stopped half-way with ValueError (shell left in the top, inner leaf orphaned);
(2) a hierarchical instance WITHOUT a name made flatten raise TypeError after the cables of its cell were taken out.
Now the flat name is always the slash-joined list of the names along the path (a missing name counts as the empty
string, a child of the top keeps its name or stays unnamed) and the call completes."""
import sys
import spydrnet as sdn
from spydrnet.flatten import flatten
from spydrnet.uniquify import uniquify

bad = []


def design(hier_name, inner, top_leaf, deeper=False):
    n = sdn.Netlist(name="n")
    lib = n.create_library(name="l")
    leaf = lib.create_definition(name="LEAF")
    leaf.create_port(name="p").create_pins(1)
    mid = lib.create_definition(name="MID")
    for nm in inner:
        mid.create_child(name=nm, reference=leaf)
    mid.create_cable(name="c").create_wires(1)
    if deeper:   # one more level: OUTER = { hier_name : MID }, TOP = { "o" : OUTER }
        outer = lib.create_definition(name="OUTER")
        h = outer.create_child(reference=mid)
    top = lib.create_definition(name="TOP")
    if deeper:
        top.create_child(name="o", reference=outer)
    else:
        h = top.create_child(reference=mid)
    if hier_name is not None:
        h.name = hier_name
    if top_leaf is not None:
        top.create_child(name=top_leaf, reference=leaf)
    ti = sdn.Instance(name="t")
    ti.reference = top
    n.top_instance = ti
    uniquify(n)
    return n, top, mid


def check(label, hier_name, inner, top_leaf, want_children, want_cables, deeper=False):
    n, top, mid = design(hier_name, inner, top_leaf, deeper)
    try:
        flatten(n)
    except Exception as e:  # noqa
        bad.append('%s: flatten raised %s: %s (top children now %r, cables left in MID %r)' % (
            label, type(e).__name__, e, [c.name for c in top.children], [c.name for c in mid.cables]))
        return
    got_children = sorted(c.name for c in top.children)
    got_cables = sorted(c.name for c in top.cables)
    if got_children != sorted(want_children):
        bad.append('%s: leaf instances of the flat top are named %r, slash-joined paths are %r' % (label, got_children, sorted(want_children)))
    if got_cables != sorted(want_cables):
        bad.append('%s: cables of the flat top are named %r, slash-joined paths are %r' % (label, got_cables, sorted(want_cables)))
    if any(c.reference is None or not c.reference.is_leaf() for c in top.children):
        bad.append('%s: a hierarchical instance remains' % label)


# a hierarchical instance named "": "" is a path component like any other
check('1a hierarchical instance named ""', "", ["w"], "v", ["v", "/w"], ["/c"])
# ... also when the inner leaf is called like a sibling of the top (used to stop half-way with ValueError)
check('1b hierarchical instance named "", inner leaf called like a sibling', "", ["v"], "v", ["v", "/v"], ["/c"])
# a hierarchical instance without a name: the missing name counts as "" (used to raise TypeError half-way)
check('2a hierarchical instance without a name', None, ["w"], "v", ["v", "/w"], ["/c"])
# the same one level further down
check('2b hierarchical instance without a name below another', None, ["w"], "v", ["v", "o//w"], ["o//c"], deeper=True)
check('1c hierarchical instance named "" below another', "", ["w"], "v", ["v", "o//w"], ["o//c"], deeper=True)
# names of designs whose hierarchical instances all have non-empty names are what they were
check('0 ordinary names', "h", ["w"], "v", ["v", "h/w"], ["h/c"])

if bad:
    for b in bad:
        print('VIOLATION: ' + b)
    sys.exit(1)
print('OK')
