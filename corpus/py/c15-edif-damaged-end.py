"""C15 (fixed): a damaged EDIF file makes the reader raise. A file that lacked its last two parentheses, carried
garbage after the design construct, or had tokens after the closing parenthesis of (edif ..) used to be accepted;
a second design construct silently replaced nothing (it was never read)."""
import os, sys, tempfile
import spydrnet as sdn
from spydrnet.plugins import namespace_manager
B = '''(edif n (edifVersion 2 0 0) (edifLevel 0) (keywordMap (keywordLevel 0)) (library work (edifLevel 0) (technology (numberDefinition))
 (cell t (cellType GENERIC) (view netlist (viewType NETLIST) (interface (port x (direction INPUT))))))
 (design t (cellRef t (libraryRef work'''
def rd(text):
    d = tempfile.mkdtemp(); p = os.path.join(d, 'i.edf'); open(p, 'w').write(text); return sdn.parse(p)
bad = []
before = namespace_manager.default
n = rd(B + '))))\n')
if [l.name for l in n.libraries] != ['work'] or n.top_instance.reference.name != 't':
    bad.append('the complete file is not read as written')
for what, tail in [('the last two parentheses are missing', '))'), ('the last parenthesis is missing', ')))'),
                   ('garbage instead of the last two parentheses', ')) garbage ( ( "unterminated'),
                   ('an atom after the end', ')))) x'), ('a parenthesis after the end', ')))))'),
                   ('a construct after the end', ')))) (library late (edifLevel 0) (technology (numberDefinition)))'),
                   ('a second design construct', '))) (design t2 (cellRef t (libraryRef work))))'),
                   ('cellRef keyword replaced', None)]:
    text = B + tail if tail is not None else (B + '))))').replace('(cellRef t', '(viewRef t')
    try:
        rd(text)
        bad.append('accepted although ' + what)
    except Exception:
        pass
    if namespace_manager.default != before:
        bad.append('naming policy left at %r after a refused file' % namespace_manager.default)
if bad:
    print('VIOLATION: ' + '; '.join(bad)); sys.exit(1)
print('OK')
