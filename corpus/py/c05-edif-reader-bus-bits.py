"""C05 (fixed): the EDIF reader builds what the file says - assembly of bus cables from bit nets.
K7: a net name containing * or ? was used as a wildcard pattern (get_cables) and captured other cables.
K11: a second net for the bit that is the current lower index of its bus was PREPENDED as a new wire, so every
bit of the bus moved up by one position and the cable grew (bundled float_demo.edf).
K9: bit nets "\\name[i]" of a bus whose name starts with a backslash stayed separate scalar nets."""
import os, sys, tempfile
import spydrnet as sdn
W = '''(edif n (edifVersion 2 0 0) (edifLevel 0) (keywordMap (keywordLevel 0)) (library work (edifLevel 0) (technology (numberDefinition))
 (cell t (cellType GENERIC) (view netlist (viewType NETLIST) (interface (port (array p 6) (direction INPUT))) (contents %s))))
 (design t (cellRef t (libraryRef work))))'''
def rd(nets):
    body = ' '.join('(net (rename %s "%s") (joined %s))' % (i, n, ' '.join('(portRef (member p %d))' % q for q in pins)) for i, n, pins in nets)
    d = tempfile.mkdtemp(); p = os.path.join(d, 'i.edf'); open(p, 'w').write(W % body)
    t = sdn.parse(p).libraries[0].definitions[0]
    port = t.ports[0]
    return [(c.name, c.lower_index, [[port.pins.index(q) for q in w.pins] for w in c.wires]) for c in t.cables]
bad = []
got = rd([('ab_0_', 'ab[0]', [0]), ('ab_1_', 'ab[1]', [1]), ('g_0_', 'a*[0]', [2]), ('h', '?b', [3])])
exp = [('ab', 0, [[0], [1]]), ('a*', 0, [[2]]), ('?b', 0, [[3]])]
if got != exp:
    bad.append('K7 names with * / ?: %r, expected %r' % (got, exp))
got = rd([('x_2_', 'x[2]', [0]), ('x_3_', 'x[3]', [1]), ('x_2_', 'x[2]', [2])])
exp = [('x', 2, [[0, 2], [1]])]
if got != exp:
    bad.append('K11 bit 2 given twice: %r, expected %r' % (got, exp))
got = rd([('x_3_', 'x[3]', [0]), ('x_1_', 'x[1]', [1]), ('x_3_', 'x[3]', [2]), ('x_1_', 'x[1]', [3]), ('x_0_', 'x[0]', [4])])
exp = [('x', 0, [[4], [1, 3], [], [0, 2]])]
if got != exp:
    bad.append('K11 bits given twice, out of order: %r, expected %r' % (got, exp))
# K9: a bus whose name starts with a backslash, bits written "\\x[i]" (no space); the escaped scalar "\\y[3] " is no bit
got = rd([('x_0_', '\\x[0]', [0]), ('x_1_', '\\x[1]', [1]), ('y_3_', '\\y[3] ', [2])])
exp = [('\\x', 0, [[0], [1]]), ('\\y[3] ', 0, [[2]])]
if got != exp:
    bad.append('K9 bus name starting with a backslash: %r, expected %r' % (got, exp))
if bad:
    print('VIOLATION: ' + '; '.join(bad)); sys.exit(1)
print('OK')
