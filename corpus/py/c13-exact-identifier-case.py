"""C13 (fixed, finding C13-K4): under the EDIF policy identifiers compare case-insensitively (as the
namespace does and as documented), but an exact pattern on key EDIF.identifier was folded only where
the registered fast lookup answered: with the lookups deregistered (scan of global_service.lookup), in
the name-map stages (roots other than the parent kind) and in get_netlists it compared case-sensitively.
The exact form must select the same elements on every path, and under the DEFAULT policy nothing folds."""
import sys
import spydrnet as sdn
from spydrnet.global_state import global_service

bad = []


def check(tag, got, exp):
    got = list(got)
    if len(got) != len(set(got)) or set(got) != set(exp):
        bad.append('%s -> %s, expected %s' % (tag, sorted(str(x.name) for x in got), sorted(str(x.name) for x in exp)))


def build(policy):
    n = sdn.Netlist(name='n')
    n['.NS'] = policy
    n['EDIF.identifier'] = 'Net'
    lib = n.create_library(name='l')
    lib['EDIF.identifier'] = 'Lib'
    leaf = lib.create_definition(name='leaf')
    leaf['EDIF.identifier'] = 'Leaf'
    top = lib.create_definition(name='top')
    top['EDIF.identifier'] = 'Top'
    p = top.create_port(name='p'); p['EDIF.identifier'] = 'Pp'
    c = top.create_cable(name='c'); c['EDIF.identifier'] = 'Cc'
    i = top.create_child(name='i', reference=leaf); i['EDIF.identifier'] = 'Ii'
    return n, lib, leaf, top, p, c, i


for policy in ('EDIF', 'DEFAULT'):
    n, lib, leaf, top, p, c, i = build(policy)
    fold = policy == 'EDIF'
    K = 'EDIF.identifier'
    cases = [
        ('get_instances(definition)', lambda pat: sdn.get_instances(top, pat, key=K), 'II', [i]),
        ('get_instances([instance]: name map)', lambda pat: sdn.get_instances(n.top_instance or top, pat, key=K), 'II', [i]),
        ('get_ports(definition)', lambda pat: sdn.get_ports(top, pat, key=K), 'PP', [p]),
        ('get_ports(port: name map)', lambda pat: sdn.get_ports(p, pat, key=K), 'PP', [p]),
        ('get_cables(definition)', lambda pat: sdn.get_cables(top, pat, key=K), 'CC', [c]),
        ('get_cables(cable: name map)', lambda pat: sdn.get_cables(c, pat, key=K), 'CC', [c]),
        ('get_definitions(library)', lambda pat: sdn.get_definitions(lib, pat, key=K), 'TOP', [top]),
        ('get_definitions(instance: name map)', lambda pat: sdn.get_definitions(i, pat, key=K), 'LEAF', [leaf]),
        ('get_libraries(netlist)', lambda pat: sdn.get_libraries(n, pat, key=K), 'LIB', [lib]),
        ('get_libraries(instance: name map)', lambda pat: sdn.get_libraries(i, pat, key=K), 'LIB', [lib]),
        ('get_netlists(instance)', lambda pat: sdn.get_netlists(i, pat, key=K), 'NET', [n]),
    ]
    saved = dict(global_service._registered_lookups)
    for registered in (True, False):
        if not registered:
            global_service._registered_lookups.clear()
        try:
            for tag, q, pat, exp in cases:
                check('%s %s exact %r registered=%s' % (policy, tag, pat, registered), q(pat), exp if fold else [])
                exact = exp[0][K]
                check('%s %s exact %r registered=%s' % (policy, tag, exact, registered), q(exact), exp)
        finally:
            global_service._registered_lookups.update(saved)
for x in bad[:30]:
    print('FAIL', x)
sys.exit(1 if bad else 0)
