"""C20 (fixed): four defects that made Comparer refuse a netlist against its own copy, or leave
compare() by an exception other than AssertionError:
 - names were used as glob patterns in the get_* lookups: with siblings 'ab' and 'a*' (any kind of
   element) the second name found the first element (rejected);
 - an instance named SDN_Assignment_<x> with fewer than four '_' fields: name.split('_')[3] raised
   IndexError;
 - a connected instance without a name: None.startswith raised AttributeError;
 - a named port without pins failed the 'DRC' assert of compare_ports.
A netlist is accepted against an equal copy of itself; a difference next to such elements is still
answered by AssertionError; on every pair below compare() returns or raises AssertionError."""
import io, contextlib, itertools, sys
import spydrnet as sdn
from spydrnet.compare.compare_netlists import Comparer


def build(names=('ab', 'a*'), kind='port', short=None, unnamed=False, zero=False, moved=False, other_dir=False):
    n = sdn.Netlist(name='n')
    lib = n.create_library(name='work')
    leaf = lib.create_definition(name='LEAF')
    a = leaf.create_port(name='a', pins=1); a.direction = sdn.IN
    b = leaf.create_port(name='b', pins=2); b.direction = sdn.OUT
    top = lib.create_definition(name='top')
    i = top.create_port(name='i', pins=1); i.direction = sdn.IN
    first, second = names
    if kind == 'port':
        p1 = top.create_port(name=first, pins=1); p1.direction = sdn.IN
        p2 = top.create_port(name=second, pins=2); p2.direction = sdn.OUT if not other_dir else sdn.INOUT
    elif kind == 'cable':
        top.create_cable(name=first, wires=1)
        top.create_cable(name=second, wires=3 if other_dir else 2)
    elif kind == 'definition':
        lib.create_definition(name=first).create_port(name='x', pins=1)
        lib.create_definition(name=second).create_port(name='y', pins=2 if other_dir else 1)
    u0 = top.create_child(name=(first if kind == 'instance' else 'u0'), reference=leaf)
    u1 = top.create_child(name=(second if kind == 'instance' else 'u1'), reference=leaf)
    if kind == 'instance' and other_dir:
        u1['EDIF.properties'] = [{'identifier': 'K', 'value': 1}]
    k = top.create_cable(name='k', wires=1)
    k.wires[0].connect_pin(i.pins[0])
    k.wires[0].connect_pin(u0.pins[b.pins[1 if moved else 0]])
    k.wires[0].connect_pin(u1.pins[a.pins[0]])
    if short is not None:
        s = top.create_child(name=short, reference=leaf)
        k.wires[0].connect_pin(s.pins[a.pins[0]])
    if unnamed:
        x = top.create_child(reference=leaf)
        y = top.create_child(reference=leaf)
        k.wires[0].connect_pin(x.pins[a.pins[0]])
        z = top.create_cable(name='z', wires=1)
        z.wires[0].connect_pin(y.pins[b.pins[0]])
        z.wires[0].connect_pin(x.pins[b.pins[0]])
    if zero:
        top.create_port(name='nopins', pins=0)
        leaf.create_port(name='e', pins=0)
    n.top_instance = sdn.Instance(name='top'); n.top_instance.reference = top
    return n


def outcome(x, y):
    try:
        with contextlib.redirect_stdout(io.StringIO()):
            Comparer(x, y).compare()
        return 'accept'
    except AssertionError:
        return 'reject'
    except Exception as e:  # noqa
        return 'raises ' + type(e).__name__


bad = []
PAIRS = [('ab', 'a*'), ('a*', 'ab'), ('ab', 'a?'), ('x1', '*'), ('q[0]', 'q[*]'), ('ab', '*b'), ('?', '*'), ('[a]', 'a')]
for names, kind in itertools.product(PAIRS, ('port', 'cable', 'definition', 'instance')):
    kw = dict(names=names, kind=kind)
    r = outcome(build(**kw), build(**kw))
    if r != 'accept':
        bad.append('sibling %ss named %r and %r, own copy: %s' % (kind, names[0], names[1], r))
    for kw2, what in ((dict(kw, moved=True), 'a connection moved to another bit'),
                      (dict(kw, other_dir=True), 'the element named %r differs' % names[1])):
        for r, d in ((outcome(build(**kw), build(**kw2)), 'ab'), (outcome(build(**kw2), build(**kw)), 'ba')):
            if r != 'reject':
                bad.append('sibling %ss %r, %r; %s (%s): %s' % (kind, names[0], names[1], what, d, r))
for short in ('SDN_Assignment_7', 'SDN_Assignment_', 'SDN_Assignment_x', 'SDN_Assignment_*', 'SDN_Assignment_0_1', 'SDN_Assignment__'):
    r = outcome(build(short=short), build(short=short))
    if r != 'accept':
        bad.append('instance named %r, own copy: %s' % (short, r))
    for r in (outcome(build(short=short), build(short=short, moved=True)), outcome(build(short=short, moved=True), build(short=short))):
        if r != 'reject':
            bad.append('instance named %r, a connection moved to another bit: %s' % (short, r))
    for other in ('SDN_Assignment_9', 'u9'):
        for r in (outcome(build(short=short), build(short=other)), outcome(build(short=other), build(short=short))):
            if r not in ('accept', 'reject'):
                bad.append('instance named %r against %r: %s' % (short, other, r))
for kw in (dict(unnamed=True), dict(zero=True), dict(unnamed=True, zero=True, short='SDN_Assignment_7')):
    r = outcome(build(**kw), build(**kw))
    if r != 'accept':
        bad.append('%r, own copy: %s' % (kw, r))
    for r in (outcome(build(**kw), build(moved=True, **kw)), outcome(build(moved=True, **kw), build(**kw))):
        if r != 'reject':
            bad.append('%r, a connection moved to another bit: %s' % (kw, r))
    for r in (outcome(build(**kw), build()), outcome(build(), build(**kw))):
        if r != 'reject':
            bad.append('%r against the netlist without these elements: %s' % (kw, r))
# a netlist without top instance against one with a top instance, both ways: AssertionError
x, y = build(), build()
y.top_instance = None
for r in (outcome(x, y), outcome(y, x)):
    if r != 'reject':
        bad.append('top instance missing on one side: %s' % r)
# an instance whose reference was taken away (no pins), both ways
x, y = build(), build()
y.libraries[0].definitions[1].create_child(name='noref')
x.libraries[0].definitions[1].create_child(name='noref', reference=x.libraries[0].definitions[0])
for r in (outcome(x, y), outcome(y, x)):
    if r != 'reject':
        bad.append('instance with / without reference: %s' % r)
if outcome(y, y) != 'accept':
    bad.append('instance without reference, own copy: %s' % outcome(y, y))
if bad:
    print('VIOLATION: ' + '; '.join(bad[:4]) + (' (+%d more)' % (len(bad) - 4) if len(bad) > 4 else ''))
    sys.exit(1)
print('OK')
