"""C03 (fixed): writing a netlist to EDIF and reading the file back gives an equal netlist. Four shapes
used to break it in the EDIF writer: a port with direction UNDEFINED was written (direction UNDEFINED), which
the reader refuses (C03-K1); a one-pin ARRAY port was written as a scalar port (C03-K2); a float property
was written (integer 1000.0), refused by the reader (C03-K3); a double quote inside a string property ended
the string token (C03-K6)."""
import os, sys, tempfile
import spydrnet as sdn

FLOATS = [1000.0, 0.5, 2.5e-9, 0.1, 0.3, -123.456, 1e22, 1e23, 1.0 / 3, 5e-324, 1.7976931348623157e308, 0.0]
STRINGS = ['say "hi"', '"', '100%', '%34%', '% 34 %', 'x%34 37%y', '%"%', 'plain']


def build():
    n = sdn.Netlist(name='n')
    lib = n.create_library(name='work')
    leaf = lib.create_definition(name='leaf')
    a = leaf.create_port(name='a', direction=sdn.IN); a.create_pins(1); a.is_array = True
    u = leaf.create_port(name='u'); u.create_pins(1)                       # direction UNDEFINED, scalar
    w = leaf.create_port(name='w'); w.create_pins(2)                       # direction UNDEFINED, array
    s = leaf.create_port(name='s', direction=sdn.OUT); s.create_pins(1)    # ordinary scalar port
    top = lib.create_definition(name='top')
    p = top.create_port(name='p', direction=sdn.INOUT); p.create_pins(1); p.is_array = True
    inst = top.create_child(name='u0', reference=leaf)
    props = [{'identifier': 'F%d' % i, 'value': v} for i, v in enumerate(FLOATS)]
    props += [{'identifier': 'S%d' % i, 'value': v} for i, v in enumerate(STRINGS)]
    props += [{'identifier': 'I', 'value': 7}, {'identifier': 'B', 'value': True}]
    inst['EDIF.properties'] = props
    c = top.create_cable(name='c'); wire = c.create_wire()
    wire.connect_pin(p.pins[0]); wire.connect_pin(inst.pins[a.pins[0]])
    d = top.create_cable(name='d'); wire = d.create_wire()
    wire.connect_pin(inst.pins[u.pins[0]]); wire.connect_pin(inst.pins[w.pins[1]])
    n.top_instance = sdn.Instance(name='top'); n.top_instance.reference = top
    return n


def view(n):
    out = []
    for lib in n.libraries:
        for d in lib.definitions:
            out.append(('cell', lib.name, d.name))
            for p in d.ports:
                out.append(('port', d.name, p.name, str(p.direction), len(p.pins), bool(p.is_array)))
            for x in d.children:
                out.append(('inst', d.name, x.name, x.reference.name,
                            [(q['identifier'], type(q['value']).__name__, repr(q['value'])) for q in x.data.get('EDIF.properties', [])]))
            for c in d.cables:
                for i, w in enumerate(c.wires):
                    pins = []
                    for pin in w.pins:
                        if isinstance(pin, sdn.OuterPin):
                            pins.append((pin.instance.name, pin.inner_pin.port.name, pin.inner_pin.port.pins.index(pin.inner_pin)))
                        else:
                            pins.append((None, pin.port.name, pin.port.pins.index(pin)))
                    out.append(('wire', d.name, c.name, i, pins))
    return out


n = build()
before = view(n)
path = os.path.join(tempfile.mkdtemp(), 'o.edf')
bad = []
try:
    sdn.compose(n, path)
    m = sdn.parse(path)
    after = view(m)
    for x, y in zip(before, after):
        if x != y:
            bad.append('%r became %r' % (x, y))
    if len(before) != len(after):
        bad.append('%d elements before, %d after' % (len(before), len(after)))
    text = open(path).read()
    if 'UNDEFINED' in text:
        bad.append('the file holds the word UNDEFINED')
except Exception as e:
    bad.append('round trip raised %s: %s' % (type(e).__name__, str(e)[:200]))
if bad:
    print('VIOLATION: ' + '; '.join(bad[:6])); sys.exit(1)
print('OK')
