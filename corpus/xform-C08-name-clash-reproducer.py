# Reproducer for the uniquify name clash (Props/C08.v: C08_name_clash_sample, C08_never_clashes_refuted).
# Run: PYTHONPATH=/repo /venv/bin/python replays/C08-name-clash-reproducer.py
# A library that already holds "<cell>_sdn_unique_<k>" (e.g. a netlist written after an earlier uniquify and
# read back in a fresh process, where the module counter MOD_NAME_UID restarts at 0) makes uniquify raise
# ValueError half-way: the copy of the cell has been made and renamed, add_definition refuses it, the copy
# stays outside every library while its children are already registered in the reference sets of the
# cells they instantiate, and the instance still references the shared cell.
import spydrnet as sdn
from spydrnet.uniquify import uniquify

n = sdn.Netlist(name="n")
lib = n.create_library(name="work")
inv = lib.create_definition(name="INV"); a = inv.create_port(name="A"); a.create_pin()
mid = lib.create_definition(name="mid"); u = mid.create_child(name="u", reference=inv)
c = mid.create_cable(name="n"); w = c.create_wire(); w.connect_pin(u.pins[a.pins[0]])
p = mid.create_port(name="P"); w.connect_pin(p.create_pin())
top = lib.create_definition(name="top")
m1 = top.create_child(name="m1", reference=mid); m2 = top.create_child(name="m2", reference=mid)
n.top_instance = top
lib.create_definition(name="mid_sdn_unique_0")      # the name the first clone of "mid" will get
try:
    uniquify(n)
    print("completed")
except ValueError as e:
    print("ValueError:", e)
print("library:", [d.name for d in lib.definitions])
print("references of INV:", len(inv.references), "(1 before the call; the extra one is the child of the orphan copy)")
print("m1 still instantiates:", m1.reference.name, "with", len(mid.references), "references")
