# HRef.is_unique: (a) true although the deepest instance has a second valid occurrence (below the
# top instance of another netlist that instantiates a definition of the first);
# (b) true although a definition along the path is instantiated twice (second instantiation sits in
# a definition that is not used below the top) - the literal "instantiated once" reading fails.
import spydrnet as sdn
from spydrnet.util.hierarchical_reference import HRef
# (a)
n0 = sdn.Netlist(); l0 = n0.create_library(); A = l0.create_definition(); B = l0.create_definition()
c = A.create_child(); c.reference = B
x = B.create_child()
n0.top_instance = A; t = n0.top_instance
n1 = sdn.Netlist(); l1 = n1.create_library(); A1 = l1.create_definition()
c1 = A1.create_child(); c1.reference = B
n1.top_instance = A1; t1 = n1.top_instance
h = HRef.from_sequence([t, c, x]); h1 = HRef.from_sequence([t1, c1, x])
print('(a) valid:', h.is_valid, h1.is_valid, ' is_unique:', h.is_unique, h1.is_unique)
assert h.is_valid and h1.is_valid and h.is_unique
# (b)
n = sdn.Netlist(); l = n.create_library(); A = l.create_definition(); B = l.create_definition(); U = l.create_definition()
c = A.create_child(); c.reference = B
x = B.create_child()
c2 = U.create_child(); c2.reference = B
n.top_instance = A; t = n.top_instance
h = HRef.from_sequence([t, c, x])
print('(b) valid:', h.is_valid, ' is_unique:', h.is_unique, ' references of B:', len(B.references))
assert h.is_unique and len(B.references) == 2
