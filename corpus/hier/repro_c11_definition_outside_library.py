# get_all_hrefs_of_item misses valid occurrences when the owning definition is not in a library
# of the netlist (the netlist is taken from reference.library.netlist of the first instance)
import spydrnet as sdn
from spydrnet.util.hierarchical_reference import HRef
nl = sdn.Netlist(); lib = nl.create_library()
top_def = lib.create_definition()
orphan = sdn.Definition()                 # never added to a library
port = orphan.create_port()
child = top_def.create_child(); child.reference = orphan
nl.top_instance = top_def                 # creates the top instance
top = nl.top_instance
h = HRef.from_sequence([top, child, port])
print('valid reference to the port :', h.is_valid)
print('get_hports(netlist)         :', [x is h for x in sdn.get_hports(nl, recursive=True)])
print('get_all_hrefs_of_item(port) :', list(HRef.get_all_hrefs_of_item(port)))
print('get_all_hrefs_of_item(child):', list(HRef.get_all_hrefs_of_item(child)))
assert h.is_valid and list(HRef.get_all_hrefs_of_item(port)) == []
