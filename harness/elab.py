"""Independent elaboration of a spydrnet netlist (used as oracle by C07/C08/C09): the tree of
hierarchical instance names, the leaf cell type at every path, and the partition of all
endpoints (leaf pin bits, top-level port bits) into electrically connected nets, computed with a
union-find over hierarchical wires. Uses only the public read API."""


class UF:
    def __init__(self):
        self.p = {}

    def find(self, x):
        self.p.setdefault(x, x)
        r = x
        while self.p[r] != r:
            r = self.p[r]
        while self.p[x] != r:
            self.p[x], x = r, self.p[x]
        return r

    def union(self, a, b):
        ra, rb = self.find(a), self.find(b)
        if ra != rb:
            self.p[ra] = rb


def _is_leaf(d):
    return d is None or (len(d.children) == 0 and len(d.cables) == 0)


def elaborate(netlist, max_nodes=200000):
    """returns dict(tree=sorted paths of all instances, leaves={path: (lib, def, data)},
    nets=frozenset of frozensets of endpoints, nonleaf_shared=[paths of non-leaf instances whose
    definition has more than one reference])"""
    top = netlist.top_instance
    uf = UF()
    leaves = {}
    tree = []
    shared = []
    endpoints = []  # (endpoint key, hwire key or None)
    count = [0]

    def wkey(path, wire):
        return ('w', path, id(wire))

    def pin_index(pin):
        port = pin.port
        return (list(port.definition.ports).index(port), list(port.pins).index(pin))

    def walk(inst, path):
        count[0] += 1
        if count[0] > max_nodes:
            raise RuntimeError('design too large / cyclic')
        d = inst.reference
        for child in (d.children if d is not None else []):
            cpath = path + (child.name,)
            tree.append(cpath)
            cd = child.reference
            if _is_leaf(cd):
                leaves[cpath] = (cd.library.name if cd is not None and cd.library is not None else None,
                                 cd.name if cd is not None else None,
                                 tuple(sorted((k, repr(v)) for k, v in child._data.items() if k not in ('.NAME', '.NS', 'EDIF.identifier'))))
                for ip, op in child._pins.items():
                    ep = ('leaf', cpath) + pin_index(ip)
                    endpoints.append((ep, wkey(path, op.wire) if op.wire is not None else None))
            else:
                if cd is not None and len(cd.references) != 1:
                    shared.append(cpath)
                for ip, op in child._pins.items():
                    if op.wire is not None and ip.wire is not None:
                        uf.union(wkey(path, op.wire), wkey(cpath, ip.wire))
                walk(child, cpath)

    if top is not None and top.reference is not None:
        for pi, port in enumerate(top.reference.ports):
            for k, pin in enumerate(port.pins):
                ep = ('top', pi, k)
                endpoints.append((ep, wkey((), pin.wire) if pin.wire is not None else None))
        walk(top, ())
    groups = {}
    singles = []
    for ep, wk in endpoints:
        if wk is None:
            singles.append(frozenset([ep]))
        else:
            groups.setdefault(uf.find(wk), set()).add(ep)
    nets = frozenset([frozenset(g) for g in groups.values()] + singles)
    return dict(tree=sorted(tree, key=lambda p: tuple(str(x) for x in p)), leaves=leaves, nets=nets, nonleaf_shared=shared)


def elaborate_flat(netlist):
    """Direct reading of a flattened netlist: children of the top definition named by their
    slash-joined path; returns the same shape as elaborate() with paths split at '/'."""
    top = netlist.top_instance
    d = top.reference
    leaves = {}
    nonleaf = []
    endpoints = []
    for child in d.children:
        path = tuple(child.name.split('/')) if child.name is not None else (None,)
        cd = child.reference
        if not _is_leaf(cd):
            nonleaf.append(path)
            continue
        leaves[path] = (cd.library.name if cd is not None and cd.library is not None else None,
                        cd.name if cd is not None else None,
                        tuple(sorted((k, repr(v)) for k, v in child._data.items() if k not in ('.NAME', '.NS', 'EDIF.identifier'))))
        for ip, op in child._pins.items():
            port = ip.port
            endpoints.append((('leaf', path, list(port.definition.ports).index(port), list(port.pins).index(ip)), id(op.wire) if op.wire is not None else None))
    for pi, port in enumerate(d.ports):
        for k, pin in enumerate(port.pins):
            endpoints.append((('top', pi, k), id(pin.wire) if pin.wire is not None else None))
    groups = {}
    singles = []
    for ep, wk in endpoints:
        if wk is None:
            singles.append(frozenset([ep]))
        else:
            groups.setdefault(wk, set()).add(ep)
    nets = frozenset([frozenset(g) for g in groups.values()] + singles)
    return dict(leaves=leaves, nets=nets, nonleaf=nonleaf)


def wf_netlist(netlist):
    """well-formed and self-contained (DESIGN.md A.3), relative to one netlist; list of failures"""
    bad = []
    defs = set()
    for lib in netlist.libraries:
        if lib.netlist is not netlist:
            bad.append('library %r does not name the netlist as parent' % lib.name)
        for d in lib.definitions:
            defs.add(id(d))
            if d.library is not lib:
                bad.append('definition %r does not name its library' % d.name)
    insts = set()
    top = netlist.top_instance
    if top is not None:
        insts.add(id(top))
    for lib in netlist.libraries:
        for d in lib.definitions:
            for c in d.children:
                insts.add(id(c))
    for lib in netlist.libraries:
        for d in lib.definitions:
            mywires = set()
            for cab in d.cables:
                if cab.definition is not d:
                    bad.append('cable %r of %r has wrong parent' % (cab.name, d.name))
                for w in cab.wires:
                    mywires.add(id(w))
                    if w.cable is not cab:
                        bad.append('wire of cable %r has wrong parent' % cab.name)
            mypins = set()
            for p in d.ports:
                if p.definition is not d:
                    bad.append('port %r of %r has wrong parent' % (p.name, d.name))
                for pin in p.pins:
                    mypins.add(id(pin))
                    if pin.port is not p:
                        bad.append('pin of port %r has wrong parent' % p.name)
                    if pin.wire is not None and id(pin.wire) not in mywires:
                        bad.append('pin of port %r.%r is attached to a wire outside the definition' % (d.name, p.name))
                    if pin.wire is not None and sum(1 for q in pin.wire.pins if q is pin) != 1:
                        bad.append('pin of port %r.%r not listed once by its wire' % (d.name, p.name))
            for c in d.children:
                if c.parent is not d:
                    bad.append('child %r of %r has wrong parent' % (c.name, d.name))
                r = c.reference
                if r is None:
                    bad.append('child %r of %r has no reference' % (c.name, d.name))
                    continue
                if id(r) not in defs:
                    bad.append('child %r of %r references a definition outside the netlist' % (c.name, d.name))
                if not any(x is c for x in r.references):
                    bad.append('child %r of %r is missing from its reference set' % (c.name, d.name))
                want = [pin for p in r.ports for pin in p.pins]
                keys = list(c._pins.keys())
                if len(want) != len(keys) or any(a is not b for a, b in zip(sorted(want, key=id), sorted(keys, key=id))):
                    bad.append('child %r of %r: outer pins do not mirror the reference' % (c.name, d.name))
                for ip, op in c._pins.items():
                    if op.instance is not c or op.inner_pin is not ip:
                        bad.append('outer pin of %r names (%r,...)' % (c.name, getattr(op.instance, 'name', None)))
                    if op.wire is not None:
                        if id(op.wire) not in mywires:
                            bad.append('outer pin of child %r of %r is attached to a wire outside %r' % (c.name, d.name, d.name))
                        if sum(1 for q in op.wire.pins if q is op) != 1:
                            bad.append('outer pin of child %r not listed once by its wire' % c.name)
            for cab in d.cables:
                for w in cab.wires:
                    for q in w.pins:
                        if q.wire is not w:
                            bad.append('wire of %r.%r lists a pin that reports another wire' % (d.name, cab.name))
                        inst = getattr(q, 'instance', None)
                        if hasattr(q, 'inner_pin'):
                            if inst is None or inst.parent is not d or inst._pins.get(q.inner_pin) is not q:
                                bad.append('wire of %r.%r lists an outer pin that is not a pin of a child of %r' % (d.name, cab.name, d.name))
                        elif id(q) not in mypins:
                            bad.append('wire of %r.%r lists an inner pin of another definition' % (d.name, cab.name))
            for r in d.references:
                if r.reference is not d:
                    bad.append('reference set of %r holds %r which references something else' % (d.name, r.name))
                # an instance taken out of its definition (remove_child) keeps its reference and so stays in
                # the reference set (C02); only a member that sits in a definition OUTSIDE this netlist breaks
                # self-containedness
                if id(r) not in insts and r.parent is not None:
                    bad.append('reference set of %r holds instance %r that is a child of a definition outside the netlist' % (d.name, r.name))
    if top is not None:
        r = top.reference
        if r is None or id(r) not in defs:
            bad.append('top instance references a definition outside the netlist')
        elif not any(x is top for x in r.references):
            bad.append('top instance missing from its reference set')
    return bad
