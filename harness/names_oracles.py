"""Engine `names` (C17): the property evaluated on the IMPLEMENTATION, independent of the Coq model.
 * legal(): EDIF identifier rule written from the EDIF 2 0 0 text (letter or '&' first; letters,
   digits, '_' after; at most 255 characters not counting '&'), no regular expressions shared
   with spydrnet;
 * judge_scope(): legality, case-insensitive uniqueness, rename flag of one scope;
 * e2e(): build a netlist carrying generated names in every scope, compose it to a temporary EDIF
   file, read the WRITTEN identifiers back with an independent S-expression reader, then sdn.parse
   must succeed and show the original names.
Every failure carries a signature naming its witness class; known findings are matched on it."""
import os, shutil, tempfile

LETTERS = 'abcdefghijklmnopqrstuvwxyzABCDEFGHIJKLMNOPQRSTUVWXYZ'
DIGITS = '0123456789'
UPPER = 'ABCDEFGHIJKLMNOPQRSTUVWXYZ'


def legal(s):
    if not isinstance(s, str) or s == '':
        return False
    body = s
    if s[0] == '&':
        body = s[1:]
        if body == '':
            return False
    elif s[0] not in LETTERS:
        return False
    if len(body) > 255:
        return False
    for ch in body:
        if ch not in LETTERS and ch not in DIGITS and ch != '_':
            return False
    return True


def has_upper(s):
    return any(ch in UPPER for ch in s)


def _sdn_digits(s):
    """number of digits of a trailing _sdn_<digits>_ (0 if none); written without `re`"""
    if s.endswith('\n'):
        s = s[:-1]
    if not s.endswith('_'):
        return 0
    j = len(s) - 1
    k = j
    while k > 0 and s[k - 1] in DIGITS:
        k -= 1
    if k == j or not s[:k].endswith('_sdn_'):
        return 0
    return j - k


def _sanitized(name):
    return ''.join(ch if (ch in LETTERS or ch in DIGITS) else '_' for ch in name)


def illegal_signature(name, ident):
    """witness class of an illegal identifier produced for `name`"""
    if _sdn_digits(_sanitized(name).lower()) >= 249 or _sdn_digits(name) >= 249:
        # 256 - len(suffix) <= 0 in _length_fix: the slice bound is zero or negative
        return 'illegal|name-has-sdn-suffix-of-256-or-more-characters'
    body = ident[1:] if ident[:1] == '&' else ident
    chars_ok = ident != '' and (ident[0] == '&' or ident[0] in LETTERS) and body != '' and \
        all(ch in LETTERS or ch in DIGITS or ch == '_' for ch in body)
    if chars_ok and ident[0] != '&' and len(ident) == 256:
        return 'illegal|length-256-without-ampersand'
    if not chars_ok:
        return 'illegal|characters'
    return 'illegal|length-%d' % len(ident)


def judge_scope(names, pre, ids, flags):
    """names[i]; pre[i] = identifier present before the writer ran (or None); ids[i] / flags[i] =
    EDIF.identifier / (EDIF.rename is True) afterwards. Returns a list of failures."""
    bad = []
    n = len(names)
    for i in range(n):
        if ids[i] is None:
            bad.append({'sig': 'unassigned', 'i': i, 'name': names[i]})
            continue
        if pre[i] is not None:
            if ids[i] != pre[i]:
                bad.append({'sig': 'preassigned-identifier-changed', 'i': i, 'name': names[i], 'id': ids[i]})
            continue
        if not legal(ids[i]):
            bad.append({'sig': illegal_signature(names[i], ids[i]), 'i': i, 'name': names[i], 'id': ids[i]})
        if flags[i] != (ids[i] != names[i]):
            bad.append({'sig': 'rename-flag', 'i': i, 'name': names[i], 'id': ids[i], 'flag': flags[i]})
    for i in range(n):
        for j in range(i + 1, n):
            if ids[i] is None or ids[j] is None or (pre[i] is not None and pre[j] is not None):
                continue
            if ids[i].lower() == ids[j].lower():
                if has_upper(ids[i]) or has_upper(ids[j]):
                    sig = 'collision|an-identifier-kept-in-original-case-has-upper-case-letters'
                else:
                    sig = 'collision|both-lower-case'
                bad.append({'sig': sig, 'i': i, 'j': j, 'names': [names[i], names[j]], 'ids': [ids[i], ids[j]]})
    return bad


# ---------------------------------------------------------------------------------------------
# independent reader of the written file

class SexpError(Exception):
    pass


def read_sexp(text):
    """minimal S-expression reader: lists, "strings" (no escapes in EDIF besides %..%, see _decode), atoms"""
    pos = 0
    n = len(text)
    stack = [[]]
    while pos < n:
        ch = text[pos]
        if ch in ' \t\r\n':
            pos += 1
        elif ch == '(':
            stack.append([])
            pos += 1
        elif ch == ')':
            if len(stack) == 1:
                raise SexpError('unbalanced )')
            top = stack.pop()
            stack[-1].append(top)
            pos += 1
        elif ch == '"':
            end = text.find('"', pos + 1)
            if end < 0:
                raise SexpError('unterminated string')
            stack[-1].append(('str', text[pos + 1:end]))
            pos = end + 1
        else:
            end = pos
            while end < n and text[end] not in ' \t\r\n()"':
                end += 1
            stack[-1].append(text[pos:end])
            pos = end
    if len(stack) != 1 or len(stack[0]) != 1:
        raise SexpError('unbalanced (')
    return stack[0][0]


def _decode(s):
    """an EDIF string: %n n ..% (blank-separated integers, at least one) stands for the characters with
    these codes (the writer escapes the double quote as %34% and the percent sign as %37%); any other
    percent sign is an ordinary character. Hand-written scanner, nothing shared with spydrnet."""
    out = []
    i = 0
    while i < len(s):
        if s[i] == '%':
            j = s.find('%', i + 1)
            if j > i:
                words = s[i + 1:j].replace('\t', ' ').split(' ')
                words = [w for w in words if w != '']
                def num(w):
                    body = w[1:] if w[:1] in '+-' else w
                    return body != '' and all(ch in DIGITS for ch in body)
                if words and all(num(w) for w in words) and all(int(w) >= 0 for w in words):
                    out.append(''.join(chr(int(w)) for w in words))
                    i = j + 1
                    continue
        out.append(s[i])
        i += 1
    return ''.join(out)


def _kw(x):
    return x[0].lower() if isinstance(x, list) and x and isinstance(x[0], str) else None


def _name_of(x):
    """nameDef: identifier | (rename identifier "name") | (array nameDef n) -> (identifier, name or None)"""
    if isinstance(x, str):
        return x, None
    if _kw(x) == 'rename' and len(x) == 3 and isinstance(x[1], str) and isinstance(x[2], tuple):
        return x[1], _decode(x[2][1])
    if _kw(x) == 'array' and len(x) >= 2:
        return _name_of(x[1])
    raise SexpError('bad name %r' % (x,))


def written_tree(text):
    """(netlist entry, [(library entry, [(cell entry, ports, instances, nets)])]) in file order;
    an entry = (identifier, rename-name or None)"""
    root = read_sexp(text)
    if _kw(root) != 'edif':
        raise SexpError('no edif')
    libs = []
    for lib in root[2:]:
        if _kw(lib) not in ('library', 'external'):
            continue
        cells = []
        for cell in lib[2:]:
            if _kw(cell) != 'cell':
                continue
            ports, insts, nets = [], [], []
            for view in cell[2:]:
                if _kw(view) != 'view':
                    continue
                for part in view[2:]:
                    if _kw(part) == 'interface':
                        ports += [_name_of(p[1]) for p in part[1:] if _kw(p) == 'port']
                    elif _kw(part) == 'contents':
                        insts += [_name_of(c[1]) for c in part[1:] if _kw(c) == 'instance']
                        nets += [_name_of(c[1]) for c in part[1:] if _kw(c) == 'net']
            cells.append((_name_of(cell[1]), ports, insts, nets))
        libs.append((_name_of(lib[1]), cells))
    return _name_of(root[1]), libs


# ---------------------------------------------------------------------------------------------
# end-to-end: netlist -> compose -> written identifiers -> parse -> names

def build_netlist(spec):
    """spec = {'netlist': name, 'top': name, 'libs': [{'name', 'defs': [{'name', 'ports': [name],
    'cables': [(name, nwires)], 'insts': [name]}]}]}; instances reference the first definition of
    the first library (a leaf with one input port); the last definition of the last library is top."""
    import spydrnet as sdn
    nl = sdn.Netlist(name=spec['netlist'])
    leaf = None
    last = None
    for ls in spec['libs']:
        lib = nl.create_library(name=ls['name'])
        for ds in ls['defs']:
            d = lib.create_definition(name=ds['name'])
            for k, pn in enumerate(ds['ports']):
                p = d.create_port(name=pn)
                p.direction = {'in': sdn.IN, 'out': sdn.OUT, 'inout': sdn.INOUT}[ds['dirs'][k]] if 'dirs' in ds else sdn.IN
                p.create_pins(ds['widths'][k]) if 'widths' in ds and ds['widths'][k] > 1 else p.create_pin()
                if 'arrays' in ds and ds['arrays'][k] and len(p.pins) == 1:
                    p.is_scalar = False
            if leaf is None:
                leaf = d
                if not d.ports:
                    p = d.create_port(name='i')
                    p.direction = sdn.IN
                    p.create_pin()
                last = d
                continue
            for cn, nw in ds['cables']:
                c = d.create_cable(name=cn)
                c.create_wires(nw)
            for k, iname in enumerate(ds['insts']):
                inst = d.create_child(name=iname, reference=leaf)
                if d.cables and len(d.cables[k % len(d.cables)].wires) >= 1:
                    d.cables[k % len(d.cables)].wires[0].connect_pin(inst.pins[leaf.ports[0].pins[0]])
            if ds.get('join_ports') and d.cables:
                # the cell's own port pins on its nets, one after the other over the wires of its cables
                wires = [wr for c in d.cables for wr in c.wires]
                for k, pin in enumerate(pin for p in d.ports for pin in p.pins):
                    wires[k % len(wires)].connect_pin(pin)
            last = d
    top = sdn.Instance(name=spec['top'])
    top.reference = last
    nl.top_instance = top
    return nl


def _scope_elements(nl):
    """[(label, [elements])] of the implementation's netlist, same scoping as the writer"""
    out = [('libraries', list(nl.libraries))]
    for lib in nl.libraries:
        out.append(('definitions of lib %r' % lib.name, list(lib.definitions)))
        for d in lib.definitions:
            out.append(('ports of %r/%r' % (lib.name, d.name), list(d.ports)))
            out.append(('cables of %r/%r' % (lib.name, d.name), list(d.cables)))
            out.append(('instances of %r/%r' % (lib.name, d.name), list(d.children)))
    return out


def names_tree(nl):
    """library name -> definition name -> (ports, cables, instances) as sorted name lists"""
    t = {}
    for lib in nl.libraries:
        t[lib.name] = {}
        for d in lib.definitions:
            t[lib.name][d.name] = (sorted(p.name for p in d.ports), sorted(c.name for c in d.cables),
                                   sorted(i.name for i in d.children))
    return t


def spec_names(spec):
    out = [spec['netlist'], spec['top']]
    for ls in spec['libs']:
        out.append(ls['name'])
        for ds in ls['defs']:
            out.append(ds['name'])
            out += list(ds['ports']) + [c for c, _ in ds['cables']] + list(ds['insts'])
    return out


def e2e(spec):
    """Returns (failures, stats). Each failure = {'sig', ...}."""
    import spydrnet as sdn
    bad = []
    stats = {'identifiers': 0, 'scopes': 0, 'renamed': 0}
    nl = build_netlist(spec)
    before = names_tree(nl)
    td = tempfile.mkdtemp(prefix='verif-names-')
    try:
        path = os.path.join(td, 'out.edf')
        try:
            nl.compose(path)
        except Exception as e:  # noqa
            return [{'sig': 'compose-raises|%s' % type(e).__name__, 'text': str(e)[:200]}], stats
        # (a) identifiers stored on the elements, per scope
        upstream = False
        for label, elems in [('netlist', [nl]), ('top instance', [nl.top_instance])] + _scope_elements(nl):
            names = [e.name for e in elems]
            ids = [e.data.get('EDIF.identifier') for e in elems]
            flags = [e.data.get('EDIF.rename') is True for e in elems]
            stats['identifiers'] += len(ids)
            stats['scopes'] += 1
            stats['renamed'] += sum(1 for a, b in zip(names, ids) if a != b)
            for f in judge_scope(names, [None] * len(names), ids, flags):
                f['scope'] = label
                bad.append(f)
                upstream = True
        # (b) what is WRITTEN in the file, read back independently: every element appears, in order,
        # under its stored identifier, with (rename id "name") whenever the two differ
        text = open(path).read()
        try:
            wnl, wlibs = written_tree(text)
        except SexpError as e:
            wlibs = None
            bad.append({'sig': 'written-file-malformed|unexplained', 'text': str(e)})
        if wlibs is not None:
            def entry(e):
                ident = e.data.get('EDIF.identifier')
                return (ident, e.name if (e.name != ident or e.data.get('EDIF.rename') is True) else None)

            def same(label, written, expected):
                if written != expected:
                    bad.append({'sig': 'written-differs-from-stored|unexplained',
                                'scope': label, 'written': repr(written)[:200], 'expected': repr(expected)[:200]})
                    return False
                return True
            same('netlist', [wnl], [entry(nl)])
            if same('libraries', [w[0] for w in wlibs], [entry(l) for l in nl.libraries]):
                for (wl, wcells), lib in zip(wlibs, nl.libraries):
                    if not same('definitions of %r' % lib.name, [c[0] for c in wcells], [entry(d) for d in lib.definitions]):
                        continue
                    for (wc, wports, winsts, wnets), d in zip(wcells, lib.definitions):
                        where = '%r/%r' % (lib.name, d.name)
                        same('ports of ' + where, wports, [entry(p) for p in d.ports])
                        same('instances of ' + where, winsts, [entry(i) for i in d.children])
                        exp_nets = []
                        frombus = []
                        for c in d.cables:
                            if len(c.wires) == 1 and not c.is_array:
                                exp_nets.append(entry(c))
                                frombus.append(False)
                            else:
                                for k in range(len(c.wires)):
                                    exp_nets.append(('%s_%d_' % (c['EDIF.identifier'], k + c.lower_index), '%s[%d]' % (c.name, k + c.lower_index)))
                                    frombus.append(True)
                        if same('nets of ' + where, wnets, exp_nets):
                            # the per-wire identifiers of multi-wire cables are made by the writer too
                            groups = {}
                            for (ident, _), fb in zip(wnets, frombus):
                                stats['identifiers'] += 1 if fb else 0
                                if fb and not legal(ident):
                                    bad.append({'sig': 'bus-net|identifier-of-a-wire-of-a-multi-wire-cable-illegal', 'scope': where, 'id': ident[:80]})
                                groups.setdefault(ident.lower(), []).append(fb)
                            for k, g in groups.items():
                                if len(g) > 1 and any(g):
                                    bad.append({'sig': 'bus-net|identifier-of-a-wire-of-a-multi-wire-cable-collides', 'scope': where, 'id': k[:80]})
        # (c) the file must be readable again and show the original names
        try:
            n2 = sdn.parse(path)
        except Exception as e:  # noqa
            n2 = None
            if not bad:
                sig = 'reparse-fails|unexplained'
                bad.append({'sig': sig, 'text': '%s: %s' % (type(e).__name__, str(e)[:200])})
            else:
                stats['reparse_failed_after_reported_failure'] = 1
        if n2 is not None:
            after = names_tree(n2)
            if after != before:
                only_bus = _differs_only_in_bus_cables(before, after, spec)
                if not bad and not only_bus:
                    where = _diff_places(before, after)
                    if where and all(w[2] == 'cables' for w in where) and \
                            all(any(_looks_like_bus_bit(c) for c in before[w[0]][w[1]][1]) for w in where):
                        sig = 'names-not-restored|a-one-wire-cable-named-like-a-bus-bit-x[digits]-is-read-as-bit-of-cable-x'
                    else:
                        sig = 'names-not-restored|unexplained'
                    bad.append({'sig': sig, 'where': repr(where)[:300]})
                elif only_bus:
                    stats['bus_cable_names_differ'] = 1
            if n2.name != nl.name and not bad:
                bad.append({'sig': 'names-not-restored|netlist-name', 'before': nl.name, 'after': n2.name})
            if not bad:
                bad += after_refused_add(n2, td)
    finally:
        shutil.rmtree(td, ignore_errors=True)
    return bad, stats


def after_refused_add(n2, td):
    """(d) history on the netlist that was just read (it is under the EDIF policy and carries identifiers): a new
    sibling whose name differs from an existing instance in letter case only is created and the design written
    (the writer gives it a generated identifier I); the sibling is removed again; an element that carries I as
    its identifier but an ALREADY TAKEN name is offered to the same cell and refused; the case variant is created
    once more and the design written again: every instance must again get a legal, case-insensitively unique
    identifier and the file must be readable. A refused add must leave nothing behind that a later export
    trips over."""
    import spydrnet as sdn
    out = []
    scope = None
    for lib in n2.libraries:
        for d in lib.definitions:
            # (short names only: identifiers longer than the legal maximum are the known length finding)
            kids = [c for c in d.children if isinstance(c.name, str) and c.name.swapcase() != c.name and len(c.name) <= 64
                    and not any(k.name == c.name.swapcase() for k in d.children)]
            if kids:
                scope = (d, kids[0])
                break
        if scope:
            break
    if scope is None:
        return out
    d, c = scope
    ref = c.reference
    variant = c.name.swapcase()
    try:
        e1 = d.create_child(name=variant, reference=ref)
        sdn.compose(n2, os.path.join(td, 'step1.edf'))
        ident = e1.data.get('EDIF.identifier')
        d.remove_child(e1)
        if not isinstance(ident, str):
            return out
        r = sdn.Instance()
        r['EDIF.identifier'] = ident
        r.name = c.name
        r.reference = ref
        try:
            d.add_child(r)
            return out            # accepted (the name was free after all): nothing to observe
        except ValueError:
            pass
        r.reference = None
        e2 = d.create_child(name=variant, reference=ref)
    except Exception:  # noqa  (the scenario could not be set up on this netlist: no verdict)
        return out
    try:
        path = os.path.join(td, 'step2.edf')
        sdn.compose(n2, path)
    except Exception as e:  # noqa
        return [{'sig': 'after-refused-add|compose-raises', 'text': '%s: %s' % (type(e).__name__, str(e)[:160])}]
    ids = [k.data.get('EDIF.identifier') for k in d.children]
    low = [i.lower() if isinstance(i, str) else i for i in ids]
    if any(not isinstance(i, str) or not legal(i) for i in ids) or len(set(low)) != len(low):
        out.append({'sig': 'after-refused-add|identifiers-illegal-or-colliding', 'ids': repr(ids)[:200]})
    try:
        n3 = sdn.parse(path)
        want = sorted(k.name for k in d.children)
        got = None
        for lib in n3.libraries:
            for dd in lib.definitions:
                if dd.name == d.name and lib.name == d.library.name:
                    got = sorted(k.name for k in dd.children)
        if got != want:
            out.append({'sig': 'after-refused-add|names-not-restored', 'want': repr(want)[:150], 'got': repr(got)[:150]})
    except Exception as e:  # noqa
        out.append({'sig': 'after-refused-add|reparse-fails', 'text': '%s: %s' % (type(e).__name__, str(e)[:160])})
    return out


def _differs_only_in_bus_cables(before, after, spec):
    """multi-wire cables are written as one net per wire named <name>[i]; how the reader regroups
    them is C03's concern, not C17's: compare everything except the cable lists of definitions that
    contain a multi-wire cable"""
    busdefs = set()
    for ls in spec['libs']:
        for ds in ls['defs']:
            if any(nw > 1 for _, nw in ds['cables']):
                busdefs.add((ls['name'], ds['name']))
    if set(before) != set(after):
        return False
    for ln in before:
        if set(before[ln]) != set(after[ln]):
            return False
        for dn in before[ln]:
            b, a = before[ln][dn], after[ln][dn]
            if (ln, dn) in busdefs:
                if (b[0], b[2]) != (a[0], a[2]):
                    return False
            elif b != a:
                return False
    return True


def _looks_like_bus_bit(name):
    if not name.endswith(']') or '[' not in name:
        return False
    inner = name[name.rfind('[') + 1:-1]
    return inner != '' and all(ch in DIGITS for ch in inner)


def _diff_places(before, after):
    """[(library, definition, 'ports'|'cables'|'instances')] where the name lists differ; [] when the
    library / definition sets themselves differ"""
    if set(before) != set(after):
        return []
    out = []
    for ln in before:
        if set(before[ln]) != set(after[ln]):
            return []
        for dn in before[ln]:
            for k, what in enumerate(('ports', 'cables', 'instances')):
                if before[ln][dn][k] != after[ln][dn][k]:
                    out.append((ln, dn, what))
    return out
