"""Engine `verilog`: document-level correspondence. A generated design (harness/verilog_gen.py: a structured value
that exists before it is printed) is sent as a `vdoc` to the extracted Coq reader (coq/theories/Fmt/VElab.v,
`ELAB` command of ocaml/driver_verilog.ml); its text goes through the real sdn.parse; the two canonical netlist
values (verilog_world.canon shape) are compared, or the two classes of exception.

  design_to_line(design)  -> protocol line | None (with a reason) when the design uses a construct that the
                             document type cannot express (those are counted and skipped)
  model_canon(answer)     -> ('ok', canon) | ('err', class) | ('unsupported', None)
  real_outcome(text)      -> ('ok', canon) | ('err', class)
  compare(model, real)    -> list of differences (empty = agreement)
"""
import json, os, subprocess
import common
import verilog_world as W
import verilog_gen as G

DRIVER = os.path.join(common.OCAML_BUILD, 'driver_verilog')
DIRS = {'input': 'in', 'output': 'out', 'inout': 'inout'}
ERR_CLASS = {'AssertionError': 'assert', 'ValueError': 'value', 'AttributeError': 'attr', 'IndexError': 'index'}


class Inexpressible(Exception):
    pass


def hx(s):
    return 'x' + s.encode('utf-8').hex()


def unhx(t):
    assert t.startswith('x'), t
    return bytes.fromhex(t[1:]).decode('utf-8')


def name_tok(n):
    return hx(n.strip())


def attrs_toks(attrs):
    out = [str(len(attrs))]
    for k, v in attrs:
        out += [hx(k.strip()), '~' if v is None else hx(v)]
    return out


def range_toks(msb, lsb):
    return ['~'] if msb is None else ['R', str(msb), str(lsb)]


def atom_toks(e):
    k = e[0]
    if k == 'id':
        return ['id', name_tok(e[1])]
    if k == 'bit':
        return ['bit', name_tok(e[1]), str(e[2])]
    if k == 'part':
        return ['part', name_tok(e[1]), str(e[2]), str(e[3])]
    if k == 'const':
        if e[1] not in (0, 1):
            raise Inexpressible('constant other than 0/1')
        return ['c%d' % e[1]]
    raise Inexpressible('nested concatenation or unknown atom %r' % (k,))


def expr_toks(e):
    if e[0] == 'cat':
        out = ['C', str(len(e[1]))]
        for x in e[1]:
            out += atom_toks(x)
        return out
    return ['A'] + atom_toks(e)


def oexpr_toks(e):
    return ['~'] if e is None else expr_toks(e)


def kv_toks(params):
    out = [str(len(params))]
    for k, v in params:
        out += [hx(k), hx(v)]
    return out


def module_toks(m):
    out = [name_tok(m['name']), '1' if m['cell'] else '0']
    out += kv_toks(m['params'])
    out += attrs_toks(m['attrs'])
    byname = {p['name']: p for p in m['ports']}
    out.append(str(len(m['ports'])))
    for p in m['ports']:
        if 'alias' in p:
            out += ['HA', name_tok(p['name'])] + expr_toks(p['alias'])
        elif m['style'] == 'ansi':
            if p.get('decl_type'):
                raise Inexpressible('ANSI header port with a net type')
            w = p['width']
            out += ['HP', '~' if p.get('inherit_dir') else DIRS[p['dir']]] + \
                   (range_toks(None, None) if p.get('inherit_rng') else range_toks(None if w is None else w - 1, None if w is None else 0)) + [name_tok(p['name'])]
        else:
            out += ['HP', '~', '~', name_tok(p['name'])]
    items = []
    for it in m['body']:
        k = it['k']
        if k == 'portdecl':
            p0 = G.portdecl_view(it, byname)
            items.append(['PD', DIRS[p0['dir']], p0.get('decl_type') or '~'] + range_toks(p0['msb'], p0['lsb']) +
                         [str(len(it['ports']))] + [name_tok(n) for n in it['ports']] + attrs_toks(p0.get('attrs') or []))
        elif k == 'defparam':
            items.append(['DP', name_tok(it['inst']), hx(it['key']), hx(it['value'])])
        elif k == 'wire':
            items.append(['W', it['type']] + range_toks(it['msb'], it['lsb']) + [str(len(it['names']))] + [name_tok(n) for n in it['names']] +
                         attrs_toks(it['attrs']))
        elif k == 'assign':
            if it['lhs'] is None or it['rhs'] is None or it['lhs'][0] == 'cat' or it['rhs'][0] == 'cat':
                raise Inexpressible('assign with a concatenation')
            items.append(['AS'] + atom_toks(it['lhs']) + atom_toks(it['rhs']))
        elif k == 'junk':
            items.append(['OT'])
        elif k == 'inst':
            hash_params = it['params'] if (it['params'] and it['pstyle'] == 'hash') else []
            t = ['I', name_tok(it['mod']), name_tok(it['name'])] + kv_toks(hash_params) + attrs_toks(it['attrs'])
            if it['named']:
                t += ['N', str(len(it['conns']))]
                for pn, e in it['conns']:
                    t += [name_tok(pn)] + oexpr_toks(e)
            else:
                conns = it['conns']
                if len(conns) == 1 and conns[0][1] is None:
                    conns = []      # "( )": the text of one empty position is the text of no position at all
                t += ['P', str(len(conns))]
                for pn, e in conns:
                    t += oexpr_toks(e)
            items.append(t)
            if it['params'] and it['pstyle'] == 'defparam':
                for k2, v in it['params']:
                    items.append(['DP', name_tok(it['name']), hx(k2), hx(v)])
        else:
            raise Inexpressible('item %r' % k)
    out.append(str(len(items)))
    for t in items:
        out += t
    return out


def design_to_line(design):
    """-> (line, None) or (None, reason)"""
    try:
        toks = ['ELAB', str(len(design['modules']))]
        for m in design['modules']:
            toks += module_toks(m)
        return ' '.join(toks), None
    except Inexpressible as e:
        return None, str(e)


def run_model(lines):
    if not lines:
        return []
    r = subprocess.run([DRIVER], input='\n'.join(lines) + '\n', capture_output=True, text=True)
    if r.returncode != 0:
        raise RuntimeError('driver_verilog failed: ' + r.stderr[-500:])
    return r.stdout.split('\n')[:len(lines)]


def _label(t):
    return t if t.startswith('~') else unhx(t[1:])


def model_canon(answer):
    if answer.startswith('err '):
        cls = answer.split()[1]
        return ('unsupported', ' '.join(answer.split()[2:])) if cls == 'unsupported' else ('err', cls)
    if not answer.startswith('ok '):
        return ('driver', answer[:200])
    v = json.loads(answer[3:])
    defs = {}
    dups = []
    for d in v['defs']:
        name = unhx(d['name'])
        o = {'lib': unhx(d['lib'])}
        o['ports'] = [[_label(p[0]), p[1], p[2], p[3]] for p in d['ports']]
        cables, cattrs, dupn = {}, {}, []
        for c in d['cables']:
            cn = unhx(c[0])
            if cn in cables:
                dupn.append(cn)
            cables[cn] = [c[1], c[2], c[3]]
            a = {unhx(k): (None if x is None else unhx(x)) for k, x in c[4]}
            if a:
                cattrs[cn] = a
        o['cables'], o['cable_attrs'] = cables, cattrs
        insts = {}
        for i in d['insts']:
            iname = unhx(i[0])
            if iname in insts:
                dupn.append(iname)
            insts[iname] = {'ref': unhx(i[1]), 'params': {unhx(k): unhx(x) for k, x in i[2]},
                            'attrs': {unhx(k): (None if x is None else unhx(x)) for k, x in i[3]}}
        o['insts'] = insts
        nets = {}
        for c, idx, eps in d['nets']:
            lab = '%s[%d]' % (unhx(c), idx)
            for ep in eps:
                if ep[0] == 'P':
                    nets.setdefault(lab, []).append('P:%s[%d]' % (_label(ep[1]), ep[2]))
                else:
                    nets.setdefault(lab, []).append('I:%s.%s[%d]' % (unhx(ep[1]), _label(ep[2]), ep[3]))
        o['nets'] = {k: sorted(x) for k, x in nets.items()}
        assigns = []
        for prs in d['assigns']:
            pairs = [[None if a is None else '%s[%d]' % (unhx(a[0]), a[1]), None if b is None else '%s[%d]' % (unhx(b[0]), b[1])] for a, b in prs]
            assigns.append([len(pairs), pairs])
        o['assigns'] = sorted(assigns, key=lambda a: (a[0], str(a[1])))
        o['params'] = {unhx(k): unhx(x) for k, x in d['params']}
        o['attrs'] = {unhx(k): (None if x is None else unhx(x)) for k, x in d['attrs']}
        o['primitive'] = d['prim']
        if dupn:
            o['duplicate_names'] = sorted(set(dupn))
        if name in defs:
            dups.append(name)
        defs[name] = o
    out = {'top': None if v['top'] is None else unhx(v['top']), 'defs': defs}
    if dups:
        out['duplicate_definitions'] = dups
    return ('ok', out)


def real_outcome(text, netlist=None, exc=None):
    """the real reader's outcome in the same shape; netlist / exc: already known from the caller"""
    import verilog_oracles as O
    if netlist is None and exc is None:
        try:
            netlist = O.parse_text(text)
        except Exception as e:  # noqa
            exc = e
    if exc is not None:
        return ('err', ERR_CLASS.get(type(exc).__name__, type(exc).__name__))
    c = W.canon(netlist)
    for d in c['defs'].values():
        d.pop('port_attrs', None)     # not part of the modelled value (only set through header aliases)
    return ('ok', c)


def compare(model, real):
    if model[0] != real[0]:
        return ['model %s %s, implementation %s %s' % (model[0], '' if model[0] == 'ok' else model[1], real[0], '' if real[0] == 'ok' else real[1])]
    if model[0] == 'err':
        return [] if model[1] == real[1] else ['model raises %s, implementation %s' % (model[1], real[1])]
    if model[1] == real[1]:
        return []
    return W.diff_canon(model[1], real[1], 8) or ['canonical values differ']
