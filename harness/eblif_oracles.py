"""EBLIF engine: the property's own oracles, evaluated on the implementation's objects / dumps
(independent of the Coq model).

  wf_check(netlist)                  well-formed + self-contained (C18 clause 'The result is well-formed
                                     and self-contained')
  design_oracle(dump, expectation)   the parsed netlist is what the abstract design says
  roundtrip_oracle(dump1, dump2)     write-then-read: same instances, types, data, nets as pin sets
Every failure is a (kind, text) pair; `kind` is what known-finding signatures are matched on."""
import eblif_world as W


def wf_check(nl):
    import spydrnet as sdn
    bad = []

    def fail(kind, text):
        if len(bad) < 60:
            bad.append((kind, text))

    libs = list(nl.libraries)
    defs = set()
    for lib in libs:
        if lib.netlist is not nl:
            fail('lib-parent', 'library %s does not point back to the netlist' % lib.name)
        names = [d.name for d in lib.definitions]
        if len(names) != len(set(names)):
            fail('dup-definition-name', 'library %s holds two definitions of the same name' % lib.name)
        for d in lib.definitions:
            if d.library is not lib:
                fail('def-parent', 'definition %s does not point back to its library' % d.name)
            defs.add(id(d))
    top = nl.top_instance
    if top is not None and (top.reference is None or id(top.reference) not in defs):
        fail('top-outside', 'the top instance references a definition outside the netlist')
    for lib in libs:
        for d in lib.definitions:
            for label, items in (('port', d.ports), ('cable', d.cables), ('instance', d.children)):
                names = [x.name for x in items if x.name is not None]
                if len(names) != len(set(names)):
                    fail('dup-%s-name' % label, 'definition %s has two %ss of the same name' % (d.name, label))
            for port in d.ports:
                if port.definition is not d:
                    fail('port-parent', 'port %s.%s does not point back' % (d.name, port.name))
                for pin in port.pins:
                    if pin.port is not port:
                        fail('pin-parent', 'a pin of %s.%s does not point back' % (d.name, port.name))
            own_wires = set()
            for cable in d.cables:
                if cable.definition is not d:
                    fail('cable-parent', 'cable %s.%s does not point back' % (d.name, cable.name))
                for wire in cable.wires:
                    own_wires.add(id(wire))
                    if wire.cable is not cable:
                        fail('wire-parent', 'a wire of %s.%s does not point back' % (d.name, cable.name))
                    seen = set()
                    for pin in wire.pins:
                        if id(pin) in seen:
                            fail('pin-twice-on-wire', 'wire of %s.%s lists a pin twice' % (d.name, cable.name))
                        seen.add(id(pin))
                        if pin.wire is not wire:
                            fail('pin-wire-backlink', 'a pin on a wire of %s.%s points to another wire' % (d.name, cable.name))
                        if isinstance(pin, sdn.InnerPin):
                            if pin.port is None or pin.port.definition is not d:
                                fail('foreign-inner-pin', 'wire of %s.%s holds an inner pin of another definition' % (d.name, cable.name))
                        else:
                            inst = pin.instance
                            if inst is None or inst.parent is not d:
                                fail('foreign-outer-pin', 'wire of %s.%s holds a pin of an instance that is not a child' % (d.name, cable.name))
                            elif pin.inner_pin not in inst.pins or inst.pins[pin.inner_pin] is not pin:
                                fail('stale-outer-pin', 'wire of %s.%s holds an outer pin its instance does not know' % (d.name, cable.name))
            # every connected pin of this definition sits on a wire that belongs to it
            pins = [('port %s' % port.name, p) for port in d.ports for p in port.pins]
            pins += [('instance %s' % i.name, op) for i in d.children for op in i.pins]
            for label, p in pins:
                w = p.wire
                if w is None:
                    continue
                if p not in w.pins:
                    fail('pin-not-on-its-wire', '%s of %s points to a wire that does not list it' % (label, d.name))
                c = w.cable
                if c is None or c.definition is None:
                    fail('pin-on-orphan-cable', '%s of %s is attached to a wire of cable %r that belongs to no definition'
                         % (label, d.name, c.name if c is not None else None))
                elif c.definition is not d:
                    fail('pin-on-foreign-cable', '%s of %s is attached to a wire of another definition' % (label, d.name))
                elif id(w) not in own_wires:
                    fail('pin-on-removed-wire', '%s of %s is attached to a wire its cable no longer holds' % (label, d.name))
            for i in d.children:
                if i.parent is not d:
                    fail('child-parent', 'instance %s of %s does not point back' % (i.name, d.name))
                r = i.reference
                if r is None or id(r) not in defs:
                    fail('reference-outside', 'instance %s of %s references a definition outside the netlist' % (i.name, d.name))
                    continue
                if i not in r.references:
                    fail('reference-set', 'instance %s is missing from the reference set of %s' % (i.name, r.name))
                want = [p for port in r.ports for p in port.pins]
                have = list(i._pins.keys())
                if len(want) != len(have) or set(map(id, want)) != set(map(id, have)):
                    fail('mirror', 'instance %s of %s has %d outer pins, its definition %s has %d pins'
                         % (i.name, d.name, len(have), r.name, len(want)))
                for ip, op in i._pins.items():
                    if op.inner_pin is not ip or op.instance is not i:
                        fail('outer-pin-link', 'outer pin of %s does not point to its inner pin / instance' % i.name)
    return bad


def design_oracle(dump, exp):
    """dump = W.dump_netlist(parsed), exp = eblif_gen.expectation(design)"""
    bad = []

    def fail(kind, text):
        if len(bad) < 40:
            bad.append((kind, text))

    if 'error' in dump:
        return [('reader-raised', 'the reader raised %s on a valid design' % dump['error'])]
    top = exp['top']
    if dump['top'] is None or dump['top'][1] != top:
        fail('top-election', 'top instance is %r, the design\'s top model is %r' % (dump['top'], top))
    if top not in dump['models']:
        return bad + [('top-missing', 'no definition for the top model')]
    m = dump['models'][top]
    if m['lib'] != 'work':
        fail('top-library', 'top model sits in library %s' % m['lib'])
    ports = {p: [d, w] for p, d, w in m['ports']}
    if ports != exp['ports']:
        fail('top-ports', 'ports of the top model %r, design %r' % (ports, exp['ports']))
    if len(m['insts']) != len(exp['insts']):
        fail('instance-count', '%d instances, the design has %d statements' % (len(m['insts']), len(exp['insts'])))
    for k, (got, want) in enumerate(zip(m['insts'], exp['insts'])):
        if got['ref'] != want['ref']:
            fail('instance-definition', 'instance %d is a %s, statement names %s' % (k, got['ref'], want['ref']))
        if got['type'] != want['type']:
            fail('instance-type', 'instance %d has type %s, expected %s' % (k, got['type'], want['type']))
        if got['cname'] != want['cname']:
            fail('cname-lost', 'instance %d has cname %r, statement has %r' % (k, got['cname'], want['cname']))
        if 'name' in want and got['name'] != want['name']:
            fail('instance-name', 'instance %d is named %r, expected %r' % (k, got['name'], want['name']))
        if dict(map(tuple, got['attr'])) != want['attr']:
            fail('attr-lost', 'instance %d has attr %r, statement has %r' % (k, got['attr'], want['attr']))
        if dict(map(tuple, got['param'])) != want['param']:
            fail('param-lost', 'instance %d has param %r, statement has %r' % (k, got['param'], want['param']))
        if got['covers'] != want['covers']:
            fail('covers', 'instance %d has rows %r, statement has %r' % (k, got['covers'], want['covers']))
        if sorted(got['unconn'] or []) != sorted(want['unconn']):
            fail('unconn', 'instance %d records unconn %r, statement has %r' % (k, got['unconn'], want['unconn']))
        if 'unexpected_data_keys' in got:
            fail('data-keys', 'instance %d carries unexpected data %r' % (k, got['unexpected_data_keys']))
    nets = W.pin_sets(dump, top)
    if nets != exp['nets']:
        only_impl = sorted(sorted(x) for x in nets - exp['nets'])[:3]
        only_design = sorted(sorted(x) for x in exp['nets'] - nets)[:3]
        kind = 'nets'
        fail(kind, 'nets differ: only in the parsed netlist %r; only in the design %r' % (only_impl, only_design))
    for name, pe in exp['prims'].items():
        if not pe['declared'] and not pe['instanced']:
            continue
        if name not in dump['models']:
            fail('primitive-missing', 'no definition for %s' % name)
            continue
        pm = dump['models'][name]
        if pm['lib'] != 'hdi_primitives':
            fail('primitive-library', '%s sits in library %s' % (name, pm['lib']))
        if pm['cables'] or pm['insts']:
            fail('primitive-not-leaf', '%s has %d cables, %d children' % (name, len(pm['cables']), len(pm['insts'])))
        got = {p: [d, w] for p, d, w in pm['ports']}
        ok = set(got) == set(pe['ports'])
        for p in got:
            if not ok:
                break
            d, w = pe['ports'][p]
            if got[p][0] != d:
                ok = False
            elif isinstance(w, tuple):          # undeclared black box: a range of acceptable widths
                ok = max(w[0], 1) <= got[p][1] <= max(w[1], 1)
            else:
                ok = got[p][1] == w
        if not ok:
            fail('primitive-ports', 'ports of %s are %r, expected %r' % (name, got, pe['ports']))
    return bad


def roundtrip_oracle(d1, d2, strict_unconn=False):
    """d1 = dump of the parsed netlist, d2 = dump after compose + parse"""
    bad = []

    def fail(kind, text):
        if len(bad) < 40:
            bad.append((kind, text))

    if 'error' in d2:
        return [('reread-raised', 'reading the written file raised %s' % d2['error'])]
    if (d1['top'] or [None, None])[1] != (d2['top'] or [None, None])[1]:
        fail('rt-top', 'top model %r became %r' % (d1['top'], d2['top']))
    written = [d1['top'][1]] if d1['top'] else []
    # the models the composer is expected to keep: top and everything instanced below it
    todo = list(written)
    seen = set()
    while todo:
        x = todo.pop()
        if x in seen or x not in d1['models']:
            continue
        seen.add(x)
        todo += [i['ref'] for i in d1['models'][x]['insts']]
    for name in sorted(seen):
        m1 = d1['models'][name]
        if name not in d2['models']:
            fail('rt-model-lost', 'model %s is gone after write-then-read' % name)
            continue
        m2 = d2['models'][name]
        if m1['lib'] == 'hdi_primitives':
            continue
        v1, v2 = W.instance_view(d1, name, strict_unconn), W.instance_view(d2, name, strict_unconn)
        if v1 != v2:
            for k in sorted(set(v1) | set(v2), key=str):
                if v1.get(k) != v2.get(k):
                    fail('rt-instances', 'instance %r of %s: before %r, after %r' % (k, name, v1.get(k), v2.get(k)))
                    break
        c1 = {i['name']: i['cname'] for i in m1['insts'] if i['cname'] is not None}
        c2 = {i['name']: i['cname'] for i in m2['insts']}
        for k, v in c1.items():
            if c2.get(k) != v:
                fail('rt-cname', 'cname of %r in %s: before %r, after %r' % (k, name, v, c2.get(k)))
        p1 = {p: [d, w] for p, d, w in m1['ports'] if d != 'UNDEFINED'}
        p2 = {p: [d, w] for p, d, w in m2['ports'] if d != 'UNDEFINED'}
        if p1 != p2:
            fail('rt-ports', 'ports of %s: before %r, after %r' % (name, p1, p2))
        n1, n2 = W.named_pin_sets(d1, name), W.named_pin_sets(d2, name)
        if n1 != n2:
            a = sorted(sorted(x) for x in n1 - n2)[:3]
            b = sorted(sorted(x) for x in n2 - n1)[:3]
            tops_lost = any(any(p.startswith('TOP.') for p in x) for x in n1 - n2)
            fail('rt-nets-top-pin' if tops_lost else 'rt-nets', 'nets of %s differ: only before %r; only after %r' % (name, a, b))
    return bad
