"""Per-property specifics of the ir-engine checks: step hooks for C14 (frame of refused calls)
and C19 (shadow mirror driven only by listener notifications)."""
import ir_check, ir_oracles
from ir_world import REL, REL_PARENT, REL_CHILD, tok_of_s, tok_of_val

REFUSALS = ('assert', 'value', 'key', 'runtime', 'type')


class FrameHook:
    """C14: a refused call leaves every pre-existing object exactly as it was, and anything it
    allocated is registered nowhere."""
    name = 'Frame'

    def pre(self, w, op):
        return (len(w.objs), ir_oracles.snapshot(w), lookup_answers(w))

    def post(self, w, op, out, pre):
        if out == 'ok':
            return []
        n0, snap0, look0 = pre
        bad = []
        if not (out in REFUSALS or out.startswith('other')):
            return bad
        snap1 = [w.dump_obj(i) for i in range(n0)]
        for a, b in zip(snap0, snap1):
            if a != b:
                bad.append('refused call (%s) changed %s  ->  %s' % (out, a, b))
        look1 = lookup_answers(w, n0)
        if look0 != look1:
            bad.append('refused call (%s) changed name-lookup answers' % out)
        new = w.objs[n0:]
        new_ids = set(id(o) for o in new)
        for i in range(n0):
            o = w.objs[i]
            k = w.kind(o)
            refs = []
            for rel, (lattr, battr, *_r) in REL.items():
                if REL_PARENT[rel] == k:
                    refs += list(getattr(o, lattr))
                if REL_CHILD[rel] == k:
                    refs.append(getattr(o, battr))
            if k == 'definition':
                refs += list(o.references)
            if k == 'instance':
                refs.append(o.reference)
                refs += list(o._pins.keys())
            if k == 'wire':
                for p in o.pins:
                    refs.append(p)
                    refs.append(getattr(p, 'instance', None))
                    refs.append(getattr(p, 'inner_pin', None))
            if k == 'pin':
                refs.append(o.wire)
            if k == 'netlist':
                refs.append(o.top_instance)
            for r in refs:
                if r is not None and id(r) in new_ids:
                    bad.append('after the refused call, old object #%d still refers to half-built #%s' % (i, w.tok_id(r)))
        return bad


def lookup_answers(w, limit=None):
    """exact-name lookup answers for every (parent, type, name present among its children)"""
    import spydrnet as sdn
    out = []
    n = len(w.objs) if limit is None else limit
    for i in range(n):
        o = w.objs[i]
        for pk, lattr, getter, ck in ir_oracles.SCOPES:
            if w.kind(o) != pk:
                continue
            names = sorted(set(c['.NAME'] for c in getattr(o, lattr) if isinstance(c.get('.NAME'), str) and c['.NAME'] and not any(ch in c['.NAME'] for ch in '*?[')))
            for nm in names:
                out.append((i, lattr, nm, sorted(w.tok_id(x) for x in getter(o, nm))))
    return out


class Shadow:
    """A listener-side mirror that only consumes announcements (mirrors Coq IR/Shadow.v)."""

    def __init__(self):
        self.kids = {}     # (rel, parent) -> set(child)
        self.wire = {}     # wire -> set(pin token)
        self.ref = {}      # instance -> definition id or '~'
        self.top = {}      # netlist -> instance id or '~'
        self.data = {}     # element -> {key tok: val tok}

    def feed(self, ev, w):
        f = ev.split(':')
        t = f[0]
        if t == 'create':
            self.data.setdefault(f[2], {})
        elif t == 'add':
            self.kids.setdefault((f[1], f[2]), set()).add(f[3])
        elif t == 'remove':
            self.kids.setdefault((f[1], f[2]), set()).discard(f[3])
        elif t == 'reference':
            n, d = f[1], f[2]
            old = self.ref.get(n, '~')
            if old != '~' and d != '~':
                # re-pointing: the announcement arrives before the change, so the listener can read
                # the port/pin order of both definitions through the arguments it was handed
                cur, new = w.objs[int(old)], w.objs[int(d)]
                for cp, np_ in zip(cur.ports, new.ports):
                    for a, b in zip(cp.pins, np_.pins):
                        ta, tb = 'O%s.%s' % (n, w.tok_id(a)), 'O%s.%s' % (n, w.tok_id(b))
                        for s in self.wire.values():
                            if ta in s:
                                s.discard(ta)
                                s.add(tb)
            self.ref[n] = d
        elif t == 'top':
            if f[2][0] != 'D':
                self.top[f[1]] = '~' if f[2] == 'N' else f[2][1:]
        elif t == 'connect':
            self.wire.setdefault(f[1], set()).add(f[2])
        elif t == 'disconnect':
            self.wire.setdefault(f[1], set()).discard(f[2])
        elif t == 'dset':
            self.data.setdefault(f[1], {})[f[2]] = ':'.join(f[3:])
        elif t in ('ddel', 'dpop'):
            self.data.setdefault(f[1], {}).pop(f[2], None)

    def compare(self, w):
        bad = []
        for i, o in enumerate(w.objs):
            k = w.kind(o)
            si = str(i)
            for rel, (lattr, battr, *_r) in REL.items():
                if REL_PARENT[rel] == k:
                    real = set(w.tok_id(c) for c in getattr(o, lattr))
                    sh = self.kids.get((rel, si), set())
                    if real != sh:
                        bad.append('%s of #%d: netlist %s, mirror %s' % (lattr, i, sorted(real), sorted(sh)))
            if k == 'wire':
                real = set(w.tok_pin(p) for p in o.pins)
                sh = self.wire.get(si, set())
                if real != sh:
                    bad.append('pins of wire #%d: netlist %s, mirror %s' % (i, sorted(real), sorted(sh)))
            if k == 'instance':
                if w.tok_id(o.reference) != self.ref.get(si, '~'):
                    bad.append('reference of #%d: netlist %s, mirror %s' % (i, w.tok_id(o.reference), self.ref.get(si, '~')))
            if k == 'netlist':
                if w.tok_id(o.top_instance) != self.top.get(si, '~'):
                    bad.append('top of #%d: netlist %s, mirror %s' % (i, w.tok_id(o.top_instance), self.top.get(si, '~')))
            if k not in ('wire', 'pin'):
                real = dict((tok_of_s(kk), tok_of_val(v)) for kk, v in o._data.items())
                sh = self.data.get(si, {})
                if real != sh:
                    bad.append('data of #%d: netlist %s, mirror %s' % (i, sorted(real.items()), sorted(sh.items())))
        return bad


class OrderedLog:
    """event capture in dispatch order (World.events is reset per call and sorted only when dumped)"""


class MirrorHook:
    name = 'Mirror'

    def __init__(self):
        self.shadow = None
        self.world = None

    def pre(self, w, op):
        if self.world is not w:
            self.world = w
            self.shadow = Shadow()
        return None

    def post(self, w, op, out, pre):
        for ev in w.events:
            self.shadow.feed(ev, w)
        return self.shadow.compare(w)


def run(prop, tier, seed, replay):
    factory = None
    if prop == 'C14':
        factory = FrameHook
    if prop == 'C19':
        factory = MirrorHook
    if replay:
        return ir_check.replay_file(prop, replay, factory)
    return ir_check.run_check(prop, tier, seed, factory)
