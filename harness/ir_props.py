"""Per-property specifics of the ir-engine checks: step hooks for C14 (frame of refused calls)
and C19 (shadow mirror driven only by listener notifications)."""
import ir_check, ir_oracles
from ir_world import REL, REL_PARENT, REL_CHILD, tok_of_s, tok_of_val

REFUSALS = ('assert', 'value', 'key', 'runtime', 'type')


class FrameHook:
    """C14: a refused call leaves every pre-existing object exactly as it was, and anything it
    allocated is registered nowhere."""
    name = 'Frame'

    def pre(self, w, op):
        return (len(w.objs), ir_oracles.snapshot(w), lookup_answers(w))

    def post(self, w, op, out, pre):
        if out == 'ok':
            return []
        n0, snap0, look0 = pre
        bad = []
        if not (out in REFUSALS or out.startswith('other')):
            return bad
        snap1 = [w.dump_obj(i) for i in range(n0)]
        for a, b in zip(snap0, snap1):
            if a != b:
                bad.append('refused call (%s) changed %s  ->  %s' % (out, a, b))
        look1 = lookup_answers(w, n0)
        if look0 != look1:
            bad.append('refused call (%s) changed name-lookup answers' % out)
        new = w.objs[n0:]
        new_ids = set(id(o) for o in new)
        for i in range(n0):
            o = w.objs[i]
            k = w.kind(o)
            refs = []
            for rel, (lattr, battr, *_r) in REL.items():
                if REL_PARENT[rel] == k:
                    refs += list(getattr(o, lattr))
                if REL_CHILD[rel] == k:
                    refs.append(getattr(o, battr))
            if k == 'definition':
                refs += list(o.references)
            if k == 'instance':
                refs.append(o.reference)
                refs += list(o._pins.keys())
            if k == 'wire':
                for p in o.pins:
                    refs.append(p)
                    refs.append(getattr(p, 'instance', None))
                    refs.append(getattr(p, 'inner_pin', None))
            if k == 'pin':
                refs.append(o.wire)
            if k == 'netlist':
                refs.append(o.top_instance)
            for r in refs:
                if r is not None and id(r) in new_ids:
                    bad.append('after the refused call, old object #%d still refers to half-built #%s' % (i, w.tok_id(r)))
        return bad


def lookup_answers(w, limit=None):
    """exact-name lookup answers for every (parent, type, name present among its children)"""
    import spydrnet as sdn
    out = []
    n = len(w.objs) if limit is None else limit
    for i in range(n):
        o = w.objs[i]
        for pk, lattr, getter, ck in ir_oracles.SCOPES:
            if w.kind(o) != pk:
                continue
            names = sorted(set(c['.NAME'] for c in getattr(o, lattr) if isinstance(c.get('.NAME'), str) and c['.NAME'] and not any(ch in c['.NAME'] for ch in '*?[')))
            for nm in names:
                out.append((i, lattr, nm, sorted(w.tok_id(x) for x in getter(o, nm))))
    return out


class Shadow:
    """A listener-side mirror that only consumes announcements (mirrors Coq IR/Shadow.v)."""

    def __init__(self):
        self.kids = {}     # (rel, parent) -> set(child)
        self.wire = {}     # wire -> set(pin token)
        self.ref = {}      # instance -> definition id or '~'
        self.top = {}      # netlist -> instance id or '~'
        self.data = {}     # element -> {key tok: val tok}

    def feed(self, ev, w):
        f = ev.split(':')
        t = f[0]
        if t == 'create':
            self.data.setdefault(f[2], {})
        elif t == 'add':
            self.kids.setdefault((f[1], f[2]), set()).add(f[3])
        elif t == 'remove':
            self.kids.setdefault((f[1], f[2]), set()).discard(f[3])
        elif t == 'reference':
            n, d = f[1], f[2]
            old = self.ref.get(n, '~')
            if old != '~' and d != '~':
                # re-pointing: the announcement arrives before the change, so the listener can read
                # the port/pin order of both definitions through the arguments it was handed
                cur, new = w.objs[int(old)], w.objs[int(d)]
                for cp, np_ in zip(cur.ports, new.ports):
                    for a, b in zip(cp.pins, np_.pins):
                        ta, tb = 'O%s.%s' % (n, w.tok_id(a)), 'O%s.%s' % (n, w.tok_id(b))
                        for s in self.wire.values():
                            if ta in s:
                                s.discard(ta)
                                s.add(tb)
            self.ref[n] = d
        elif t == 'top':
            if f[2][0] != 'D':
                self.top[f[1]] = '~' if f[2] == 'N' else f[2][1:]
        elif t == 'connect':
            self.wire.setdefault(f[1], set()).add(f[2])
        elif t == 'disconnect':
            self.wire.setdefault(f[1], set()).discard(f[2])
        elif t == 'dset':
            self.data.setdefault(f[1], {})[f[2]] = ':'.join(f[3:])
        elif t in ('ddel', 'dpop'):
            self.data.setdefault(f[1], {}).pop(f[2], None)

    def compare(self, w):
        bad = []
        for i, o in enumerate(w.objs):
            k = w.kind(o)
            si = str(i)
            for rel, (lattr, battr, *_r) in REL.items():
                if REL_PARENT[rel] == k:
                    real = set(w.tok_id(c) for c in getattr(o, lattr))
                    sh = self.kids.get((rel, si), set())
                    if real != sh:
                        bad.append('%s of #%d: netlist %s, mirror %s' % (lattr, i, sorted(real), sorted(sh)))
            if k == 'wire':
                real = set(w.tok_pin(p) for p in o.pins)
                sh = self.wire.get(si, set())
                if real != sh:
                    bad.append('pins of wire #%d: netlist %s, mirror %s' % (i, sorted(real), sorted(sh)))
            if k == 'instance':
                if w.tok_id(o.reference) != self.ref.get(si, '~'):
                    bad.append('reference of #%d: netlist %s, mirror %s' % (i, w.tok_id(o.reference), self.ref.get(si, '~')))
            if k == 'netlist':
                if w.tok_id(o.top_instance) != self.top.get(si, '~'):
                    bad.append('top of #%d: netlist %s, mirror %s' % (i, w.tok_id(o.top_instance), self.top.get(si, '~')))
            if k not in ('wire', 'pin'):
                real = dict((tok_of_s(kk), tok_of_val(v)) for kk, v in o._data.items())
                sh = self.data.get(si, {})
                if real != sh:
                    bad.append('data of #%d: netlist %s, mirror %s' % (i, sorted(real.items()), sorted(sh.items())))
        return bad


class MirrorPinsHook:
    """C02 clauses that need memory across a call: (a) outer pins that disappear are first taken
    off their wire (the dropped pin object reports no wire and no wire lists it); (b) re-pointing an
    instance to a shape-compatible definition keeps every connection on the corresponding pin."""
    name = 'MirrorPins'

    def pre(self, w, op):
        stored = []
        for o in w.objs:
            if w.kind(o) == 'instance':
                stored += list(o._pins.values())
        rep = None
        if op[0] == 'setref' and op[2] != '~':
            inst = w.objs[int(op[1])]
            if inst.reference is not None:
                rep = [[(op_.wire if (op_ := inst._pins.get(pin)) is not None else None) for pin in port.pins] for port in inst.reference.ports]
        return (stored, rep)

    def post(self, w, op, out, pre):
        stored, rep = pre
        bad = []
        now = set()
        for o in w.objs:
            if w.kind(o) == 'instance':
                now |= set(id(p) for p in o._pins.values())
        wires = [o for o in w.objs if w.kind(o) == 'wire']
        for p in stored:
            if id(p) not in now:
                if p.wire is not None:
                    bad.append('an outer pin that disappeared still reports wire #%s' % w.tok_id(p.wire))
                for wr in wires:
                    if any(q is p for q in wr.pins):
                        bad.append('an outer pin that disappeared is still listed by wire #%s' % w.tok_id(wr))
        if rep is not None and out == 'ok':
            inst = w.objs[int(op[1])]
            new = inst.reference
            for pi, port in enumerate(new.ports):
                for bi, pin in enumerate(port.pins):
                    if pi < len(rep) and bi < len(rep[pi]):
                        got = inst._pins[pin].wire if pin in inst._pins else None
                        if got is not rep[pi][bi]:
                            bad.append('re-pointing #%s moved the connection of port %d bit %d from wire #%s to #%s' % (
                                op[1], pi, bi, w.tok_id(rep[pi][bi]), w.tok_id(got)))
        return bad


class OrderedLog:
    """event capture in dispatch order (World.events is reset per call and sorted only when dumped)"""


HOOKS = ['create_netlist', 'create_library', 'create_definition', 'create_port', 'create_cable', 'create_instance',
         'cable_add_wire', 'cable_remove_wire', 'definition_add_port', 'definition_remove_port', 'definition_add_child',
         'definition_remove_child', 'definition_add_cable', 'definition_remove_cable', 'instance_reference',
         'library_add_definition', 'library_remove_definition', 'netlist_top_instance', 'netlist_add_library',
         'netlist_remove_library', 'port_add_pin', 'port_remove_pin', 'wire_connect_pin', 'wire_disconnect_pin',
         'dictionary_set', 'dictionary_delete', 'dictionary_pop']


def make_partial_listener(rng):
    """a listener that overrides a random subset of the hooks with no-ops"""
    from spydrnet.callback.callback_listener import CallbackListener
    chosen = [h for h in HOOKS if rng.random() < 0.5]
    body = dict((h, (lambda self, *a, **k: None)) for h in chosen)
    cls = type('PartialListener', (CallbackListener,), body)
    return cls(), chosen


class MirrorHook:
    """C19: shadow mirror + 'registering or removing listeners never changes what the API does':
    extra listeners overriding random subsets of the hooks are registered and removed along the
    history; the model (which knows nothing about them) must still agree and no call may raise an
    exception class that the API does not raise on its own."""
    name = 'Mirror'

    def __init__(self):
        self.shadow = None
        self.world = None
        self.extra = []
        self.count = 0

    def pre(self, w, op):
        import random
        if self.world is not w:
            self._drop_all()
            self.world = w
            self.shadow = Shadow()
            self.count += 1
            self.rng = random.Random('partial/%d' % self.count)
        r = self.rng.random()
        if r < 0.08 and len(self.extra) < 3:
            self.extra.append(make_partial_listener(self.rng))
        elif r < 0.14 and self.extra:
            l, chosen = self.extra.pop(self.rng.randrange(len(self.extra)))
            try:
                l.deregister_all_listeners()
            except Exception as e:  # noqa
                return 'deregistering a listener (hooks %s) raised %s: %s' % (chosen, type(e).__name__, e)
        return None

    def _drop_all(self):
        for l, chosen in self.extra:
            try:
                l.deregister_all_listeners()
            except Exception:
                pass
        self.extra = []
        # make sure nothing of ours stays registered in the process-wide containers
        from spydrnet.global_state import global_callback as gc
        for name in dir(gc):
            if name.startswith('_container_'):
                cont = getattr(gc, name)
                cont[:] = [f for f in cont if type(getattr(f, '__self__', None)).__name__ != 'PartialListener']

    def post(self, w, op, out, pre):
        bad = []
        if isinstance(pre, str):
            bad.append(pre)
        if out.startswith('other:'):
            bad.append('call %s raised %s while extra listeners were registered' % (' '.join(op[:2]), out))
        for ev in w.events:
            self.shadow.feed(ev, w)
        # "announced to registered listeners BEFORE it takes effect": what our listener saw when it was told
        bad += sorted(set(getattr(w, 'early', [])))
        return bad + self.shadow.compare(w)


def run(prop, tier, seed, replay):
    factory = None
    if prop == 'C14':
        factory = FrameHook
    if prop == 'C19':
        factory = MirrorHook
    if prop == 'C02':
        factory = MirrorPinsHook
    if replay:
        return ir_check.replay_file(prop, replay, factory)
    return ir_check.run_check(prop, tier, seed, factory)
