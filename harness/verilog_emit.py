"""Engine `verilog`: document-level correspondence of the WRITER (coq/theories/Fmt/VEmit.v emit, `EMIT` command of
ocaml/driver_verilog.ml). On every netlist the C04 run writes:

  netlist_line(netlist, opts)  the ordered netlist value (verilog_world.canon content, with the order of libraries /
                               definitions / ports / cables / children kept) as a protocol line, or Inexpressible
                               when the netlist holds something the value type nv cannot say (counted and skipped);
  text_doc(text)               the text the real composer wrote, read token by token into the document shape (vdoc);
                               an independent small reader of the composer's output grammar - trusted glue;
  check(run, ...)              model document == document of the real text (or the same class of exception), and
                               rt_check = true (Coq: the written document elaborates to a netlist with the same
                               ports / instances / connectivity) implies that the real write/read cycle shows no
                               difference in top / modules / ports / instances / nets.
A difference is reported as a broken correspondence (VIOLATION)."""
import json, os, re, subprocess
import common
import verilog_world as W
import verilog_oracles as O

DRIVER = os.path.join(common.OCAML_BUILD, 'driver_verilog')
DIRS = {'in': 'in', 'out': 'out', 'inout': 'inout', 'undefined': '~'}
ERR_CLASS = {'AssertionError': 'assert', 'ValueError': 'value', 'AttributeError': 'attr', 'IndexError': 'index'}
TYPES = ('wire', 'reg', 'tri0', 'tri1')
RT_CLAIMS = ('top', 'modules', 'ports', 'insts', 'nets', 'reparse-rejected', 'compose-raises', 'second-write', 'wf')


class Inexpressible(Exception):
    pass


class DocUnreadable(Exception):
    pass


def hx(s):
    return 'x' + s.encode('utf-8').hex()


def unhx(t):
    return bytes.fromhex(t[1:]).decode('utf-8')


# ------------------------------------------------------------------ netlist -> EMIT line
def _name(o, what):
    n = o.name
    if not isinstance(n, str) or n == '':
        raise Inexpressible('%s without a name' % what)
    return n


def _attrs(o):
    d = o['VERILOG.InlineConstraints'] if 'VERILOG.InlineConstraints' in o else None
    if not d:
        return ['0']
    out = [str(len(d))]
    for k, v in d.items():
        ks, vs = str(k), None if v is None else str(v)
        for s in [ks] + ([] if vs is None else [vs]):
            if s == '' or ',' in s or ' = ' in s or '*)' in s or '\n' in s or s != s.strip():
                raise Inexpressible('attribute text with separators')
        out += [hx(ks), '~' if vs is None else hx(vs)]
    return out


def _params(o, what):
    d = o['VERILOG.Parameters'] if 'VERILOG.Parameters' in o else None
    if not d:
        return ['0']
    out = [str(len(d))]
    for k, v in d.items():
        if not isinstance(k, str) or not isinstance(v, str):
            raise Inexpressible('%s parameter that is not a string' % what)
        if '\n' in k or '\n' in v or k != k.strip() or v != v.strip() or k == '' or v == '' or ' = ' in k:
            raise Inexpressible('parameter text with separators')
        out += [hx(k), hx(v)]
    return out


def _label(p, pos):
    if p.name is None:
        return ['P', str(pos)]
    if p.name == '':
        raise Inexpressible('port with an empty name')
    return ['N', hx(p.name)]


def def_toks(d):
    out = [hx(_name(d, 'definition')), hx(d.library.name), '1' if ('VERILOG.primitive' in d and d['VERILOG.primitive']) else '0']
    out += _params(d, 'module') + _attrs(d)
    out.append(str(len(d.ports)))
    inner = {}
    for pos, p in enumerate(d.ports):
        if 'VERILOG.InlineConstraints' in p and p['VERILOG.InlineConstraints']:
            raise Inexpressible('port attributes')
        lab = _label(p, pos)
        out += lab + [DIRS[W.DIRS.get(p.direction)], str(len(p.pins)), str(p.lower_index)]
        for k, pin in enumerate(p.pins):
            inner[pin] = ['P'] + lab + [str(p.lower_index + k)]
    wire_key = {}
    out.append(str(len(d.cables)))
    for c in d.cables:
        ctype = c['VERILOG.CableType'] if 'VERILOG.CableType' in c else 'wire'
        if ctype not in TYPES:
            raise Inexpressible('cable type %r' % (ctype,))
        out += [hx(_name(c, 'cable')), str(len(c.wires)), str(c.lower_index), ctype] + _attrs(c)
        for k, w in enumerate(c.wires):
            wire_key[w] = (c.name, c.lower_index + k)
    eps = {}

    def join(wire, ep):
        if wire not in wire_key:
            raise Inexpressible('pin on a wire of another module')
        eps.setdefault(wire, []).append(ep)

    insts, assigns = [], []
    ref_cache = {}
    for inst in d.children:
        r = inst.reference
        if r is None or r.library is None:
            raise Inexpressible('instance without a reference')
        if W.is_assign_instance(inst):
            o = next((p for p in r.ports if p.name == 'o'), None)
            i = next((p for p in r.ports if p.name == 'i'), None)
            if o is None or i is None or len(o.pins) != len(i.pins):
                raise Inexpressible('assignment definition of another shape')
            t = [str(len(o.pins))]
            for k in range(len(o.pins)):
                for port in (o, i):
                    w = inst.pins[port.pins[k]].wire
                    if w is not None and w not in wire_key:
                        raise Inexpressible('pin on a wire of another module')
                    t += ['~'] if w is None else ['B', hx(wire_key[w][0]), str(wire_key[w][1])]
            assigns.append(t)
            continue
        insts.append([hx(_name(inst, 'instance')), hx(_name(r, 'definition'))] + _params(inst, 'instance') + _attrs(inst))
        if r not in ref_cache:
            m = {}
            for pos, p in enumerate(r.ports):
                lab = _label(p, pos)
                for k, pin in enumerate(p.pins):
                    m[pin] = lab + [str(p.lower_index + k)]
            ref_cache[r] = m
        labs = ref_cache[r]
        for ipin, opin in inst.pins.items():
            if opin.wire is not None:
                if ipin not in labs:
                    raise Inexpressible('instance pin that is not a pin of the reference')
                join(opin.wire, ['I', hx(inst.name)] + labs[ipin])
    for p in d.ports:
        for pin in p.pins:
            if pin.wire is not None:
                join(pin.wire, inner[pin])
    out.append(str(len(insts)))
    for t in insts:
        out += t
    nets = []
    for c in d.cables:
        for w in c.wires:
            if w in eps:
                t = [hx(wire_key[w][0]), str(wire_key[w][1]), str(len(eps[w]))]
                for ep in eps[w]:
                    t += ep
                nets.append(t)
    out.append(str(len(nets)))
    for t in nets:
        out += t
    out.append(str(len(assigns)))
    for t in assigns:
        out += t
    return out


def netlist_line(netlist, opts):
    dl = opts.get('definition_list', [])
    toks = ['EMIT']
    toks += ['~'] if dl is None else [str(len(dl))] + [hx(x) for x in dl]
    toks += ['1' if opts.get('write_blackbox', True) else '0', '1' if opts.get('defparam', False) else '0']
    top = netlist.top_instance
    if top is not None and top.reference is None:
        raise Inexpressible('top instance without a reference')
    toks.append('~' if top is None else hx(_name(top.reference, 'definition')))
    defs = [d for lib in netlist.libraries if lib.name != W.ASSIGN_LIB for d in lib.definitions]
    if top is not None and top.reference.library is not None and top.reference.library.name == W.ASSIGN_LIB:
        raise Inexpressible('top is an assignment definition')
    toks.append(str(len(defs)))
    for d in defs:
        toks += def_toks(d)
    return ' '.join(toks)


# ------------------------------------------------------------------ model answer -> document
def _dec(v):
    if isinstance(v, str):
        return unhx(v) if v.startswith('x') else v
    if isinstance(v, list):
        return [_dec(x) for x in v]
    if isinstance(v, dict):
        return {k: _dec(x) for k, x in v.items()}
    return v


def model_outcome(answer):
    if answer.startswith('ok '):
        v = json.loads(answer[3:])
        return ('ok', _dec(v['doc']), v['rt'], v['writable'], v['reread'])
    if answer.startswith('err '):
        return ('err', answer.split()[1], None)
    if answer.startswith('unsup '):
        return ('unsup', answer.split()[1], None)
    return ('driver', answer[:300], None)


MODEL_RUN_LIMIT = 90   # seconds per netlist: the extracted model works on association lists; on the largest bundled designs
                       # emit + elab + rt_check take many minutes, which is counted (not compared), never a verdict


def run_model(line):
    try:
        r = subprocess.run([DRIVER], input=line + '\n', capture_output=True, text=True, timeout=MODEL_RUN_LIMIT)
    except subprocess.TimeoutExpired:
        return 'unsup model-run-exceeds-%ds' % MODEL_RUN_LIMIT
    if r.returncode != 0:
        raise RuntimeError('driver_verilog failed: ' + r.stderr[-500:])
    return r.stdout.split('\n')[0]


# ------------------------------------------------------------------ text of the composer -> document
_TOK = re.compile(r'\s*(?:(//[^\n]*|/\*.*?\*/)|(\(\* .*? \*\))|(`\w+)|(\\\S+)|([A-Za-z_][A-Za-z0-9_]*)|(-?\d+)|([()\[\]{},;.#=:]))', re.S)


class _Reader:
    def __init__(self, text):
        self.t, self.pos = text, 0

    def peek(self):
        save = self.pos
        k = self.next()
        self.pos = save
        return k

    def next(self):
        while True:
            m = _TOK.match(self.t, self.pos)
            if m is None:
                if self.t[self.pos:].strip() == '':
                    self.pos = len(self.t)
                    return ('eof', None)
                raise DocUnreadable('no token at %r' % self.t[self.pos:self.pos + 30])
            self.pos = m.end()
            if m.group(1) is not None:
                continue
            if m.group(2) is not None:
                return ('attr', m.group(2)[3:-3])
            if m.group(3) is not None:
                return ('dir', m.group(3))
            if m.group(4) is not None:
                return ('name', m.group(4))
            if m.group(5) is not None:
                return ('name', m.group(5))
            if m.group(6) is not None:
                return ('int', int(m.group(6)))
            return ('p', m.group(7))

    def expect(self, kind, val=None):
        k = self.next()
        if k[0] != kind or (val is not None and k[1] != val):
            raise DocUnreadable('expected %s %r, found %r' % (kind, val, k))
        return k[1]

    def line(self):
        e = self.t.find('\n', self.pos)
        e = len(self.t) if e < 0 else e
        s = self.t[self.pos:e]
        self.pos = min(len(self.t), e + 1)
        return s


def _attr_list(s):
    out = []
    for part in s.split(', '):
        if ' = ' in part:
            k, v = part.split(' = ', 1)
            out.append([k, v])
        else:
            out.append([part, None])
    return out


def _range(rd):
    if rd.peek() != ('p', '['):
        return None
    rd.next()
    h = rd.expect('int')
    rd.expect('p', ':')
    l = rd.expect('int')
    rd.expect('p', ']')
    return [h, l]


def _atom(rd):
    n = rd.expect('name')
    if rd.peek() != ('p', '['):
        return ['id', n]
    rd.next()
    h = rd.expect('int')
    k = rd.next()
    if k == ('p', ']'):
        return ['bit', n, h]
    if k != ('p', ':'):
        raise DocUnreadable('bad select')
    l = rd.expect('int')
    rd.expect('p', ']')
    return ['part', n, h, l]


def _expr(rd):
    if rd.peek() == ('p', '{'):
        rd.next()
        atoms = []
        if rd.peek() == ('p', '}'):
            rd.next()
            return ['C', []]
        while True:
            atoms.append(_atom(rd))
            k = rd.next()
            if k == ('p', '}'):
                return ['C', atoms]
            if k != ('p', ','):
                raise DocUnreadable('bad concatenation')
    return ['A', _atom(rd)]


def _module(rd, cell, attrs):
    m = {'name': rd.expect('name'), 'cell': cell, 'params': [], 'attrs': attrs, 'header': [], 'body': []}
    if rd.peek() == ('p', '#'):
        rd.next()
        rd.expect('p', '(')
        rd.line()
        while True:
            start = rd.pos
            raw = rd.line()
            ln = raw.strip()
            if ln.startswith(')'):
                rd.pos = start + raw.index(')') + 1
                break
            if not ln.startswith('parameter '):
                raise DocUnreadable('module parameter line %r' % ln)
            body = ln[len('parameter '):]
            if body.endswith(','):
                body = body[:-1]
            if ' = ' not in body:
                raise DocUnreadable('module parameter without a value')
            k, v = body.split(' = ', 1)
            m['params'].append([k, v])
    rd.expect('p', '(')
    if rd.peek() == ('p', ')'):
        rd.next()
    else:
        while True:
            if rd.peek() == ('p', '.'):
                rd.next()
                n = rd.expect('name')
                rd.expect('p', '(')
                e = _expr(rd)
                rd.expect('p', ')')
                m['header'].append(['HA', n, e])
            else:
                m['header'].append(['HP', None, None, rd.expect('name')])
            k = rd.next()
            if k == ('p', ')'):
                break
            if k != ('p', ','):
                raise DocUnreadable('bad header')
    rd.expect('p', ';')
    pending = []
    while True:
        k = rd.next()
        if k[0] == 'attr':
            pending = _attr_list(k[1])
            continue
        if k == ('name', 'endmodule'):
            return m
        if k[0] != 'name':
            raise DocUnreadable('bad item start %r' % (k,))
        w = k[1]
        if w in ('input', 'output', 'inout'):
            rg = _range(rd)
            n = rd.expect('name')
            rd.expect('p', ';')
            m['body'].append(['PD', {'input': 'in', 'output': 'out', 'inout': 'inout'}[w], None, rg, [n], pending])
        elif w in TYPES:
            rg = _range(rd)
            n = rd.expect('name')
            rd.expect('p', ';')
            m['body'].append(['W', w, rg, [n], pending])
        elif w == 'assign':
            a = _atom(rd)
            rd.expect('p', '=')
            b = _atom(rd)
            rd.expect('p', ';')
            m['body'].append(['AS', a, b])
        elif w == 'defparam':
            ln = rd.line()
            mo = re.fullmatch(r'\s*(\\\S+ |[^.\s]+)\.([^=]+)=(.*);', ln)
            if mo is None:
                raise DocUnreadable('defparam line %r' % ln)
            m['body'].append(['DP', mo.group(1).strip(), mo.group(2), mo.group(3)])
        else:
            params = []
            if rd.peek() == ('p', '#'):
                rd.next()
                rd.expect('p', '(')
                rd.line()
                while True:
                    ln = rd.line().strip()
                    if ln == ')':
                        break
                    mo = re.fullmatch(r'\.([^(]+)\((.*)\),?', ln)
                    if mo is None:
                        raise DocUnreadable('instance parameter line %r' % ln)
                    params.append([mo.group(1), mo.group(2)])
            iname = rd.expect('name')
            rd.expect('p', '(')
            conns = []
            if rd.peek() == ('p', ')'):
                rd.next()
            else:
                while True:
                    rd.expect('p', '.')
                    pn = rd.expect('name')
                    rd.expect('p', '(')
                    e = None
                    if rd.peek() != ('p', ')'):
                        e = _expr(rd)
                    rd.expect('p', ')')
                    conns.append([pn, e])
                    k2 = rd.next()
                    if k2 == ('p', ')'):
                        break
                    if k2 != ('p', ','):
                        raise DocUnreadable('bad port map')
            rd.expect('p', ';')
            m['body'].append(['I', w, iname, params, pending, 'N', conns])
        pending = []


def text_doc(text):
    rd = _Reader(text)
    doc = []
    cell = False
    attrs = []
    while True:
        k = rd.next()
        if k[0] == 'eof':
            return doc
        if k == ('dir', '`celldefine'):
            cell = True
        elif k == ('dir', '`endcelldefine'):
            cell = False
        elif k[0] == 'attr':
            attrs = _attr_list(k[1])
        elif k == ('name', 'module'):
            doc.append(_module(rd, cell, attrs))
            attrs = []
        else:
            raise DocUnreadable('unexpected %r at top level' % (k,))


def features(doc, cnt):
    """what the compared documents contain (coverage of the writer's constructs)"""
    for m in doc:
        cnt['cell module' if m['cell'] else 'module'] += 1
        cnt['module parameters'] += bool(m['params'])
        cnt['module attributes'] += bool(m['attrs'])
        for h in m['header']:
            cnt['header alias .p({...})' if h[0] == 'HA' else 'header name'] += 1
        for it in m['body']:
            if it[0] == 'PD':
                cnt['port declaration' + (' [h:l]' if it[3] else '')] += 1
            elif it[0] == 'W':
                cnt['cable declaration' + (' [h:l]' if it[2] else '') + (' with attributes' if it[4] else '')] += 1
            elif it[0] == 'AS':
                cnt['assign'] += 1
            elif it[0] == 'DP':
                cnt['defparam'] += 1
            elif it[0] == 'I':
                cnt['instance'] += 1
                cnt['instance #(...)'] += bool(it[3])
                cnt['instance attributes'] += bool(it[4])
                for pn, e in it[6]:
                    if e is None:
                        cnt['connection empty'] += 1
                    elif e[0] == 'C':
                        cnt['connection {...}'] += 1
                    else:
                        cnt['connection ' + {'id': 'id', 'bit': 'id[i]', 'part': 'id[h:l]'}[e[1][0]]] += 1


# ------------------------------------------------------------------ the check of one written netlist
def first_difference(a, b, path='doc'):
    if type(a) != type(b):
        return '%s: model %r, text %r' % (path, a, b)
    if isinstance(a, list):
        for i, (x, y) in enumerate(zip(a, b)):
            d = first_difference(x, y, '%s[%d]' % (path, i))
            if d:
                return d
        if len(a) != len(b):
            return '%s: model has %d entries, text %d (first extra: %r)' % (path, len(a), len(b), (a[len(b):] or b[len(a):])[0])
        return None
    if isinstance(a, dict):
        for k in a:
            d = first_difference(a[k], b.get(k), '%s%s.%s' % (path, '(%s)' % a.get('name') if 'name' in a else '', k))
            if d:
                return d
        return None
    return None if a == b else '%s: model %r, text %r' % (path, a, b)


def renamed_clone(netlist):
    """a clone in which every character of a name that is not an identifier character is replaced (escaped names are
    left alone); None when that makes two siblings collide"""
    n2 = netlist.clone()
    for lib in n2.libraries:
        if lib.name == W.ASSIGN_LIB:
            continue
        for d in lib.definitions:
            for group in ([x for x in d.cables], [x for x in d.children if not W.is_assign_instance(x)], [x for x in d.ports]):
                seen = set(o.name for o in group)
                for o in group:
                    nm = o.name
                    if nm is None or nm.startswith('\\') or re.fullmatch(r'[A-Za-z_][A-Za-z0-9_]*', nm):
                        continue
                    new = re.sub(r'[^A-Za-z0-9_]', '_S_', nm)
                    if not re.match(r'[A-Za-z_]', new):
                        new = '_' + new
                    if new in seen:
                        return None
                    seen.add(new)
                    o.name = new
    return n2


def check(run, source, netlist, opts, real_items, text, describe, reread=None):
    """run: the Run of verilog_check (stats, handle_items, emit counters)"""
    st = run.emit
    try:
        line = netlist_line(netlist, opts)
    except Inexpressible as e:
        st['skipped_not_expressible_as_nv'][str(e)] += 1
        return
    model = model_outcome(run_model(line))
    if model[0] == 'unsup':
        st['skipped_outside_modelled_subset'][model[1]] += 1
        if model[1] == 'name' and not source.endswith('-renamed'):
            # the same netlist with the offending characters replaced (what flatten leaves: "u/w"): the writer model vs
            # Composer on the rest of it, e.g. assignment instances across cables (open finding V04-assign-not-one-slice)
            try:
                n2 = renamed_clone(netlist)
            except Exception:  # noqa
                n2 = None
            if n2 is not None:
                st['renamed_and_compared'] += 1
                check(run, source + '-renamed', n2, opts, None, None, describe)
        return
    problems = []
    if model[0] == 'driver':
        problems.append('driver: ' + model[1])
    real_exc = None
    if text is None:
        try:
            text = O.compose_text(netlist, **opts)
        except Exception as e:  # noqa
            real_exc = ERR_CLASS.get(type(e).__name__, type(e).__name__)
    st['compared'] += 1
    if model[0] == 'err':
        st['outcomes']['raises ' + model[1]] += 1
        if real_exc is None:
            problems.append('model raises %s, the composer wrote a file' % model[1])
        elif real_exc != model[1]:
            problems.append('model raises %s, the composer %s' % (model[1], real_exc))
    elif model[0] == 'ok':
        if real_exc is not None:
            problems.append('model writes a document, the composer raised %s' % real_exc)
        else:
            try:
                d = first_difference(model[1], text_doc(text))
            except DocUnreadable as e:
                d = 'the written text is not in the composer grammar the harness reads: %s' % e
            if d:
                problems.append(d)
            st['outcomes']['document'] += 1
            features(model[1], st['constructs'])
            st['modules_compared'] += len(model[1])
            st['rt_check true' if model[2] else 'rt_check false'] += 1
            # the written document through the reader model vs the written text through the real reader
            import verilog_doc as D
            back = model[4]
            m_out = D.model_canon('ok ' + json.dumps(back['ok'])) if 'ok' in back else D.model_canon('err ' + back['err'])
            if m_out[0] == 'unsupported':
                st['reread_outside_reader_model'][m_out[1]] += 1
            elif not d:
                r_out = None
                if reread is not None:
                    r_out = D.real_outcome(text, netlist=reread)
                elif real_items and real_items[0]['kind'] == 'reparse-rejected':
                    r_out = D.real_outcome(text)
                if r_out is not None:
                    st['reread_compared'] += 1
                    dd = D.compare(m_out, r_out)
                    if dd:
                        problems.append('elab (emit n) differs from parse (compose n): %s' % dd[0])
            if model[3]:
                st['writable'] += 1
                if not model[2]:
                    problems.append('writable (the class of C04_emit_roundtrip_full) but rt_check = false')
            if model[2]:
                bad = [it for it in (real_items or []) if it['kind'] in RT_CLAIMS]
                if bad:
                    problems.append('rt_check = true but the real write/read cycle differs: %s' % bad[0]['sig'])
    if problems:
        st['disagreements'] += 1
        payload = dict(describe)
        payload.update({'options': {k: v for k, v in opts.items()}, 'written_text': (text or '')[:4000], 'level': 'document-writer',
                        'what': 'model of the composer (Fmt/VEmit.v emit) and Composer disagree'})
        run.handle_items(source + '-emit', [O.item('emit-correspondence', 'C04|emit-correspondence|' + problems[0][:160], problems[:4])], payload)
