"""Shared plumbing of the verification harness: paths, environment, evidence, findings, reporting."""
import json, os, subprocess, sys, time, hashlib, re

ROOT = os.path.dirname(os.path.dirname(os.path.abspath(__file__)))
REPO = os.environ.get('VERIF_REPO', '/repo')  # VERIF_REPO: scratch copy, for mutation experiments only
COQ = os.path.join(ROOT, 'coq')
OCAML_BUILD = os.path.join(ROOT, 'ocaml', '_build')
# runs against a scratch copy (mutation experiments) must not overwrite the evidence and replays of /repo
_SCRATCH = os.path.realpath(REPO) != '/repo'
EVIDENCE = os.path.join(ROOT, 'evidence') if not _SCRATCH else '/tmp/verif_scratch_runs/evidence'
REPLAYS = os.path.join(ROOT, 'replays') if not _SCRATCH else '/tmp/verif_scratch_runs/replays'
CORPUS = os.path.join(ROOT, 'corpus')
VENV_PY = '/venv/bin/python'


def impl_env():
    env = dict(os.environ)
    env['PYTHONPATH'] = REPO
    env['PYTHONHASHSEED'] = '0'
    env['EXAMPLE_NETLISTS_PATH'] = os.path.join(REPO, 'example_netlists')
    env['PYTHONDONTWRITEBYTECODE'] = '1'
    return env


def ensure_impl_python():
    """Re-exec under /venv/bin/python with the implementation taken from /repo's working tree."""
    if os.environ.get('VERIF_REEXEC') != '1' or sys.executable != VENV_PY:
        env = impl_env()
        env['VERIF_REEXEC'] = '1'
        os.execve(VENV_PY, [VENV_PY] + sys.argv, env)
    _start_coverage()
    import spydrnet
    assert os.path.realpath(spydrnet.__file__).startswith(REPO + '/'), spydrnet.__file__


def _start_coverage():
    """tools/coverage_run.sh only: measure which lines of the implementation a check's run reaches (VERIF_COVERAGE_DIR);
    never set by the registered commands"""
    d = os.environ.get('VERIF_COVERAGE_DIR')
    if not d:
        return
    import atexit, coverage
    os.makedirs(d, exist_ok=True)
    cov = coverage.Coverage(data_file=os.path.join(d, 'cov'), data_suffix=True, branch=False, include=[REPO + '/spydrnet/*'])
    cov.start()

    def _stop():
        cov.stop()
        cov.save()
    atexit.register(_stop)


def seed_default():
    try:
        return int(os.environ.get('VERIF_SEED', '20261001'))
    except ValueError:
        return 20261001


def build_if_needed():
    """Run the (incremental) build; it re-checks any proof whose dependencies changed."""
    r = subprocess.run([os.path.join(ROOT, 'tools', 'build.sh')], capture_output=True, text=True)
    return r.returncode == 0, (r.stdout + r.stderr)[-4000:]


THEOREM_RE = re.compile(r'^\s*(Theorem|Lemma|Corollary|Example)\s+([A-Za-z0-9_\']+)', re.M)


def check_props_file(prop_id):
    """Re-compile Props/<id>.v on its own (re-checking the property theorems against the current
    model .vo files) and collect the Print Assumptions output."""
    path = os.path.join(COQ, 'theories', 'Props', prop_id + '.v')
    if not os.path.exists(path):
        return {'ok': False, 'theorems': [], 'assumptions': 'missing ' + path, 'cmd': ''}
    src = open(path).read()
    names = [m.group(2) for m in THEOREM_RE.finditer(src)]
    cmd = ['coqc', '-R', 'theories', 'SV', os.path.relpath(path, COQ)]
    t0 = time.time()
    r = subprocess.run(['timeout', '600'] + cmd, cwd=COQ, capture_output=True, text=True)
    out = r.stdout + r.stderr
    return {'ok': r.returncode == 0, 'theorems': names, 'assumptions': out.strip(),
            'cmd': 'cd /verif/coq && ' + ' '.join(cmd), 'wall': time.time() - t0}


def load_known_findings(prop_id):
    p = os.path.join(ROOT, 'known_findings.json')
    if not os.path.exists(p):
        return []
    return [f for f in json.load(open(p)).get('findings', []) if f.get('property') == prop_id]


def write_replay(prop_id, name, obj):
    os.makedirs(REPLAYS, exist_ok=True)
    path = os.path.join(REPLAYS, '%s-%s.json' % (prop_id, name))
    with open(path, 'w') as f:
        json.dump(obj, f, indent=1, default=str)
    return path


def write_evidence(prop_id, tier, seed, coverage, wall, violations, assumptions):
    os.makedirs(EVIDENCE, exist_ok=True)
    ev = {'property_id': prop_id, 'tier': tier, 'seed': seed, 'level': 'proof',
          'coverage': coverage, 'assumptions': assumptions, 'wall_s': round(wall, 2),
          'violations': violations}
    with open(os.path.join(EVIDENCE, prop_id + '.json'), 'w') as f:
        json.dump(ev, f, indent=1, default=str)


class Reporter:
    """Collects violations / known findings of one run and prints the protocol lines."""

    def __init__(self, prop_id):
        self.prop = prop_id
        self.violations = []
        self.known = []

    def violation(self, name, replay_obj, found_input=True):
        path = write_replay(self.prop, name, replay_obj)
        line = 'VIOLATION property=%s replay=%s' % (self.prop, path)
        if not found_input:
            line += ' no-failing-input-found'
        print(line, flush=True)
        self.violations.append(path)

    def known_finding(self, what):
        print('KNOWN-FINDING: property=%s %s' % (self.prop, what), flush=True)
        self.known.append(what)

    def exit_code(self):
        return 1 if self.violations else 0


def sha(s):
    return hashlib.sha256(s.encode()).hexdigest()[:16]
