"""Observation side of the `edif` engine (C03, C05; reusable for C15/C16 on the EDIF format):

* canon(netlist)        - canonical, name-keyed, id-free structure of a netlist (what C03/C05 compare)
* diff(a, b)            - list of readable differences between two canonical structures
* wf(netlist)           - well-formedness / self-containedness check of a netlist (independent of
                          harness/ir_oracles.py: written against the public attributes only)
* expressible(netlist)  - the quantifier of C03 as a predicate; returns the list of reasons why not
* read_sexp(text)       - small independent s-expression reader (NOT spydrnet's tokenizer)
* write/parse helpers that use a temporary directory and delete it

Nothing here imports the Coq model or spydrnet's EDIF code (only the public IR classes)."""
import os, re, shutil, tempfile, zipfile, io
from fractions import Fraction
import spydrnet as sdn
from spydrnet.ir import InnerPin, OuterPin, Port, Instance, Definition

DIR_NAME = {Port.Direction.UNDEFINED: 'undefined', Port.Direction.IN: 'in', Port.Direction.OUT: 'out',
            Port.Direction.INOUT: 'inout'}


# ------------------------------------------------------------------------------------------------
# canonical structure
# ------------------------------------------------------------------------------------------------
def _val(v):
    if isinstance(v, bool):
        return ['bool', v]
    if isinstance(v, int):
        return ['int', v]
    if isinstance(v, float):
        return ['float', repr(v)]
    if isinstance(v, str):
        return ['str', v]
    return [type(v).__name__, repr(v)]


def _props(e):
    out = []
    for p in (e.data.get('EDIF.properties') or []):
        out.append({'identifier': p.get('identifier'), 'original': p.get('original_identifier'),
                    'value': _val(p.get('value'))})
    return out


def _pin(pin):
    if isinstance(pin, OuterPin):
        ip = pin.inner_pin
        inst = pin.instance
        port = ip.port if ip is not None else None
        return ['inst', inst.name if inst is not None else None, port.name if port is not None else None,
                port.pins.index(ip) if port is not None else None]
    port = pin.port
    return ['port', port.name if port is not None else None, port.pins.index(pin) if port is not None else None]


def _ref(d):
    if d is None:
        return None
    return [d.library.name if d.library is not None else None, d.name]


def canon(netlist, identifiers=False, all_properties=False):
    """Name-keyed structure. Libraries/cells/instances/cables are keyed by name (their declaration
    order is recorded separately under 'order'); ports and the pins of a wire are ordered."""
    def ident(e):
        return {'ident': e.data.get('EDIF.identifier')} if identifiers else {}

    out = {'name': netlist.name, 'libraries': {}, 'order': {'libraries': [l.name for l in netlist.libraries]}}
    out.update(ident(netlist))
    top = netlist.top_instance
    out['top'] = None if top is None else dict({'name': top.name, 'ref': _ref(top.reference)}, **ident(top))
    for lib in netlist.libraries:
        L = dict({'cells': {}, 'order': [d.name for d in lib.definitions]}, **ident(lib))
        _put(out['libraries'], lib.name, L)
        for d in lib.definitions:
            D = dict({'ports': [], 'instances': {}, 'nets': {}, 'inst_order': [c.name for c in d.children],
                      'net_order': [c.name for c in d.cables]}, **ident(d))
            if all_properties:
                D['properties'] = _props(d)
            _put(L['cells'], d.name, D)
            for p in d.ports:
                P = dict({'name': p.name, 'direction': DIR_NAME.get(p.direction, str(p.direction)),
                          'width': len(p.pins), 'array': bool(p.is_array)}, **ident(p))
                if all_properties:
                    P['properties'] = _props(p)
                D['ports'].append(P)
            for c in d.children:
                I = dict({'ref': _ref(c.reference), 'properties': _props(c)}, **ident(c))
                _put(D['instances'], c.name, I)
            for c in d.cables:
                C = dict({'width': len(c.wires), 'lower': c.lower_index, 'array': bool(c.is_array),
                          'bits': [[_pin(p) for p in w.pins] for w in c.wires]}, **ident(c))
                if all_properties:
                    C['properties'] = _props(c)
                _put(D['nets'], c.name, C)
    return out


def _put(d, k, v):
    # duplicate / missing names must stay visible in the structure instead of silently overwriting
    if k is None:
        k = '<None>'
    while k in d:
        k = k + '<dup>'
    d[k] = v


def diff(a, b, path='', out=None, limit=12):
    """readable differences of two canonical structures (at most `limit`)"""
    if out is None:
        out = []
    if len(out) >= limit:
        return out
    if isinstance(a, dict) and isinstance(b, dict):
        for k in sorted(set(a) | set(b), key=str):
            if k not in a:
                out.append('%s/%s: only after' % (path, k))
            elif k not in b:
                out.append('%s/%s: only before' % (path, k))
            else:
                diff(a[k], b[k], '%s/%s' % (path, k), out, limit)
            if len(out) >= limit:
                break
    elif isinstance(a, list) and isinstance(b, list) and len(a) == len(b) and any(isinstance(x, (dict, list)) for x in a + b):
        for i, (x, y) in enumerate(zip(a, b)):
            diff(x, y, '%s[%d]' % (path, i), out, limit)
    elif a != b:
        out.append('%s: %r -> %r' % (path, a, b))
    return out


def strip_order(c):
    """drop declaration-order records (library / cell order legitimately changes when written)"""
    c = dict(c)
    c['order'] = None
    libs = {}
    for ln, L in c['libraries'].items():
        L = dict(L)
        L['order'] = None
        libs[ln] = L
    c['libraries'] = libs
    return c


# ------------------------------------------------------------------------------------------------
# well-formedness and self-containedness (public attributes only)
# ------------------------------------------------------------------------------------------------
def wf(netlist):
    bad = []
    libs = list(netlist.libraries)
    libset = set(id(l) for l in libs)
    defset = set()
    for lib in libs:
        if lib.netlist is not netlist:
            bad.append('library %r: netlist back-pointer' % lib.name)
        for d in lib.definitions:
            defset.add(id(d))
    for lib in libs:
        for d in lib.definitions:
            if d.library is not lib:
                bad.append('cell %r: library back-pointer' % d.name)
            pinset = set()
            for p in d.ports:
                if p.definition is not d:
                    bad.append('port %r.%r: definition back-pointer' % (d.name, p.name))
                if len(p.pins) == 0:
                    bad.append('port %r.%r has no pins' % (d.name, p.name))
                for pin in p.pins:
                    if pin.port is not p:
                        bad.append('pin of %r.%r: port back-pointer' % (d.name, p.name))
                    pinset.add(id(pin))
            children = set(id(c) for c in d.children)
            for c in d.children:
                if c.parent is not d:
                    bad.append('instance %r.%r: parent back-pointer' % (d.name, c.name))
                r = c.reference
                if r is None:
                    bad.append('instance %r.%r has no reference' % (d.name, c.name))
                    continue
                if id(r) not in defset:
                    bad.append('instance %r.%r references cell %r outside the netlist' % (d.name, c.name, r.name))
                if c not in r.references:
                    bad.append('instance %r.%r missing from references of %r' % (d.name, c.name, r.name))
                inner = [pin for p in r.ports for pin in p.pins]
                if set(map(id, c._pins.keys())) != set(map(id, inner)):
                    bad.append('instance %r.%r: outer pins do not mirror the ports of %r' % (d.name, c.name, r.name))
                for ip, op in c._pins.items():
                    if op.instance is not c or op.inner_pin is not ip:
                        bad.append('instance %r.%r: outer pin record inconsistent' % (d.name, c.name))
            seen = set()
            for cb in d.cables:
                if cb.definition is not d:
                    bad.append('net %r.%r: definition back-pointer' % (d.name, cb.name))
                if len(cb.wires) == 0:
                    bad.append('net %r.%r has no wires' % (d.name, cb.name))
                for w in cb.wires:
                    if w.cable is not cb:
                        bad.append('wire of %r.%r: cable back-pointer' % (d.name, cb.name))
                    for pin in w.pins:
                        if pin.wire is not w:
                            bad.append('net %r.%r: pin does not point back to its wire' % (d.name, cb.name))
                        key = (id(pin.instance), id(pin.inner_pin)) if isinstance(pin, OuterPin) else id(pin)
                        if key in seen:
                            bad.append('net %r.%r: pin joined twice' % (d.name, cb.name))
                        seen.add(key)
                        if isinstance(pin, OuterPin):
                            if id(pin.instance) not in children:
                                bad.append('net %r.%r joins a pin of an instance that is not a child of the cell' % (d.name, cb.name))
                            elif pin.instance.reference is None or pin.inner_pin.port is None or pin.inner_pin.port.definition is not pin.instance.reference:
                                bad.append('net %r.%r joins a pin that is not a port bit of the referenced cell' % (d.name, cb.name))
                        else:
                            if id(pin) not in pinset:
                                bad.append('net %r.%r joins a port bit of another cell' % (d.name, cb.name))
            # every connected pin of the cell / its children is found on a wire of the cell
            for p in d.ports:
                for pin in p.pins:
                    if pin.wire is not None and (pin.wire.cable is None or pin.wire.cable.definition is not d or pin not in pin.wire.pins):
                        bad.append('port bit %r.%r: wire link not inside the cell' % (d.name, p.name))
            for c in d.children:
                for op in c._pins.values():
                    if op.wire is not None and (op.wire.cable is None or op.wire.cable.definition is not d or op not in op.wire.pins):
                        bad.append('instance pin %r.%r: wire link not inside the parent cell' % (d.name, c.name))
    top = netlist.top_instance
    if top is not None:
        if top.reference is None or id(top.reference) not in defset:
            bad.append('top instance does not reference a cell of the netlist')
    # references recorded on the cells point to instances that reference them
    for lib in libs:
        for d in lib.definitions:
            for r in d.references:
                if r.reference is not d:
                    bad.append('cell %r: reference set holds an instance that does not reference it' % d.name)
    return bad


def expressible(netlist):
    """C03's quantifier: every element named (no double quote / newline), non-empty ports and
    cables, scalar bundles at index 0, acyclic library dependencies, top instance set."""
    why = []

    def name_ok(e, what):
        n = e.name
        if not isinstance(n, str) or n == '':
            why.append('%s unnamed' % what)
        elif any(ch in n for ch in '"\n\r'):
            why.append('%s name has quote/newline' % what)

    name_ok(netlist, 'netlist')
    if netlist.top_instance is None or netlist.top_instance.reference is None:
        why.append('no top design')
    else:
        name_ok(netlist.top_instance, 'top instance')
    dep = {}
    for lib in netlist.libraries:
        name_ok(lib, 'library')
        dep[id(lib)] = set()
        for d in lib.definitions:
            name_ok(d, 'cell')
            for p in d.ports:
                name_ok(p, 'port')
                if len(p.pins) == 0:
                    why.append('empty port')
                if len(p.pins) == 1 and not p.is_array and p.lower_index != 0:
                    why.append('scalar port with lower index')
            for c in d.cables:
                name_ok(c, 'net')
                if len(c.wires) == 0:
                    why.append('empty cable')
                if len(c.wires) == 1 and not c.is_array and c.lower_index != 0:
                    why.append('scalar cable with lower index')
            for c in d.children:
                name_ok(c, 'instance')
                if c.reference is None or c.reference.library is None:
                    why.append('instance without reference')
                elif c.reference.library is not lib:
                    dep[id(lib)].add(id(c.reference.library))
    # acyclic library dependencies
    state = {}

    def visit(x):
        if state.get(x) == 1:
            return True
        if state.get(x) == 2:
            return False
        state[x] = 1
        for y in dep.get(x, ()):
            if visit(y):
                return True
        state[x] = 2
        return False
    if any(visit(x) for x in list(dep)):
        why.append('cyclic library dependencies')
    return why


# ------------------------------------------------------------------------------------------------
# independent s-expression reader
# ------------------------------------------------------------------------------------------------
def unescape(s):
    """EDIF string VALUE: %n n ..% (integers separated by blanks, at least one) stands for the characters
    with these codes; a percent sign that does not open such a group is an ordinary character.
    Hand-written scanner (the reader uses a regular expression)."""
    out = []
    i = 0
    while i < len(s):
        if s[i] == '%':
            j = s.find('%', i + 1)
            words = s[i + 1:j].split() if j > i else []
            if words and all(re.fullmatch(r'[-+]?[0-9]+', w) for w in words) and not s[i + 1:j].strip(' \t0123456789+-'):
                out.append(''.join(chr(int(w)) for w in words))
                i = j + 1
                continue
        out.append(s[i])
        i += 1
    return ''.join(out)


class SexpError(Exception):
    pass


def read_sexp(text):
    """Returns the document as nested Python lists; atoms are ('a', text), strings ('s', text).
    Written independently of spydrnet's tokenizer (index based, no generator)."""
    i, n = 0, len(text)
    stack = [[]]
    while i < n:
        ch = text[i]
        if ch in ' \t\r\n':
            i += 1
        elif ch == '(':
            stack.append([])
            i += 1
        elif ch == ')':
            if len(stack) < 2:
                raise SexpError('unbalanced ) at %d' % i)
            top = stack.pop()
            stack[-1].append(top)
            i += 1
        elif ch == '"':
            j = text.find('"', i + 1)
            if j < 0:
                raise SexpError('unterminated string at %d' % i)
            stack[-1].append(('s', text[i + 1:j]))
            i = j + 1
        else:
            j = i
            while j < n and text[j] not in ' \t\r\n()"':
                j += 1
            stack[-1].append(('a', text[i:j]))
            i = j
    if len(stack) != 1:
        raise SexpError('unbalanced ( : %d open' % (len(stack) - 1))
    if len(stack[0]) != 1:
        raise SexpError('%d top-level forms' % len(stack[0]))
    return stack[0][0]


def head(x):
    return x[0][1].lower() if isinstance(x, list) and x and isinstance(x[0], tuple) and x[0][0] == 'a' else None


def sub(x, kw):
    return [y for y in x[1:] if isinstance(y, list) and head(y) == kw]


def name_of(x):
    """nameDef: identifier or (rename identifier "original") -> (identifier, original or None)"""
    if isinstance(x, tuple):
        return x[1], None
    if head(x) == 'rename':
        return x[1][1], unescape(x[2][1])       # the original name is an EDIF string: %34% is the double quote
    if head(x) == 'array':
        return name_of(x[1])
    raise SexpError('bad nameDef %r' % (x,))


def doc_summary(doc):
    """What the written text declares, read with the independent reader: libraries in file order,
    cells with ports (ident, orig, width, array, direction), instances (ident, orig, cellRef,
    libraryRef, properties), one-bit nets (ident, orig, joined portRefs), design."""
    out = {'name': name_of(doc[1]), 'libraries': [], 'design': None}
    for lib in [y for y in doc[2:] if head(y) in ('library', 'external')]:
        L = {'name': name_of(lib[1]), 'cells': []}
        out['libraries'].append(L)
        for cell in sub(lib, 'cell'):
            C = {'name': name_of(cell[1]), 'ports': [], 'instances': [], 'nets': []}
            L['cells'].append(C)
            for view in sub(cell, 'view'):
                for itf in sub(view, 'interface'):
                    for port in sub(itf, 'port'):
                        nd = port[1]
                        arr = head(nd) == 'array'
                        width = 1
                        if arr:
                            width = 1
                            for t in nd[2:]:
                                width *= int(t[1])
                        d = sub(port, 'direction')
                        C['ports'].append({'name': name_of(nd), 'array': arr, 'width': width,
                                           'direction': d[0][1][1].lower() if d else None})
                for cont in sub(view, 'contents'):
                    for inst in sub(cont, 'instance'):
                        vr = sub(inst, 'viewref')
                        cr = sub(vr[0], 'cellref') if vr else []
                        lr = sub(cr[0], 'libraryref') if cr else []
                        props = []
                        for pr in sub(inst, 'property'):
                            tv = pr[2]
                            kind = head(tv)
                            if kind == 'string':
                                val = ['str', unescape(tv[1][1])]
                            elif kind == 'number' and isinstance(tv[1], list) and head(tv[1]) == 'e':
                                val = ['float', repr(float(Fraction(int(tv[1][1][1])) * Fraction(10) ** int(tv[1][2][1])))]
                            elif kind == 'integer':
                                val = ['int', tv[1][1]]
                            elif kind == 'boolean':
                                val = ['bool', head(tv[1])]
                            else:
                                val = [kind, repr(tv[1:])]
                            props.append({'name': name_of(pr[1]), 'value': val})
                        C['instances'].append({'name': name_of(inst[1]), 'cell': cr[0][1][1] if cr else None,
                                               'library': lr[0][1][1] if lr else None, 'properties': props})
                    for net in sub(cont, 'net'):
                        refs = []
                        for j in sub(net, 'joined'):
                            for pr in sub(j, 'portref'):
                                tgt = pr[1]
                                if isinstance(tgt, list) and head(tgt) == 'member':
                                    pn, idx = tgt[1][1], int(tgt[2][1])
                                else:
                                    pn, idx = tgt[1], None
                                ir = sub(pr, 'instanceref')
                                refs.append((pn, idx, ir[0][1][1] if ir else None))
                        C['nets'].append({'name': name_of(net[1]), 'refs': refs})
    des = [y for y in doc[2:] if head(y) == 'design']
    if des:
        d = des[-1]
        cr = sub(d, 'cellref')
        lr = sub(cr[0], 'libraryref') if cr else []
        out['design'] = {'name': name_of(d[1]), 'cell': cr[0][1][1] if cr else None, 'library': lr[0][1][1] if lr else None}
    return out


# ------------------------------------------------------------------------------------------------
# files (always temporary, always removed)
# ------------------------------------------------------------------------------------------------
class TempDir:
    def __enter__(self):
        self.path = tempfile.mkdtemp(prefix='verif-edif-')
        return self.path

    def __exit__(self, *a):
        shutil.rmtree(self.path, ignore_errors=True)


def compose_to_text(netlist, tmp, fname='out.edf'):
    path = os.path.join(tmp, fname)
    sdn.compose(netlist, path)
    with open(path) as f:
        return path, f.read()


def parse_text(text, tmp, fname='in.edf'):
    path = os.path.join(tmp, fname)
    with open(path, 'w') as f:
        f.write(text)
    return sdn.parse(path)


def bundled_edif_files(repo):
    d = os.path.join(repo, 'example_netlists', 'EDIF_netlists')
    files, empty = [], []
    for fn in sorted(os.listdir(d)):
        if not fn.endswith('.edf.zip'):
            continue
        p = os.path.join(d, fn)
        if os.path.getsize(p) == 0:
            empty.append(fn)
        else:
            files.append((fn, p, os.path.getsize(p)))
    return files, empty


def read_bundled(path):
    z = zipfile.ZipFile(path)
    name = z.namelist()[0]
    return z.read(name).decode('utf-8', errors='replace')


# ------------------------------------------------------------------------------------------------
# wall-clock guard for calls into the implementation (the writer's topological sort spins for ever
# on a dependency cycle; a reader loop could too)
# ------------------------------------------------------------------------------------------------
class Timeout(Exception):
    pass


class time_limit:
    def __init__(self, seconds):
        self.seconds = seconds

    def __enter__(self):
        import signal

        def handler(signum, frame):
            raise Timeout('call exceeded %s s' % self.seconds)
        self._old = signal.signal(signal.SIGALRM, handler)
        signal.setitimer(signal.ITIMER_REAL, self.seconds)

    def __exit__(self, *a):
        import signal
        signal.setitimer(signal.ITIMER_REAL, 0)
        signal.signal(signal.SIGALRM, self._old)
        return False


# ------------------------------------------------------------------------------------------------
# independent elaboration of an EDIF document (the meaning of the constructs, written without
# looking at how spydrnet's reader resolves things): document -> canonical structure in the
# shape of canon(identifiers=True)
# ------------------------------------------------------------------------------------------------
import re as _re

_BIT_IDENT = _re.compile(r'^(.*)_(\d+)_$', _re.S)
_BIT_NAME = _re.compile(r'^(.*)\[(\d+)\]$', _re.S)
_DIR = {'input': 'in', 'output': 'out', 'inout': 'inout'}


def _dn(nm):
    ident, orig = nm
    return orig if orig is not None else ident


def elab_doc(doc):
    summ = doc_summary(doc)
    out = {'name': _dn(summ['name']), 'ident': summ['name'][0], 'libraries': {},
           'order': {'libraries': [_dn(L['name']) for L in summ['libraries']]}}
    libs = {}
    for L in summ['libraries']:
        libs[L['name'][0].lower()] = L
    for L in summ['libraries']:
        EL = {'cells': {}, 'order': [_dn(c['name']) for c in L['cells']], 'ident': L['name'][0]}
        _put(out['libraries'], _dn(L['name']), EL)
        for c in L['cells']:
            EC = {'ports': [], 'instances': {}, 'nets': {}, 'inst_order': [_dn(x['name']) for x in c['instances']],
                  'net_order': [], 'ident': c['name'][0]}
            _put(EL['cells'], _dn(c['name']), EC)
            ports = {}
            for p in c['ports']:
                ports[p['name'][0].lower()] = p
                EC['ports'].append({'name': _dn(p['name']), 'ident': p['name'][0], 'direction': _DIR.get(p['direction'], 'undefined'),
                                    'width': p['width'], 'array': p['array']})
            insts = {}
            for x in c['instances']:
                insts[x['name'][0].lower()] = x
                TL = libs[x['library'].lower()] if x['library'] is not None else L
                tc = next(d for d in TL['cells'] if d['name'][0].lower() == x['cell'].lower())
                x['_target'] = tc
                props = []
                for pr in x['properties']:
                    kind, v = pr['value']
                    if kind == 'int':
                        v = int(v)
                    elif kind == 'bool':
                        v = (v == 'true')
                    props.append({'identifier': pr['name'][0], 'original': pr['name'][1], 'value': [kind, v]})
                _put(EC['instances'], _dn(x['name']), {'ident': x['name'][0], 'ref': [_dn(TL['name']), _dn(tc['name'])], 'properties': props})
            buses = {}
            for n in c['nets']:
                pins = []
                for pn, idx, inst in n['refs']:
                    if inst is None:
                        pins.append(['port', _dn(ports[pn.lower()]['name']), idx or 0])
                    else:
                        x = insts[inst.lower()]
                        tp = next(p for p in x['_target']['ports'] if p['name'][0].lower() == pn.lower())
                        pins.append(['inst', _dn(x['name']), _dn(tp['name']), idx or 0])
                ident, orig = n['name']
                mi = _BIT_IDENT.match(ident)
                mn = _BIT_NAME.match(orig) if orig is not None else None
                if mi and mn:
                    key = mn.group(1)
                    if key not in buses:
                        buses[key] = {'ident': mi.group(1), 'bits': {}}
                        EC['net_order'].append(key)
                    buses[key]['bits'].setdefault(int(mn.group(2)), []).extend(pins)
                else:
                    nm = _dn(n['name'])
                    EC['net_order'].append(nm)
                    _put(EC['nets'], nm, {'ident': ident, 'width': 1, 'lower': 0, 'array': False, 'bits': [pins]})
            for key, b in buses.items():
                lo, hi = min(b['bits']), max(b['bits'])
                _put(EC['nets'], key, {'ident': b['ident'], 'width': hi - lo + 1, 'lower': lo, 'array': True,
                                       'bits': [b['bits'].get(i, []) for i in range(lo, hi + 1)]})
    d = summ['design']
    if d is None:
        out['top'] = None
    else:
        TL = libs.get((d['library'] or '').lower())
        tc = next((x for x in TL['cells'] if x['name'][0].lower() == d['cell'].lower()), None) if TL else None
        out['top'] = {'name': _dn(d['name']), 'ident': d['name'][0],
                      'ref': [_dn(TL['name']) if TL else None, _dn(tc['name']) if tc else None]}
    return out
