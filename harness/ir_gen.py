"""Random op histories for the `ir` engine. Choices are made against the implementation's current
state (mostly-valid calls, plus calls that violate exactly one precondition); every random choice
comes from the one `random.Random` passed in, so a (seed, case) pair replays exactly."""
from ir_world import REL, REL_PARENT, REL_CHILD, tok_of_s, tok_of_val

NAMES = ['', 'a', 'A', 'b', 'B', 'ab', 'Ab', 'aB', 'a[0]', 'a_0_', '&x', '&X', 'x-y', '1a', 'a b', 'c', 'C',
         'inst', 'INST', 'n1', 'N1']
IDENTS = ['a', 'A', 'b', 'ab', 'AB', 'Ab', '&x', '&X', 'x_1', 'X_1', '1a', 'a-b', '&', 'a b', 'c', 'C', 'a\n', 'B_2\n',
          'a\u00ba1', 'a\u0663', '&\u0663']   # word characters outside ASCII (no case mapping): never legal in an identifier
LONG_IDENTS = ['b' * 255, 'b' * 256, '&' + 'b' * 255, '&' + 'b' * 256, 'B' * 255]
USER_KEYS = ['k', 'K', 'prop', 'EDIF.rename']
RELS = ['libs', 'defs', 'ports', 'cables', 'children', 'pins', 'wires']

PROFILES = {
    # op kind -> weight
    'structure': {'new': 10, 'create': 18, 'items': 6, 'add': 10, 'remove': 6, 'removefrom': 6, 'reorder': 5,
                  'reorderwire': 3, 'connect': 12, 'disconnect': 5, 'disconnectfrom': 2, 'setref': 6, 'settop': 2,
                  'setname': 4, 'delname': 1, 'dset': 3, 'ddel': 1, 'dpop': 1, 'bundle': 2, 'policy': 1},
    'naming': {'new': 10, 'create': 16, 'items': 1, 'add': 12, 'remove': 8, 'removefrom': 3, 'reorder': 1,
               'reorderwire': 0, 'connect': 1, 'disconnect': 0, 'disconnectfrom': 0, 'setref': 1, 'settop': 1,
               'setname': 14, 'delname': 4, 'dset': 12, 'ddel': 5, 'dpop': 5, 'bundle': 0, 'policy': 4},
    'mirror': {'new': 8, 'create': 20, 'items': 10, 'add': 12, 'remove': 10, 'removefrom': 7, 'reorder': 4,
               'reorderwire': 2, 'connect': 12, 'disconnect': 3, 'disconnectfrom': 1, 'setref': 12, 'settop': 4,
               'setname': 1, 'delname': 0, 'dset': 1, 'ddel': 0, 'dpop': 0, 'bundle': 1, 'policy': 0},
}


class Gen:
    def __init__(self, rng, world, profile='structure'):
        self.r = rng
        self.w = world
        self.weights = PROFILES[profile]
        self.naming = profile == 'naming'
        self.hot = {}       # kind -> recently used object indices (locality: several steps on the same objects)
        self.pending = []   # ops of a multi-step scenario still to be issued

    # ---- pools ----
    def ids(self, kind, pred=None):
        out = []
        for i, o in enumerate(self.w.objs):
            if self.w.kind(o) == kind and (pred is None or pred(o)):
                out.append(i)
        return out

    def pick(self, kind, pred=None, fallback=True):
        hot = [i for i in self.hot.get(kind, []) if i < len(self.w.objs) and self.w.kind(self.w.objs[i]) == kind
               and (pred is None or pred(self.w.objs[i]))]
        if hot and self.r.random() < 0.3:
            return self.r.choice(hot)
        l = self.ids(kind, pred)
        if not l and fallback and pred is not None:
            l = self.ids(kind)
        return self.r.choice(l) if l else None

    def name_tok(self, allow_none=True):
        if allow_none and self.r.random() < 0.3:
            return '~'
        return tok_of_s(self.r.choice(NAMES))

    def props(self):
        if self.r.random() > (0.45 if self.naming else 0.2):
            return ['0']
        n = self.r.choice([1, 1, 2])
        kv = {}
        for _ in range(n):
            k, v = self.key_val()
            kv.setdefault(k, v)
        out = [str(len(kv))]
        for k, v in kv.items():
            out += [tok_of_s(k), v]
        return out

    def key_val(self):
        x = self.r.random()
        if x < 0.02:
            # the length limits of an identifier: 255 characters, 256 with the & prefix; one more is refused
            return 'EDIF.identifier', 's:' + tok_of_s(self.r.choice(LONG_IDENTS))
        if x < 0.5:
            return 'EDIF.identifier', 's:' + tok_of_s(self.r.choice(IDENTS))
        if x < 0.6:
            return '.NAME', 's:' + tok_of_s(self.r.choice(NAMES))
        if x < 0.68:
            return '.NS', 's:' + tok_of_s(self.r.choice(['DEFAULT', 'EDIF', 'EDIF', 'bogus']))
        k = self.r.choice(USER_KEYS)
        v = self.r.choice(['s:' + tok_of_s(self.r.choice(NAMES)), 'i:%d' % self.r.randint(-3, 40), 'b:1', 'b:0'])
        return k, v

    def data_elem(self):
        kinds = ['netlist', 'library', 'definition', 'port', 'cable', 'instance']
        wts = [1, 3, 4, 4, 4, 4]
        for _ in range(6):
            k = self.r.choices(kinds, wts)[0]
            i = self.pick(k)
            if i is not None:
                return i
        return None

    def outer_tok(self, valid=True):
        insts = self.ids('instance', (lambda o: len(o._pins) > 0) if valid else None)
        if not insts:
            return None
        n = self.r.choice(insts)
        inst = self.w.objs[n]
        if valid and inst._pins:
            ip = self.r.choice(list(inst._pins.keys()))
            i = self.w.index[id(ip)]
        else:
            i = self.pick('pin')
            if i is None:
                return None
        return '%s%d.%d' % (self.r.choice('OS'), n, i)

    def pin_tok(self, want_free=None, wire=None):
        """a pin argument; want_free: prefer unconnected (True) / connected to `wire` (False)"""
        x = self.r.random()
        if x < 0.03:
            return 'D'
        if x < 0.5:
            if want_free is True:
                i = self.pick('pin', lambda o: o.wire is None)
            elif want_free is False and wire is not None:
                i = self.pick('pin', lambda o: o.wire is wire)
            else:
                i = self.pick('pin')
            if i is not None:
                return 'I%d' % i
        if want_free is not None and self.r.random() < 0.8:
            cands = []
            for n in self.ids('instance'):
                inst = self.w.objs[n]
                for ip, op in inst._pins.items():
                    if (want_free and op.wire is None) or (not want_free and op.wire is wire):
                        cands.append((n, self.w.index[id(ip)]))
            if cands:
                n, i = self.r.choice(cands)
                return '%s%d.%d' % (self.r.choice('OS'), n, i)
        t = self.outer_tok(valid=self.r.random() < 0.8)
        if t is not None:
            return t
        i = self.pick('pin')
        return 'I%d' % i if i is not None else 'D'

    # ---- ops ----
    def _touch(self, op):
        for t in op:
            for part in (t[1:].split('.') if t[:1] in 'OSI' and len(t) > 1 else [t]):
                if part.isdigit() and int(part) < len(self.w.objs):
                    k = self.w.kind(self.w.objs[int(part)])
                    h = self.hot.setdefault(k, [])
                    if int(part) in h:
                        h.remove(int(part))
                    h.append(int(part))
                    del h[:-3]

    def next_op(self):
        if self.pending:
            op = self.pending.pop(0)
            self._touch(op)
            return op
        if self.weights.get('setref', 0) and self.weights.get('disconnectfrom', 0) and self.r.random() < 0.02:
            ch = self.chain_repoint()
            if ch:
                self.pending = ch[1:]
                self._touch(ch[0])
                return ch[0]
        if self.weights.get('connect', 0) and self.weights.get('disconnectfrom', 0) and self.r.random() < 0.02:
            ch = self.chain_stale_proxy()
            if ch:
                self.pending = ch[1:]
                self._touch(ch[0])
                return ch[0]
        if self.weights.get('dset', 0) and self.weights.get('create', 0) and self.r.random() < (0.04 if self.naming else 0.008):
            ch = self.chain_policy_above()
            if ch:
                self.pending = ch[1:]
                self._touch(ch[0])
                return ch[0]
        if self.weights.get('dset', 0) and self.weights.get('policy', 0) and self.r.random() < (0.04 if self.naming else 0.006):
            ch = self.chain_ident_twins()
            self.pending = ch[1:]
            self._touch(ch[0])
            return ch[0]
        if self.weights.get('dset', 0) and self.weights.get('ddel', 0) and self.r.random() < (0.03 if self.naming else 0.004):
            ch = self.chain_dup_names_no_policy()
            self.pending = ch[1:]
            self._touch(ch[0])
            return ch[0]
        kinds = list(self.weights)
        for _ in range(30):
            k = self.r.choices(kinds, [self.weights[x] for x in kinds])[0]
            op = getattr(self, 'g_' + k)()
            if op is not None:
                self._touch(op)
                return op
        return ['new', 'definition', '~', '0']

    def chain_repoint(self):
        """several steps on one instance: use its connected outer pins in a set-based call, re-point the
        instance to another definition of the same shape, then address the same pins through fresh
        (instance, new inner pin) proxies in a bulk call - anything remembered per pin across the
        re-pointing (a hash, an index, a cached key) shows here"""
        cands = []
        for n in self.ids('instance'):
            inst = self.w.objs[n]
            if inst.reference is None:
                continue
            for ip, op in inst._pins.items():
                if op.wire is not None and ip.port is not None and ip.port.definition is inst.reference:
                    cands.append((n, ip, op.wire))
        if not cands:
            return None
        n, ip, wire = self.r.choice(cands)
        inst = self.w.objs[n]
        cur = inst.reference
        shape = [len(p.pins) for p in cur.ports]
        ds = self.ids('definition', lambda o: o is not cur and [len(p.pins) for p in o.ports] == shape)
        if not ds:
            return None
        d = self.r.choice(ds)
        newdef = self.w.objs[d]
        pi = cur.ports.index(ip.port)
        qi = ip.port.pins.index(ip)
        nip = newdef.ports[pi].pins[qi]
        w = self.w.index[id(wire)]
        pins = []
        for p in wire.pins:
            t = self.w.tok_pin(p)
            pins.append('S' + t[1:] if t[0] == 'O' else t)
        self.r.shuffle(pins)
        first = self.r.choice([['reorderwire', str(w), str(len(pins))] + pins,
                               ['disconnectfrom', str(w), '0']])
        proxy = 'O%d.%d' % (n, self.w.index[id(nip)])
        last = self.r.choice([['disconnectfrom', str(w), '1', proxy], ['disconnect', str(w), proxy],
                              ['reorderwire', str(w), str(len(pins))] +
                              [('O%d.%d' % (n, self.w.index[id(nip)]) if t[1:] == '%d.%d' % (n, self.w.index[id(ip)]) else t) for t in pins]])
        return [first, ['setref', str(n), str(d)], last]

    def chain_policy_above(self):
        """work in one scope, assign a naming policy further up (library or netlist of that scope), keep working in
        the same scope, work somewhere else for a moment, come back: a repeated name, a removal and a re-creation -
        whatever the name bookkeeping remembers about "the scope I was just in" must follow the policy change"""
        ds = self.ids('definition', lambda o: o.library is not None)
        if not ds:
            return None
        d = self.r.choice(ds)
        dd = self.w.objs[d]
        lib = dd.library
        up = lib if (lib.netlist is None or self.r.random() < 0.5) else lib.netlist
        u = self.w.index.get(id(up))
        if u is None:
            return None
        others = [x for x in self.ids('definition') if x != d]
        rel = self.r.choice(['ports', 'cables', 'children'])
        n1, n2 = self.r.sample(NAMES, 2)
        mk = lambda par, nm: ['create', rel, str(par), tok_of_s(nm), '0', '0', '~']
        cur = up._data.get('.NS')
        newpol = 'EDIF' if cur != 'EDIF' else 'DEFAULT'
        ops = [mk(d, n1), ['dset', str(u), tok_of_s('.NS'), 's:' + tok_of_s(newpol)], mk(d, n2)]
        if others:
            ops.append(mk(self.r.choice(others), n2))
        else:
            ops.append(['create', 'defs', str(self.w.index[id(lib)]), tok_of_s(n1), '0', '0', '~'])
        ops.append(mk(d, self.r.choice([n2, n2.swapcase(), n1])))
        return ops

    def chain_ident_twins(self):
        """a fresh scope under the EDIF policy; one child carries an identifier, a sibling of the same kind asks for
        the same identifier in another letter case - by assignment and at creation (both refused) - and gets it once
        the first one has moved to another identifier. (Measured: random histories hardly ever bring two legal
        identifiers that differ in case only together in one EDIF scope.)"""
        T = tok_of_s
        rel, pk = self.r.choice([('ports', 'definition'), ('cables', 'definition'), ('children', 'definition'),
                                 ('defs', 'library'), ('libs', 'netlist')])
        a, b = self.r.choice([('Ab', 'aB'), ('sig_A', 'SIG_a'), ('x1', 'X1'), ('&x', '&X'), ('q', 'Q')])
        d = len(self.w.objs)
        ident = T('EDIF.identifier')
        ops = [['policy', '1'],
               ['new', pk, T('scope'), '0'],
               ['create', rel, str(d), T('n1'), '1', ident, 's:' + T(a), '0', '~'],
               ['create', rel, str(d), T('n2'), '0', '0', '~'],
               ['dset', str(d + 2), ident, 's:' + T(b)],
               ['create', rel, str(d), T('n3'), '1', ident, 's:' + T(self.r.choice([b, a, a.upper()])), '0', '~'],
               ['dset', str(d + 1), ident, 's:' + T('other')],
               ['dset', str(d + 2), ident, 's:' + T(b)]]
        if self.r.random() < 0.6:
            ops.append(['policy', '0'])
        return ops

    def chain_dup_names_no_policy(self):
        """a root scope whose naming policy was assigned and then deleted keeps no name bookkeeping at all: two children
        with the same name (or, for EDIF, identifiers differing in case only) are accepted; assigning a policy to that
        scope must then be refused (no_name_conflicts) until one of them is renamed"""
        T = tok_of_s
        rel, pk = self.r.choice([('ports', 'definition'), ('cables', 'definition'), ('children', 'definition'),
                                 ('defs', 'library'), ('libs', 'netlist')])
        d = len(self.w.objs)
        ns = T('.NS')
        pol = lambda: 's:' + T(self.r.choice(['DEFAULT', 'EDIF']))  # noqa
        by_ident = self.r.random() < 0.4
        if by_ident:
            ident = T('EDIF.identifier')
            a, b = self.r.choice([('Ab', 'aB'), ('x1', 'X1'), ('q', 'q')])
            mk = [['create', rel, str(d), T('n1'), '1', ident, 's:' + T(a), '0', '~'],
                  ['create', rel, str(d), T('n2'), '1', ident, 's:' + T(b), '0', '~']]
            target, fix = 's:' + T('EDIF'), ['dset', str(d + 2), ident, 's:' + T('other')]
        else:
            nm = self.r.choice(NAMES)
            mk = [['create', rel, str(d), T(nm), '0', '0', '~'], ['create', rel, str(d), T(nm), '0', '0', '~']]
            target, fix = pol(), ['setname', str(d + 2), T('other')]
        return [['new', pk, T('scope'), '0'], ['dset', str(d), ns, pol()], [self.r.choice(['ddel', 'dpop']), str(d), ns]] + mk + \
               [['dset', str(d), ns, target], fix, ['dset', str(d), ns, target]]

    def chain_stale_proxy(self):
        """several steps on one outer pin through a proxy object the caller keeps: connect it to a wire through
        the proxy, take it off through the stored pin, put it on another wire, then address the FIRST wire
        through the kept proxy again (the world hands back the same proxy object) - whatever the earlier call
        left inside the proxy must not matter"""
        cands = []
        for n in self.ids('instance'):
            inst = self.w.objs[n]
            for ip, op in inst._pins.items():
                if op.wire is None and id(ip) in self.w.index:
                    cands.append((n, self.w.index[id(ip)]))
        wires = self.ids('wire')
        if not cands or len(wires) < 2:
            return None
        n, i = self.r.choice(cands)
        w1, w2 = self.r.sample(wires, 2)
        O, S = 'O%d.%d' % (n, i), 'S%d.%d' % (n, i)
        last = self.r.choice([['disconnectfrom', str(w1), '1', O], ['disconnect', str(w1), O],
                              ['disconnectfrom', str(w2), '1', O], ['connect', str(w1), O, '~']])
        return [['connect', str(w1), O, '~'], ['disconnect', str(w1), S], ['connect', str(w2), self.r.choice([S, S, O]), '~'], last]

    def g_new(self):
        n_net = len(self.ids('netlist'))
        kinds = ['netlist', 'library', 'definition', 'port', 'cable', 'wire', 'pin', 'instance']
        wts = [6 if n_net == 0 else (1 if n_net < 3 else 0), 3, 4, 3, 3, 2, 2, 3]
        k = self.r.choices(kinds, wts)[0]
        return ['new', k, self.name_tok()] + self.props()

    def g_create(self):
        rel = self.r.choices(['libs', 'defs', 'ports', 'cables', 'children'], [2, 4, 5, 4, 6])[0]
        p = self.pick(REL_PARENT[rel])
        if p is None:
            return None
        items = 0
        ref = '~'
        if rel in ('ports', 'cables'):
            items = self.r.choice([0, 1, 1, 2, 3])
        if rel == 'children' and self.r.random() < 0.85:
            d = self.pick('definition')
            ref = '~' if d is None else str(d)
        return ['create', rel, str(p), self.name_tok()] + self.props() + [str(items), ref]

    def g_items(self):
        rel = self.r.choice(['pins', 'wires'])
        p = self.pick(REL_PARENT[rel])
        if p is None:
            return None
        return ['items', rel, str(p), str(self.r.choice([1, 1, 2, 3]))]

    def g_add(self):
        rel = self.r.choice(RELS)
        p = self.pick(REL_PARENT[rel])
        if p is None:
            return None
        attr = REL[rel][1]
        if self.r.random() < 0.75:
            c = self.pick(REL_CHILD[rel], lambda o: getattr(o, attr) is None)
        else:
            c = self.pick(REL_CHILD[rel])
        if c is None:
            return None
        n = len(getattr(self.w.objs[p], REL[rel][0]))
        pos = '~' if self.r.random() < 0.6 else str(self.r.randint(0, n + 1))
        return ['add', rel, str(p), str(c), pos]

    def _parent_with_children(self, rel):
        attr = REL[rel][0]
        return self.pick(REL_PARENT[rel], lambda o: len(getattr(o, attr)) > 0)

    def g_remove(self):
        rel = self.r.choice(RELS)
        p = self._parent_with_children(rel)
        if p is None:
            return None
        kids = list(getattr(self.w.objs[p], REL[rel][0]))
        if kids and self.r.random() < 0.8:
            c = self.w.index[id(self.r.choice(kids))]
        else:
            c = self.pick(REL_CHILD[rel])
        if c is None:
            return None
        return ['remove', rel, str(p), str(c)]

    def g_removefrom(self):
        rel = self.r.choice(RELS)
        p = self._parent_with_children(rel)
        if p is None:
            return None
        kids = [self.w.index[id(x)] for x in getattr(self.w.objs[p], REL[rel][0])]
        cs = [x for x in kids if self.r.random() < 0.5]
        x = self.r.random()
        if x < 0.35:
            # refused bulk removal: mix own children with a foreign element (or only foreign ones)
            f = self.pick(REL_CHILD[rel], lambda o: getattr(o, REL[rel][1]) is not self.w.objs[p])
            if f is not None:
                if not cs and kids and self.r.random() < 0.8:
                    cs = [self.r.choice(kids)]
                cs.append(f)
        elif x < 0.45 and cs:
            cs.append(cs[0])
        self.r.shuffle(cs)
        op = ['removefrom', rel, str(p), str(len(cs))] + [str(c) for c in cs]
        if self.r.random() < 0.25:
            op.append('set')   # the caller's argument is a set (ir_world: handed over as it is)
        return op

    def g_reorder(self):
        rel = self.r.choice(RELS)
        p = self._parent_with_children(rel)
        if p is None:
            return None
        kids = [self.w.index[id(x)] for x in getattr(self.w.objs[p], REL[rel][0])]
        self.r.shuffle(kids)
        x = self.r.random()
        if x < 0.08 and kids:
            kids = kids[1:]
        elif x < 0.16 and kids:
            kids = kids + [kids[0]]
        elif x < 0.24:
            f = self.pick(REL_CHILD[rel])
            if f is not None:
                kids = kids[1:] + [f]
        elif x < 0.36 and len(kids) >= 2:
            # same length, only own members, one repeated in place of another
            kids = kids[1:] + [kids[1]]
        return ['reorder', rel, str(p), str(len(kids))] + [str(c) for c in kids]

    def g_reorderwire(self):
        w = self.pick('wire', lambda o: len(o.pins) > 0)
        if w is None:
            return None
        pins = []
        for p in self.w.objs[w].pins:
            t = self.w.tok_pin(p)
            pins.append('S' + t[1:] if t[0] == 'O' else t)
        self.r.shuffle(pins)
        x = self.r.random()
        if x < 0.08 and pins:
            pins = pins[1:]
        elif x < 0.16 and pins:
            pins = pins + [pins[0]]
        elif x < 0.24:
            pins = pins[1:] + [self.pin_tok()]
        elif x < 0.36 and len(pins) >= 2:
            pins = pins[1:] + [pins[1]]
        return ['reorderwire', str(w), str(len(pins))] + pins

    def g_connect(self):
        w = self.pick('wire')
        if w is None:
            return None
        p = self.pin_tok(want_free=True if self.r.random() < 0.8 else None)
        n = len(self.w.objs[w].pins)
        pos = '~' if self.r.random() < 0.7 else str(self.r.randint(0, n + 1))
        return ['connect', str(w), p, pos]

    def g_disconnect(self):
        w = self.pick('wire', lambda o: len(o.pins) > 0)
        if w is None:
            return None
        wire = self.w.objs[w]
        if wire.pins and self.r.random() < 0.8:
            t = self.w.tok_pin(self.r.choice(list(wire.pins)))
            if t[0] == 'O':
                t = self.r.choice('OS') + t[1:]
        else:
            t = self.pin_tok()
        return ['disconnect', str(w), t]

    def g_disconnectfrom(self):
        w = self.pick('wire', lambda o: len(o.pins) > 0)
        if w is None:
            return None
        wire = self.w.objs[w]
        ps = []
        for p in wire.pins:
            if self.r.random() < 0.6:
                t = self.w.tok_pin(p)
                if t[0] == 'O':
                    t = self.r.choice('OS') + t[1:]
                ps.append(t)
        x = self.r.random()
        if x < 0.3:
            if not ps and wire.pins and self.r.random() < 0.8:
                t = self.w.tok_pin(self.r.choice(list(wire.pins)))
                ps.append(self.r.choice('OS') + t[1:] if t[0] == 'O' else t)
            ps.append(self.pin_tok())
        elif x < 0.4 and ps:
            ps.append(ps[0])
        return ['disconnectfrom', str(w), str(len(ps))] + ps

    def g_setref(self):
        x = self.pick('instance')
        if x is None:
            return None
        inst = self.w.objs[x]
        r = self.r.random()
        if r < 0.2:
            return ['setref', str(x), '~'] + (['del'] if self.r.random() < 0.3 else [])
        if inst.reference is not None and r < 0.35:
            # same number of ports, same first port, a later port of another width: refused half-way?
            cur = inst.reference
            shape = [len(p.pins) for p in cur.ports]
            d = self.pick('definition', lambda o: len(o.ports) == len(shape) and len(shape) >= 2 and
                          [len(p.pins) for p in o.ports] != shape and len(o.ports[0].pins) == shape[0], fallback=False)
            if d is None:
                d = self.pick('definition', lambda o: [len(p.pins) for p in o.ports] == shape)
        elif inst.reference is not None and r < 0.75:
            cur = inst.reference
            shape = [len(p.pins) for p in cur.ports]
            d = self.pick('definition', lambda o: [len(p.pins) for p in o.ports] == shape)
        else:
            d = self.pick('definition')
        if d is None:
            return None
        return ['setref', str(x), str(d)]

    def g_settop(self):
        n = self.pick('netlist')
        if n is None:
            return None
        r = self.r.random()
        if r < 0.15:
            return ['settop', str(n), 'N']
        if r < 0.55:
            d = self.pick('definition')
            if d is not None:
                return ['settop', str(n), 'D%d' % d]
        x = self.pick('instance')
        if x is None:
            return None
        return ['settop', str(n), 'I%d' % x]

    def g_setname(self):
        e = self.data_elem()
        if e is None:
            return None
        o = self.w.objs[e]
        if self.r.random() < 0.12 and '.NAME' in o:
            return ['setname', str(e), '~']
        return ['setname', str(e), self.name_tok(allow_none=False)]

    def g_delname(self):
        e = self.data_elem()
        return None if e is None else ['delname', str(e)]

    def g_dset(self):
        e = self.data_elem()
        if e is None:
            return None
        o = self.w.objs[e]
        if self.r.random() < 0.15:
            # re-spell a name / identifier the element already carries in another letter case
            ks = [k for k in ('EDIF.identifier', '.NAME') if isinstance(o._data.get(k), str) and o._data[k].swapcase() != o._data[k]]
            if ks:
                k = self.r.choice(ks)
                cur = o._data[k]
                return ['dset', str(e), tok_of_s(k), 's:' + tok_of_s(self.r.choice([cur.swapcase(), cur.upper(), cur.lower(), cur.capitalize()]))]
        k, v = self.key_val()
        return ['dset', str(e), tok_of_s(k), v]

    def _existing_key(self, e):
        o = self.w.objs[e]
        keys = list(o._data.keys())
        if keys and self.r.random() < 0.8:
            ks = [k for k in keys if k != '.NS'] or keys
            if self.r.random() < 0.15:
                ks = keys
            return self.r.choice(ks)
        return self.r.choice(['.NAME', 'EDIF.identifier', 'k', '.NS'])

    def g_ddel(self):
        e = self.data_elem()
        return None if e is None else ['ddel', str(e), tok_of_s(self._existing_key(e))]

    def g_dpop(self):
        e = self.data_elem()
        return None if e is None else ['dpop', str(e), tok_of_s(self._existing_key(e))]

    def g_bundle(self):
        k = self.r.choice(['port', 'cable'])
        b = self.pick(k)
        if b is None:
            return None
        x = self.r.random()
        if x < 0.25:
            return ['downto', str(b), self.r.choice('01')]
        if x < 0.6:
            return ['scalar', str(b), self.r.choice('01')] + (['array'] if self.r.random() < 0.3 else [])
        if x < 0.8:
            return ['lower', str(b), str(self.r.randint(-2, 9))]
        p = self.pick('port')
        if p is None:
            return None
        op = ['direction', str(p), str(self.r.randint(0, 3))]
        if self.r.random() < 0.5:
            op.append(self.r.choice(['int', 'strl', 'stru', 'strc']))   # the documented int / string spellings of the value
        return op

    def g_policy(self):
        return ['policy', self.r.choice('01')]
